#!/bin/bash
# usage: tools/eval_mutant.sh <patch.diff> <ID> [<ID> ...] — runs the quick tier of the given checks against a
# scratch worktree of /repo with the patch applied (VERIF_REPO), without touching /repo. Prints each check's verdict.
set -u
export GOFLAGS=-mod=mod GOPROXY=off GOSUMDB=off GOTOOLCHAIN=local
PATCH=$1; shift
WT=/tmp/eval-$$
git -C /repo worktree add -q --detach $WT HEAD || exit 2
trap 'git -C /repo worktree remove --force $WT >/dev/null 2>&1; rm -rf $WT /verif/.build/eval/tmp_eval-'$$' /verif/.build/*tmp_eval-'$$'* /verif/.build/run/*tmp_eval-'$$'*' EXIT
git -C $WT apply $PATCH || { echo "patch does not apply"; exit 2; }
cd /verif
for id in "$@"; do
  out=$(VERIF_CAPMIN=${VERIF_CAPMIN:-3} VERIF_REPO=$WT ./check $id ${TIER:-quick} 2>&1)
  rc=$?
  nv=$(echo "$out" | grep -c "^VIOLATION")
  sigs=$(echo "$out" | grep "^VIOLATION" | sed 's/.*sig=//' | sort -u | head -6 | tr '\n' ' ')
  echo "EVAL $(basename $(dirname $PATCH))/$(basename $PATCH) $id rc=$rc violations=$nv sigs: $sigs"
  echo "$out" | tail -1 | cut -c1-160
done
