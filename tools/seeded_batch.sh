#!/bin/bash
# usage: tools/seeded_batch.sh <jobs file: "<name> <property> <checks,comma>" per line>
# runs tools/seeded_run.py for each (sequentially: /repo itself is patched and restored each time)
cd /verif
while read name prop checks; do
  [ -z "$name" ] && continue
  d=seeded/$name
  dest=$(jq -r .dest $d/info.json); pkg=$(jq -r .pkg $d/info.json); run=$(jq -r .run $d/info.json); needs=$(jq -r .needs $d/info.json)
  tools/seeded_run.py "$name" "$prop" "$checks" "$dest" "$pkg" "$run" "$needs"
done < "$1"
