#!/bin/bash
# usage: tools/intake.sh <ID> <A|B> <suffix>  — copies /tmp/mut/<ID>/<A|B> to seeded/<ID>-<suffix>, validates it in a scratch
# worktree (tools/validate_mutant.sh) and runs the property's own quick check against a scratch worktree with the patch (tools/eval_mutant.sh)
id=$1; ab=$2; suf=$3; shift 3
src=${MUTROOT:-/tmp/mut}/$id/$ab; dst=/verif/seeded/$id-$suf
[ -f $src/patch.diff ] || { echo "INTAKE $id-$suf: no patch"; exit 1; }
mkdir -p $dst/demo; cp $src/patch.diff $dst/; cp $src/demo/*.go $dst/demo/; cp $src/info.json $dst/info.json
dest=$(jq -r .dest $dst/info.json); pkg=$(jq -r .pkg $dst/info.json); run=$(jq -r .run $dst/info.json)
/verif/tools/validate_mutant.sh $dst "$dest" "$pkg" "$run" > $dst/validate.log 2>&1; vrc=$?
echo "INTAKE $id-$suf validate rc=$vrc: $(grep RESULT $dst/validate.log)"
/verif/tools/eval_mutant.sh $dst/patch.diff $id "$@" 2>&1 | grep "^EVAL" | sed "s/^/INTAKE $id-$suf /"
