#!/usr/bin/env python3
"""Regenerates /verif/MANIFEST.json from the table below (kept in one place so the
manifest stays valid while checks are added).  Usage: tools/gen_manifest.py"""
import json, subprocess, os

REPO_HOOK_COMMITS = [l.split()[0] for l in subprocess.run(
    ["git", "-C", "/repo", "log", "--format=%h %s"], capture_output=True, text=True).stdout.splitlines()
    if " verif hooks" in l or l.split(" ", 1)[1].startswith("verif hooks")]

# id -> (level, technique, level text, level note, design ref)
CHECKS = {
 "C03": ("exploration", "offline history checking (porcupine register model per context) + online reply-validity monitor over a virtual transport",
   "PRNG-generated sequential scripts and concurrent histories against a REQ socket whose every peer is a harness-held vt pipe; each delivered reply is checked against the harness's injection log (id must be the context's current request, serial never delivered before); concurrent histories are checked with porcupine. Exploration is the right level: the property quantifies over schedules and arrival orders, which only running the real scheduler with perturbation samples.",
   "Trusted: vt transport and injection log, porcupine, the register model. Decides only the executions produced.", "3/C03"),
 "C04": ("fault_enumeration", "online monitor over the virtual transport's send log (cause attribution of every retransmission with sound lower bounds) + stuck detector for completion",
   "Fault scripts enumerate (start state x end-of-life x RetryTime) cells and place PRNG faults (carrier drop, other drop, new pipe, timer expiry, slow peer) at lifecycle points; a trace monitor requires every retransmission to be byte-identical and to have a cause (its previous carrier closed, or a retry interval provably elapsed), nothing after answer/supersede/cancel/close, cancellation instead of resend with RetryTime=0, and completion once a peer answers (stuck detector, no timeouts). Fault enumeration is the right level: the property quantifies over fault sequences at lifecycle points, which the harness can place exactly through the virtual transport.",
   "Trusted: vt transport timestamps (one monotonic clock, taken before the fault/at Send entry), the cause-attribution rules. 'Eventually' is restated as: once faults stop, the operation completes or the process is provably quiescent.", "3/C04"),
 "C13": ("exploration", "online lifecycle monitor (per-pipe event automaton in the PipeEventHook + recording ProtocolBase wrapper + process-wide live-id set + allocator census hook) with stuck detector for carry-on",
   "PRNG scripts over the virtual transport (1-4 sockets at once, listener and dialer side, 12 protocols each wrapped in a recording ProtocolBase) and over all six real transports place per-connection actions (peer drop, Pipe.Close, hook close during Attaching/Attached, protocol refusal, second PAIR peer) with library yield points perturbing the schedule; an online monitor checks each pipe's event sequence, add/remove pairing, id range/uniqueness until Detached returned, id release at the end, and that a fresh connection attaches after every rejection; read-only pipe options are compared with the actual connection per transport. Exploration: the property quantifies over schedules and fault sequences.",
   "Trusted: the hook/wrapper monitor (its state is updated under its own mutex inside the very callbacks it observes), vt transport, allocator accessor hook. Only executed interleavings are decided.", "3/C13"),
 "C12": ("fault_enumeration", "error-catalogue fault enumeration with follow-up calls under the stuck detector + reflect/unsafe mutex probe (TryLock of every reachable lock at quiescence)",
   "Every API error outcome in the catalogue (listener: address in use, Listen twice, closed, unusable address, TLS without config/certificate, broken raw peers; dialer: refused, async refused, Dial twice, closed, SP handshake failure, TLS verification failure; hook rejections; per protocol: bad options, timeouts, no peers, best effort, bad addresses, context errors, closed, zero queue length with traffic) is provoked on every transport, then every other call on the same object must return (stuck detector), the cause is corrected and the call retried on the same object, a good peer must connect and exchange, and a mutex probe checks that every lock reachable from the objects can be taken. Fault enumeration: the catalogue is a finite list that is enumerated completely.",
   "Trusted: the catalogue covers the error outcomes named in the property; the mutex probe's object-graph walk (restricted to mangos struct types). 'Every path from a lock acquisition to a return' is decided only for executed paths.", "3/C12"),
 "C10": ("exploration", "scenario grid with stuck detector (whole-process quiescence) for every return + differential census (goroutines, socket fds, pipe ids, vt dial log) after all sockets are closed",
   "Scenario grid over 24 protocols (with contexts), six transports, peer present/absent and in-flight activities (parked Recv/Send, outstanding request/survey, redial loop, hanging transport dial, pending redial timer, peers stalling in the SP handshake), with Close issued from one or two goroutines once the census shows the calls parked; every blocked call must return the closed error, Close must return, 12-20 later calls must return at once with closed/unsupported/queued message, closing a context/dialer/listener/pipe must leave siblings working, and afterwards no library goroutine, socket descriptor or pipe id may remain and at most one dial attempt may start after Close. Exploration: Close 'at every point' is sampled through PRNG delays and library yield points, not enumerated.",
   "Trusted: stuck detector (a wait is only judged when every goroutine is parked and stable), goroutine-dump parser, /proc/self/fd. Timers are not observable directly; their absence is inferred from the dial log and the goroutine census.", "3/C10"),
 "C01": ("exploration", "differential oracle at the API boundary: position-dependent payloads compared byte for byte per connection, sentinel-closed bursts, raw-header reference table",
   "Every transport x pattern x cooked/raw configuration is connected 1:1 over the real transports and driven with bursts of messages whose sizes sweep every pool class boundary +-9, 0..600 (0..2100 thorough), the 1 MiB default limit and explicit MaxRecvSize limits L (totals L-1 and L must be delivered); each received body must equal the next accepted send of that direction exactly (classified as truncated/padded/merged/shifted/other-message/poison on mismatch), a sentinel proves nothing extra is queued, raw receivers also check the header. Exploration: sizes and byte values are swept densely but not all 2^20 lengths x contents.",
   "Trusted: the harness payload generator and comparison; only lossless configurations are used (bursts <= 16, blocking sends).", "3/C01"),
 "C14": ("fault_enumeration", "trace monitor over the virtual transport's dial log (sound lower bounds per attempt, canary-calibrated upper bounds, stuck detector for progress, attempt count after Close)",
   "Fault scripts enumerate ReconnectTime x MaxReconnectTime x Close phase cells and place PRNG sequences of refused / established-then-dropped / hook-rejected / dropped-at-once connections at successive dial attempts on a dialer whose transport is the harness; the dial log (start/return of every transport Dial on one monotonic clock) is checked: each attempt at least ReconnectTime after the event that armed it (no epsilon), attempts keep coming while the dialer is open, traffic is exchanged on every new connection, delay capped / not growing / reset after a successful attach (upper bounds judged against a scheduler canary with parameters that make a bug several times off), a synchronous dialer does not retry before its first success, at most one attempt after Close. Fault enumeration: the fault kinds and phases are enumerated, their sequences sampled.",
   "Trusted: vt dial log timestamps; upper-bound verdicts depend on the canary rule (otherwise inconclusive). 'For as long as it is open' is restated as: the next attempt appears or the process is provably quiescent.", "3/C14"),
 "C02": ("exploration", "offline history checking: polynomial FIFO-queue criterion for unique values over recorded Send/Recv histories (porcupine as cross-check on short ones), multiset/order monitors over real sockets and over the virtual transport's send logs",
   "Concurrent senders and receivers on PAIR/PAIR1/XPAIR and PUSH->PULL topologies over inproc/tcp/ipc with WriteQLen x ReadQLen enumerated over {0,1,2,128}^2, GOMAXPROCS varied and library yield points on; each history (call/return times from one monotonic clock, unique payloads) is decided by the queue criterion (nothing invented, nothing twice, no real-time order inversion) plus completeness; under injected connection faults (vt peers dropped mid-traffic) what the transport accepted must be a duplicate-free per-connection-ordered subset; a lock-step conversation proves that intruding PAIR peers are refused without disturbing it. Send completion is decided by the stuck detector. Exploration: schedules are sampled.",
   "Trusted: unique-value queue criterion (Henzinger/Sezgin/Vafeiadis), harness timestamps taken before the call and after the return. Order is only claimed within one connection.", "3/C02"),
 "C08": ("exploration", "reference-model monitor over generated loop-free topologies with per-origin sentinels (real sockets) and multiset comparison of virtual-transport send logs",
   "BUS meshes/chains/reflector hubs (Device and manual raw forwarding) and STAR stars/trees/paths of 2-5 members are built over inproc/ipc/tcp with raw and cooked members; barrier-separated rounds of tagged messages end with per-origin sentinels, so when a member holds an origin's sentinel it must hold exactly that origin's messages once each, unmodified, never its own, never from an unreachable origin; vt cases compare every pipe's transmissions with the model (originated -> every peer once; raw re-send -> all but the source; STAR forwards to all others; BUS never forwards). Exploration over topologies, senders and schedules.",
   "Trusted: the topology reference model; bursts are sized so that best-effort queues cannot overflow; FIFO per connection (used only for the sentinel).", "3/C08"),
 "C09": ("exploration", "exhaustive boundary grid through the virtual transport (injection + same-pipe sentinel) and end-to-end monitors over real Device chains and loops",
   "Part A injects, for each of the eight receivers and each TTL, one message per hop count k in 0..TTL+2 followed by an in-limit sentinel on the same vt pipe and requires delivery exactly when 1 <= k <= TTL (PAIR1: k-1 <= TTL), body unchanged, raw backtrace/hop field correct; the thorough tier enumerates every TTL 1..255 (exhaustive). Part B builds real mangos.Device chains of length 0..4 (0..9 thorough) for REQ/REP, SURVEY, PAIR1, STAR, PUSH/PULL, PUB/SUB, BUS with concurrent clients: every reply must return to the asking client, delivery iff within the receiver's TTL; device cycles must die out (laps bounded by TTL, silence proven by a sentinel or process quiescence).",
   "Trusted: vt injection path (bodies delivered as stream transports deliver them), the hop-count reference model written from the statement. Absence is decided by FIFO + sentinel, never by waiting.", "3/C09"),
 "C05": ("exploration", "wire-level trace monitor over the virtual transport: every transmitted byte must be the single transmission of a reply the application sent, on the requesting connection, with the request's routing header",
   "The harness is every REQ/SURVEYOR peer (vt pipes) of a rep/respondent/xrep/xrespondent socket with 1-6 contexts: requests with hostile routing headers (depth 0..TTL-1, words equal to pipe ids, ids repeated across connections) are injected, applications echo tags, and each logged transmission must match exactly one request on the same pipe (header byte-equal, body intact, at most once); drops before/between/after Recv and Send must not leak a reply to another connection nor block Send; a flush request per connection makes absence decidable; raw sockets are checked for pipe-id ++ header on receive and routing by that header on send.",
   "Trusted: vt send log and injection; per-connection FIFO for the flush/sentinel argument.", "3/C05"),
 "C06": ("exploration", "reference-model monitor: independent prefix matcher + per-context queue model over publish/subscribe/unsubscribe/receive histories with sentinel barriers; interval semantics for concurrent histories",
   "Real pub/xpub and sub/xsub sockets (socket + contexts + a witness context) over inproc/ipc/tcp run sequential histories whose every drain must equal the modelled delivery exactly (non-matching, stale-after-Unsubscribe, duplicate, reordered, missing, modified messages are all refuted), concurrent histories judged by interval semantics (delivered => matched a subscription possibly active during the Recv interval; continuously subscribed => delivered), and overflow histories (order-preserving duplicate-free subsequence). Topics/bodies come from a small alphabet with dense prefix relations, empty and non-UTF-8 strings.",
   "Trusted: the reference matcher and queue model; sentinel barriers rely on per-publisher FIFO. Overflow behaviour is only constrained, not predicted.", "3/C06"),
 "C07": ("exploration", "validity monitor over the virtual transport (injection log vs deliveries, same-pipe sentinels), exact lower bound for expiry, stuck detector for 'fails promptly', interval oracle for concurrent histories",
   "The harness is every respondent (vt pipes) of a surveyor socket with 1-3 contexts: each survey must reach every connection once; stale, foreign, malformed and other-context responses injected before the correct ones must be discarded (foreign-current ones go to their own context only); every delivery must have been injected for the current survey and not delivered before; expiry is never observed before Send-invocation + SurveyTime; Recv without a survey or after expiry fails with the protocol-state error without blocking; a new survey abandons the old one. Real surveyor/respondent sockets check that each answer reaches only the asking surveyor.",
   "Trusted: vt logs and timestamps (taken after Send returned / before injection for the abandoned-survey rule).", "3/C07"),
 "C19": ("exploration", "exhaustive option-grid differential against a contract table (recover() around every call) + effect monitors (stuck detector as positive witness for 'no limit', retention counts, inheritance, resize under traffic)",
   "The finite grid 47 option names x 42 values x every object (24 protocols' sockets fresh and connected over six transports, contexts, dialers, listeners, pipes) is enumerated completely; each call must not panic, must answer nil/ErrBadOption/ErrBadValue (ErrBadProperty on pipes), must not be both supported and unsupported for one name, must reject wrong types and documented out-of-range values, and Get after an accepted Set must not return a different value. Effects: accepted zero durations mean no limit, queue lengths bound what is retained, sockets' options are inherited by later endpoints/contexts, 50 queue-length changes under traffic never disconnect a peer, unsupported operations and Device misuse fail with the designated error and leave the sockets working.",
   "Trusted: the contract table reflects only documented ranges; values that would make the process allocate gigabytes are excluded.", "3/C19"),
 "C20": ("exploration", "black-box differential testing of the built macat binary against independent decoders (raw/ascii/quoted/msgpack) and lock-step counting peers",
   "The binary built from the current tree is run as a child process bound/connected over loopback tcp/ipc to harness sockets: received bodies covering every byte value and the msgpack 255/256 and 65535/65536 boundaries must decode back exactly from stdout in all four formats (one record per message, completeness by sentinel); --data/--file bytes must arrive unchanged exactly --count times (lock-step REQ/SURVEYOR/PAIR/BUS/STAR peers); bare-integer durations are checked as exact lower bounds in seconds; 20 conflicting/missing option combinations must exit non-zero with a message, print nothing and send nothing.",
   "Trusted: the harness decoders; process start/exit timing is only used for lower bounds; a silent but alive macat is inconclusive.", "3/C20"),
 "C11": ("exploration", "Go race detector (-race) over a seeded concurrent API mixer; reports parsed, classified library/harness and deduplicated by function pair; stuck detector for deadlock; recover()/child-crash detection for panics and fatal errors",
   "For every protocol connected to a peer over inproc/tcp/ipc (thorough: all six transports) 6-16 goroutines each issue 120 (250) calls from PRNG-chosen subsets of ~50 public API operations on the socket, its contexts, dialers, listeners and pipes, with library yield points on, then Close from two goroutines; configurations are repeated 8 (16) times because race reports vary. A race report with both accesses in library code, a panic or runtime fatal error, a non-terminating mixer (whole-process quiescence) or a result that is neither nil nor a documented error is a violation. The evidence lists how many distinct pairs of call kinds actually overlapped in time.",
   "Trusted: the race detector's happens-before model; a clean run says nothing about accesses that never overlapped. Harness-side races fail the run as a broken check.", "3/C11"),
 "C17": ("exploration", "library-side message-ownership ledger (tag-guarded hook in message.go: poison + quarantine + reference-count checks at every Free/Clone/Dup/MakeUnique/NewMessage) combined with application-side retain / re-verify / scribble monitors",
   "All patterns (fan-out: PUB, BUS, STAR, SURVEYOR; retained: REQ; pipelines) run over inproc/tcp/ipc (thorough: all six transports) with sizes around every pool class while the ledger watches every ownership operation inside the library: double release, use after release, writes into a released (poisoned, quarantined) buffer and NewMessage's post-condition are detected directly; receivers keep RecvMsg results in a window, re-verify header, body and reference count after later traffic and buffer reuse, then scribble over them and free them, so aliasing between siblings shows as a changed or poisoned body; a per-protocol send-outcome matrix over a vt peer checks that a failed SendMsg leaves the message (count 1, body intact) with the caller.",
   "Trusted: the ledger hook (reads the message's own count atomically inside the call that changes it; no shadow state). Read-after-release is visible only through poison reaching delivered or transmitted bytes.", "3/C17"),
}

NOT_YET = {}

def main():
    props = [json.loads(l) for l in open("/verif/properties.jsonl")]
    checks, na = [], []
    for p in props:
        pid = p["id"]
        if pid in CHECKS:
            level, tech, text, note, ref = CHECKS[pid]
            checks.append({
                "property_id": pid,
                "quick_cmd": f"./check {pid} quick",
                "thorough_cmd": f"./check {pid} thorough",
                "evidence_file": f"/verif/evidence/{pid}.json",
                "replay_cmd_template": "./bin/vcheck replay {path}",
                "engine": "vcheck",
                "level_claimed": {"category": level, "text": text, "design_ref": "DESIGN.md section " + ref},
                "level_note": note,
                "technique": tech,
            })
        else:
            na.append({"property_id": pid, "reason": NOT_YET.get(pid, "check designed (DESIGN.md section 3) but not built yet; not claimed until it runs clean")})
    m = {
        "version": 1,
        "setup_cmd": "cd /verif && ./setup.sh",
        "hooks": {
            "guard": "verif",
            "enable": "go build/test -tags verif (harness module /verif/harness with replace go.nanomsg.org/mangos/v3 => /repo)",
            "baseline_off_cmd": "cd /repo && GOFLAGS=-mod=mod GOPROXY=off GOSUMDB=off GOTOOLCHAIN=local go test -json -vet=off -count=1 -timeout 25m ./...",
            "source_commits": REPO_HOOK_COMMITS,
            "add_only": True,
        },
        "engines": [{"name": "vcheck", "path": "/verif/harness/cmd/vcheck",
                     "serves_properties": sorted(CHECKS),
                     "kind_free_text": "Go driver: rebuilds the property test binary from /repo's working tree with -tags verif (and -race for C11), runs PRNG-generated cases in sharded child processes, aggregates per-case JSONL verdicts (held / violated / inconclusive) into evidence, matches violations against KNOWN_FINDINGS.txt"}],
        "checks": checks,
        "not_applicable": na,
        "notes": "Technique family: runtime monitoring and sanitizers. See DESIGN.md. VERIF_SEED selects the PRNG seed; the case list is a function of (seed, tier) only.",
    }
    json.dump(m, open("/verif/MANIFEST.json", "w"), indent=1)
    print("checks:", len(checks), "not_applicable:", len(na))

if __name__ == "__main__":
    main()
