#!/bin/bash
# usage: tools/sweep.sh <tier> <seeds...>   (env PREFIX e.g. "taskset -c 0-1") — runs every check, prints one line each
tier=$1; shift
cd /verif
for seed in "$@"; do
  for id in C01 C02 C03 C04 C05 C06 C07 C08 C09 C10 C11 C12 C13 C14 C15 C16 C17 C18 C19 C20; do
    out=$(VERIF_SEED=$seed ${PREFIX:-} ./check $id $tier 2>&1); rc=$?
    v=$(echo "$out" | grep -c "^VIOLATION")
    echo "seed=$seed $id rc=$rc viol=$v $(echo "$out" | tail -1 | cut -c1-150)"
    if [ $v -gt 0 ]; then echo "$out" | grep "^VIOLATION" | sed 's/replay=[^ ]* //' | sort | uniq -c | head -5; mkdir -p /tmp/sweepfail; cp evidence/replay/$id-*.json /tmp/sweepfail/ 2>/dev/null; fi
  done
done
