#!/usr/bin/env python3
"""usage: tools/seeded_run.py <seeded-name> <property> <checks,comma> <demo-dest> <demo-pkg> <demo-run> <needs text>
Literal procedure for one kept seeded change: git -C /repo apply, run the quick tier of the given checks,
git -C /repo checkout -- . ; writes /verif/seeded/<name>/meta.json with what was run and what each check reported."""
import sys, subprocess, json, os, re, time
name, prop, checks, dest, pkg, run, needs = sys.argv[1:8]
d = f"/verif/seeded/{name}"
assert subprocess.run(["git","-C","/repo","status","--porcelain"],capture_output=True,text=True).stdout.strip()=="" , "/repo not clean"
ran=[]
results={}
try:
    subprocess.run(["git","-C","/repo","apply",f"{d}/patch.diff"],check=True)
    ran.append(f"git -C /repo apply {d}/patch.diff")
    for ck in checks.split(","):
        t=time.time()
        p=subprocess.run(["./check",ck,"quick"],cwd="/verif",capture_output=True,text=True)
        sigs=sorted(set(re.findall(r"^VIOLATION .*sig=(\S+)",p.stdout,re.M)))
        results[ck]={"exit":p.returncode,"violations":len(re.findall(r"^VIOLATION",p.stdout,re.M)),"signatures":sigs[:8],"wall_s":round(time.time()-t,1)}
        ran.append(f"./check {ck} quick  -> exit {p.returncode}, {len(sigs)} signature(s)")
finally:
    subprocess.run(["git","-C","/repo","checkout","--","."],check=True)
    ran.append("git -C /repo checkout -- .")
caught=[ck for ck,r in results.items() if r["exit"]==1 and r["violations"]>0]
meta={"breaks_property":prop,"needs_to_manifest":needs,
 "demonstration":{"files":sorted(os.listdir(f"{d}/demo")),"copy_to":dest,"run":f"go test -count=1 -run '{run}' {pkg}","confirmed":"fails with the change, passes without it; the repository's own suite passes with the change (tools/validate_mutant.sh in a scratch worktree)"},
 "ran":ran,"check_results":results,"caught_by":caught}
json.dump(meta,open(f"{d}/meta.json","w"),indent=1)
print(name,"caught_by",caught,{k:v["signatures"][:3] for k,v in results.items()})
