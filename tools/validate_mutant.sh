#!/bin/bash
# usage: tools/validate_mutant.sh <src-dir with patch.diff + demo/> <demo-dest-dir relative to worktree> <go test pkg path> [<-run regex>]
# Confirms in a scratch worktree of /repo (outside /repo and /verif) that
#   1. the patch applies and builds, 2. the demonstration FAILS with it and PASSES without it,
#   3. the repository's own suite still passes with it (BroadcastIP tests excluded).
# Prints a one-line summary; exit 0 iff all confirmed.
set -u
export GOFLAGS=-mod=mod GOPROXY=off GOSUMDB=off GOTOOLCHAIN=local
SRC=$1; DEST=$2; PKG=$3; RUN=${4:-.}
WT=/tmp/val-$$
git -C /repo worktree add -q --detach $WT HEAD || exit 2
cleanup() { git -C /repo worktree remove --force $WT >/dev/null 2>&1; rm -rf $WT; }
trap cleanup EXIT
cd $WT
mkdir -p $DEST && cp $SRC/demo/*.go $DEST/ 2>/dev/null
# without the patch: demo must pass
out0=$(go test -count=1 -run "$RUN" $PKG 2>&1); rc0=$?
git apply $SRC/patch.diff || { echo "RESULT $SRC: patch does not apply"; exit 1; }
go build ./... || { echo "RESULT $SRC: does not build"; exit 1; }
out1=$(go test -count=1 -run "$RUN" $PKG 2>&1); rc1=$?
# existing suite with the patch (demo removed first)
rm -f $DEST/*demo*_test.go $DEST/demo*_test.go; [ -z "$(ls -A $DEST 2>/dev/null)" ] && rmdir $DEST 2>/dev/null
# a test counts as failing only if it fails in each of up to three runs of the suite
# (0.00 s failures on a loaded machine are port collisions with other processes)
failing=""
for attempt in 1 2 3; do
  now=$(go test -count=1 ./... 2>&1 | grep -E "^--- FAIL" | grep -v "BroadcastIP" | sed 's/ (.*//' | sort -u)
  if [ $attempt -eq 1 ]; then failing="$now"; else failing=$(comm -12 <(echo "$failing") <(echo "$now")); fi
  [ -z "$failing" ] && break
done
failing=$(echo "$failing" | tr '\n' ' ' | sed 's/ *$//')
echo "RESULT $SRC: demo-without=$rc0 demo-with=$rc1 suite-failures=[${failing}]"
if [ $rc0 -eq 0 ] && [ $rc1 -ne 0 ] && [ -z "$failing" ]; then exit 0; fi
echo "--- demo without patch ---"; echo "$out0" | tail -5
echo "--- demo with patch ---"; echo "$out1" | tail -8
exit 1
