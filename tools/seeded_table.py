#!/usr/bin/env python3
"""Rewrites the block between <!-- SEEDED-TABLE-BEGIN --> and <!-- SEEDED-TABLE-END --> in DESIGN.md
from /verif/seeded/*/meta.json."""
import json, os, re
rows=["| seeded change | breaks | what it needs in order to manifest | caught by (quick tier) — first signatures |","|---|---|---|---|"]
for name in sorted(os.listdir('/verif/seeded')):
    mp=f'/verif/seeded/{name}/meta.json'
    if not os.path.exists(mp): continue
    m=json.load(open(mp))
    sigs=[]
    for ck in m['caught_by']:
        sigs.append("**"+ck+"**: "+", ".join("`"+s+"`" for s in m['check_results'][ck]['signatures'][:2]))
    miss=[ck for ck in m['check_results'] if ck not in m['caught_by']]
    extra=(" (not by "+", ".join(miss)+")") if miss else ""
    rows.append(f"| {name} | {m['breaks_property']} | {m['needs_to_manifest']} | {'; '.join(sigs) if sigs else 'MISSED'}{extra} |")
block="\n".join(rows)
s=open('/verif/DESIGN.md').read()
s=re.sub(r'<!-- SEEDED-TABLE-BEGIN -->.*?<!-- SEEDED-TABLE-END -->',lambda m: '<!-- SEEDED-TABLE-BEGIN -->\n'+block+'\n<!-- SEEDED-TABLE-END -->',s,flags=re.S)
open('/verif/DESIGN.md','w').write(s)
print(len(rows)-2,"rows")
