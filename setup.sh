#!/bin/sh
# Builds the framework offline from files on disk: driver, property test binary (plain and -race), macat.
set -e
cd /verif
export GOFLAGS=-mod=mod GOPROXY=off GOSUMDB=off GOTOOLCHAIN=local
mkdir -p bin .build evidence
(cd harness && go build -o ../bin/vcheck ./cmd/vcheck)
./bin/vcheck build
echo setup ok
