package main

// Table of property checks: which test function decides it, how it is
// sharded, and the fixed text that goes into the evidence file.
var props = map[string]propDef{}

func reg(p propDef) { props[p.ID] = p }

var commonAssume = []string{
	"the Go runtime, race detector and standard library behave as documented",
	"the harness (virtual transport, reference models, monitors) is itself correct; it was validated against seeded mutants (DESIGN.md section 7)",
	"only the executions produced by this run are decided; paths no workload drives are out of reach",
}

func init() {
	reg(propDef{ID: "C03", Test: "TestC03", Level: "exploration", Shards: [2]int{8, 16}, CapMin: [2]int{10, 60},
		Rule:   "cases = PRNG(seed) scripts: sequential scripts of 10-40 Send/Recv/Close/inject steps on 1-3 contexts x 1-3 vt peers (harness is every REP peer; injects correct, stale, foreign, duplicate, bit-cleared, short, random-id replies before the correct one on the same pipe), and concurrent histories (sender+receiver goroutine per context, replier goroutine duplicating/reordering across pipes, yield points on) checked per context with porcupine against a one-register model. sendtimeout mode also ends the never-transmitted request by a receive deadline (after a best-effort Send, or while the Send still waits for a connection): afterwards Recv reports the protocol-state error at once and the abandoned request is never transmitted. replyrace: 250 rounds per case in which the reply to the outstanding request is injected at the moment the application supersedes it with a new Send (PRNG offsets, four goroutines keeping the socket lock contended): after that Send returned, Recv must be found parked and then return exactly the new request's reply. non-trivial = a reply was delivered while at least one bad-class reply was injected (seq) / at least one overlapping Send-Recv pair (conc); distinct = hash of (contexts, pipes, arrival-order string of reply classes / outcome string). sendfail: on 4-8 contexts a blocking Send that waits for a connection (every connection occupied by a slow peer / none connected yet) is made to fail (send deadline, context closed, a concurrent Recv's receive deadline, last peer leaving under fail-no-peers) while other contexts queue best-effort requests before and after it in a PRNG interleaving; afterwards further contexts (fresh ones and those whose Send failed) send, before or after the connections become usable; the harness answers a PRNG subset of the outstanding requests, each answer echoing the header of the request it answers: every Recv must return the answer to its own context's request or run into its receive deadline, never another context's answer, a second Recv reports the protocol-state error, no request whose Send failed is transmitted and no two outstanding requests share an id (non-trivial = a request was accepted behind a parked Send that then failed, a later Send followed and a reply was delivered; distinct = fail mode, wait mode, release order, role counts, answer order/subset)",
		Assume: commonAssume})
}
