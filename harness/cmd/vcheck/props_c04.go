package main

func init() {
	reg(propDef{ID: "C04", Test: "TestC04", Level: "fault_enumeration", Shards: [2]int{12, 16}, CapMin: [2]int{10, 60},
		Rule:   "cases enumerate (start state: ready/no pipe/send held in a slow peer) x (end: answered/superseded/context closed/socket closed/recv timeout) x RetryTime {0,40,60,90,120ms,1h} cells cyclically; within a cell the PRNG places 0-4 faults (drop carrying pipe, drop other pipe, add pipe, wait for retry expiry, pause) on 1-3 contexts x 1-4 vt peers. Monitor over the vt send log: byte-identical retransmissions; every retransmission needs a cause (close of the previous carrier, or a retry timer whose sound lower-bound expiry has passed; pending timers are superseded by each retransmission); nothing after answered/superseded/closed/cancelled; completion judged by the stuck detector. The REQ rig overwrites its send buffer as soon as Send returned (retransmissions must still be the original bytes). After the request's life ended (answered, superseded, timed out, context closed) the connection that carried it is dropped while another one stays: nothing may be transmitted for it. The fault script starts only once Recv is seen parked inside the library. non-trivial = at least one retransmission or a cancellation by loss; distinct = (start, fault string, end, retry, #transmissions)",
		Assume: commonAssume})
}
