package main

func init() {
	reg(propDef{ID: "C18", Test: "TestC18", Level: "exploration", Shards: [2]int{4, 8}, CapMin: [2]int{10, 60},
		Rule: "cases = grid(object x mode x peer state x queue state) with PRNG(seed)-chosen queue lengths (1,2,4,8; never 0), pipe counts, deadline values and transports; thorough repeats the grid 10x with fresh draws, adds deadlines 1 ms / 1 s / random 2-300 ms and all six transports for the responsive peers. " +
			"objects = every socket type and context kind that the support table (derived from options.go and the protocol sources) lists for RECV-DEADLINE / SEND-DEADLINE / BEST-EFFORT / FAIL-NO-PEERS; support is re-discovered at run time (SetOption != ErrBadOption) and a tabled-but-rejected option is a violation (lost option), an untabled-but-accepted one is inconclusive. " +
			"modes: dl-block (deadline D, call cannot complete: corresponding timeout error, t(return)-t(invoke) >= D exactly, for D in {20,100} ms not beyond D by the canary rule on three consecutive attempts, never-returning decided by the stuck detector), dl-ready (D = 2 s, message queued / queue slot free: must succeed; timeout < D is a violation, >= D inconclusive), nodl (no deadline: seen parked twice, completes when satisfied), be (best-effort send returns nil with queue empty/partial/full, peer none/silent, optionally with a send deadline), fnp-none (fail-no-peers, never connected or peer left: ErrNoPeers at once, with and without a deadline), fnp-leave (fail-no-peers, call parked, 1-2 vt peers dropped one by one: keeps waiting while one remains, ErrNoPeers after the last). " +
			"silent/slow/leaving peers are vt pipes (HoldSends, Drop, never Inject) or, for REP/RESPONDENT-type senders, a raw requester with ReadQLen=1 nobody reads from; responsive peers are real sockets. " +
			"non-trivial = the timed call was observed in the intended state (timeout measured, success under a deadline, parked-then-completed, best-effort return, ErrNoPeers); distinct = hash of (mode, protocol, object kind, operation, peer state, pipes, queue length, queue state, messages, deadline, flags, outcome class)",
		Assume: commonAssume})
}
