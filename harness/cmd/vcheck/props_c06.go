package main

func init() {
	reg(propDef{ID: "C06", Test: "TestC06", Level: "exploration", Shards: [2]int{8, 16}, CapMin: [2]int{10, 60},
		Rule: "cases = PRNG(seed) histories on real pub|xpub, sub (socket + 0-2 opened contexts + one witness context per socket) and xsub sockets over inproc|ipc|tcp (tcp share limited to spare the ephemeral ports), 1-2 publishers x 1-3 subscribers, either side listening. Topics and body heads over {00,'a','b',ff}, length 0-4 (empty, equal, prefix-of-each-other, near-miss, non-UTF-8; heads biased to extensions / proper prefixes / near misses of topics in use; bodies carry a unique tag except some of publisher 0). " +
			"seq: 4-30 steps of [0-3 Subscribe/Unsubscribe (new, duplicate, absent, prefix/extension neighbours, []byte or string argument, argument overwritten afterwards), occasional context open/close, publish <=20 per publisher + sentinel FEFE, witness barrier, optionally Unsubscribe on the loaded queue, drain a random subset of contexts]; each drain compares the delivered sequence per publisher with a reference prefix matcher + queue model (filter on Unsubscribe), exactly; a final barrier proves nothing else was queued. " +
			"conc: receiver + mutator goroutine per context and a goroutine per publisher, optional prefilled queues; interval semantics (possibly/definitely subscribed intervals from call/return times), order, duplicates, must-deliver up to the final sentinel; plus a few conc-race cases (inproc, queues of 1024, up to 1000 rounds of Recv against spinning Subscribe/Unsubscribe on loaded queues, ending at the first violation). " +
			"ovf-sub: ReadQLen 1-8 (never 0) on one context, burst longer than the queue: order-preserving duplicate-free subsequence, exact when it fits, neighbour context exact. " +
			"ovf-pub: WriteQLen 1-8 on PUB: lossless burst of WriteQLen messages exact; blast of 20-50: subsequence per context, contexts of one socket agree. " +
			"pub-resize: WriteQLen changed 2-5 times on a pub/xpub socket with 1-4 vt subscribers connected (idle or mid-stream, late joiners), stream paced one message at a time so that no queue can be full: every subscriber is sent every message once, in order. non-trivial = a drain delivered a proper non-empty part of what reached the socket (seq) / a delivery matched only a volatile topic (conc) / a message was lost to overflow (ovf); distinct = hash of (transport, topology, per-operation outcome and per-drain delivered/offered counts)",
		Assume: append([]string{
			"one connection delivers messages in order (the sentinel barrier and the witness context rely on it; the sub receiver offers a message to all contexts of the socket before reading the next)",
			"queued messages stay below the default queue length 128 in every non-overflow case, so loss there would be a defect, not best-effort behaviour",
		}, commonAssume...)})
}
