package main

func init() {
	reg(propDef{ID: "C12", Test: "TestC12", Level: "fault_enumeration", Shards: [2]int{12, 16}, CapMin: [2]int{10, 60},
		Rule:   "the error catalogue is enumerated, not sampled: listener errors {address in use, Listen twice, closed, unusable address, TLS without config, TLS without certificate} and dialer errors {refused, asynchronous refused, Dial twice, closed, SP handshake failure from a raw peer, TLS verification failure} x transports (quick: tcp inproc tls+tcp vt; thorough: all six + vt), hook rejections on listener and dialer side per transport, and per protocol (24) a socket-level error script (bad options, timeouts, no peers, best effort, bad addresses, context errors, closed) and a zero-queue-length-with-traffic script. After the failing call every other call on the object runs under the stuck detector, the cause is corrected and the call retried on the same object, a good peer must connect and exchange, and a reflect/unsafe mutex probe TryLocks every lock reachable from the objects at quiescence. non-trivial = the error was provoked and all follow-ups ran; distinct = (kind, transport, error, protocol)",
		Assume: append([]string{"'every path from a lock acquisition to a return' is decided only for executed paths: a lock left held is found by the follow-up calls or by the mutex probe at quiescence"}, commonAssume...)})
}
