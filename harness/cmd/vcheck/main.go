// vcheck builds the property test binary from /repo's current working tree
// (hooks on), runs a property's cases in sharded child processes, aggregates
// their JSONL case records into /verif/evidence/<ID>.json, and prints
// VIOLATION / KNOWN-FINDING lines.  See DESIGN.md section 2.1.
package main

import (
	"bufio"
	"encoding/json"
	"fmt"
	"os"
	"os/exec"
	"path/filepath"
	"sort"
	"strconv"
	"strings"
	"sync"
	"syscall"
	"time"
)

const verifRoot = "/verif"

type propDef struct {
	ID       string
	Test     string // test function regexp
	Race     bool
	Level    string
	Shards   [2]int // quick, thorough
	CapMin   [2]int // per-child watchdog, minutes
	Rule     string
	Assume   []string
	NeedBins []string // extra binaries to build ("macat")
	Exhaust  bool
}

type record struct {
	T          string            `json:"t"`
	Idx        int               `json:"idx"`
	Name       string            `json:"name"`
	Spec       json.RawMessage   `json:"spec"`
	Status     string            `json:"status"`
	Viol       []violation       `json:"viol"`
	Inconcl    []string          `json:"inconcl"`
	Counts     map[string]int    `json:"counts"`
	Sigs       []string          `json:"sigs"`
	Nontrivial bool              `json:"nontrivial"`
	Ms         int64             `json:"ms"`
	Total      int               `json:"total"`
	Attempts   int               `json:"attempts"`
	Extra      map[string]string `json:"extra"`
}

type violation struct {
	Sig    string `json:"sig"`
	Detail string `json:"detail"`
}

type found struct {
	violation
	Idx  int
	Name string
	Spec json.RawMessage
}

func env() []string {
	e := os.Environ()
	e = append(e, "GOFLAGS=-mod=mod", "GOPROXY=off", "GOSUMDB=off", "GOTOOLCHAIN=local", "CGO_ENABLED=1")
	return e
}

func fatal(format string, a ...interface{}) {
	fmt.Fprintf(os.Stderr, "vcheck: "+format+"\n", a...)
	os.Exit(2)
}

// altRepo: evaluation of a seeded change without touching /repo.  With VERIF_REPO=<dir> the
// harness is built against that copy of the library (generated -modfile) and every output goes
// under .build/eval/<tag>/ instead of /verif/evidence.  Registered commands never set it.
func altRepo() (dir, tag string) {
	dir = os.Getenv("VERIF_REPO")
	if dir == "" {
		return "", ""
	}
	tag = strings.NewReplacer("/", "_", ".", "_").Replace(strings.Trim(dir, "/"))
	return dir, tag
}

// childBuildDir is what the child sees as $VERIF_BUILD (where the macat binary lives).
func childBuildDir() string {
	if _, tag := altRepo(); tag != "" {
		return filepath.Join(outRoot(), "bin")
	}
	return filepath.Join(verifRoot, ".build")
}

func repoDir() string {
	if d, _ := altRepo(); d != "" {
		return d
	}
	return "/repo"
}

func outRoot() string {
	if _, tag := altRepo(); tag != "" {
		d := filepath.Join(verifRoot, ".build", "eval", tag)
		os.MkdirAll(d, 0o755)
		return d
	}
	return verifRoot
}

func build(p propDef) (string, error) {
	bdir := filepath.Join(verifRoot, ".build")
	os.MkdirAll(bdir, 0o755)
	pkg := strings.ToLower(p.ID)
	suffix := ""
	var modArgs []string
	if dir, tag := altRepo(); dir != "" {
		suffix = "." + tag
		gm, err := os.ReadFile(filepath.Join(verifRoot, "harness", "go.mod"))
		if err != nil {
			return "", err
		}
		alt := strings.Replace(string(gm), "=> /repo", "=> "+dir, 1)
		mf := filepath.Join(bdir, "go"+suffix+".mod")
		os.WriteFile(mf, []byte(alt), 0o644)
		gs, _ := os.ReadFile(filepath.Join(verifRoot, "harness", "go.sum"))
		os.WriteFile(filepath.Join(bdir, "go"+suffix+".sum"), gs, 0o644)
		modArgs = []string{"-modfile=" + mf}
	}
	out := filepath.Join(bdir, pkg+suffix+".test")
	args := []string{"test", "-c", "-tags", "verif", "-o", out}
	if p.Race {
		out = filepath.Join(bdir, pkg+suffix+".race.test")
		args = []string{"test", "-c", "-race", "-tags", "verif", "-o", out}
	}
	args = append(args, modArgs...)
	args = append(args, "./props/"+pkg)
	cmd := exec.Command("go", args...)
	cmd.Dir = filepath.Join(verifRoot, "harness")
	cmd.Env = env()
	if b, err := cmd.CombinedOutput(); err != nil {
		return "", fmt.Errorf("build failed: %v\n%s", err, b)
	}
	for _, bn := range p.NeedBins {
		if bn == "macat" {
			os.MkdirAll(childBuildDir(), 0o755)
			cmd := exec.Command("go", "build", "-o", filepath.Join(childBuildDir(), "macat"), "go.nanomsg.org/mangos/v3/macat/macat")
			cmd.Dir = repoDir()
			cmd.Env = env()
			if b, err := cmd.CombinedOutput(); err != nil {
				return "", fmt.Errorf("macat build failed: %v\n%s", err, b)
			}
		}
	}
	return out, nil
}

type shardResult struct {
	recs      []record
	crashes   []found
	abandoned bool // given up after a watchdog kill
	restarts  int
}

// runShard runs one shard to completion, restarting after crashes.
func runShard(bin string, p propDef, tier string, seed int64, shard, nshards int, capMin int, runDir string, only string) shardResult {
	var res shardResult
	jsonl := filepath.Join(runDir, fmt.Sprintf("shard%d.jsonl", shard))
	os.Remove(jsonl)
	resume := -1
	for attempt := 0; attempt < 25; attempt++ {
		logf := filepath.Join(runDir, fmt.Sprintf("shard%d.%d.log", shard, attempt))
		lf, _ := os.Create(logf)
		args := []string{"-s", "QUIT", "-k", "20", strconv.Itoa(capMin*60) + "s", bin,
			"-test.run", "^" + p.Test + "$", "-test.timeout", "0", "-test.v"}
		cmd := exec.Command("timeout", args...)
		cmd.Dir = runDir
		e := append(env(), "VERIF_TIER="+tier, "VERIF_SEED="+strconv.FormatInt(seed, 10),
			"VERIF_OUT="+jsonl, fmt.Sprintf("VERIF_SHARD=%d/%d", shard, nshards),
			"VERIF_RESUME_AFTER="+strconv.Itoa(resume), "VERIF_BUILD="+childBuildDir(),
			"VERIF_TMP="+runDir)
		if only != "" {
			e = append(e, "VERIF_ONLY="+only)
		}
		if p.Race {
			e = append(e, "GORACE=halt_on_error=0 log_path="+filepath.Join(runDir, fmt.Sprintf("race.%d.%d", shard, attempt)))
		}
		cmd.Env = e
		cmd.Stdout = lf
		cmd.Stderr = lf
		err := cmd.Run()
		lf.Close()
		recs := readJSONL(jsonl)
		// find a started-but-unfinished case
		open := map[int]record{}
		for _, r := range recs {
			switch r.T {
			case "start":
				open[r.Idx] = r
			case "end":
				delete(open, r.Idx)
			}
		}
		if len(open) == 0 {
			res.recs = recs
			if err != nil {
				// child failed outside any case (e.g. setup); report as a crash without case
				tail := tailFile(logf, 60)
				if !strings.Contains(tail, "--- FAIL") || strings.Contains(tail, "panic:") || strings.Contains(tail, "fatal error:") {
					res.crashes = append(res.crashes, found{violation: violation{Sig: "crash:outside-case", Detail: fmt.Sprintf("child exit: %v\n%s", err, tail)}, Idx: -1})
				}
			}
			return res
		}
		// crash or watchdog inside a case
		for idx, st := range open {
			tail := tailFile(logf, 120)
			sig := crashSig(tail)
			res.crashes = append(res.crashes, found{violation: violation{Sig: sig, Detail: fmt.Sprintf("child died (%v) while running case %d %s\n%s", err, idx, st.Name, tail)}, Idx: idx, Name: st.Name, Spec: st.Spec})
			if idx > resume {
				resume = idx
			}
			// close it so the next parse does not see it as open again
			f, _ := os.OpenFile(jsonl, os.O_APPEND|os.O_WRONLY, 0o644)
			b, _ := json.Marshal(map[string]interface{}{"t": "end", "idx": idx, "name": st.Name, "status": "crashed"})
			f.Write(append(b, '\n'))
			f.Close()
		}
		res.restarts++
		if only != "" {
			res.recs = readJSONL(jsonl)
			return res
		}
		// a case that ran into the child's watchdog is already a violation of this run; a tree that wedges
		// one case usually wedges many, and each would cost the full watchdog (10 minutes and more): the
		// shard is given up after its first one (counted in the evidence)
		for _, cr := range res.crashes {
			if strings.HasPrefix(cr.Sig, "crash:watchdog") {
				res.abandoned = true
			}
		}
		if res.abandoned {
			break
		}
	}
	res.recs = readJSONL(jsonl)
	return res
}

// probeSelfCrash: the first goroutine of the dump (the faulting one) has a frame in hx.(*walker).
func probeSelfCrash(detail string) bool {
	i := strings.Index(detail, "\ngoroutine ")
	if i < 0 {
		return false
	}
	blk := detail[i+1:]
	if j := strings.Index(blk, "\n\n"); j >= 0 {
		blk = blk[:j]
	}
	return strings.Contains(blk, "verifharness/hx.(*walker)")
}

func crashSig(tail string) string {
	lines := strings.Split(tail, "\n")
	kind := "crash:unknown"
	for i, ln := range lines {
		if strings.HasPrefix(ln, "panic: ") || strings.HasPrefix(ln, "fatal error: ") {
			msg := ln
			if len(msg) > 80 {
				msg = msg[:80]
			}
			// strip addresses / numbers that vary
			msg = stripVar(msg)
			site := ""
			for _, l2 := range lines[i+1:] {
				if strings.HasPrefix(l2, "go.nanomsg.org/mangos/v3") {
					site = l2
					if j := strings.LastIndex(site, "("); j > 0 {
						site = site[:j]
					}
					site = strings.TrimPrefix(site, "go.nanomsg.org/mangos/v3/")
					break
				}
			}
			return strings.ReplaceAll("crash:"+msg+"@"+site, " ", "_")
		}
		if strings.Contains(ln, "SIGQUIT") {
			kind = "crash:watchdog"
		}
	}
	return kind
}

func stripVar(s string) string {
	var b strings.Builder
	for i := 0; i < len(s); i++ {
		c := s[i]
		if c >= '0' && c <= '9' {
			b.WriteByte('#')
			for i+1 < len(s) && ((s[i+1] >= '0' && s[i+1] <= '9') || (s[i+1] >= 'a' && s[i+1] <= 'f') || s[i+1] == 'x') {
				i++
			}
			continue
		}
		b.WriteByte(c)
	}
	return b.String()
}

func readJSONL(path string) []record {
	f, err := os.Open(path)
	if err != nil {
		return nil
	}
	defer f.Close()
	var out []record
	sc := bufio.NewScanner(f)
	sc.Buffer(make([]byte, 1<<20), 64<<20)
	for sc.Scan() {
		var r record
		if json.Unmarshal(sc.Bytes(), &r) == nil {
			out = append(out, r)
		}
	}
	return out
}

func tailFile(path string, n int) string {
	b, err := os.ReadFile(path)
	if err != nil {
		return ""
	}
	if len(b) > 1<<20 {
		// keep head (panic message comes first) and tail
		b = append(append([]byte{}, b[:1<<19]...), b[len(b)-(1<<19):]...)
	}
	lines := strings.Split(string(b), "\n")
	// prefer the region starting at the first panic/fatal line
	for i, ln := range lines {
		if strings.HasPrefix(ln, "panic: ") || strings.HasPrefix(ln, "fatal error: ") || strings.HasPrefix(ln, "SIGQUIT") {
			end := i + n
			if end > len(lines) {
				end = len(lines)
			}
			return strings.Join(lines[i:end], "\n")
		}
	}
	if len(lines) > n {
		lines = lines[len(lines)-n:]
	}
	return strings.Join(lines, "\n")
}

// ---- known findings ---------------------------------------------------------

type knownFinding struct {
	Prop string
	Sig  string
	Text string
}

func loadKnown() []knownFinding {
	f, err := os.Open(filepath.Join(verifRoot, "KNOWN_FINDINGS.txt"))
	if err != nil {
		return nil
	}
	defer f.Close()
	var out []knownFinding
	sc := bufio.NewScanner(f)
	for sc.Scan() {
		ln := strings.TrimSpace(sc.Text())
		if !strings.HasPrefix(ln, "finding:") {
			continue // "fixed:" lines and comments suppress nothing
		}
		fs := strings.Fields(strings.TrimPrefix(ln, "finding:"))
		var k knownFinding
		var rest []string
		for _, w := range fs {
			switch {
			case strings.HasPrefix(w, "property=") && k.Prop == "":
				k.Prop = strings.TrimPrefix(w, "property=")
			case strings.HasPrefix(w, "sig=") && k.Sig == "":
				k.Sig = strings.TrimPrefix(w, "sig=")
			default:
				rest = append(rest, w)
			}
		}
		k.Text = strings.Join(rest, " ")
		if k.Prop != "" && k.Sig != "" {
			out = append(out, k)
		}
	}
	return out
}

// ---- main -------------------------------------------------------------------

func main() {
	if len(os.Args) < 2 {
		fatal("usage: vcheck <ID> [--tier quick|thorough] | vcheck replay <path> | vcheck build")
	}
	if os.Args[1] == "replay" {
		if len(os.Args) < 3 {
			fatal("usage: vcheck replay <path>")
		}
		os.Exit(replay(os.Args[2]))
	}
	if os.Args[1] == "build" {
		var ids []string
		for id := range props {
			ids = append(ids, id)
		}
		sort.Strings(ids)
		for _, id := range ids {
			if _, err := build(props[id]); err != nil {
				fatal("%s: %v", id, err)
			}
		}
		return
	}
	id := os.Args[1]
	tier := os.Getenv("VERIF_TIER")
	for i := 2; i < len(os.Args); i++ {
		if os.Args[i] == "--tier" && i+1 < len(os.Args) {
			tier = os.Args[i+1]
			i++
		}
	}
	if tier != "thorough" {
		tier = "quick"
	}
	seed := int64(1)
	if v := os.Getenv("VERIF_SEED"); v != "" {
		if n, err := strconv.ParseInt(v, 10, 64); err == nil {
			seed = n
		}
	}
	p, ok := props[id]
	if !ok {
		fatal("unknown property %s", id)
	}
	os.Exit(runProp(p, tier, seed, ""))
}

func replay(path string) int {
	b, err := os.ReadFile(path)
	if err != nil {
		fatal("%v", err)
	}
	var rp struct {
		Property string `json:"property"`
		Tier     string `json:"tier"`
		Seed     int64  `json:"seed"`
		Idx      int    `json:"idx"`
	}
	if err := json.Unmarshal(b, &rp); err != nil {
		fatal("%v", err)
	}
	p, ok := props[rp.Property]
	if !ok {
		fatal("unknown property %q in replay file", rp.Property)
	}
	if rp.Idx < 0 {
		return runProp(p, rp.Tier, rp.Seed, "")
	}
	return runProp(p, rp.Tier, rp.Seed, strconv.Itoa(rp.Idx))
}

func runProp(p propDef, tier string, seed int64, only string) int {
	t0 := time.Now()
	ti := 0
	if tier == "thorough" {
		ti = 1
	}
	// two runs of the same check against the same tree share the test binary and the run directory:
	// the second one waits for the first (replays included)
	{
		_, tag := altRepo()
		os.MkdirAll(filepath.Join(verifRoot, ".build"), 0o755)
		if lf, err := os.OpenFile(filepath.Join(verifRoot, ".build", "lock."+p.ID+tag), os.O_CREATE|os.O_RDWR, 0o644); err == nil {
			syscall.Flock(int(lf.Fd()), syscall.LOCK_EX)
			defer lf.Close()
		}
	}
	bin, err := build(p)
	if err != nil {
		// A tree that does not build cannot be checked: broken check, not a violation.
		fmt.Fprintf(os.Stderr, "vcheck: %v\n", err)
		return 2
	}
	_, altTag := altRepo()
	runDir := filepath.Join(verifRoot, ".build", "run", p.ID+"-"+tier+altTag)
	if only != "" {
		runDir += "-replay"
	}
	os.RemoveAll(runDir)
	os.MkdirAll(runDir, 0o755)
	nshards := p.Shards[ti]
	if only != "" {
		nshards = 1
	}
	results := make([]shardResult, nshards)
	var wg sync.WaitGroup
	for k := 0; k < nshards; k++ {
		wg.Add(1)
		go func(k int) {
			defer wg.Done()
			capMin := p.CapMin[ti]
			if v, err := strconv.Atoi(os.Getenv("VERIF_CAPMIN")); err == nil && v > 0 {
				capMin = v // evaluation of seeded changes only: a shorter per-child watchdog (never set by registered commands)
			}
			results[k] = runShard(bin, p, tier, seed, k, nshards, capMin, runDir, only)
		}(k)
	}
	wg.Wait()

	// aggregate
	var all []found
	counts := map[string]int{}
	sigs := map[string]bool{}
	evals, inconcl, total, nontriv := 0, 0, 0, 0
	var samples []json.RawMessage
	starts := map[int]record{}
	var inconclNotes []string
	for _, r := range results {
		for _, cr := range r.crashes {
			// a fatal error raised while the faulting goroutine was inside the harness's own object-graph
			// walker (reflect over live library memory) is a fault of the monitor, not of the library
			if probeSelfCrash(cr.Detail) {
				inconcl++
				counts["probe_self_crash"]++
				if len(inconclNotes) < 5 {
					inconclNotes = append(inconclNotes, fmt.Sprintf("case %d %s: child died inside the harness's mutex probe", cr.Idx, cr.Name))
				}
				continue
			}
			all = append(all, cr)
		}
		counts["child_restarts"] += r.restarts
		if r.abandoned {
			counts["shards_given_up_after_watchdog"]++
		}
		for _, rec := range r.recs {
			switch rec.T {
			case "meta":
				if rec.Total > total {
					total = rec.Total
				}
			case "start":
				starts[rec.Idx] = rec
			case "end":
				if rec.Status == "crashed" {
					evals++
					continue
				}
				evals++
				for k, v := range rec.Counts {
					counts[k] += v
				}
				if rec.Status == "inconclusive" {
					inconcl++
					if len(inconclNotes) < 5 && len(rec.Inconcl) > 0 {
						inconclNotes = append(inconclNotes, fmt.Sprintf("case %d %s: %s", rec.Idx, rec.Name, rec.Inconcl[0]))
					}
				}
				if rec.Nontrivial {
					nontriv++
					for _, s := range rec.Sigs {
						sigs[s] = true
					}
				}
				for _, v := range rec.Viol {
					st := starts[rec.Idx]
					all = append(all, found{violation: v, Idx: rec.Idx, Name: rec.Name, Spec: st.Spec})
				}
			}
		}
	}
	// race reports
	if p.Race {
		rr := parseRaceLogs(runDir)
		counts["race_reports_total"] = rr.total
		counts["race_reports_distinct"] = len(rr.lib) + len(rr.harness)
		for _, v := range rr.lib {
			all = append(all, found{violation: v, Idx: -1})
		}
		for _, v := range rr.harness {
			// a race involving harness code is a broken check, reported loudly, never swallowed
			all = append(all, found{violation: violation{Sig: "harness-" + v.Sig, Detail: v.Detail}, Idx: -1})
		}
	}
	// samples: a spread of case specs
	var idxs []int
	for i := range starts {
		idxs = append(idxs, i)
	}
	sort.Ints(idxs)
	step := len(idxs)/6 + 1
	for i := 0; i < len(idxs) && len(samples) < 6; i += step {
		st := starts[idxs[i]]
		b, _ := json.Marshal(map[string]interface{}{"idx": st.Idx, "name": st.Name, "spec": st.Spec})
		samples = append(samples, b)
	}

	// classify violations
	known := loadKnown()
	seenKnown := map[string]knownFinding{}
	var fresh []found
	for _, f := range all {
		matched := false
		for _, k := range known {
			if k.Prop == p.ID && sigMatch(k.Sig, f.Sig) {
				seenKnown[k.Sig] = k
				matched = true
				break
			}
		}
		if !matched {
			fresh = append(fresh, f)
		}
	}
	// replay files
	rdir := filepath.Join(outRoot(), "evidence", "replay")
	os.MkdirAll(rdir, 0o755)
	if only == "" {
		old, _ := filepath.Glob(filepath.Join(rdir, p.ID+"-*.json"))
		for _, o := range old {
			os.Remove(o)
		}
	} else {
		rdir = filepath.Join(rdir, "replayed") // a replay never overwrites the witnesses of the run it came from
		os.MkdirAll(rdir, 0o755)
	}
	exit := 0
	bySig := map[string]int{}
	sigNo := map[string]int{}
	for _, f := range fresh {
		bySig[f.Sig]++
		if bySig[f.Sig] > 3 {
			continue // at most three witnesses per signature
		}
		if sigNo[f.Sig] == 0 {
			sigNo[f.Sig] = len(sigNo) + 1
		}
		path := filepath.Join(rdir, fmt.Sprintf("%s-%d.json", p.ID, sigNo[f.Sig]*10+bySig[f.Sig]))
		b, _ := json.MarshalIndent(map[string]interface{}{"property": p.ID, "tier": tier, "seed": seed, "idx": f.Idx,
			"name": f.Name, "spec": f.Spec, "sig": f.Sig, "detail": f.Detail,
			"replay": "./bin/vcheck replay " + path}, "", " ")
		os.WriteFile(path, b, 0o644)
		fmt.Printf("VIOLATION property=%s replay=%s sig=%s\n", p.ID, path, f.Sig)
		exit = 1
	}
	var kk []string
	for s := range seenKnown {
		kk = append(kk, s)
	}
	sort.Strings(kk)
	for _, s := range kk {
		fmt.Printf("KNOWN-FINDING: property=%s sig=%s %s\n", p.ID, s, seenKnown[s].Text)
	}

	// evidence
	distinct := len(sigs)
	cov := map[string]interface{}{
		"evaluations":         evals,
		"distinct_nontrivial": distinct,
		"nontrivial_cases":    nontriv,
		"cases_generated":     total,
		"inconclusive":        inconcl,
		"rule":                p.Rule,
		"samples":             samples,
		"counters":            counts,
		"known_findings_seen": kk,
	}
	if len(inconclNotes) > 0 {
		cov["inconclusive_notes"] = inconclNotes
	}
	if p.Exhaust && tier == "thorough" {
		cov["exhaustive"] = true
	}
	var freshSigs []string
	for s := range bySig {
		freshSigs = append(freshSigs, s)
	}
	sort.Strings(freshSigs)
	if len(freshSigs) > 0 {
		cov["violation_signatures"] = freshSigs
	}
	ev := map[string]interface{}{
		"property_id": p.ID, "tier": tier, "seed": seed, "level": p.Level,
		"coverage": cov, "assumptions": p.Assume,
		"wall_s":     time.Since(t0).Seconds(),
		"violations": len(fresh),
	}
	if only == "" {
		b, _ := json.MarshalIndent(ev, "", " ")
		os.MkdirAll(filepath.Join(outRoot(), "evidence"), 0o755)
		if err := os.WriteFile(filepath.Join(outRoot(), "evidence", p.ID+".json"), b, 0o644); err != nil {
			fatal("%v", err)
		}
		if evals == 0 || (total > 0 && evals < total) {
			fmt.Fprintf(os.Stderr, "vcheck: %s ran %d of %d cases — check is broken\n", p.ID, evals, total)
			if exit == 0 {
				exit = 2
			}
		}
	}
	fmt.Printf("%s tier=%s seed=%d cases=%d/%d nontrivial=%d distinct=%d inconclusive=%d violations=%d known=%d wall=%.1fs\n",
		p.ID, tier, seed, evals, total, nontriv, distinct, inconcl, len(fresh), len(kk), time.Since(t0).Seconds())
	return exit
}

// sigMatch: a listed finding suppresses exactly its own signature.
func sigMatch(listed, got string) bool { return listed == got }
