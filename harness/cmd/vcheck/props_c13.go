package main

func init() {
	reg(propDef{ID: "C13", Test: "TestC13", Level: "exploration", Shards: [2]int{12, 16}, CapMin: [2]int{10, 60},
		Rule:   "cases = PRNG(seed): (a) vt scripts: 1-4 sockets at once (12 protocols, listener or dialer side, each wrapped in a recording ProtocolBase), 4-12 connections each with a planned action per connection (ok, peer drop, Pipe.Close later, hook closes in Attaching, hook closes in Attached, protocol wrapper refuses, second PAIR peer), yield points on in half the cases; (b) the same over real transports (inproc tcp ipc ws tls+tcp wss) with a redialling client; (c) read-only pipe options per transport. Online monitor in the event hook + wrapper: per-pipe automaton Attaching (Attached Detached)?, protocol add/remove pairing, process-wide live-id set, ids released at the end (allocator hook). After every rejection a fresh connection must reach Attached (stuck detector). non-trivial = all; distinct = (protocols, sides, action strings)",
		Assume: commonAssume})
}
