package main

import (
	"os"
	"path/filepath"
	"sort"
	"strings"
)

type raceReports struct {
	total   int
	lib     []violation // both accesses in library code
	harness []violation // at least one access in harness code: broken check
}

// parseRaceLogs splits GORACE log files into reports, classifies both accesses
// and deduplicates by the sorted pair of innermost non-runtime functions.
func parseRaceLogs(dir string) raceReports {
	var rr raceReports
	files, _ := filepath.Glob(filepath.Join(dir, "race.*"))
	seen := map[string]bool{}
	for _, f := range files {
		b, err := os.ReadFile(f)
		if err != nil {
			continue
		}
		for _, blk := range strings.Split(string(b), "==================") {
			if !strings.Contains(blk, "WARNING: DATA RACE") {
				continue
			}
			rr.total++
			acc := raceAccesses(blk)
			if len(acc) < 2 {
				continue
			}
			fns := []string{acc[0].fn, acc[1].fn}
			sort.Strings(fns)
			sig := "race:" + fns[0] + "|" + fns[1]
			if seen[sig] {
				continue
			}
			seen[sig] = true
			v := violation{Sig: sig, Detail: strings.TrimSpace(blk)}
			if len(v.Detail) > 12000 {
				v.Detail = v.Detail[:12000]
			}
			if acc[0].kind == "lib" && acc[1].kind == "lib" {
				rr.lib = append(rr.lib, v)
			} else {
				rr.harness = append(rr.harness, v)
			}
		}
	}
	return rr
}

type raceAccess struct {
	fn   string
	kind string // lib | harness | other
}

func raceAccesses(blk string) []raceAccess {
	var out []raceAccess
	lines := strings.Split(blk, "\n")
	for i := 0; i < len(lines); i++ {
		ln := strings.TrimSpace(lines[i])
		isAcc := (strings.HasPrefix(ln, "Write at ") || strings.HasPrefix(ln, "Read at ") ||
			strings.HasPrefix(ln, "Previous write at ") || strings.HasPrefix(ln, "Previous read at ") ||
			strings.HasPrefix(ln, "Atomic ") || strings.HasPrefix(ln, "Previous atomic "))
		if !isAcc {
			continue
		}
		a := raceAccess{fn: "?", kind: "other"}
		// frames: "  func()" then "      file:line +0x.."
		for j := i + 1; j+1 < len(lines); j += 2 {
			fn := strings.TrimSpace(lines[j])
			loc := strings.TrimSpace(lines[j+1])
			if fn == "" {
				break
			}
			if k := strings.LastIndex(fn, "("); k > 0 {
				fn = fn[:k]
			}
			switch {
			case strings.HasPrefix(fn, "verifharness/"):
				a = raceAccess{fn: fn, kind: "harness"}
			case strings.HasPrefix(fn, "go.nanomsg.org/mangos/v3") && !strings.Contains(loc, "_test.go"):
				a = raceAccess{fn: strings.TrimPrefix(fn, "go.nanomsg.org/mangos/v3/"), kind: "lib"}
			default:
				continue // runtime / std frame: look further out
			}
			break
		}
		out = append(out, a)
		if len(out) == 2 {
			break
		}
	}
	return out
}
