package main

func init() {
	reg(propDef{ID: "C05", Test: "TestC05", Level: "exploration", Shards: [2]int{8, 16}, CapMin: [2]int{10, 60},
		Rule: "cases = PRNG(seed) scripts against one rep / respondent / xrep / xrespondent socket whose every peer is a vt pipe held by the harness (1-6 connections, more added and dropped on the way; 1-6 contexts; TTL 1-8; requests `d routing words + id | tag payload` with d in 0..TTL-1 and hostile header contents: boundary words, words equal to this socket's pipe ids, ids and whole headers repeated on other connections). " +
			"seq: 20-60 steps of inject / Recv / Send / drop {before Recv, between Recv and Send, right after Send} / add connection / timed-out Recv on cooked contexts, exact error expectations (ErrProtoState with nothing pending); " +
			"conc: one goroutine per context looping Recv-think-Send while the harness injects and drops concurrently, library yield points on; " +
			"raw: rounds of inject + per-connection sentinel, RecvMsg header must be pipe id ++ routing header, replies sent in permuted order plus replies naming no connection (unknown id, short header, id with top bit). " +
			"every transmitted byte is checked: one transmission per reply, on the connection its request arrived on, header byte-equal to the request's; a flush request/reply per open connection makes 'nothing else was transmitted' and 'no accepted reply was lost' decidable. " +
			"non-trivial = at least one reply verified on the wire and (seq) a reply with depth >= 1, or Send while contexts held requests from >= 2 connections, or a drop between Recv and Send / (conc) >= 2 replies verified with >= 2 contexts or connections / (raw) >= 2 replies verified; distinct = hash of (protocol, mode, shape, op string incl. which context received from which connection / per-context connection sequences / reply permutation)",
		Assume: commonAssume})
}
