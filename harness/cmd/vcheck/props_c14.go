package main

func init() {
	reg(propDef{ID: "C14", Test: "TestC14", Level: "fault_enumeration", Shards: [2]int{8, 12}, CapMin: [2]int{15, 90},
		Rule:   "fault scripts over the virtual transport's dial log: ReconnectTime {5,20,40ms} x MaxReconnectTime {0, R, 2R, 8R} x six Close phases (dialer or socket closed while a transport Dial hangs / while the redial timer is pending / while connected) are enumerated cyclically; per script the PRNG chooses 4-11 outcomes from {refused, connected then dropped by the peer after traffic, connected but rejected by the hook in Attaching, connected and dropped at once}, DialAsynch on/off, PAIR or BUS, yield points on in half. Oracle: every attempt starts at least ReconnectTime after the event that armed its timer (exact lower bound: return of the previous attempt / time taken before the drop / time taken before the hook closed the pipe); attempts keep coming (stuck detector); a message is exchanged on every new connection; at most one attempt starts after Close. Dedicated cases: cap (R=20ms, max=40ms, 14 refusals), no growth with max=0, reset after a successful attach (canary-calibrated upper bounds, parameters chosen so a bug is several times off), synchronous dialer does not retry before its first success and can be retried by the caller. non-trivial = all; distinct = (kind, protocol, R, max, async, script, end)",
		Assume: commonAssume})
}
