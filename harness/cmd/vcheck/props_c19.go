package main

func init() {
	reg(propDef{ID: "C19", Test: "TestC19", Level: "exploration", Shards: [2]int{12, 16}, CapMin: [2]int{10, 40}, Exhaust: true,
		Rule: "the option grid is finite and enumerated completely in both tiers, independent of the seed. " +
			"grid cases = one object's whole name x value grid (47 names: every Option* constant, WEBSOCKET-*, UNIX-IPC-*, WIN-IPC-*, 9 junk strings; " +
			"42 values: nil, bools, ints minint/-1/0/1/2/255/256/65536/maxint, durations -1ns/0/1ns/1s/max/min, strings, byte slices, uint32 and os.FileMode, *tls.Config nil/non-nil, float64, struct{}, other int widths, pointer, slice, map, func, chan) " +
			"for: sockets of all 24 protocols fresh and connected over each of the 6 transports; contexts of the 5 context patterns fresh and connected; dialers and listeners of 6 transports x 24 protocols, before and after connecting; " +
			"both pipes of every connection and the accepted pipe again after Close. Every call under recover() and under the stuck detector; Get before any Set and after every accepted Set. " +
			"effect cases: zero (accepted zero deadline/survey/retry time: the call is still parked when the whole process is quiescent, then completes when satisfied), " +
			"retain (vt peer: exact retained sets for SUB newest-k and PUB/BUS/STAR/SURVEYOR oldest-k, sentinel-delimited), qlen0 (accepted 0 + traffic: socket stays responsive and connected), " +
			"deferred (an accepted maxint queue length must survive the next AddPipe/Send), inherit (socket options read back from dialers/listeners/contexts created afterwards), " +
			"resize (50 queue-length changes with traffic flowing / receive queue full: no Detached, exchange succeeds; fixed sequence plus seed-chosen sequences, socket listening or dialing), " +
			"stall (30 changes against a vt peer with the pipe receiver known parked on a full queue / the peer known stalled in Send: transport pipe not closed, traffic afterwards gets through), " +
			"unsup (ErrProtoOp operations before/after connecting, no side effect), device (Device on nil/cooked/mismatched sockets, no forwarder left, sockets still work), " +
			"tlscfg (tls+tcp and wss: a TLS-CONFIG whose server side supplies its certificate by Certificates / GetCertificate only / both, given at creation, by SetOption, by SetOption replacing an earlier value, or by ListenOptions, " +
			"against a client config using RootCAs or InsecureSkipVerify+VerifyConnection given by the same four routes; protocol pair, client shape and client route seed-chosen: Get returns the accepted pointer, Listen succeeds, Dial completes the handshake, " +
			"the accepted configs' callbacks were called, the client saw the certificate of the config in effect and not of the replaced one, messages flow; GetConfigForClient-only is recorded without verdict), " +
			"subs (seed-drawn SUBSCRIBE/UNSUBSCRIBE scripts on the SUB socket and/or 1-2 of its contexts over a universe of nested prefixes (empty prefix and self-overlapping words included) plus unrelated topics, values as []byte (scribbled afterwards) or string, " +
			"ending with the removal of every established subscription one by one; model = a plain set per receiver: SUBSCRIBE accepted, UNSUBSCRIBE of a member accepted, of a non-member ErrBadValue; after every call a probe batch + sentinel over the one connection (vt peer or a real PUB): " +
			"every receiver delivers exactly the probes its own set matches, in order), " +
			"maxrecv (a seed-drawn sequence of 2-3 MAX-RCV-SIZE limits from {0, 64, 320, 1600, 8000}, consecutive ones differing by a factor >= 5, each set on the receiving socket or on its listener/dialer (seed-chosen per step), " +
			"the first one before or after the endpoint was started, the rest after connections exist; receiver pair/pull/sub/bus/xpair/xpull listening or dialing over ipc, tcp, tls+tcp, ws, wss: after every accepted Set the endpoint's Get returns the value, " +
			"a new connection is made (first Dial, or the peer closes its pipe and the dialer reconnects), a message of half the limit (limit 0: twice the limit in effect before) is delivered and one of twice the limit is not " +
			"(receiver reports Detached; after the reconnect a sentinel arrives at the one parked Recv instead of the probe)), " +
			"propagate (all 24 protocols x 6 transports + vt; a socket holding a just-created dialer, one created with explicit RECONNECT-TIME/MAX-RECONNECT-TIME/DIAL-ASYNCH/MAX-RCV-SIZE, a started asynchronous one, a fresh and a listening listener " +
			"(phase conn: also a connected dialer) accepts 2-3 seed-drawn rounds of RECONNECT-TIME, MAX-RECONNECT-TIME, DIAL-ASYNCH, MAX-RCV-SIZE in seed-drawn order, every value non-negative and different from the one before: " +
			"after each accepted Set every existing dialer returns the value from GetOption, and for MAX-RCV-SIZE every listener that has the option; phase effect over vt, 3 variants: DIAL-ASYNCH and RECONNECT-TIME accepted by the socket after NewDialer " +
			"decide that dialer's Dial against a refusing peer (returns nil / reports the refusal) and the second attempt starts no earlier than the accepted 800ms after the first failed (20ms before; exact lower bound on the harness clock)), " +
			"ctxq (SUB and SURVEYOR: the socket accepts READQ-LEN k, a context is opened, optionally a second length and a second context; k+7 messages per context arrive over one vt pipe while nobody receives and are known processed: " +
			"a SUB context delivers exactly the newest k, a SURVEYOR context exactly k responses and then the sentinel response injected afterwards; SURVEYOR also with the length set on the context). " +
			"ownopt (an option the socket and its contexts both have, accepted with DIFFERENT values (0, a short time, 1h, or never set) by the socket and by 1-2 of its contexts, socket set before the contexts were opened or after they were set; every verdict against each object's own GetOption; one vt connection: " +
			"REQ RETRY-TIME with the peer taking every request, dropping the connection and another peer connecting — an object whose own value is 0 never has its request transmitted again (its next request on the new connection is the sentinel) and an object whose own value is non-zero has it retransmitted there and receives the reply; " +
			"REQ RETRY-TIME 40ms — that object's request is retransmitted no earlier than 40ms after its Send, the objects with 0 or 1h have exactly one transmission; SURVEYOR SURVEY-TIME 60ms — that object's Recv ends with an error no earlier than 60ms after its Send, then the objects with 0 or 1h still receive the response to their survey; " +
			"RECV-DEADLINE 50ms on req/rep/sub/surveyor/respondent — that object's Recv returns ErrRecvTimeout no earlier than 50ms after it was invoked, the Recv of the objects with 0 or 1h is then still outstanding and completes with the message sent afterwards). " +
			"quick: effects on inproc and vt, 25 ownopt, 26 tlscfg, 40 subs, 20 maxrecv, 216 propagate (connected phase on inproc only, one effect variant per protocol) and 20 ctxq cases (k in 1,3,5,16); " +
			"thorough: effects on all 6 transports, more queue lengths and more seed-chosen sequences, 122 tlscfg, 240 subs cases (a third over real transports), 160 maxrecv, 384 propagate (connected phase on every transport, all effect variants) and 55 ctxq cases (11 lengths up to 200). " +
			"non-trivial = a grid ran to completion on an object / the effect was really exercised (option accepted and traffic observed); " +
			"distinct = hash of (object label, full outcome table) for grids, of (kind, protocol, option, transport, sequence, observed outcome) for effects",
		Assume: commonAssume})
}
