package mon

import (
	"os"
	"sort"
	"strings"
	"sync"
	"sync/atomic"
	"time"
)

// ---- scheduler canary -------------------------------------------------------

type canary struct {
	worst atomic.Int64
	stop  chan struct{}
}

var theCanary *canary
var canaryOnce sync.Once

// CanaryStart launches the process-wide canary (idempotent).
func CanaryStart() {
	canaryOnce.Do(func() {
		theCanary = &canary{stop: make(chan struct{})}
		go theCanary.run()
	})
}

func (c *canary) run() {
	for {
		t := Now()
		time.Sleep(time.Millisecond)
		over := Now() - t - time.Millisecond
		for {
			w := c.worst.Load()
			if int64(over) <= w || c.worst.CompareAndSwap(w, int64(over)) {
				break
			}
		}
	}
}

// CanaryReset zeroes the worst oversleep; CanaryWorst reads it.
func CanaryReset() {
	CanaryStart()
	theCanary.worst.Store(0)
}
func CanaryWorst() time.Duration {
	CanaryStart()
	return time.Duration(theCanary.worst.Load())
}

// UpperBoundExceeded implements the canary-calibrated upper-bound rule of
// DESIGN 1.2: excess over the expected bound counts only if it is more than
// 50ms + 20x the worst scheduler oversleep seen during the case.
func UpperBoundExceeded(observed, bound time.Duration) bool {
	return observed-bound > 50*time.Millisecond+20*CanaryWorst()
}

// ---- goroutine census -------------------------------------------------------

// GoroutineBaseline is the set of goroutine ids alive at a point in time.
type GoroutineBaseline map[int]bool

// TakeBaseline records the currently live goroutines.
func TakeBaseline() GoroutineBaseline {
	b := GoroutineBaseline{}
	for _, g := range Dump() {
		b[g.ID] = true
	}
	return b
}

// NewMangos returns library goroutines (any frame or creator in mangos) that
// were not alive at the baseline, except those matching an allow substring.
func (b GoroutineBaseline) NewMangos(allow ...string) []G {
	var out []G
outer:
	for _, g := range Dump() {
		if b[g.ID] || !g.IsMangos() || g.isInfra() {
			continue
		}
		for _, a := range allow {
			if g.HasFrame(a) {
				continue outer
			}
		}
		out = append(out, g)
	}
	return out
}

// AwaitNoLeak waits for the differential census to become empty.  A leak is
// reported only when the remaining goroutines are identical and parked over
// the stuck detector's samples (Stuck); otherwise Done or Inconclusive.
func (b GoroutineBaseline) AwaitNoLeak(o AwaitOpts, allow ...string) (AwaitResult, []G) {
	var last []G
	r := Await(func() bool {
		last = b.NewMangos(allow...)
		return len(last) == 0
	}, o)
	return r, last
}

// ---- fd census --------------------------------------------------------------

// SocketFDs returns the sorted list of "fd->target" for socket descriptors of this process.
func SocketFDs() []string {
	ents, err := os.ReadDir("/proc/self/fd")
	if err != nil {
		return nil
	}
	var out []string
	for _, e := range ents {
		t, err := os.Readlink("/proc/self/fd/" + e.Name())
		if err != nil {
			continue
		}
		if strings.HasPrefix(t, "socket:") {
			out = append(out, t)
		}
	}
	sort.Strings(out)
	return out
}

// DiffFDs returns entries of now that are not in base.
func DiffFDs(base, now []string) []string {
	m := map[string]bool{}
	for _, s := range base {
		m[s] = true
	}
	var out []string
	for _, s := range now {
		if !m[s] {
			out = append(out, s)
		}
	}
	return out
}
