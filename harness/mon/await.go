package mon

import (
	"fmt"
	"strings"
	"sync"
	"sync/atomic"
	"time"
)

// Verdict of a bounded-liveness wait.
type Verdict int

const (
	Done         Verdict = iota // condition became true
	Stuck                       // whole process quiescent, condition false, no timer can end the wait
	Inconclusive                // watchdog fired while the process was still active
)

func (v Verdict) String() string { return [...]string{"done", "stuck", "inconclusive"}[v] }

// AwaitOpts tunes Await.
type AwaitOpts struct {
	// MaxTimer is the longest timer the scenario armed that could legitimately
	// end the wait; the stuck verdict is only given after 10x this has passed.
	MaxTimer time.Duration
	// Ignore lists frame substrings of goroutines with declared periodic
	// background activity that cannot satisfy the condition.
	Ignore []string
	// Watchdog bounds the whole wait (default 60 s); its firing is inconclusive.
	Watchdog time.Duration
	// Samples / Gap of the stuck detector (default 5 samples, 250 ms apart).
	Samples int
	Gap     time.Duration
}

// AwaitResult carries the verdict and, for Stuck/Inconclusive, the goroutine dump.
type AwaitResult struct {
	V      Verdict
	Waited time.Duration
	Dump   string
}

// Await polls cond until it is true.  It never turns elapsed wall time alone
// into a verdict: Stuck needs Samples consecutive identical samples in which
// every goroutine of the process (minus monitor infrastructure and declared
// background activity) is parked, taken after max(200ms, 10*MaxTimer).
func Await(cond func() bool, o AwaitOpts) AwaitResult {
	if o.Watchdog == 0 {
		o.Watchdog = 60 * time.Second
	}
	if o.Samples == 0 {
		o.Samples = 5
	}
	if o.Gap == 0 {
		o.Gap = 250 * time.Millisecond
	}
	start := Now()
	grace := 10 * o.MaxTimer
	if grace < 200*time.Millisecond {
		grace = 200 * time.Millisecond
	}
	// fast phase
	sleep := 50 * time.Microsecond
	for Now()-start < grace {
		if cond() {
			return AwaitResult{V: Done, Waited: Now() - start}
		}
		infraSleep(sleep)
		if sleep < 5*time.Millisecond {
			sleep *= 2
		}
	}
	var last Quiescence
	same := 0
	for Now()-start < o.Watchdog {
		if cond() {
			return AwaitResult{V: Done, Waited: Now() - start}
		}
		q := Sample(o.Ignore...)
		if q.AllParked && (same == 0 || q.Sigs == last.Sigs) {
			same++
		} else if q.AllParked {
			same = 1
		} else {
			same = 0
		}
		last = q
		if same >= o.Samples {
			if cond() {
				return AwaitResult{V: Done, Waited: Now() - start}
			}
			return AwaitResult{V: Stuck, Waited: Now() - start, Dump: RenderGs(q.Gs)}
		}
		// sleep Gap, but keep polling cond
		end := Now() + o.Gap
		for Now() < end {
			if cond() {
				return AwaitResult{V: Done, Waited: Now() - start}
			}
			infraSleep(5 * time.Millisecond)
		}
	}
	return AwaitResult{V: Inconclusive, Waited: Now() - start, Dump: RenderGs(last.Gs)}
}

// RenderGs renders goroutines for a witness (library and harness goroutines only).
// Goroutines running a property's own calls come first (they are what is stuck);
// identical stacks are folded into one line with a count.
func RenderGs(gs []G) string {
	type ent struct {
		text  string
		n     int
		first int
		prop  bool
	}
	seen := map[string]*ent{}
	var order []*ent
	for i := range gs {
		g := &gs[i]
		if !(g.IsMangos() || g.HasFrame("verifharness/")) {
			continue
		}
		n := len(g.Frames)
		if n > 7 {
			n = 7
		}
		var fr []string
		for _, f := range g.Frames[:n] {
			// "func /path/file.go:123" -> "func file.go:123"
			if k := strings.LastIndex(f, "/"); k > strings.Index(f, " ") && strings.Index(f, " ") >= 0 {
				f = f[:strings.Index(f, " ")+1] + f[k+1:]
			}
			fr = append(fr, strings.TrimPrefix(f, "go.nanomsg.org/mangos/v3/"))
		}
		key := "[" + g.State + "] " + strings.Join(fr, " <- ") + " (created by " + strings.TrimPrefix(g.CreatedBy, "go.nanomsg.org/mangos/v3/") + ")"
		if e := seen[key]; e != nil {
			e.n++
			continue
		}
		e := &ent{text: key, n: 1, first: g.ID, prop: g.HasFrame("verifharness/props")}
		seen[key] = e
		order = append(order, e)
	}
	var b strings.Builder
	for pass := 0; pass < 2; pass++ {
		for _, e := range order {
			if e.prop != (pass == 0) {
				continue
			}
			if e.n > 1 {
				fmt.Fprintf(&b, "g%d (+%d more) %s\n", e.first, e.n-1, e.text)
			} else {
				fmt.Fprintf(&b, "g%d %s\n", e.first, e.text)
			}
		}
	}
	return b.String()
}

// Call is an API call running in its own goroutine whose return is awaited.
type Call struct {
	Name    string
	GID     int
	Started time.Duration
	done    atomic.Bool
	Ended   time.Duration
	Err     error
	Val     interface{}
	mu      sync.Mutex
}

// Go starts f in a goroutine and returns a handle; Started is taken before the
// goroutine is created, Ended after f returned (both sound bounds for the call interval).
func Go(name string, f func() (interface{}, error)) *Call {
	c := &Call{Name: name, Started: Now()}
	ready := make(chan struct{})
	go func() {
		c.GID = GoID()
		close(ready)
		v, err := f()
		c.mu.Lock()
		c.Val, c.Err = v, err
		c.Ended = Now()
		c.mu.Unlock()
		c.done.Store(true)
	}()
	<-ready
	return c
}

// Done reports whether the call has returned.
func (c *Call) Done() bool { return c.done.Load() }

// Result returns value, error and end time (valid once Done).
func (c *Call) Result() (interface{}, error, time.Duration) {
	c.mu.Lock()
	defer c.mu.Unlock()
	return c.Val, c.Err, c.Ended
}

// Wait awaits the call's return under the stuck detector.
func (c *Call) Wait(o AwaitOpts) AwaitResult { return Await(c.Done, o) }

// ParkedIn waits until the call's goroutine is parked with a frame containing
// substr (so the harness *knows* the call is blocked before it acts), or done.
// Returns true if parked, false if the call returned first or never parked.
func (c *Call) ParkedIn(substr string) bool {
	deadline := Now() + 20*time.Second
	for Now() < deadline {
		if c.Done() {
			return false
		}
		for _, g := range Dump() {
			if g.ID == c.GID && g.Parked() && (substr == "" || g.HasFrame(substr)) {
				return true
			}
		}
		infraSleep(2 * time.Millisecond)
	}
	return false
}

// Describe is a helper for witnesses.
func (c *Call) Describe() string {
	if !c.Done() {
		return fmt.Sprintf("%s: not returned (started at %v)", c.Name, c.Started)
	}
	return fmt.Sprintf("%s: returned err=%v after %v", c.Name, c.Err, c.Ended-c.Started)
}
