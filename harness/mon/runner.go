package mon

import (
	"crypto/sha256"
	"encoding/hex"
	"encoding/json"
	"fmt"
	"math/rand"
	"os"
	"runtime/debug"
	"sort"
	"strconv"
	"strings"
	"sync"
	"testing"
	"time"
)

// CaseSpec is one generated case: a small JSON-able description from which the
// case function rebuilds everything (together with the case PRNG).
type CaseSpec struct {
	Name string      `json:"name"`
	Spec interface{} `json:"spec"`
}

// Violation is one refutation with a stable signature (for KNOWN_FINDINGS matching).
type Violation struct {
	Sig    string `json:"sig"`
	Detail string `json:"detail"`
}

type record struct {
	T          string         `json:"t"`
	Prop       string         `json:"prop,omitempty"`
	Idx        int            `json:"idx"`
	Name       string         `json:"name,omitempty"`
	Spec       interface{}    `json:"spec,omitempty"`
	Status     string         `json:"status,omitempty"`
	Viol       []Violation    `json:"viol,omitempty"`
	Inconcl    []string       `json:"inconcl,omitempty"`
	Counts     map[string]int `json:"counts,omitempty"`
	Sigs       []string       `json:"sigs,omitempty"`
	Nontrivial bool           `json:"nontrivial,omitempty"`
	Ms         int64          `json:"ms,omitempty"`
	Total      int            `json:"total,omitempty"`
	Shard      string         `json:"shard,omitempty"`
	Attempts   int            `json:"attempts,omitempty"`
	Extra      interface{}    `json:"extra,omitempty"`
}

// Runner executes the cases of one property in this process, strictly one at a
// time (process-wide quiescence and the differential censuses rely on that).
type Runner struct {
	T     *testing.T
	Prop  string
	Tier  string
	Seed  int64
	shard int
	nshrd int
	only  map[int]bool
	after int
	out   *os.File
	mu    sync.Mutex
	viol  int
}

// NewRunner reads the VERIF_* environment.
func NewRunner(t *testing.T, prop string) *Runner {
	r := &Runner{T: t, Prop: prop, Tier: "quick", Seed: 1, nshrd: 1, after: -1}
	if v := os.Getenv("VERIF_TIER"); v == "thorough" || v == "quick" {
		r.Tier = v
	}
	if v := os.Getenv("VERIF_SEED"); v != "" {
		if n, err := strconv.ParseInt(v, 10, 64); err == nil {
			r.Seed = n
		}
	}
	if v := os.Getenv("VERIF_SHARD"); v != "" {
		fmt.Sscanf(v, "%d/%d", &r.shard, &r.nshrd)
		if r.nshrd < 1 {
			r.nshrd = 1
		}
	}
	if v := os.Getenv("VERIF_ONLY"); v != "" {
		r.only = map[int]bool{}
		for _, s := range strings.Split(v, ",") {
			if n, err := strconv.Atoi(s); err == nil {
				r.only[n] = true
			}
		}
	}
	if v := os.Getenv("VERIF_RESUME_AFTER"); v != "" {
		r.after, _ = strconv.Atoi(v)
	}
	if v := os.Getenv("VERIF_OUT"); v != "" {
		f, err := os.OpenFile(v, os.O_CREATE|os.O_APPEND|os.O_WRONLY, 0o644)
		if err != nil {
			t.Fatalf("VERIF_OUT: %v", err)
		}
		r.out = f
	}
	CanaryStart()
	return r
}

// Thorough reports whether the thorough tier was requested.
func (r *Runner) Thorough() bool { return r.Tier == "thorough" }

// Pick returns q in the quick tier and t in the thorough tier.
func (r *Runner) Pick(q, t int) int {
	if r.Thorough() {
		return t
	}
	return q
}

// Rand returns the PRNG for generating the case list (a function of the seed only).
func (r *Runner) Rand() *rand.Rand { return rand.New(rand.NewSource(r.Seed*1000003 + 17)) }

func (r *Runner) emit(rec record) {
	if r.out == nil {
		return
	}
	b, err := json.Marshal(rec)
	if err != nil {
		b, _ = json.Marshal(record{T: rec.T, Idx: rec.Idx, Name: rec.Name, Status: rec.Status, Viol: rec.Viol})
	}
	r.mu.Lock()
	r.out.Write(append(b, '\n'))
	r.mu.Unlock()
}

// Case is the per-case monitor state handed to the case function.
type Case struct {
	R          *Runner
	Idx        int
	Name       string
	Spec       interface{}
	Rand       *rand.Rand
	mu         sync.Mutex
	viol       []Violation
	inconcl    []string
	counts     map[string]int
	sigs       map[string]bool
	nontrivial bool
	log        []string
	cleanups   []func()
}

// Violate records a refutation. sig must be stable across runs for the same
// defect (it is what KNOWN_FINDINGS.txt lists); detail is the witness.
func (c *Case) Violate(sig, format string, a ...interface{}) {
	sig = strings.Join(strings.Fields(sig), "_") // a signature is one token on the VIOLATION line
	c.mu.Lock()
	defer c.mu.Unlock()
	for _, v := range c.viol {
		if v.Sig == sig {
			return // one witness per signature per case
		}
	}
	d := fmt.Sprintf(format, a...)
	if len(c.log) > 0 {
		n := len(c.log)
		if n > 40 {
			n = 40
		}
		d += "\n-- case log (last " + strconv.Itoa(n) + ") --\n" + strings.Join(c.log[len(c.log)-n:], "\n")
	}
	if len(d) > 16000 {
		d = d[:16000] + "…"
	}
	c.viol = append(c.viol, Violation{Sig: sig, Detail: d})
}

// Inconclusive records that part of the case could not be decided.
func (c *Case) Inconclusive(format string, a ...interface{}) {
	c.mu.Lock()
	c.inconcl = append(c.inconcl, fmt.Sprintf(format, a...))
	c.mu.Unlock()
}

// Failed reports whether a violation was recorded.
func (c *Case) Failed() bool { c.mu.Lock(); defer c.mu.Unlock(); return len(c.viol) > 0 }

// Undecided reports whether an inconclusive outcome was recorded.
func (c *Case) Undecided() bool { c.mu.Lock(); defer c.mu.Unlock(); return len(c.inconcl) > 0 }

// Count adds to a named evidence counter.
func (c *Case) Count(name string, n int) {
	c.mu.Lock()
	c.counts[name] += n
	c.mu.Unlock()
}

// Sig adds an observable signature of what the case did (distinct ones are counted).
func (c *Case) Sig(format string, a ...interface{}) {
	s := fmt.Sprintf(format, a...)
	h := sha256.Sum256([]byte(s))
	c.mu.Lock()
	c.sigs[hex.EncodeToString(h[:6])] = true
	c.mu.Unlock()
}

// Nontrivial marks the case as having exercised what the property talks about.
func (c *Case) Nontrivial() { c.mu.Lock(); c.nontrivial = true; c.mu.Unlock() }

// Logf appends to the case log (attached to witnesses).
func (c *Case) Logf(format string, a ...interface{}) {
	c.mu.Lock()
	c.log = append(c.log, fmt.Sprintf("%9.3fms ", float64(Now().Microseconds())/1000)+fmt.Sprintf(format, a...))
	if len(c.log) > 400 {
		c.log = c.log[len(c.log)-300:]
	}
	c.mu.Unlock()
}

// Cleanup registers a function run when the case ends (LIFO).
func (c *Case) Cleanup(f func()) { c.mu.Lock(); c.cleanups = append(c.cleanups, f); c.mu.Unlock() }

// AwaitOrViolate waits for cond; Stuck becomes a violation with signature sig, a
// watchdog expiry becomes inconclusive.  Returns true iff cond became true.
func (c *Case) AwaitOrViolate(sig, what string, cond func() bool, o AwaitOpts) bool {
	r := Await(cond, o)
	switch r.V {
	case Done:
		return true
	case Stuck:
		c.Violate(sig, "%s: stuck after %v — every goroutine parked, identical over %d samples:\n%s", what, r.Waited, 5, r.Dump)
	default:
		c.Inconclusive("%s: not done after %v, process still active", what, r.Waited)
	}
	return false
}

func (r *Runner) mine(idx int) bool {
	if r.only != nil {
		return r.only[idx]
	}
	return idx%r.nshrd == r.shard && idx > r.after
}

// Run executes fn over the cases that belong to this shard, sequentially.
func (r *Runner) Run(cases []CaseSpec, fn func(c *Case)) {
	mineN := 0
	for i := range cases {
		if r.mine(i) {
			mineN++
		}
	}
	r.emit(record{T: "meta", Prop: r.Prop, Total: len(cases), Shard: fmt.Sprintf("%d/%d", r.shard, r.nshrd), Idx: mineN})
	for i := range cases {
		if !r.mine(i) {
			continue
		}
		r.runOne(i, cases[i], fn)
	}
	if r.out == nil && r.viol > 0 {
		r.T.Errorf("%s: %d violation(s)", r.Prop, r.viol)
	}
}

func (r *Runner) runOne(idx int, cs CaseSpec, fn func(c *Case)) {
	r.emit(record{T: "start", Idx: idx, Name: cs.Name, Spec: cs.Spec})
	start := Now()
	var c *Case
	attempts := 0
	for attempts < 3 {
		attempts++
		c = &Case{R: r, Idx: idx, Name: cs.Name, Spec: cs.Spec,
			Rand:   rand.New(rand.NewSource(r.Seed*7919 + int64(idx)*104729 + 1)),
			counts: map[string]int{}, sigs: map[string]bool{}}
		CanaryReset()
		func() {
			defer func() {
				if p := recover(); p != nil {
					st := string(debug.Stack())
					if site := panicSite(st); site == "harness" && osSetupFailure(fmt.Sprint(p)) {
						// the harness could not get an operating-system resource it needs for its own set-up
						// (ports exhausted by TIME_WAIT sockets, descriptors) — nothing about the library
						c.Inconclusive("harness set-up failed: %v", p)
					} else {
						c.Violate("panic:"+site, "panic in case goroutine: %v\n%s", p, st)
					}
				}
				for i := len(c.cleanups) - 1; i >= 0; i-- {
					// a cleanup (typically Socket.Close) on a wedged object must not hang the child:
					// run it under the stuck detector and abandon it if it never returns.
					f := c.cleanups[i]
					k := Go("cleanup", func() (interface{}, error) {
						defer func() { recover() }()
						f()
						return nil, nil
					})
					if r := Await(k.Done, AwaitOpts{Watchdog: 30 * time.Second}); r.V != Done {
						c.Logf("cleanup %d abandoned (%v)", i, r.V)
						if !c.Failed() {
							c.Inconclusive("a cleanup (Close) did not return: %v\n%s", r.V, r.Dump)
						}
					}
				}
			}()
			fn(c)
		}()
		if c.Failed() || !c.Undecided() {
			break
		}
	}
	status := "held"
	if c.Failed() {
		status = "violated"
		r.viol++
	} else if c.Undecided() {
		status = "inconclusive"
	}
	var sigs []string
	for s := range c.sigs {
		sigs = append(sigs, s)
	}
	sort.Strings(sigs)
	r.emit(record{T: "end", Idx: idx, Name: cs.Name, Status: status, Viol: c.viol, Inconcl: c.inconcl,
		Counts: c.counts, Sigs: sigs, Nontrivial: c.nontrivial, Ms: (Now() - start).Milliseconds(), Attempts: attempts})
	if r.out == nil {
		for _, v := range c.viol {
			r.T.Logf("VIOLATION %s case %d %s sig=%s\n%s", r.Prop, idx, cs.Name, v.Sig, v.Detail)
		}
		for _, s := range c.inconcl {
			r.T.Logf("inconclusive %s case %d %s: %s", r.Prop, idx, cs.Name, s)
		}
	}
}

// panicSite extracts the innermost library frame of a stack for a stable signature.
func osSetupFailure(msg string) bool {
	for _, w := range []string{"address already in use", "cannot assign requested address", "too many open files", "no buffer space available"} {
		if strings.Contains(msg, w) {
			return true
		}
	}
	return false
}

func panicSite(stack string) string {
	lines := strings.Split(stack, "\n")
	seenPanic := false
	for _, ln := range lines {
		if strings.HasPrefix(ln, "panic(") {
			seenPanic = true
			continue
		}
		if !seenPanic || strings.HasPrefix(ln, "\t") {
			continue
		}
		if strings.HasPrefix(ln, libPrefix) {
			if j := strings.LastIndex(ln, "("); j > 0 {
				ln = ln[:j]
			}
			return strings.TrimPrefix(ln, libPrefix+"/")
		}
	}
	return "harness"
}

// Sleep is a plain sleep for workload pacing (never a verdict).
func Sleep(d time.Duration) { time.Sleep(d) }
