// Package mon holds the monitors shared by all property checks: monotonic
// clock, goroutine dump parser, stuck detector, census, scheduler canary, and
// the per-case JSONL runner protocol spoken with cmd/vcheck.
package mon

import (
	"regexp"
	"runtime"
	"sort"
	"strconv"
	"strings"
	"time"
)

var t0 = time.Now()

// Now is the one monotonic clock every monitor uses (duration since process start).
func Now() time.Duration { return time.Since(t0) }

// G is one goroutine from a runtime.Stack(all) dump.
type G struct {
	ID        int
	State     string   // wait reason without the duration suffix
	Frames    []string // "func file:line", innermost first
	CreatedBy string   // function name
	Parent    int      // creator goroutine id (0 if unknown)
	Raw       string
}

var hdrRE = regexp.MustCompile(`^goroutine (\d+)(?: gp=\S+ m=\S+(?: mp=\S+)?)? \[([^\]]*)\]:$`)
var createdRE = regexp.MustCompile(`^created by (.+?)(?: in goroutine (\d+))?$`)

// Dump returns all goroutines of the process.
func Dump() []G {
	buf := make([]byte, 1<<20)
	for {
		n := runtime.Stack(buf, true)
		if n < len(buf) {
			buf = buf[:n]
			break
		}
		buf = make([]byte, 2*len(buf))
	}
	return ParseDump(string(buf))
}

// ParseDump parses the text form of a goroutine dump.
func ParseDump(s string) []G {
	var out []G
	for _, blk := range strings.Split(s, "\n\n") {
		lines := strings.Split(strings.TrimSpace(blk), "\n")
		if len(lines) == 0 {
			continue
		}
		m := hdrRE.FindStringSubmatch(lines[0])
		if m == nil {
			continue
		}
		g := G{Raw: blk}
		g.ID, _ = strconv.Atoi(m[1])
		st := m[2]
		// strip ", 2 minutes", ", locked to thread" etc.
		if i := strings.Index(st, ","); i >= 0 {
			st = st[:i]
		}
		g.State = st
		for i := 1; i < len(lines); i++ {
			ln := lines[i]
			if strings.HasPrefix(ln, "\t") {
				continue
			}
			if cm := createdRE.FindStringSubmatch(ln); cm != nil {
				g.CreatedBy = cm[1]
				if cm[2] != "" {
					g.Parent, _ = strconv.Atoi(cm[2])
				}
				continue
			}
			fn := ln
			// strip the argument list: last '(' that opens the args
			if j := strings.LastIndex(fn, "("); j > 0 {
				fn = fn[:j]
			}
			loc := ""
			if i+1 < len(lines) && strings.HasPrefix(lines[i+1], "\t") {
				loc = strings.TrimSpace(lines[i+1])
				if k := strings.Index(loc, " +0x"); k >= 0 {
					loc = loc[:k]
				}
			}
			g.Frames = append(g.Frames, fn+" "+loc)
		}
		out = append(out, g)
	}
	return out
}

const libPrefix = "go.nanomsg.org/mangos/v3"

// IsMangos reports whether a goroutine has a library frame or was created by library code.
func (g *G) IsMangos() bool {
	if strings.HasPrefix(g.CreatedBy, libPrefix) {
		return true
	}
	for _, f := range g.Frames {
		if strings.HasPrefix(f, libPrefix) {
			return true
		}
	}
	return false
}

// HasFrame reports whether any frame contains substr.
func (g *G) HasFrame(substr string) bool {
	for _, f := range g.Frames {
		if strings.Contains(f, substr) {
			return true
		}
	}
	return strings.Contains(g.CreatedBy, substr)
}

// Sig is the comparison form of a goroutine: id, state and frames (no argument values, no durations).
func (g *G) Sig() string {
	return strconv.Itoa(g.ID) + "[" + g.State + "]" + strings.Join(g.Frames, "|")
}

// Short renders a goroutine compactly for witnesses.
func (g *G) Short() string {
	n := len(g.Frames)
	if n > 6 {
		n = 6
	}
	return "g" + strconv.Itoa(g.ID) + " [" + g.State + "] " + strings.Join(g.Frames[:n], " <- ") + " (created by " + g.CreatedBy + ")"
}

var parkedStates = map[string]bool{
	"chan receive": true, "chan send": true, "select": true, "select (no cases)": true,
	"sync.Cond.Wait": true, "sync.Mutex.Lock": true, "sync.RWMutex.Lock": true, "sync.RWMutex.RLock": true,
	"semacquire": true, "IO wait": true, "chan receive (nil chan)": true, "chan send (nil chan)": true,
	"sync.WaitGroup.Wait": true,
}

// Parked reports whether the goroutine is in a wait state that only another
// goroutine, the network or a timer can end.
func (g *G) Parked() bool { return parkedStates[g.State] }

// isInfra: goroutines of the monitor itself and of the Go test runtime that are
// irrelevant to quiescence (the sampler is "running"; the canary sleeps).
func (g *G) isInfra() bool {
	for _, f := range g.Frames {
		if strings.HasPrefix(f, "verifharness/mon.(*canary)") ||
			strings.HasPrefix(f, "verifharness/mon.Dump") ||
			strings.HasPrefix(f, "os/signal.") ||
			strings.HasPrefix(f, "runtime.ensureSigM") ||
			strings.HasPrefix(f, "verifharness/mon.infraSleep") {
			return true
		}
	}
	return false
}

// Quiescence is one sample of the whole process.
type Quiescence struct {
	AllParked bool
	Sigs      string // sorted signatures of every non-infra goroutine
	Gs        []G
}

// Sample takes one quiescence sample. ignore lists frame substrings of
// goroutines that are excluded (declared periodic background activity).
func Sample(ignore ...string) Quiescence {
	gs := Dump()
	q := Quiescence{AllParked: true}
	var sigs []string
outer:
	for i := range gs {
		g := &gs[i]
		if g.isInfra() {
			continue
		}
		for _, ig := range ignore {
			if g.HasFrame(ig) {
				continue outer
			}
		}
		q.Gs = append(q.Gs, *g)
		if !g.Parked() {
			q.AllParked = false
		}
		sigs = append(sigs, g.Sig())
	}
	sort.Strings(sigs)
	q.Sigs = strings.Join(sigs, "\n")
	return q
}

// GoID returns the id of the calling goroutine.
func GoID() int {
	buf := make([]byte, 64)
	n := runtime.Stack(buf, false)
	f := strings.Fields(string(buf[:n]))
	if len(f) >= 2 {
		id, _ := strconv.Atoi(f[1])
		return id
	}
	return 0
}

func infraSleep(d time.Duration) { time.Sleep(d) }
