package props

import (
	"testing"

	_ "github.com/anishathalye/porcupine"
	_ "go.nanomsg.org/mangos/v3/transport/all"
)

func TestWarm(t *testing.T) {}
