package c08

import (
	"encoding/binary"
	"fmt"
	"sync"
	"time"

	"go.nanomsg.org/mangos/v3"

	"verifharness/hx"
	"verifharness/mon"
	"verifharness/vt"
)

// c08Churn: a STAR socket forwards a steady stream from one peer to all its other peers while those
// peers keep connecting and disconnecting.  Whatever a peer is sent while it is connected must be
// duplicate-free and in order — a disconnect elsewhere must not make the fan-out repeat or skip.
func c08Churn(c *mon.Case, sp c08Spec) {
	s := hx.MustSock(c, sp.Sock)
	name := hx.Uniq("c08c")
	L := vt.L(name)
	c.Cleanup(func() { vt.Forget(name) })
	if err := s.Listen(vt.Addr(name)); err != nil {
		c.Inconclusive("setup: %v", err)
		return
	}
	w := hx.WatchPipes(s)
	streamer := L.Connect()
	var mu sync.Mutex
	var all []*vt.Pipe
	connect := func() *vt.Pipe {
		p := L.Connect()
		mu.Lock()
		all = append(all, p)
		mu.Unlock()
		return p
	}
	nl := 3 + sp.Shape[0]
	live := make([]*vt.Pipe, nl)
	for i := range live {
		live[i] = connect()
	}
	if !hx.WaitAttached(c, w, nl+1, "star peers") {
		return
	}
	total := sp.Steps
	// the application drains the socket (a STAR member also receives what it forwards)
	s.SetOption(mangos.OptionRecvDeadline, 20*time.Millisecond)
	stop := make(chan struct{})
	var wg sync.WaitGroup
	appSeen := map[uint32]int{}
	wg.Add(1)
	go func() {
		defer wg.Done()
		for {
			select {
			case <-stop:
				return
			default:
			}
			b, err := s.Recv()
			if err != nil {
				continue
			}
			if len(b) >= 4 {
				appSeen[binary.BigEndian.Uint32(b)]++
			}
		}
	}()
	// churn: listeners leave and join all the time
	wg.Add(1)
	seed := c.Rand.Int63()
	go func() {
		defer wg.Done()
		rnd := hx.NewRand(seed)
		for {
			select {
			case <-stop:
				return
			default:
			}
			i := rnd.Intn(nl)
			live[i].Drop()
			live[i] = connect()
			mon.Sleep(time.Duration(100+rnd.Intn(600)) * time.Microsecond)
		}
	}()
	// stream
	for q := 0; q < total; q++ {
		for streamer.Pending() > 16 {
			mon.Sleep(50 * time.Microsecond)
		}
		msg := make([]byte, 12)
		// STAR wire header: hop count 0; body: sequence number
		binary.BigEndian.PutUint32(msg[4:], uint32(q+1))
		copy(msg[8:], "c08c")
		streamer.Inject(msg)
	}
	c.AwaitOrViolate("star/churn/stream-stuck", "the star socket taking the whole stream while peers churn", func() bool { return streamer.Pending() == 0 }, mon.AwaitOpts{MaxTimer: 20 * time.Millisecond, Ignore: []string{"props/c08.c08Churn"}})
	mon.Sleep(5 * time.Millisecond)
	close(stop)
	wg.Wait()
	mu.Lock()
	defer mu.Unlock()
	fwd := 0
	for pi, p := range all {
		last := uint32(0)
		for _, x := range p.SentLog() {
			wire := x.Wire()
			if len(wire) < 8 {
				c.Violate("star/churn/short-forward", "peer %d was sent %x", pi, wire)
				return
			}
			seq := binary.BigEndian.Uint32(wire[4:])
			if seq == last {
				c.Violate("star/churn/duplicate", "peer connection %d was sent message %d twice in a row while other peers were disconnecting (%s)", pi, seq, sp.Sock)
				return
			}
			if seq < last {
				c.Violate("star/churn/reordered", "peer connection %d was sent message %d after message %d", pi, seq, last)
				return
			}
			last = seq
			fwd++
		}
	}
	for seq, n := range appSeen {
		if n > 1 {
			c.Violate("star/churn/app-duplicate", "the application received message %d %d times", seq, n)
			break
		}
	}
	if sent := streamer.SentCount(); sent != 0 {
		c.Violate("star/churn/echo-to-sender", "the streaming peer was sent %d messages back", sent)
	}
	c.Count("churn_forwards", fwd)
	c.Count("churn_connections", len(all))
	if fwd > 0 && len(all) > nl {
		c.Nontrivial()
	}
	c.Sig("churn|%s|%d|%d", sp.Sock, nl, len(all)/8)
	_ = fmt.Sprint
	_ = mangos.ErrClosed
}
