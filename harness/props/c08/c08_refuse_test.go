package c08

import (
	"fmt"
	"sync"
	"time"

	"go.nanomsg.org/mangos/v3"

	"verifharness/hx"
	"verifharness/mon"
)

// Refused connections (topology cases with Spec.Refuse > 0).
//
// An application may close a pipe in its pipe event hook while the pipe is still attaching (an
// admission check).  The member then is not connected over that pipe; its dialer (or the peer's)
// connects again after the reconnect time and a later connection is admitted.  Nothing in the
// property statement changes: the two sockets are still ONE pair of directly connected peers, so
// once the link is up every message crosses it once — not once per connection attempt.
//
// c08Refuser is the hook state of one case: how many more connections each dialer / listener of the
// case still has to refuse.
type c08Refuser struct {
	mu      sync.Mutex
	left    map[interface{}]int // mangos.Dialer | mangos.Listener -> connections still to refuse
	refused int
}

// hook returns the pipe event hook for one socket: refuse what is to be refused, count the rest in w.
func (r *c08Refuser) hook(w *hx.PipeWatch) mangos.PipeEventHook {
	inner := hx.WatchPipesFunc(w)
	return func(ev mangos.PipeEvent, p mangos.Pipe) {
		if ev == mangos.PipeEventAttaching {
			var key interface{}
			if d := p.Dialer(); d != nil {
				key = d
			} else if l := p.Listener(); l != nil {
				key = l
			}
			r.mu.Lock()
			n := r.left[key]
			if n > 0 {
				r.left[key] = n - 1
				r.refused++
			}
			r.mu.Unlock()
			if n > 0 {
				_ = p.Close()
				return
			}
		}
		inner(ev, p)
	}
}

func (r *c08Refuser) set(key interface{}, n int) {
	r.mu.Lock()
	r.left[key] = n
	r.mu.Unlock()
}

func (r *c08Refuser) outstanding() (left, refused int) {
	r.mu.Lock()
	defer r.mu.Unlock()
	for _, n := range r.left {
		left += n
	}
	return left, r.refused
}

// c08RefusePlan says, per link, which end refuses how many connections.
type c08RefusePlan struct {
	side string // "" | dial | listen
	n    int
}

// c08ConnectRefusing is hx.Connect for a link whose connections may be refused: the dialer gets a
// short reconnect time and the refusals are registered before the first connection is made.
func c08ConnectRefusing(ref *c08Refuser, srv, cli mangos.Socket, tr string, plan c08RefusePlan, rt time.Duration) error {
	l, err := srv.NewListener(hx.ListenAddr(tr), nil)
	if err != nil {
		return fmt.Errorf("NewListener: %w", err)
	}
	if err := l.Listen(); err != nil {
		return fmt.Errorf("Listen: %w", err)
	}
	d, err := cli.NewDialer(l.Address(), nil)
	if err != nil {
		return fmt.Errorf("NewDialer(%s): %w", l.Address(), err)
	}
	if err := d.SetOption(mangos.OptionReconnectTime, rt); err != nil {
		return fmt.Errorf("ReconnectTime: %w", err)
	}
	switch plan.side {
	case "dial":
		ref.set(d, plan.n)
	case "listen":
		ref.set(l, plan.n)
	}
	if err := d.Dial(); err != nil {
		return fmt.Errorf("Dial(%s): %w", l.Address(), err)
	}
	return nil
}

// c08WaitLinked waits until a socket side has all its links up: every connection the OTHER end
// refused has come and gone here (it attaches here, then is seen closed), and as many connections
// as the side has links are attached on top of that.
func c08WaitLinked(c *mon.Case, w *hx.PipeWatch, links, stale int, rt time.Duration, what string) bool {
	return c.AwaitOrViolate("harness:attach-stuck:"+what, "waiting for "+what+" to be connected", func() bool {
		return w.Detached() >= stale && w.Live() >= links
	}, mon.AwaitOpts{MaxTimer: 4 * rt})
}
