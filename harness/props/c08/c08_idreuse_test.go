//go:build verif

package c08

import (
	"bytes"
	"time"

	"go.nanomsg.org/mangos/v3"

	"verifharness/hx"
	"verifharness/mon"
	"verifharness/vt"
)

// c08Late: a raw BUS forwarder still holds a message it received from peer X when X leaves and an
// unrelated peer Y joins.  Re-sending the message sends it "to every peer except the one it came
// from": Y is not the one it came from, whatever identifier Y's connection was given, so Y gets it,
// and so does every older peer; X's connection is gone.
func c08Late(c *mon.Case, sp c08Spec) {
	s := hx.MustSock(c, "xbus")
	name := hx.Uniq("c08l")
	L := vt.L(name)
	c.Cleanup(func() { vt.Forget(name) })
	if err := s.Listen(vt.Addr(name)); err != nil {
		c.Inconclusive("setup: %v", err)
		return
	}
	w := hx.WatchPipes(s)
	x := L.Connect()
	nz := 1 + sp.Shape[0]
	var zs []*vt.Pipe
	for i := 0; i < nz; i++ {
		zs = append(zs, L.Connect())
	}
	if !hx.WaitAttached(c, w, nz+1, "bus peers") {
		return
	}
	// first: two messages from X; the application scribbles over the first one's header (it owns that
	// message) and frees it, then re-sends the second unchanged: that still goes to everyone but X
	{
		b1, b2 := []byte("scribble-"+hx.Uniq("m")), []byte("keep-"+hx.Uniq("m"))
		x.Inject(b1)
		x.Inject(b2)
		var ms [2]*mangos.Message
		for i := range ms {
			rk := mon.Go("RecvMsg", func() (interface{}, error) { return s.RecvMsg() })
			if !c.AwaitOrViolate("bus/late/recv-stuck", "the forwarder receiving X's messages", rk.Done, mon.AwaitOpts{}) {
				return
			}
			v, err, _ := rk.Result()
			if err != nil {
				c.Inconclusive("RecvMsg: %v", err)
				return
			}
			ms[i] = v.(*mangos.Message)
		}
		for i := range ms[0].Header {
			ms[0].Header[i] = 0xEE
		}
		ms[0].Free()
		xBefore := x.SentCount()
		sk := mon.Go("SendMsg", func() (interface{}, error) { return nil, s.SendMsg(ms[1]) })
		if !c.AwaitOrViolate("bus/late/send-stuck", "re-sending X's second message", sk.Done, mon.AwaitOpts{}) {
			return
		}
		if !c.AwaitOrViolate("bus/late/missing", "the re-sent message reaching every peer but its source", func() bool {
			for _, z := range zs {
				found := false
				for _, t := range z.SentLog() {
					if bytes.Equal(t.Body, b2) {
						found = true
					}
				}
				if !found {
					return false
				}
			}
			return true
		}, mon.AwaitOpts{}) {
			return
		}
		mon.Sleep(time.Millisecond)
		if x.SentCount() != xBefore {
			c.Violate("bus/late/echo-to-sender", "after the application overwrote the header of ANOTHER message from the same peer, a re-sent message went back to the peer it came from")
			return
		}
	}
	rounds := 3 + c.Rand.Intn(4)
	for r := 0; r < rounds && !c.Failed(); r++ {
		body := []byte("late-" + hx.Uniq("m"))
		x.Inject(body)
		rk := mon.Go("RecvMsg", func() (interface{}, error) { return s.RecvMsg() })
		if !c.AwaitOrViolate("bus/late/recv-stuck", "the forwarder receiving X's message", rk.Done, mon.AwaitOpts{}) {
			return
		}
		v, err, _ := rk.Result()
		if err != nil {
			c.Inconclusive("RecvMsg: %v", err)
			return
		}
		m := v.(*mangos.Message)
		before := w.Detached()
		x.Drop()
		if !c.AwaitOrViolate("harness:detach", "X's connection being detached", func() bool { return w.Detached() > before }, mon.AwaitOpts{}) {
			return
		}
		att := w.Attached()
		y := L.Connect()
		if !c.AwaitOrViolate("harness:attach", "Y attaching", func() bool { return w.Attached() > att }, mon.AwaitOpts{}) {
			return
		}
		sk := mon.Go("SendMsg", func() (interface{}, error) { return nil, s.SendMsg(m) })
		if !c.AwaitOrViolate("bus/late/send-stuck", "re-sending X's message", sk.Done, mon.AwaitOpts{}) {
			return
		}
		if _, err, _ := sk.Result(); err != nil {
			m.Free()
			c.Violate("bus/late/send-error", "re-sending returned %v", err)
			return
		}
		has := func(p *vt.Pipe) bool {
			for _, t := range p.SentLog() {
				if bytes.Equal(t.Body, body) {
					return true
				}
			}
			return false
		}
		if !c.AwaitOrViolate("bus/late/missing", "the re-sent message reaching the peer that joined after its source left (and every older peer)", func() bool {
			if !has(y) {
				return false
			}
			for _, z := range zs {
				if !has(z) {
					return false
				}
			}
			return true
		}, mon.AwaitOpts{}) {
			return
		}
		x = y // next round: Y is the source
	}
	c.Count("late_forwards_checked", rounds)
	c.Nontrivial()
	c.Sig("late|%d|%d", nz, rounds)
}
