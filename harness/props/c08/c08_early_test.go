package c08

import (
	"fmt"
	"time"

	"go.nanomsg.org/mangos/v3"

	"verifharness/hx"
	"verifharness/mon"
)

// c08ConnectEarly joins two sockets the way an application that does not wait for its peer does:
// the dialing side dials the (inproc / ipc) address synchronously nf times while nobody listens
// there — each of those dials fails — then the other side starts listening and the dialing side
// dials the same address once more.  The two sockets are one pair of directly connected peers.
// The returned string names the step an error belongs to.
func c08ConnectEarly(srv, cli mangos.Socket, tr string, nf int, reconn time.Duration) (string, error) {
	addr := hx.ListenAddr(tr)
	// a short reconnect interval: whatever the library (wrongly) keeps retrying shows up soon
	if err := cli.SetOption(mangos.OptionReconnectTime, reconn); err != nil {
		return "SetOption(ReconnectTime)", err
	}
	for k := 0; k < nf; k++ {
		if err := cli.Dial(addr); err == nil {
			return "early dial", fmt.Errorf("Dial(%s) succeeded although nobody listens there", addr)
		}
	}
	if err := srv.Listen(addr); err != nil {
		return "Listen", err
	}
	if err := cli.Dial(addr); err != nil {
		return "dial after the listener exists", err
	}
	return "", nil
}

// c08Reopt changes queue-length options on connected sockets of the topology at a round barrier.
// One member (chosen at random) always gets one, every other socket with probability 1/3.  first:
// the always-changed member gets WRITEQ-LEN (so that every case has at least one send-side change).
func c08Reopt(c *mon.Case, g *c08Graph, first bool) (int, error) {
	wvals := []int{128, 129, 200, 256, 1000, 4096}
	rvals := []int{0, 1, 2, 16, 127, 128, 300}
	var mem []int
	for ni, n := range g.nodes {
		if n.role == "member" {
			mem = append(mem, ni)
		}
	}
	always := mem[c.Rand.Intn(len(mem))]
	done := 0
	for ni, n := range g.nodes {
		for _, s := range n.socks {
			if ni != always && c.Rand.Intn(3) != 0 {
				continue
			}
			opt, v := mangos.OptionWriteQLen, wvals[c.Rand.Intn(len(wvals))]
			// a device's receive side is left alone: its forwarding loop owns that queue
			if n.role == "member" && c.Rand.Intn(2) == 0 && !(first && ni == always) {
				opt, v = mangos.OptionReadQLen, rvals[c.Rand.Intn(len(rvals))]
			}
			if err := s.SetOption(opt, v); err != nil {
				return done, fmt.Errorf("node %d (%s): SetOption(%s, %d): %v", ni, n.role, opt, v, err)
			}
			done++
			if opt == mangos.OptionWriteQLen {
				c.Count("writeqlen_set_on_connected_"+n.role, 1)
			} else {
				c.Count("readqlen_set_on_connected_"+n.role, 1)
			}
		}
	}
	return done, nil
}
