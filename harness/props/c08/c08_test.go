package c08

import (
	"bytes"
	"fmt"
	"math/rand"
	"runtime"
	"sort"
	"strings"
	"sync"
	"testing"
	"time"

	"go.nanomsg.org/mangos/v3"

	"verifharness/hx"
	"verifharness/mon"
)

// C08 — BUS and STAR reach every other member once and never echo to the sender.
//
// Two families of cases:
//
//   topology cases (c08_test.go): real sockets joined over inproc/tcp in a
//   generated topology (BUS: full mesh, chain, reflector hub, two-socket bridge,
//   two linked hubs; STAR: star, two-level tree, path).  A reference model
//   propagates "who must receive whose messages" through the graph from the
//   property statement.  Every member sends w<=16 tagged messages then a
//   per-origin sentinel, concurrently, in barrier-separated rounds; a member that
//   holds origin Y's sentinel must hold exactly Y's messages, once each,
//   unmodified; own-origin and not-expected origins must never appear (absence is
//   forced to be visible by trailing flush rounds: FIFO + sentinel).
//
//   vt cases (c08_vt_test.go): one BUS/XBUS/STAR/XSTAR socket whose peers are all
//   vt pipes; the harness chooses the pipe a message arrives on and reads every
//   transmission per pipe up to an application-sent sentinel.

type c08Spec struct {
	Kind   string `json:"kind"`            // mesh chain hub bridge hubs | star tree path | vt
	Fam    string `json:"fam"`             // bus | star
	Shape  []int  `json:"shape"`           // kind-specific sizes
	Raw    uint32 `json:"raw"`             // bit i: member i is a raw (xbus/xstar) endpoint
	Dev    string `json:"dev,omitempty"`   // device flavour: same (Device(x,x)) | nil (Device(x,nil)) | manual | two (Device(x1,x2))
	Tr     string `json:"tr,omitempty"`    // inproc | ipc | tcp | mix (per link)
	Rounds int    `json:"rounds"`          // data rounds
	W      int    `json:"w"`               // max data messages per member per round
	Procs  int    `json:"procs,omitempty"` // GOMAXPROCS during the case (0 = unchanged)
	Sock   string `json:"sock,omitempty"`  // vt kind: bus xbus star xstar
	Steps  int    `json:"steps,omitempty"` // vt kind: number of inject/send/sentinel steps
	TTL    string `json:"ttl,omitempty"`   // star topologies: "tight" = every member's TTL is set to the longest path of the topology
	Refuse int    `json:"refuse,omitempty"` // topology cases: on this many links a pipe event hook closes the first connection(s) while they are attaching
	Early  int    `json:"early,omitempty"`  // topology cases: on this many links the dialing side first dials (synchronously, 1..2 times) before the other side listens — refused — and dials again once it does
	Reopt  int    `json:"reopt,omitempty"`  // topology cases: between rounds connected members get SetOption(WRITEQ-LEN / READQ-LEN, n)
}

func (sp c08Spec) String() string {
	return fmt.Sprintf("%s/%s%v raw=%b dev=%s tr=%s r=%d w=%d p=%d %s/%d rf=%d", sp.Fam, sp.Kind, sp.Shape, sp.Raw, sp.Dev, sp.Tr, sp.Rounds, sp.W, sp.Procs, sp.Sock, sp.Steps, sp.Refuse) + fmt.Sprintf(" early=%d reopt=%d", sp.Early, sp.Reopt)
}

func TestMain(m *testing.M) { hx.Main(m) }

func TestC08(t *testing.T) {
	r := mon.NewRunner(t, "C08")
	rnd := r.Rand()
	var cases []mon.CaseSpec
	procs := []int{0, 0, 1, 2, 4}
	// tcp is used sparingly: every connection leaves a TIME_WAIT entry for a minute and the
	// machine-wide ephemeral port range is shared with the other checks; ipc exercises the same
	// stream-transport code without that limit.
	pickTr := func() string {
		x := rnd.Intn(100)
		switch {
		case x < 50:
			return "inproc"
		case x < 72:
			return "ipc"
		case x < 72+r.Pick(10, 4):
			return "tcp"
		}
		return "mix"
	}
	rounds := func() int { return r.Pick(5, 20) }
	ntopo, nvt := r.Pick(3000, 60000), r.Pick(2000, 40000)
	genTopo := func(i int) c08Spec {
		sp := c08Spec{Tr: pickTr(), Rounds: rounds(), W: 16, Procs: procs[rnd.Intn(len(procs))], Raw: rnd.Uint32()}
		switch x := rnd.Intn(100); {
		case x < 20:
			sp.Fam, sp.Kind, sp.Shape = "bus", "mesh", []int{2 + rnd.Intn(4)}
		case x < 32:
			sp.Fam, sp.Kind, sp.Shape = "bus", "chain", []int{3 + rnd.Intn(3)}
		case x < 46:
			sp.Fam, sp.Kind, sp.Shape = "bus", "hub", []int{2 + rnd.Intn(4)}
			sp.Dev = []string{"same", "nil", "manual"}[rnd.Intn(3)]
		case x < 56:
			sp.Fam, sp.Kind, sp.Shape = "bus", "bridge", []int{1 + rnd.Intn(3), 1 + rnd.Intn(3)}
			sp.Dev = []string{"two", "manual"}[rnd.Intn(2)]
		case x < 61:
			sp.Fam, sp.Kind, sp.Shape = "bus", "hubs", []int{1 + rnd.Intn(3), 1 + rnd.Intn(3)}
			sp.Dev = []string{"same", "nil", "manual"}[rnd.Intn(3)]
		case x < 64:
			sp.Fam, sp.Kind, sp.Shape = "bus", "bridgehub", []int{1 + rnd.Intn(3), 1 + rnd.Intn(3)}
			sp.Dev = "clone"
		case x < 80:
			sp.Fam, sp.Kind, sp.Shape = "star", "star", []int{2 + rnd.Intn(4)}
		case x < 92:
			// root + b mid nodes, each with 0..2 leaves (at most 8 members)
			b := 2 + rnd.Intn(2)
			sh := []int{b}
			for j := 0; j < b; j++ {
				sh = append(sh, rnd.Intn(3))
			}
			sp.Fam, sp.Kind, sp.Shape = "star", "tree", sh
		default:
			sp.Fam, sp.Kind, sp.Shape = "star", "path", []int{2 + rnd.Intn(4)}
		}
		if sp.Fam == "star" && i%3 == 0 {
			sp.TTL = "tight"
		}
		return sp
	}
	for i := 0; i < ntopo; i++ {
		sp := genTopo(i)
		cases = append(cases, mon.CaseSpec{Name: sp.Fam + "-" + sp.Kind, Spec: sp})
	}
	for i := 0; i < nvt; i++ {
		sp := c08Spec{Kind: "vt", Sock: []string{"bus", "xbus", "star", "xstar"}[rnd.Intn(4)], Shape: []int{1 + rnd.Intn(5)}, Steps: r.Pick(12, 30), Procs: procs[rnd.Intn(len(procs))]}
		sp.Fam = strings.TrimPrefix(sp.Sock, "x")
		cases = append(cases, mon.CaseSpec{Name: "vt-" + sp.Sock, Spec: sp})
	}
	for i := 0; i < r.Pick(40, 600); i++ {
		sp := c08Spec{Kind: "churn", Fam: "star", Sock: []string{"star", "xstar"}[i%2], Shape: []int{rnd.Intn(4)}, Steps: 1500 + rnd.Intn(2500), Procs: procs[rnd.Intn(len(procs))]}
		cases = append(cases, mon.CaseSpec{Name: "churn-" + sp.Sock, Spec: sp})
	}
	for i := 0; i < r.Pick(12, 400); i++ {
		cases = append(cases, mon.CaseSpec{Name: "late-xbus", Spec: c08Spec{Kind: "late", Fam: "bus", Sock: "xbus", Shape: []int{rnd.Intn(3)}}})
	}
	for i := 0; i < r.Pick(48, 1200); i++ {
		sock := []string{"bus", "xbus", "star", "xstar"}[i%4]
		sp := c08Spec{Kind: "stalled", Fam: strings.TrimPrefix(sock, "x"), Sock: sock, Shape: []int{rnd.Intn(3), rnd.Intn(3)}, Steps: i / 4}
		cases = append(cases, mon.CaseSpec{Name: "stalled-" + sp.Sock, Spec: sp})
	}
	for i := 0; i < r.Pick(36, 900); i++ {
		sp := c08Spec{Kind: "resize", Fam: "star", Sock: []string{"star", "xstar"}[i%2], Shape: []int{rnd.Intn(3), (i / 2) % 3}}
		cases = append(cases, mon.CaseSpec{Name: "resize-" + sp.Sock, Spec: sp})
	}
	// the same topologies, but members join the way an application with an admission check sees it: on
	// one or two links a pipe event hook closes the first connection(s) while they are attaching (on the
	// dialing or on the listening side) and admits a later one
	for i := 0; i < r.Pick(200, 5000); i++ {
		sp := genTopo(i)
		sp.Refuse = 1 + rnd.Intn(2)
		cases = append(cases, mon.CaseSpec{Name: sp.Fam + "-" + sp.Kind + "-refuse", Spec: sp})
	}
	// the same topologies, joined by an application that does not wait for its peers: on one or two links
	// (or on all) the dialing member's first synchronous Dial comes before the other side listens and
	// fails; it dials the same address again once the listener exists
	for i := 0; i < r.Pick(120, 3000); i++ {
		sp := genTopo(i)
		sp.Early = 1 + rnd.Intn(3)
		cases = append(cases, mon.CaseSpec{Name: sp.Fam + "-" + sp.Kind + "-early", Spec: sp})
	}
	// the same topologies, with queue-length options changed on connected sockets between rounds
	for i := 0; i < r.Pick(120, 3000); i++ {
		sp := genTopo(i)
		sp.Reopt = 1
		cases = append(cases, mon.CaseSpec{Name: sp.Fam + "-" + sp.Kind + "-reopt", Spec: sp})
	}
	r.Run(cases, func(c *mon.Case) {
		sp := c.Spec.(c08Spec)
		if sp.Procs > 0 {
			old := runtime.GOMAXPROCS(sp.Procs)
			c.Cleanup(func() { runtime.GOMAXPROCS(old) })
		}
		if sp.Kind == "late" {
			c08Late(c, sp)
		} else if sp.Kind == "stalled" {
			c08Stalled(c, sp)
		} else if sp.Kind == "resize" {
			c08Resize(c, sp)
		} else if sp.Kind == "churn" {
			c08Churn(c, sp)
		} else if sp.Kind == "vt" {
			c08VT(c, sp)
		} else {
			c08Topo(c, sp)
		}
	})
}

// ---- topology ------------------------------------------------------------------

type c08Node struct {
	role   string // member | hub | bridge
	member int    // member index, -1 for devices
	raw    bool
	socks  []mangos.Socket
	watch  []*hx.PipeWatch
	links  [][]int // per socket side: link indices
}

type c08Link struct {
	a, as, b, bs int // node a (socket side as) listens, node b (side bs) dials
	tr           string
}

type c08Graph struct {
	fam   string
	nodes []*c08Node
	links []c08Link
	nmem  int
}

func (g *c08Graph) addNode(role string, raw bool) int {
	n := &c08Node{role: role, member: -1, raw: raw, links: [][]int{nil}}
	if role == "bridge" || role == "bridgehub" {
		n.links = [][]int{nil, nil}
	}
	if role == "member" {
		n.member = g.nmem
		g.nmem++
	}
	g.nodes = append(g.nodes, n)
	return len(g.nodes) - 1
}

func (g *c08Graph) addLink(a, as, b, bs int) {
	g.links = append(g.links, c08Link{a: a, as: as, b: b, bs: bs})
	li := len(g.links) - 1
	g.nodes[a].links[as] = append(g.nodes[a].links[as], li)
	g.nodes[b].links[bs] = append(g.nodes[b].links[bs], li)
}

// far returns the node and socket side at the other end of link li seen from node u.
func (g *c08Graph) far(li, u int) (int, int) {
	l := g.links[li]
	if l.a == u {
		return l.b, l.bs
	}
	return l.a, l.as
}

// c08Model is the reference model: for every origin member, which members must
// receive its messages how many times, how many hops that takes, and how many
// messages per origin-message each (node, link) direction carries.
type c08Model struct {
	count   [][]int        // [origin][member] deliveries per message sent
	depth   int            // longest propagation path in links
	traffic map[[2]int]int // (sending node, link) -> messages per round if every member sends one
}

func (g *c08Graph) model() *c08Model {
	m := &c08Model{traffic: map[[2]int]int{}}
	m.count = make([][]int, g.nmem)
	var prop func(o, u, li, d int)
	prop = func(o, u, li, d int) {
		if d > 12 {
			panic("c08: generated topology has a forwarding loop")
		}
		if d > m.depth {
			m.depth = d
		}
		m.traffic[[2]int{u, li}]++
		v, side := g.far(li, u)
		n := g.nodes[v]
		var out []int
		switch n.role {
		case "member":
			m.count[o][n.member]++
			if g.fam == "star" { // STAR members forward to all their other peers
				out = n.links[0]
			}
		case "hub": // raw BUS re-sending on the same socket: every peer except the source
			out = n.links[0]
		case "bridge": // raw BUS re-sending on the other socket: all of its peers
			out = n.links[1-side]
		case "bridgehub": // both: the other segment, and the rest of the segment it came from
			out = append(append([]int{}, n.links[0]...), n.links[1]...)
		}
		for _, lj := range out {
			if lj != li {
				prop(o, v, lj, d+1)
			}
		}
	}
	for u, n := range g.nodes {
		if n.role != "member" {
			continue
		}
		m.count[n.member] = make([]int, g.nmem)
		for _, li := range n.links[0] {
			prop(n.member, u, li, 1)
		}
	}
	return m
}

func c08Build(sp c08Spec) *c08Graph {
	g := &c08Graph{fam: sp.Fam}
	raw := func() bool { b := sp.Raw&(1<<uint(g.nmem)) != 0; return b }
	mem := func() int { return g.addNode("member", raw()) }
	switch sp.Kind {
	case "mesh":
		k := sp.Shape[0]
		for i := 0; i < k; i++ {
			mem()
		}
		for i := 0; i < k; i++ {
			for j := i + 1; j < k; j++ {
				g.addLink(i, 0, j, 0)
			}
		}
	case "chain", "path":
		k := sp.Shape[0]
		for i := 0; i < k; i++ {
			mem()
			if i > 0 {
				g.addLink(i-1, 0, i, 0)
			}
		}
	case "hub":
		h := g.addNode("hub", true)
		for i := 0; i < sp.Shape[0]; i++ {
			g.addLink(h, 0, mem(), 0)
		}
	case "bridge":
		h := g.addNode("bridge", true)
		for side := 0; side < 2; side++ {
			for i := 0; i < sp.Shape[side]; i++ {
				g.addLink(h, side, mem(), 0)
			}
		}
	case "bridgehub":
		h := g.addNode("bridgehub", true)
		for side := 0; side < 2; side++ {
			for i := 0; i < sp.Shape[side]; i++ {
				g.addLink(h, side, mem(), 0)
			}
		}
	case "hubs":
		h1 := g.addNode("hub", true)
		h2 := g.addNode("hub", true)
		g.addLink(h1, 0, h2, 0)
		for i := 0; i < sp.Shape[0]; i++ {
			g.addLink(h1, 0, mem(), 0)
		}
		for i := 0; i < sp.Shape[1]; i++ {
			g.addLink(h2, 0, mem(), 0)
		}
	case "star":
		ctr := mem()
		for i := 0; i < sp.Shape[0]; i++ {
			g.addLink(ctr, 0, mem(), 0)
		}
	case "tree":
		root := mem()
		for i := 0; i < sp.Shape[0]; i++ {
			mid := mem()
			g.addLink(root, 0, mid, 0)
			for j := 0; j < sp.Shape[1+i]; j++ {
				g.addLink(mid, 0, mem(), 0)
			}
		}
	default:
		panic("c08: kind " + sp.Kind)
	}
	return g
}

// ---- payloads ------------------------------------------------------------------

const c08Magic = 0xC8

// payload: magic, origin, phase, seq, kind(0 data / 1 sentinel), 8-byte case nonce, filler
func c08Payload(origin, phase, seq int, sentinel bool, nonce []byte, filler []byte) []byte {
	k := byte(0)
	if sentinel {
		k = 1
	}
	b := []byte{c08Magic, byte(origin), byte(phase), byte(seq), k}
	b = append(b, nonce...)
	return append(b, filler...)
}

type c08Key struct{ o, ph, seq int }

// c08Rx is the per-member receive monitor.
type c08Rx struct {
	mu       sync.Mutex
	got      map[c08Key]int
	sentinel map[[2]int]bool // (origin, phase)
	lastO    int
	switches int
	n        int
	exitErr  error
	exited   bool
}

func c08Topo(c *mon.Case, sp c08Spec) {
	g := c08Build(sp)
	model := g.model()
	nm := g.nmem
	fam, kind := sp.Fam, sp.Kind
	pre := fam + "/" + kind
	if sp.Dev != "" {
		pre += "-" + sp.Dev
	}
	if sp.Refuse > 0 {
		pre += "/after-refusal"
	}
	if sp.Early > 0 {
		pre += "/after-early-dial"
	}
	if sp.Reopt > 0 {
		pre += "/qlen-changed"
	}

	// lossless bound: per round no (node, link) send queue ever has to hold more than 100 < 128 messages
	maxT := 1
	for _, t := range model.traffic {
		if t > maxT {
			maxT = t
		}
	}
	// a member's receive queue is fed by blocking sends (back-pressure), so only send queues bound the burst
	wmax := sp.W
	if lim := 100/maxT - 1; wmax > lim {
		wmax = lim
	}
	if wmax < 1 {
		wmax = 1
	}
	flush := model.depth + 1 // absence needs (wrong path length - 1) trailing sentinel rounds; no loop-free path is longer than depth+1
	if kind == "chain" {
		flush = nm // a non-forwarding chain: a wrong path can be as long as the chain
	}
	phases := sp.Rounds + flush

	// pre-generate every payload (read-only once traffic starts)
	nonce := make([]byte, 8)
	c.Rand.Read(nonce)
	sent := map[c08Key][]byte{}
	nsend := make([][]int, nm) // [origin][phase] number of data messages
	for o := 0; o < nm; o++ {
		nsend[o] = make([]int, phases)
		for ph := 0; ph < phases; ph++ {
			w := 0
			if ph < sp.Rounds {
				w = c.Rand.Intn(wmax + 1)
			}
			nsend[o][ph] = w
			for s := 0; s <= w; s++ {
				// mostly short payloads; one in eight is up to ~560 bytes long, so that totals on and around
				// the 512-byte mark (with and without STAR's 4-byte header) travel the topology too
				fln := c.Rand.Intn(48)
				if c.Rand.Intn(8) == 0 {
					fln = 440 + c.Rand.Intn(120)
				}
				fl := make([]byte, fln)
				c.Rand.Read(fl)
				sent[c08Key{o, ph, s}] = c08Payload(o, ph, s, s == w, nonce, fl)
			}
		}
	}

	rx := make([]*c08Rx, nm)
	for i := range rx {
		rx[i] = &c08Rx{got: map[c08Key]int{}, sentinel: map[[2]int]bool{}, lastO: -1}
	}
	// registered first so that it runs last: after the sockets are closed every helper goroutine must be gone
	var helpers sync.WaitGroup
	c.Cleanup(func() {
		w := mon.Go("helpers", func() (interface{}, error) { helpers.Wait(); return nil, nil })
		if r := w.Wait(mon.AwaitOpts{}); r.V != mon.Done {
			c.Inconclusive("receiver/device goroutines did not exit after Close (%v)", r.V)
		}
	})

	// sockets
	ref := &c08Refuser{left: map[interface{}]int{}}
	memNode := make([]*c08Node, nm)
	for _, n := range g.nodes {
		proto := fam
		if n.raw {
			proto = "x" + fam
		}
		ns := 1
		if n.role == "bridge" || n.role == "bridgehub" {
			ns = 2
		}
		for i := 0; i < ns; i++ {
			s := hx.MustSock(c, proto)
			if fam == "star" && sp.TTL == "tight" {
				// the farthest member is model.depth connections away: a hop limit of exactly that still
				// lets every message reach every member
				if err := s.SetOption(mangos.OptionTTL, model.depth); err != nil {
					c.Violate(pre+"/ttl-rejected", "SetOption(TTL, %d) on %s: %v", model.depth, proto, err)
					return
				}
				c.Count("star_members_with_ttl_equal_to_longest_path", 1)
			}
			n.socks = append(n.socks, s)
			if sp.Refuse > 0 {
				w := &hx.PipeWatch{}
				s.SetPipeEventHook(ref.hook(w))
				n.watch = append(n.watch, w)
			} else {
				n.watch = append(n.watch, hx.WatchPipes(s))
			}
		}
		if n.role == "member" {
			memNode[n.member] = n
		}
	}
	// links
	plans := make([]c08RefusePlan, len(g.links))
	var reconn time.Duration
	if sp.Refuse > 0 {
		reconn = []time.Duration{time.Millisecond, 2 * time.Millisecond, 5 * time.Millisecond, 10 * time.Millisecond}[c.Rand.Intn(4)]
		for k, li := range c.Rand.Perm(len(g.links)) { // the first Refuse links of a random order (all, if there are fewer)
			if k >= sp.Refuse {
				break
			}
			plans[li] = c08RefusePlan{side: []string{"dial", "dial", "listen"}[c.Rand.Intn(3)], n: 1 + c.Rand.Intn(2)}
		}
	}
	early := map[int]int{} // link -> number of dials made before the listener exists
	var reconnE time.Duration
	if sp.Early > 0 {
		reconnE = []time.Duration{time.Millisecond, 2 * time.Millisecond, 5 * time.Millisecond}[c.Rand.Intn(3)]
		for k, li := range c.Rand.Perm(len(g.links)) {
			if k >= sp.Early && sp.Early < 3 { // 3 = every link
				break
			}
			early[li] = 1 + c.Rand.Intn(2)
		}
	}
	stale := map[[2]int]int{} // (node, socket side) -> connections that attach there and are then closed by the other end's refusal
	for i := range g.links {
		l := &g.links[i]
		l.tr = sp.Tr
		if sp.Tr == "mix" {
			l.tr = []string{"inproc", "inproc", "ipc", "ipc", "tcp"}[c.Rand.Intn(5)]
		}
		a, as, b, bs := l.a, l.as, l.b, l.bs
		if c.Rand.Intn(2) == 0 { // either end may be the listener
			a, as, b, bs = b, bs, a, as
		}
		if sp.Refuse > 0 {
			// a listens, b dials
			switch plans[i].side {
			case "dial":
				stale[[2]int{a, as}] += plans[i].n
				c.Count("links_whose_dialing_side_refused_first", 1)
			case "listen":
				stale[[2]int{b, bs}] += plans[i].n
				c.Count("links_whose_listening_side_refused_first", 1)
			}
			if err := c08ConnectRefusing(ref, g.nodes[a].socks[as], g.nodes[b].socks[bs], l.tr, plans[i], reconn); err != nil {
				c.Inconclusive("connect %s: %v", l.tr, err)
				return
			}
			continue
		}
		if nf := early[i]; nf > 0 {
			if l.tr == "tcp" { // a tcp address is only known once the listener exists
				l.tr = "ipc"
			}
			st, err := c08ConnectEarly(g.nodes[a].socks[as], g.nodes[b].socks[bs], l.tr, nf, reconnE)
			if err != nil {
				c.Inconclusive("connect %s (%s): %v", l.tr, st, err)
				return
			}
			c.Count("synchronous_dials_refused_before_the_peer_listened", nf)
			c.Count("links_joined_by_a_second_dial_after_a_refused_one", 1)
			continue
		}
		if _, _, err := hx.Connect(g.nodes[a].socks[as], g.nodes[b].socks[bs], l.tr); err != nil {
			c.Inconclusive("connect %s: %v", l.tr, err)
			return
		}
	}
	for ni, n := range g.nodes {
		for side := range n.socks {
			what := fmt.Sprintf("node %d side %d (%d links)", ni, side, len(n.links[side]))
			if sp.Refuse > 0 {
				if !c08WaitLinked(c, n.watch[side], len(n.links[side]), stale[[2]int{ni, side}], reconn, what) {
					return
				}
			} else if !hx.WaitAttached(c, n.watch[side], len(n.links[side]), what) {
				return
			}
		}
	}
	if sp.Refuse > 0 {
		left, refused := ref.outstanding()
		if left != 0 {
			c.Violate("harness:refusals-outstanding", "every link is up but %d planned refusals never happened (%d did)", left, refused)
			return
		}
		c.Count("connections_closed_by_hook_while_attaching", refused)
	}

	if sp.Early > 0 {
		// every link is up.  A dial that was refused is over: nothing of it may connect later.  Give a
		// (wrong) background retry of it several reconnect intervals to show up before and during traffic;
		// the verdict is only ever the delivery oracle below (a second connection = every message twice).
		mon.Sleep(8 * reconnE)
	}

	// relayed sends: some cooked members send part of their data with SendMsg in a message that still
	// carries a protocol header from wherever the application took it (a gateway relaying what it
	// received on a raw socket).  A cooked send does not look at the caller's header: the message is
	// one this member sends, so every peer gets the body, once, unchanged.  Planned now (pipe ids are
	// known), read-only once traffic starts.
	hdrOf := map[c08Key][]byte{}
	ownIDs := make([][]uint32, nm)
	hdrOwnID := 0
	for x := 0; x < nm; x++ {
		n := memNode[x]
		if n.raw || (sp.Raw>>(16+uint(x)))&1 == 0 {
			continue
		}
		for _, p := range n.watch[0].Pipes() {
			ownIDs[x] = append(ownIDs[x], p.ID())
		}
		for ph := 0; ph < phases; ph++ {
			for q := 0; q < nsend[x][ph]; q++ { // data messages; the sentinel goes out plain
				if c.Rand.Intn(3) == 0 {
					h, own := c08StaleHeader(c.Rand, ownIDs[x])
					hdrOf[c08Key{x, ph, q}] = h
					if own {
						hdrOwnID++
					}
				}
			}
		}
	}

	// devices
	var fwdMu sync.Mutex
	forwarded, hdrIsPipe := 0, 0
	// half of the hand-written forwarders re-send what they received in a message of their own
	// (same header and body, no Pipe): the origin must be told from the header, not from the object
	freshCopy := c.Rand.Intn(2) == 0
	manual := func(from, to mangos.Socket) {
		helpers.Add(1)
		go func() {
			defer helpers.Done()
			for {
				m, err := from.RecvMsg()
				if err != nil {
					return
				}
				if freshCopy {
					m2 := mangos.NewMessage(len(m.Body))
					m2.Header = append(m2.Header, m.Header...)
					m2.Body = append(m2.Body, m.Body...)
					m.Free()
					m = m2
				}
				fwdMu.Lock()
				forwarded++
				if len(m.Header) == 4 && (freshCopy || (m.Pipe != nil && bytes.Equal(m.Header, hx.Be32(m.Pipe.ID())))) {
					hdrIsPipe++
				}
				fwdMu.Unlock()
				if err := to.SendMsg(m); err != nil {
					return
				}
			}
		}()
	}
	// a forwarder that takes a second reference to what it received and sends the same message
	// object on both sockets (bridge to the other segment, reflect to the rest of its own)
	manualBoth := func(from, other mangos.Socket) {
		helpers.Add(1)
		go func() {
			defer helpers.Done()
			lr := hx.NewRand(int64(sp.Raw) + 7)
			for {
				m, err := from.RecvMsg()
				if err != nil {
					return
				}
				fwdMu.Lock()
				forwarded++
				fwdMu.Unlock()
				m.Clone()
				first, second := other, from
				if lr.Intn(2) == 0 {
					first, second = from, other
				}
				if err := first.SendMsg(m); err != nil {
					m.Free()
					m.Free()
					return
				}
				if err := second.SendMsg(m); err != nil {
					m.Free()
					return
				}
			}
		}()
	}
	for _, n := range g.nodes {
		var err error
		switch {
		case n.role == "bridgehub":
			manualBoth(n.socks[0], n.socks[1])
			manualBoth(n.socks[1], n.socks[0])
		case n.role == "hub" && sp.Dev == "same":
			err = mangos.Device(n.socks[0], n.socks[0])
		case n.role == "hub" && sp.Dev == "nil":
			err = mangos.Device(n.socks[0], nil)
		case n.role == "hub":
			manual(n.socks[0], n.socks[0])
		case n.role == "bridge" && sp.Dev == "two":
			err = mangos.Device(n.socks[0], n.socks[1])
		case n.role == "bridge":
			manual(n.socks[0], n.socks[1])
			manual(n.socks[1], n.socks[0])
		}
		if err != nil {
			c.Violate(pre+"/device-refused", "mangos.Device on raw BUS socket(s) returned %v", err)
			return
		}
	}

	// receive monitors
	compared := 0
	var cmu sync.Mutex
	onMsg := func(x int, b []byte) {
		st := rx[x]
		if len(b) < 13 || b[0] != c08Magic || !bytes.Equal(b[5:13], nonce) {
			if k, ok := c08FindHeadered(b, nonce, sent, hdrOf); ok {
				c.Violate(pre+"/stale-header-delivered", "member %d received %x: that is the body origin %d sent (phase %d seq %d) with the header %x of the message it was sent in put in front; a cooked %s SendMsg does not transmit the caller's header", x, b, k.o, k.ph, k.seq, hdrOf[k], fam)
				return
			}
			c.Violate(pre+"/unknown-message", "member %d received %x, which no member of this case sent", x, b)
			return
		}
		k := c08Key{int(b[1]), int(b[2]), int(b[3])}
		want, ok := sent[k]
		if !ok {
			c.Violate(pre+"/unknown-message", "member %d received a message tagged origin=%d phase=%d seq=%d that was never sent: %x", x, k.o, k.ph, k.seq, b)
			return
		}
		cmu.Lock()
		compared++
		cmu.Unlock()
		if !bytes.Equal(want, b) {
			c.Violate(pre+"/modified", "member %d received origin=%d phase=%d seq=%d as %x, sent was %x", x, k.o, k.ph, k.seq, b, want)
			return
		}
		if k.o == x {
			c.Violate(pre+"/echo-to-sender", "member %d received its own message phase=%d seq=%d", x, k.ph, k.seq)
			return
		}
		if model.count[k.o][x] == 0 {
			c.Violate(pre+"/delivered-to-non-recipient", "member %d received origin=%d phase=%d seq=%d; the topology gives no forwarding path from %d to %d (cooked BUS must not pass messages on; a two-socket device forwards only across)", x, k.o, k.ph, k.seq, k.o, x)
			return
		}
		st.mu.Lock()
		defer st.mu.Unlock()
		st.n++
		if st.lastO != k.o {
			st.switches++
			st.lastO = k.o
		}
		st.got[k]++
		if st.got[k] > 1 {
			c.Violate(pre+"/duplicate", "member %d received origin=%d phase=%d seq=%d %d times", x, k.o, k.ph, k.seq, st.got[k])
			return
		}
		if b[4] == 1 {
			var missing []int
			for s := 0; s < k.seq; s++ {
				if st.got[c08Key{k.o, k.ph, s}] == 0 {
					missing = append(missing, s)
				}
			}
			var missingH []int
			for _, s := range missing {
				if hdrOf[c08Key{k.o, k.ph, s}] != nil {
					missingH = append(missingH, s)
				}
			}
			if len(missingH) > 0 {
				h := hdrOf[c08Key{k.o, k.ph, missingH[0]}]
				c.Violate(pre+"/sent-with-stale-header-missing", "member %d holds the phase-%d sentinel of origin %d but not its messages seq %v: those the origin sent with SendMsg in messages that carried a stale protocol header (seq %d: %x; ids of the origin's own pipes: %x). A cooked %s send ignores the caller's header — the header does not select who gets the message", x, k.ph, k.o, missingH, missingH[0], h, ownIDs[k.o], fam)
			} else if len(missing) > 0 {
				c.Violate(pre+"/missing", "member %d holds the phase-%d sentinel of origin %d but not its messages seq %v (of %d; at most %d in flight per queue, queue length 128)", x, k.ph, k.o, missing, k.seq, 100)
			}
			st.sentinel[[2]int{k.o, k.ph}] = true
		}
	}
	for x := 0; x < nm; x++ {
		x := x
		s := memNode[x].socks[0]
		helpers.Add(1)
		go func() {
			defer helpers.Done()
			// some members take the message object itself and, once they have looked at it, write all over
			// it before letting it go — it is theirs; what any other member receives must not depend on that
			scribble := (sp.Raw>>(8+uint(x)))&1 == 1
			for {
				var b []byte
				var m *mangos.Message
				var err error
				if scribble {
					if m, err = s.RecvMsg(); err == nil {
						b = m.Body
					}
				} else {
					b, err = s.Recv()
				}
				if err != nil {
					rx[x].mu.Lock()
					rx[x].exitErr, rx[x].exited = err, true
					rx[x].mu.Unlock()
					return
				}
				onMsg(x, b)
				if m != nil {
					for i := range m.Body {
						m.Body[i] = 0xA5
					}
					for i := range m.Header {
						m.Header[i] = 0xA5
					}
					m.Free()
				}
			}
		}()
	}

	send := func(x int, k c08Key) error {
		n := memNode[x]
		b := sent[k]
		if h := hdrOf[k]; h != nil {
			m := mangos.NewMessage(len(b))
			m.Header = append(m.Header, h...)
			m.Body = append(m.Body, b...)
			return n.socks[0].SendMsg(m)
		}
		if fam == "star" && n.raw { // raw STAR messages must carry the 4-byte hop header
			m := mangos.NewMessage(len(b))
			m.Header = append(m.Header, 0, 0, 0, 0)
			m.Body = append(m.Body, b...)
			return n.socks[0].SendMsg(m)
		}
		return n.socks[0].Send(b)
	}

	// rounds, barrier separated
	pending := func(ph int) []string {
		var out []string
		for x := 0; x < nm; x++ {
			rx[x].mu.Lock()
			for o := 0; o < nm; o++ {
				if model.count[o][x] > 0 && !rx[x].sentinel[[2]int{o, ph}] {
					out = append(out, fmt.Sprintf("%d<-%d", x, o))
				}
			}
			rx[x].mu.Unlock()
		}
		return out
	}
	seeds := make([]int64, nm)
	reopts := 0
	for ph := 0; ph < phases && !c.Failed(); ph++ {
		if sp.Reopt > 0 && ph > 0 {
			// the barrier of the previous round has passed: every expected delivery has happened, nothing is
			// in flight and every queue is empty.  Queue lengths stay >= 128 on the sending side (the burst
			// bound is 100), any length on the receiving side (it is fed by blocking puts).
			n, err := c08Reopt(c, g, ph == 1)
			if err != nil {
				c.Inconclusive("phase %d: %v", ph, err)
				return
			}
			reopts += n
		}
		if sp.Early > 0 && ph > 0 && ph <= 2 {
			mon.Sleep(4 * reconnE)
		}
		for i := range seeds {
			seeds[i] = c.Rand.Int63()
		}
		var senders sync.WaitGroup
		var serr error
		var semu sync.Mutex
		for x := 0; x < nm; x++ {
			x := x
			senders.Add(1)
			go func() {
				defer senders.Done()
				rnd := hx.NewRand(seeds[x])
				for s := 0; s <= nsend[x][ph]; s++ {
					if err := send(x, c08Key{x, ph, s}); err != nil {
						semu.Lock()
						serr = fmt.Errorf("member %d Send: %v", x, err)
						semu.Unlock()
						return
					}
					if rnd.Intn(4) == 0 {
						runtime.Gosched()
					}
				}
			}()
		}
		sd := mon.Go("senders", func() (interface{}, error) { senders.Wait(); return nil, nil })
		res := mon.Await(func() bool { return sd.Done() && len(pending(ph)) == 0 }, mon.AwaitOpts{})
		semu.Lock()
		e := serr
		semu.Unlock()
		if e != nil {
			c.Inconclusive("%v", e)
			return
		}
		if res.V != mon.Done {
			p := pending(ph)
			if c.Failed() {
				return
			}
			if res.V == mon.Stuck {
				c.Violate(pre+"/missing-sentinel", "phase %d: every goroutine is parked but these (receiver<-origin) sentinels never arrived: %v (senders done=%v). Bursts stay below the queue length, so nothing may be dropped.\n%s", ph, p, sd.Done(), res.Dump)
			} else {
				c.Inconclusive("phase %d not complete after %v (pending %v)", ph, res.Waited, p)
			}
			return
		}
	}

	// evidence
	expectedPairs, absentPairs := 0, 0
	for o := 0; o < nm; o++ {
		for x := 0; x < nm; x++ {
			if model.count[o][x] > 1 {
				panic("c08: model delivers twice — generated topology is not loop-free")
			}
			if model.count[o][x] == 1 {
				expectedPairs++
			} else {
				absentPairs++ // includes o == x (own messages)
			}
		}
	}
	sw := 0
	tot := 0
	for _, st := range rx {
		st.mu.Lock()
		sw += st.switches
		tot += st.n
		st.mu.Unlock()
	}
	cmu.Lock()
	c.Count("messages_compared", compared)
	cmu.Unlock()
	c.Count("sentinel_checks", expectedPairs*phases)
	c.Count("absence_pairs_checked", absentPairs)
	c.Count("members", nm)
	fwdMu.Lock()
	c.Count("manual_device_forwards", forwarded)
	c.Count("manual_device_header_is_source_pipe_id", hdrIsPipe)
	fwdMu.Unlock()
	c.Count("cooked_sends_carrying_a_stale_header", len(hdrOf))
	c.Count("cooked_sends_whose_stale_header_is_an_own_pipe_id", hdrOwnID)
	c.Count("cases_"+fam+"_"+kind, 1)
	if sp.Refuse > 0 {
		c.Count("cases_after_refusal_"+fam, 1)
	}
	if sp.Early > 0 {
		c.Count("cases_after_early_dial_"+fam, 1)
	}
	if sp.Reopt > 0 {
		c.Count("cases_qlen_changed_"+fam, 1)
		c.Count("qlen_options_set_on_connected_sockets_between_rounds", reopts)
	}
	if compared > 0 && nm >= 2 && !c.Failed() {
		c.Nontrivial()
	}
	il := 0
	if tot > 0 {
		il = sw * 8 / tot // coarse measure of how interleaved the arrivals were
	}
	rawm := sp.Raw & (1<<uint(nm) - 1)
	rf := ""
	for _, pl := range plans {
		if pl.n > 0 {
			rf += fmt.Sprintf("%s%d", pl.side[:1], pl.n)
		}
	}
	if len(early) > 0 {
		rf += fmt.Sprintf("e%d", len(early))
	}
	if reopts > 0 {
		rf += fmt.Sprintf("o%d", reopts/4)
	}
	c.Sig("%s|%v|%b|%s|%s|p%d|il%d|%s|h%v", pre, sp.Shape, rawm, sp.Tr, linkTrs(g), sp.Procs, il, rf, len(hdrOf) > 0)
}

func linkTrs(g *c08Graph) string {
	var s []string
	for _, l := range g.links {
		s = append(s, l.tr[1:2]) // n=inproc p=ipc c=tcp
	}
	sort.Strings(s)
	return strings.Join(s, "")
}

// c08StaleHeader makes a protocol header as an application could find it on a message it took from
// a raw socket: the id of a pipe (here: of the sending socket itself, where a raw BUS socket would
// read it as "came from that peer"), a pipe id followed by a request id (raw REP / RESPONDENT),
// or other bytes.  own reports that the first four bytes are the id of one of the sender's own pipes.
func c08StaleHeader(rnd *rand.Rand, ids []uint32) (h []byte, own bool) {
	x := rnd.Intn(4)
	if len(ids) == 0 && x < 2 {
		x = 2
	}
	switch x {
	case 0:
		return hx.Be32(ids[rnd.Intn(len(ids))]), true
	case 1:
		return hx.Cat(hx.Be32(ids[rnd.Intn(len(ids))]), hx.Be32(0x80000000|rnd.Uint32())), true
	case 2:
		h = make([]byte, 4)
	default:
		h = make([]byte, 1+rnd.Intn(12))
	}
	rnd.Read(h)
	return h, false
}

// c08FindHeadered recognises a received body that is "stale header + body" of a message some
// member sent with a header.
func c08FindHeadered(b, nonce []byte, sent map[c08Key][]byte, hdrOf map[c08Key][]byte) (c08Key, bool) {
	for i := 1; i <= 16 && i+13 <= len(b); i++ {
		if b[i] != c08Magic || !bytes.Equal(b[i+5:i+13], nonce) {
			continue
		}
		k := c08Key{int(b[i+1]), int(b[i+2]), int(b[i+3])}
		if h := hdrOf[k]; h != nil && bytes.Equal(h, b[:i]) && bytes.Equal(sent[k], b[i:]) {
			return k, true
		}
	}
	return c08Key{}, false
}
