//go:build verif

package c08

import (
	"encoding/binary"
	"time"

	"go.nanomsg.org/mangos/v3"

	"verifharness/hx"
	"verifharness/mon"
	"verifharness/vt"
)

// c08Resize: a STAR socket whose application is not reading has a full receive queue, so the
// receiver of the streaming peer is parked holding a message it has already forwarded.  Changing the
// receive queue length in that state must not make the fan-out repeat (or lose) anything: every
// other peer is sent each message exactly once, in order, and the streamer gets nothing back.
func c08Resize(c *mon.Case, sp c08Spec) {
	s := hx.MustSock(c, sp.Sock)
	q := sp.Shape[1]
	if err := s.SetOption(mangos.OptionReadQLen, q); err != nil {
		c.Inconclusive("setup: ReadQLen=%d: %v", q, err)
		return
	}
	name := hx.Uniq("c08r")
	L := vt.L(name)
	c.Cleanup(func() { vt.Forget(name) })
	if err := s.Listen(vt.Addr(name)); err != nil {
		c.Inconclusive("setup: %v", err)
		return
	}
	w := hx.WatchPipes(s)
	streamer := L.Connect()
	nl := 1 + sp.Shape[0]
	var ls []*vt.Pipe
	for i := 0; i < nl; i++ {
		ls = append(ls, L.Connect())
	}
	if !hx.WaitAttached(c, w, nl+1, "star peers") {
		return
	}
	wire := func(id uint32) []byte {
		b := make([]byte, 4+8)
		b[3] = 1 // hop count of a message that crossed one connection
		binary.BigEndian.PutUint32(b[4:], id)
		copy(b[8:], "c08r")
		return b
	}
	k := q + 3
	for id := 1; id <= k; id++ {
		streamer.Inject(wire(uint32(id)))
	}
	// the receiver forwards message q+1 (or q+2: one may sit in the queue hand-off) and then parks on the full queue
	if !c.AwaitOrViolate("star/resize/not-forwarded", "the first messages being forwarded while the application is not reading", func() bool {
		for _, p := range ls {
			if p.SentCount() < q+1 {
				return false
			}
		}
		rw, _ := streamer.Waiters()
		return rw == 0 // the streamer's receiver is not in transport Recv: it is parked on the queue
	}, mon.AwaitOpts{}) {
		return
	}
	for i, nq := range []int{q + 2, q, q + 5} {
		if err := s.SetOption(mangos.OptionReadQLen, nq); err != nil {
			c.Violate("star/resize/option-error", "SetOption(ReadQLen, %d) returned %v", nq, err)
			return
		}
		c.Count("resizes_with_parked_receiver", 1)
		if i < 2 {
			mon.Sleep(2 * time.Millisecond)
		}
	}
	// the application starts reading; a sentinel follows the backlog through
	s.SetOption(mangos.OptionRecvDeadline, 30*time.Millisecond)
	drain := mon.Go("drain", func() (interface{}, error) {
		n := 0
		for {
			if _, err := s.Recv(); err != nil {
				return n, nil
			}
			n++
		}
	})
	sentinel := uint32(k + 1)
	streamer.Inject(wire(sentinel))
	last := func(p *vt.Pipe) uint32 {
		lg := p.SentLog()
		if len(lg) == 0 || len(lg[len(lg)-1].Body) < 4 {
			return 0
		}
		return binary.BigEndian.Uint32(lg[len(lg)-1].Body)
	}
	if !c.AwaitOrViolate("star/resize/sentinel-not-forwarded", "the sentinel sent after the queue length changes being forwarded to every other peer", func() bool {
		for _, p := range ls {
			if last(p) != sentinel {
				return false
			}
		}
		return true
	}, mon.AwaitOpts{MaxTimer: 30 * time.Millisecond}) {
		return
	}
	c.AwaitOrViolate("harness:drain-stuck", "application drain ending on its deadline", drain.Done, mon.AwaitOpts{MaxTimer: 30 * time.Millisecond})
	checked := 0
	for pi, p := range ls {
		prev := uint32(0)
		for _, x := range p.SentLog() {
			if len(x.Body) < 4 {
				continue
			}
			id := binary.BigEndian.Uint32(x.Body)
			if id == prev {
				c.Violate("star/resize/duplicate", "peer %d was sent message %d twice after the forwarding socket's receive queue length was changed (ReadQLen %d, %d peers)", pi, id, q, nl)
				return
			}
			if id != prev+1 {
				c.Violate("star/resize/missing", "peer %d was sent message %d after message %d (ReadQLen %d): forwarding skipped or reordered across a queue-length change", pi, id, prev, q)
				return
			}
			prev = id
			checked++
		}
	}
	if n := streamer.SentCount(); n != 0 {
		c.Violate("star/resize/echo", "the streaming peer was sent %d message(s) back", n)
	}
	c.Count("resize_forwards_checked", checked)
	c.Nontrivial()
	c.Sig("resize|%s|q%d|n%d", sp.Sock, q, nl)
}
