//go:build verif

package c08

import (
	"encoding/binary"
	"fmt"

	"go.nanomsg.org/mangos/v3"

	"verifharness/hx"
	"verifharness/mon"
	"verifharness/vt"
)

// c08Stalled: one directly connected peer takes nothing (its send queue fills up) while the others
// drain at once.  "Once to each directly connected peer, queue space permitting": the healthy peers
// have queue space for every message (sends are paced on their receipt), so each of them is sent
// every message exactly once and in order, whatever happens to the copies for the stalled peer —
// for messages the application sends and for messages a STAR socket forwards.
func c08Stalled(c *mon.Case, sp c08Spec) {
	s := hx.MustSock(c, sp.Sock)
	q := 1 + sp.Shape[1]
	s.SetOption(mangos.OptionWriteQLen, q)
	name := hx.Uniq("c08s")
	L := vt.L(name)
	c.Cleanup(func() { vt.Forget(name) })
	if err := s.Listen(vt.Addr(name)); err != nil {
		c.Inconclusive("setup: %v", err)
		return
	}
	w := hx.WatchPipes(s)
	n := 3 + sp.Shape[0]
	var peers []*vt.Pipe
	for i := 0; i < n; i++ {
		peers = append(peers, L.Connect())
	}
	if !hx.WaitAttached(c, w, n, "peers") {
		return
	}
	stalled := c.Rand.Intn(n)
	peers[stalled].HoldSends()
	source := -1
	forwarded := sp.Fam == "star" && sp.Steps%2 == 1
	if forwarded {
		// the messages come in from one of the healthy peers and are forwarded by the STAR socket
		source = (stalled + 1) % n
		s.SetOption(mangos.OptionRecvDeadline, 1)
		go func() {
			for {
				if _, err := s.Recv(); err == mangos.ErrClosed {
					return
				}
			}
		}()
	}
	total := q + 6 + c.Rand.Intn(6)
	healthy := func(i int) bool { return i != stalled && i != source }
	for id := 1; id <= total; id++ {
		body := make([]byte, 12)
		binary.BigEndian.PutUint32(body, uint32(id))
		copy(body[4:], "c08stall")
		if forwarded {
			peers[source].Inject(append([]byte{0, 0, 0, 1}, body...))
		} else {
			m := mangos.NewMessage(16)
			m.Body = append(m.Body, body...)
			if sp.Sock == "xstar" {
				m.Header = append(m.Header, 0, 0, 0, 0)
			}
			k := mon.Go("SendMsg", func() (interface{}, error) { return nil, s.SendMsg(m) })
			if !c.AwaitOrViolate(sp.Fam+"/stalled/send-stuck", "Send with one stalled peer (these patterns never block)", k.Done, mon.AwaitOpts{}) {
				return
			}
			if _, err, _ := k.Result(); err != nil {
				c.Violate(sp.Fam+"/stalled/send-error", "Send with one stalled peer returned %v", err)
				return
			}
		}
		// pace on the healthy peers: their queues are empty again before the next message
		if !c.AwaitOrViolate(sp.Fam+"/stalled/healthy-peer-missed-message", fmt.Sprintf("message %d of %d reaching every healthy peer (peer %d of %d is stalled, WriteQLen %d, %s)", id, total, stalled, n, q, map[bool]string{true: "forwarded", false: "sent by the application"}[forwarded]), func() bool {
			for i, p := range peers {
				if healthy(i) && p.SentCount() < id {
					return false
				}
			}
			return true
		}, mon.AwaitOpts{}) {
			return
		}
	}
	checked := 0
	for i, p := range peers {
		if !healthy(i) {
			continue
		}
		for k, x := range p.SentLog() {
			if len(x.Body) < 4 || int(binary.BigEndian.Uint32(x.Body)) != k+1 {
				c.Violate(sp.Fam+"/stalled/duplicate-or-reordered", "healthy peer %d: transmission %d is %x, want message %d exactly once in order", i, k, x.Body, k+1)
				return
			}
			checked++
		}
	}
	if got := peers[stalled].SentCount(); got != 0 {
		c.Violate("harness:held-peer-received", "the held peer completed %d sends", got)
	}
	if source >= 0 && peers[source].SentCount() != 0 {
		c.Violate(sp.Fam+"/stalled/echo", "the source peer was sent %d message(s) back", peers[source].SentCount())
	}
	c.Count("stalled_peer_copies_checked", checked)
	c.Nontrivial()
	c.Sig("stalled|%s|n%d|q%d|%v", sp.Sock, n, q, forwarded)
}
