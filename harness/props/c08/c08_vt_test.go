package c08

import (
	"bytes"
	"fmt"
	"strings"

	"go.nanomsg.org/mangos/v3"

	"verifharness/hx"
	"verifharness/mon"
	"verifharness/vt"
)

// c08VT: one socket under test, every peer is a vt pipe held by the harness.
// Each step injects 0..4 tagged messages on chosen pipes, has the application
// receive them (and, for some, re-send the very message it received), lets the
// application originate 0..2 messages and finally a sentinel.  Then every pipe's
// transmission log is read up to the sentinel and compared, as a multiset keyed
// by body, with what the property statement prescribes:
//
//	originated message          -> every peer once
//	xbus  re-send (header kept) -> every peer except the source pipe, once
//	bus   re-send (cooked)      -> a new message of this member: every peer once
//	star/xstar received message -> forwarded by the socket to every other peer once
//	star  re-send (cooked)      -> a new message of this member: every peer once
//	bus/xbus received message   -> never forwarded by the socket itself
//	bus/star originated with SendMsg in a message that still carries a protocol header (a stale
//	  one: the id of one of the socket's own pipes, pipe id + request id, other bytes)
//	                            -> a message of this member like any other: every peer once, and
//	                               the caller's header is not transmitted
//
// For STAR only the part after the 4-byte hop header is compared (hop counting is C09).
func c08VT(c *mon.Case, sp c08Spec) {
	sock := sp.Sock
	pre := sock + "/vt"
	star := strings.HasSuffix(sock, "star")
	raw := sock[0] == 'x'
	s := hx.MustSock(c, sock)
	w := hx.WatchPipes(s)
	name := hx.Uniq("c08")
	L := vt.L(name)
	c.Cleanup(func() { vt.Forget(name) })
	if err := s.Listen(vt.Addr(name)); err != nil {
		c.Inconclusive("listen: %v", err)
		return
	}
	n := sp.Shape[0]
	pipes := make([]*vt.Pipe, n)
	for i := range pipes {
		pipes[i] = L.Connect()
		if !hx.WaitAttached(c, w, i+1, "vt pipe") {
			return
		}
	}
	cursor := make([]int, n)
	var ownIDs []uint32 // ids of the socket's pipes, in connection order
	for _, p := range w.Pipes() {
		ownIDs = append(ownIDs, p.ID())
	}
	if len(ownIDs) != n {
		c.Inconclusive("setup: %d pipes attached, %d connected", len(ownIDs), n)
		return
	}
	nonce := make([]byte, 6)
	c.Rand.Read(nonce)
	serial := 0
	body := func(tag string) []byte {
		serial++
		fl := make([]byte, c.Rand.Intn(40))
		c.Rand.Read(fl)
		return hx.Cat([]byte(fmt.Sprintf("%s|%d|%x|", tag, serial, nonce)), fl)
	}
	strip := func(wire []byte) ([]byte, bool) { // transmission -> body as the peer application would see it
		if !star {
			return wire, true
		}
		if len(wire) < 4 {
			return wire, false
		}
		return wire[4:], true
	}
	originate := func(b []byte, hdr []byte) error {
		if hdr != nil {
			m := mangos.NewMessage(len(b))
			m.Header = append(m.Header, hdr...)
			m.Body = append(m.Body, b...)
			return s.SendMsg(m)
		}
		if star && raw {
			m := mangos.NewMessage(len(b))
			m.Header = append(m.Header, 0, 0, 0, 0)
			m.Body = append(m.Body, b...)
			return s.SendMsg(m)
		}
		return s.Send(b)
	}
	shape := ""
	nInj, nFwdChecked, nOrig, nResend, nEmpty, nHdr, nHdrOwn := 0, 0, 0, 0, 0, 0, 0

	for step := 0; step < sp.Steps && !c.Failed(); step++ {
		expect := make([]map[string]int, n) // per pipe: body -> transmissions expected in this step
		src := map[string]int{}             // body -> pipe it was injected on
		hdrOf := map[string][]byte{}        // body -> stale header it was originated with
		for i := range expect {
			expect[i] = map[string]int{}
		}
		k := c.Rand.Intn(5)
		for j := 0; j < k; j++ {
			p := c.Rand.Intn(n)
			b := body("inj")
			if j == 0 && c.Rand.Intn(4) == 0 {
				b = []byte{} // a message with no payload at all is a message like any other (at most one per step: bodies identify messages)
				nEmpty++
			}
			src[string(b)] = p
			if star {
				pipes[p].Inject(hx.Cat([]byte{0, 0, 0, byte(c.Rand.Intn(7))}, b)) // hop count well inside the default TTL 8
			} else {
				pipes[p].Inject(b)
			}
			nInj++
			c.Logf("step %d inject pipe=%d %q", step, p, b[:min(12, len(b))])
		}
		seen := map[string]bool{}
		for j := 0; j < k && !c.Failed(); j++ {
			call := mon.Go("RecvMsg", func() (interface{}, error) { return s.RecvMsg() })
			if !c.AwaitOrViolate(pre+"/recv-stuck", fmt.Sprintf("RecvMsg for injected message %d of %d", j+1, k), call.Done, mon.AwaitOpts{}) {
				return
			}
			v, err, _ := call.Result()
			if err != nil {
				c.Inconclusive("RecvMsg: %v", err)
				return
			}
			m := v.(*mangos.Message)
			p, ok := src[string(m.Body)]
			if !ok {
				c.Violate(pre+"/delivered-modified-or-unknown", "application received body %x, which was not injected in this step", m.Body)
				return
			}
			if seen[string(m.Body)] {
				c.Violate(pre+"/delivered-twice", "application received the message injected on pipe %d twice", p)
				return
			}
			seen[string(m.Body)] = true
			bs := string(m.Body)
			if star { // the socket itself forwards to every other peer
				for q := 0; q < n; q++ {
					if q != p {
						expect[q][bs]++
					}
				}
			}
			resend := c.Rand.Intn(2) == 0 && sock != "xstar"
			if resend {
				nResend++
				for q := 0; q < n; q++ {
					if sock == "xbus" && q == p {
						continue // device forwarding: not back to where it came from
					}
					expect[q][bs]++
				}
				c.Logf("step %d re-send message from pipe %d (header %x)", step, p, m.Header)
				if err := s.SendMsg(m); err != nil {
					c.Inconclusive("SendMsg(re-send): %v", err)
					return
				}
				shape += "r"
			} else {
				m.Free()
				shape += "d"
			}
		}
		var sentinel []byte
		norig := c.Rand.Intn(3)
		for j := 0; j <= norig; j++ {
			b := body("own")
			if j == norig {
				b = body("sentinel")
				sentinel = b
			}
			for q := 0; q < n; q++ {
				expect[q][string(b)]++
			}
			var hdr []byte
			if !raw && j < norig && c.Rand.Intn(2) == 0 { // cooked sockets; the sentinel goes out plain
				var own bool
				hdr, own = c08StaleHeader(c.Rand, ownIDs)
				hdrOf[string(b)] = hdr
				nHdr++
				if own {
					nHdrOwn++
				}
				shape += "h"
				c.Logf("step %d originate %q with stale header %x", step, b[:min(12, len(b))], hdr)
			}
			if err := originate(b, hdr); err != nil {
				c.Inconclusive("Send: %v", err)
				return
			}
			nOrig++
		}
		shape += fmt.Sprintf("%d.", norig)

		// read every pipe up to the sentinel
		find := func(q int) int {
			for _, e := range pipes[q].SentFrom(cursor[q]) {
				if b, ok := strip(e.Wire()); ok && bytes.Equal(b, sentinel) {
					return e.Seq
				}
			}
			return -1
		}
		res := mon.Await(func() bool {
			for q := 0; q < n; q++ {
				if find(q) < 0 {
					return false
				}
			}
			return true
		}, mon.AwaitOpts{})
		if res.V != mon.Done {
			var miss []int
			for q := 0; q < n; q++ {
				if find(q) < 0 {
					miss = append(miss, q)
				}
			}
			if res.V == mon.Stuck {
				c.Violate(pre+"/originated-not-sent", "step %d: a message the application sent was never transmitted to peer pipe(s) %v of %d although every goroutine is parked (1..3 messages per step, queue length 128)\n%s", step, miss, n, res.Dump)
			} else {
				c.Inconclusive("step %d: sentinel not transmitted on pipes %v after %v", step, miss, res.Waited)
			}
			return
		}
		for q := 0; q < n; q++ {
			end := find(q)
			seg := pipes[q].SentFrom(cursor[q])
			got := map[string]int{}
			for _, e := range seg {
				if e.Seq > end {
					break
				}
				b, ok := strip(e.Wire())
				if !ok {
					c.Violate(pre+"/malformed-transmission", "pipe %d: STAR transmission shorter than the hop header: %x", q, e.Wire())
					continue
				}
				got[string(b)]++
				nFwdChecked++
			}
			cursor[q] = end + 1
			for b, g := range got {
				e := expect[q][b]
				if g == e {
					continue
				}
				p, injected := src[b]
				if e == 0 && !injected {
					leaked := false
					for hb, h := range hdrOf {
						if len(b) > len(hb) && strings.HasSuffix(b, hb) {
							c.Violate(pre+"/stale-header-transmitted", "step %d: pipe %d carried %x: the body the application sent with SendMsg in a message whose Header was %x, with %d more byte(s) in front; a cooked %s send does not transmit the caller's header", step, q, e2wire(seg, b, strip), h, len(b)-len(hb), sock)
							leaked = true
							break
						}
					}
					if leaked {
						continue
					}
				}
				switch {
				case injected && p == q && e == 0:
					c.Violate(pre+"/echo-to-source", "step %d: the message that arrived on pipe %d was transmitted back on that same pipe (%d time(s)); %d peers", step, q, g, n)
				case injected && e == 0:
					c.Violate(pre+"/forwarded-unexpectedly", "step %d: the message that arrived on pipe %d was transmitted on pipe %d although nothing re-sent it (BUS sockets do not forward by themselves)", step, p, q)
				case g > e && e > 0:
					c.Violate(pre+"/duplicate-transmission", "step %d: pipe %d carried %q %d times, expected %d", step, q, b[:min(len(b), 16)], g, e)
				case e == 0:
					c.Violate(pre+"/unknown-transmission", "step %d: pipe %d carried %x, which corresponds to nothing sent or injected in this step", step, q, b)
				default:
					c.Violate(pre+"/missing-transmission", "step %d: pipe %d carried %q %d times before the sentinel, expected %d", step, q, b[:min(len(b), 16)], g, e)
				}
			}
			for b, e := range expect[q] {
				if h := hdrOf[b]; h != nil && e > 0 && got[b] == 0 {
					leaked := false
					for gb := range got {
						if len(gb) > len(b) && strings.HasSuffix(gb, b) {
							leaked = true // reported above
						}
					}
					if !leaked {
						c.Violate(pre+"/sent-with-stale-header-missing", "step %d: pipe %d (id %x) never carried, before the sentinel, the message the application sent with SendMsg in a message whose Header was %x (ids of the socket's pipes: %x; %d peers). A cooked %s send ignores the caller's header — the header does not select who gets the message", step, q, ownIDs[q], h, ownIDs, n, sock)
					}
					continue
				}
				if e > 0 && got[b] == 0 {
					what := "originated message"
					if p, ok := src[b]; ok {
						what = fmt.Sprintf("message that arrived on pipe %d", p)
					}
					c.Violate(pre+"/missing-transmission", "step %d: pipe %d never carried the %s before the sentinel (expected %d; %d peers)", step, q, what, e, n)
				}
			}
		}
	}
	c.Count("vt_injected", nInj)
	c.Count("vt_injected_empty_body", nEmpty)
	c.Count("vt_resent_by_application", nResend)
	c.Count("vt_originated", nOrig)
	c.Count("vt_originated_carrying_a_stale_header", nHdr)
	c.Count("vt_originated_whose_stale_header_is_an_own_pipe_id", nHdrOwn)
	c.Count("vt_transmissions_compared", nFwdChecked)
	c.Count("cases_vt_"+sock, 1)
	if nFwdChecked > 0 && n >= 2 && nInj > 0 && !c.Failed() {
		c.Nontrivial()
	}
	c.Sig("vt|%s|%d|%s", sock, n, shape)
}

// e2wire returns the full transmission of the segment whose compared part is b.
func e2wire(seg []vt.Sent, b string, strip func([]byte) ([]byte, bool)) []byte {
	for _, e := range seg {
		if x, ok := strip(e.Wire()); ok && string(x) == b {
			return e.Wire()
		}
	}
	return []byte(b)
}
