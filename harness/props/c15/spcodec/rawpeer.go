package spcodec

import (
	"crypto/tls"
	"errors"
	"fmt"

	"net"
	"os"
	"strings"
	"sync"
)

// Raw peers: plain net.Conn end points for tcp, tls+tcp and ipc, addressed
// with the same URLs the library uses, plus a recording TCP relay ("tap").
// Everything blocks in the network poller (no polling loops, no deadlines),
// so a process whose peers are all waiting is quiescent for the stuck detector.

// IsIPC reports whether transport tr uses the IPC framing.
func IsIPC(tr string) bool { return tr == "ipc" }

// SplitURL splits "scheme://rest".
func SplitURL(url string) (scheme, rest string) {
	i := strings.Index(url, "://")
	if i < 0 {
		return "", url
	}
	return url[:i], url[i+3:]
}

// NoLinger makes a later Close of a TCP connection send RST instead of FIN,
// so that the thousands of short-lived loopback connections of a run leave
// no TIME_WAIT sockets behind (ephemeral ports would run out otherwise).
// CloseWrite still sends an orderly FIN.  Non-TCP connections are left alone.
func NoLinger(c net.Conn) net.Conn {
	var u net.Conn = c
	if tc, ok := c.(*tls.Conn); ok {
		u = tc.NetConn()
	}
	if t, ok := u.(*net.TCPConn); ok {
		t.SetLinger(0)
	}
	return c
}

// NoLingerListener wraps l so that every accepted TCP connection is NoLinger.
func NoLingerListener(l net.Listener) net.Listener { return nlListener{l} }

type nlListener struct{ net.Listener }

func (l nlListener) Accept() (net.Conn, error) {
	c, err := l.Listener.Accept()
	if err == nil {
		NoLinger(c)
	}
	return c, err
}

// DialTCPNoLinger is a net dial function for plain TCP with NoLinger applied.
func DialTCPNoLinger(network, addr string) (net.Conn, error) {
	c, err := net.Dial(network, addr)
	if err == nil {
		NoLinger(c)
	}
	return c, err
}

// Dial connects a raw peer to a library listener at url
// (tcp://host:port, tls+tcp://host:port, ipc:///path).  For TLS the
// handshake is completed before Dial returns.
func Dial(url string, cli *tls.Config) (net.Conn, error) {
	scheme, rest := SplitURL(url)
	switch scheme {
	case "tcp":
		return DialTCPNoLinger("tcp", rest)
	case "ipc":
		return net.Dial("unix", rest)
	case "tls+tcp":
		c, err := tls.Dial("tcp", rest, cli)
		if err != nil {
			return nil, err
		}
		return NoLinger(c), nil
	}
	return nil, errors.New("spcodec: cannot dial " + url)
}

// RawListener is a raw listening end point a library dialer can connect to.
type RawListener struct {
	Tr  string
	L   net.Listener
	url string
}

// Listen opens a raw listener for transport tr ("tcp", "tls+tcp", "ipc").
// unixPath is used for ipc; srv for tls+tcp.
func Listen(tr, unixPath string, srv *tls.Config) (*RawListener, error) {
	switch tr {
	case "tcp", "tls+tcp":
		l, err := net.Listen("tcp", "127.0.0.1:0")
		if err != nil {
			return nil, err
		}
		l = NoLingerListener(l)
		if tr == "tls+tcp" {
			l = tls.NewListener(l, srv)
		}
		return &RawListener{Tr: tr, L: l, url: tr + "://" + l.Addr().String()}, nil
	case "ipc":
		l, err := net.Listen("unix", unixPath)
		if err != nil {
			return nil, err
		}
		return &RawListener{Tr: tr, L: l, url: "ipc://" + unixPath}, nil
	}
	return nil, errors.New("spcodec: cannot listen on " + tr)
}

// URL is the address to hand to the library's Dial.
func (l *RawListener) URL() string { return l.url }

// Accept returns the next raw connection; a TLS handshake is completed first.
func (l *RawListener) Accept() (net.Conn, error) {
	c, err := l.L.Accept()
	if err != nil {
		return nil, err
	}
	if tc, ok := c.(*tls.Conn); ok {
		if err := tc.Handshake(); err != nil {
			c.Close()
			return nil, fmt.Errorf("tls handshake: %w", err)
		}
	}
	return c, nil
}

// Close closes the listener.
func (l *RawListener) Close() { l.L.Close() }

// ReadUntilClosed reads and discards until the connection fails or ends and
// returns the bytes seen and the terminating error (io.EOF, reset, ...).
func ReadUntilClosed(c net.Conn) ([]byte, error) {
	var got []byte
	buf := make([]byte, 4096)
	for {
		n, err := c.Read(buf)
		if len(got) < 1<<16 {
			got = append(got, buf[:n]...)
		}
		if err != nil {
			return got, err
		}
	}
}

// ---- recording TCP relay ------------------------------------------------------

// TapConn is one relayed connection; both directions are recorded.
type TapConn struct {
	mu     sync.Mutex
	c2s    []byte // bytes from the connecting side to the target
	s2c    []byte
	client net.Conn
	server net.Conn
}

// C2S returns a copy of the bytes the connecting side sent so far.
func (t *TapConn) C2S() []byte { t.mu.Lock(); defer t.mu.Unlock(); return append([]byte{}, t.c2s...) }

// S2C returns a copy of the bytes the target sent so far.
func (t *TapConn) S2C() []byte { t.mu.Lock(); defer t.mu.Unlock(); return append([]byte{}, t.s2c...) }

// Tap is a loopback TCP relay that records everything it forwards.  A byte is
// recorded before it is forwarded, so once the far end has seen a message the
// tap's record contains all of it.
type Tap struct {
	L      net.Listener
	target string
	mu     sync.Mutex
	conns  []*TapConn
}

// NewTap listens on an ephemeral loopback port and relays to target (host:port).
func NewTap(target string) (*Tap, error) {
	l, err := net.Listen("tcp", "127.0.0.1:0")
	if err != nil {
		return nil, err
	}
	t := &Tap{L: l, target: target}
	go t.serve()
	return t, nil
}

// Addr returns host:port of the tap.
func (t *Tap) Addr() string { return t.L.Addr().String() }

// Conns returns the relayed connections so far.
func (t *Tap) Conns() []*TapConn {
	t.mu.Lock()
	defer t.mu.Unlock()
	return append([]*TapConn{}, t.conns...)
}

func (t *Tap) serve() {
	for {
		c, err := t.L.Accept()
		if err != nil {
			return
		}
		NoLinger(c)
		s, err := DialTCPNoLinger("tcp", t.target)
		if err != nil {
			c.Close()
			continue
		}
		tc := &TapConn{client: c, server: s}
		t.mu.Lock()
		t.conns = append(t.conns, tc)
		t.mu.Unlock()
		go tc.pump(c, s, &tc.c2s)
		go tc.pump(s, c, &tc.s2c)
	}
}

func (tc *TapConn) pump(from, to net.Conn, rec *[]byte) {
	buf := make([]byte, 32<<10)
	for {
		n, err := from.Read(buf)
		if n > 0 {
			tc.mu.Lock()
			*rec = append(*rec, buf[:n]...)
			tc.mu.Unlock()
			if _, werr := to.Write(buf[:n]); werr != nil {
				break
			}
		}
		if err != nil {
			break
		}
	}
	// one side ended: end the relayed connection as a whole
	to.Close()
	from.Close()
}

// Close stops the relay and closes every relayed connection.
func (t *Tap) Close() {
	t.L.Close()
	t.mu.Lock()
	for _, tc := range t.conns {
		tc.client.Close()
		tc.server.Close()
	}
	t.mu.Unlock()
}

// ---- connections that are not ours ------------------------------------------------
//
// Loopback ports are recycled quickly on a busy machine: a reconnecting dialer
// of some other process can hit a port that now belongs to a harness (or
// library) listener of this run.  ForeignTCP lets a check recognise such a
// stray connection before it blames the library for it.

// ForeignTCP reports whether addr is the local end of a TCP socket that exists
// on this host and does not belong to this process.  It answers false when it
// cannot tell (not TCP, socket already gone).
func ForeignTCP(addr net.Addr) bool {
	ta, ok := addr.(*net.TCPAddr)
	if !ok {
		return false
	}
	ip := ta.IP.To4()
	if ip == nil {
		return false
	}
	want := fmt.Sprintf("%02X%02X%02X%02X:%04X", ip[3], ip[2], ip[1], ip[0], ta.Port)
	data, err := os.ReadFile("/proc/net/tcp")
	if err != nil {
		return false
	}
	inode := ""
	for _, ln := range strings.Split(string(data), "\n") {
		f := strings.Fields(ln)
		if len(f) > 9 && f[1] == want && f[3] != "0A" && f[9] != "0" { // not a listener, has an owner
			inode = f[9]
			break
		}
	}
	if inode == "" {
		return false
	}
	ents, err := os.ReadDir("/proc/self/fd")
	if err != nil {
		return false
	}
	for _, e := range ents {
		if t, err := os.Readlink("/proc/self/fd/" + e.Name()); err == nil && t == "socket:["+inode+"]" {
			return false
		}
	}
	return true
}
