// Package spcodec is an independent implementation of the SP wire mappings
// used by the C15/C16 checks: the SP-over-TCP mapping (also used over TLS),
// the SP-over-IPC mapping and the SP-over-WebSocket mapping.  It is written
// from the mapping documents / the property statement and deliberately shares
// no code with (and does not import) the library under test.
//
//	connection header (tcp, tls, ipc):  00 'S' 'P' 00  <protocol be16>  00 00
//	message (tcp, tls):                 <length be64> <payload>
//	message (ipc):                      01 <length be64> <payload>
//	websocket:                          subprotocol "<name>.sp.nanomsg.org",
//	                                    one binary frame per message
//
// "payload" is the protocol header followed by the body.
package spcodec

import (
	"errors"
	"fmt"
	"io"
)

// Proto describes one scalability protocol end point.
type Proto struct {
	Name     string
	Num      uint16
	PeerName string
	PeerNum  uint16
}

// Protos lists the 12 protocol numbers the property quantifies over.
var Protos = []Proto{
	{"pair", 0x10, "pair", 0x10},
	{"pair1", 0x11, "pair1", 0x11},
	{"pub", 0x20, "sub", 0x21},
	{"sub", 0x21, "pub", 0x20},
	{"req", 0x30, "rep", 0x31},
	{"rep", 0x31, "req", 0x30},
	{"push", 0x50, "pull", 0x51},
	{"pull", 0x51, "push", 0x50},
	{"surveyor", 0x62, "respondent", 0x63},
	{"respondent", 0x63, "surveyor", 0x62},
	{"bus", 0x70, "bus", 0x70},
	{"star", 0x640, "star", 0x640},
}

// ByName returns the protocol with the given name ("x" prefixes of raw-mode
// socket names are ignored: xreq speaks protocol req).
func ByName(name string) Proto {
	if len(name) > 1 && name[0] == 'x' {
		name = name[1:]
	}
	for _, p := range Protos {
		if p.Name == name {
			return p
		}
	}
	panic("spcodec: unknown protocol " + name)
}

// ByNum returns the protocol with the given number.
func ByNum(n uint16) (Proto, bool) {
	for _, p := range Protos {
		if p.Num == n {
			return p, true
		}
	}
	return Proto{}, false
}

// HeaderLen is the length of the connection header.
const HeaderLen = 8

// Header returns the 8-byte connection header announcing protocol num.
func Header(num uint16) []byte {
	return []byte{0x00, 'S', 'P', 0x00, byte(num >> 8), byte(num), 0x00, 0x00}
}

// Header parse errors.
var (
	ErrShortHeader = errors.New("spcodec: connection header shorter than 8 bytes")
	ErrBadHeader   = errors.New("spcodec: malformed connection header")
)

// ParseHeader validates a connection header strictly and returns the protocol number.
func ParseHeader(b []byte) (uint16, error) {
	if len(b) < HeaderLen {
		return 0, ErrShortHeader
	}
	if b[0] != 0 || b[1] != 'S' || b[2] != 'P' || b[3] != 0 || b[6] != 0 || b[7] != 0 {
		return 0, ErrBadHeader
	}
	return uint16(b[4])<<8 | uint16(b[5]), nil
}

// HeaderOK reports whether b is a well-formed header naming protocol want.
func HeaderOK(b []byte, want uint16) bool {
	n, err := ParseHeader(b)
	return err == nil && len(b) == HeaderLen && n == want
}

func putU64(dst []byte, v uint64) []byte {
	return append(dst, byte(v>>56), byte(v>>48), byte(v>>40), byte(v>>32), byte(v>>24), byte(v>>16), byte(v>>8), byte(v))
}

func getU64(b []byte) uint64 {
	var v uint64
	for i := 0; i < 8; i++ {
		v = v<<8 | uint64(b[i])
	}
	return v
}

// IPCMsgType is the only message type of the IPC mapping (an in-band message).
const IPCMsgType = 0x01

// AppendPrefix appends the framing prefix announcing n payload bytes
// (n is taken verbatim, so hostile lengths can be produced for C16).
func AppendPrefix(dst []byte, ipc bool, n uint64) []byte {
	if ipc {
		dst = append(dst, IPCMsgType)
	}
	return putU64(dst, n)
}

// AppendFrame appends one well-formed message frame carrying payload.
func AppendFrame(dst []byte, ipc bool, payload []byte) []byte {
	dst = AppendPrefix(dst, ipc, uint64(len(payload)))
	return append(dst, payload...)
}

// Frame returns one well-formed message frame.
func Frame(ipc bool, payload []byte) []byte { return AppendFrame(nil, ipc, payload) }

// PrefixLen is the length of the framing prefix.
func PrefixLen(ipc bool) int {
	if ipc {
		return 9
	}
	return 8
}

// Frame decode errors.
var (
	ErrBadMsgType = errors.New("spcodec: IPC message type is not 0x01")
	ErrBadLength  = errors.New("spcodec: frame length out of range")
)

// Decoder is an incremental, strict decoder of the message stream that
// follows the connection header.
type Decoder struct {
	IPC bool
	// Max is the largest acceptable payload length (0: 1<<40).
	Max uint64
	buf []byte
	off int
	err error
}

// Write feeds received bytes.
func (d *Decoder) Write(p []byte) (int, error) {
	if d.off > 0 && d.off == len(d.buf) {
		d.buf, d.off = d.buf[:0], 0
	}
	d.buf = append(d.buf, p...)
	return len(p), nil
}

// Buffered returns the number of bytes fed but not yet consumed by Next.
func (d *Decoder) Buffered() int { return len(d.buf) - d.off }

// Pending returns a copy of the unconsumed bytes.
func (d *Decoder) Pending() []byte { return append([]byte{}, d.buf[d.off:]...) }

// Next returns the next complete payload; ok is false when more bytes are
// needed.  A framing error is sticky.
func (d *Decoder) Next() (payload []byte, ok bool, err error) {
	if d.err != nil {
		return nil, false, d.err
	}
	b := d.buf[d.off:]
	pl := PrefixLen(d.IPC)
	if d.IPC && len(b) >= 1 && b[0] != IPCMsgType {
		d.err = fmt.Errorf("%w (got %#02x)", ErrBadMsgType, b[0])
		return nil, false, d.err
	}
	if len(b) < pl {
		return nil, false, nil
	}
	n := getU64(b[pl-8 : pl])
	max := d.Max
	if max == 0 {
		max = 1 << 40
	}
	if n > max {
		d.err = fmt.Errorf("%w (announced %d = %#x)", ErrBadLength, n, n)
		return nil, false, d.err
	}
	if uint64(len(b)-pl) < n {
		return nil, false, nil
	}
	payload = append([]byte{}, b[pl:pl+int(n)]...)
	d.off += pl + int(n)
	return payload, true, nil
}

// ReadFrames reads from r until n payloads were decoded (returned), a
// framing error occurred, or r failed (io.EOF included).
func (d *Decoder) ReadFrames(r io.Reader, n int) ([][]byte, error) {
	var out [][]byte
	buf := make([]byte, 64<<10)
	for {
		for len(out) < n {
			p, ok, err := d.Next()
			if err != nil {
				return out, err
			}
			if !ok {
				break
			}
			out = append(out, p)
		}
		if len(out) >= n {
			return out, nil
		}
		k, err := r.Read(buf)
		d.Write(buf[:k])
		if err != nil && k == 0 {
			return out, err
		}
	}
}

// Segment writes data to w in the pieces given by cuts (ascending offsets
// inside data); each piece is one Write call.  It returns the first error.
func Segment(w io.Writer, data []byte, cuts []int) error {
	prev := 0
	for _, c := range append(append([]int{}, cuts...), len(data)) {
		if c <= prev || c > len(data) {
			continue
		}
		if _, err := w.Write(data[prev:c]); err != nil {
			return err
		}
		prev = c
	}
	return nil
}

// WSSubprotocol is the WebSocket subprotocol token for the SP protocol called name.
func WSSubprotocol(name string) string { return name + ".sp.nanomsg.org" }
