package spcodec

import (
	"bytes"
	"errors"
)

// WebSocket opcodes (RFC 6455 section 5.2).
const (
	WSContinuation = 0x0
	WSText         = 0x1
	WSBinary       = 0x2
	WSClose        = 0x8
	WSPing         = 0x9
	WSPong         = 0xA
)

// WSFrame is one RFC 6455 frame as seen on the wire (payload unmasked).
type WSFrame struct {
	Fin     bool
	RSV     byte
	Opcode  byte
	Masked  bool
	Payload []byte
}

// IsControl reports whether the frame is a control frame.
func (f WSFrame) IsControl() bool { return f.Opcode&0x8 != 0 }

// WSParser parses one direction of a WebSocket byte stream (after the HTTP upgrade).
type WSParser struct {
	buf []byte
}

// Write feeds bytes.
func (p *WSParser) Write(b []byte) (int, error) { p.buf = append(p.buf, b...); return len(b), nil }

// Buffered returns the number of unparsed bytes.
func (p *WSParser) Buffered() int { return len(p.buf) }

var errWSLen = errors.New("spcodec: websocket frame length has the top bit set")

// Next returns the next complete frame; ok is false when more bytes are needed.
func (p *WSParser) Next() (f WSFrame, ok bool, err error) {
	b := p.buf
	if len(b) < 2 {
		return f, false, nil
	}
	f.Fin = b[0]&0x80 != 0
	f.RSV = (b[0] >> 4) & 0x7
	f.Opcode = b[0] & 0x0f
	f.Masked = b[1]&0x80 != 0
	n := uint64(b[1] & 0x7f)
	pos := 2
	switch n {
	case 126:
		if len(b) < pos+2 {
			return f, false, nil
		}
		n = uint64(b[pos])<<8 | uint64(b[pos+1])
		pos += 2
	case 127:
		if len(b) < pos+8 {
			return f, false, nil
		}
		n = getU64(b[pos : pos+8])
		pos += 8
		if n&(1<<63) != 0 {
			return f, false, errWSLen
		}
	}
	var key [4]byte
	if f.Masked {
		if len(b) < pos+4 {
			return f, false, nil
		}
		copy(key[:], b[pos:pos+4])
		pos += 4
	}
	if uint64(len(b)-pos) < n {
		return f, false, nil
	}
	f.Payload = append([]byte{}, b[pos:pos+int(n)]...)
	if f.Masked {
		for i := range f.Payload {
			f.Payload[i] ^= key[i&3]
		}
	}
	p.buf = append(p.buf[:0], b[pos+int(n):]...)
	return f, true, nil
}

// SplitHTTPHead splits a byte stream at the end of the HTTP request/response
// head (the blank line); ok is false while the head is incomplete.
func SplitHTTPHead(b []byte) (head, rest []byte, ok bool) {
	i := bytes.Index(b, []byte("\r\n\r\n"))
	if i < 0 {
		return nil, nil, false
	}
	return b[:i+4], b[i+4:], true
}
