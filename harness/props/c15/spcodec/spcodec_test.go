package spcodec

import (
	"bytes"
	"net"
	"testing"
)

func TestCodecSelfConsistency(t *testing.T) {
	if !bytes.Equal(Header(0x640), []byte{0, 'S', 'P', 0, 0x06, 0x40, 0, 0}) || !HeaderOK(Header(0x31), 0x31) || HeaderOK(Header(0x31), 0x30) {
		t.Fatal("header")
	}
	for _, ipc := range []bool{false, true} {
		d := &Decoder{IPC: ipc, Max: 10}
		d.Write(Frame(ipc, []byte("hello")))
		d.Write(Frame(ipc, nil))
		d.Write(AppendPrefix(nil, ipc, 11))
		p, ok, err := d.Next()
		if err != nil || !ok || string(p) != "hello" {
			t.Fatal("frame 1", p, ok, err)
		}
		if p, ok, err = d.Next(); err != nil || !ok || len(p) != 0 {
			t.Fatal("frame 2")
		}
		if _, _, err = d.Next(); err == nil {
			t.Fatal("over-limit length accepted")
		}
	}
	w := &WSParser{}
	w.Write([]byte{0x82, 0x85, 1, 2, 3, 4, 'h' ^ 1, 'e' ^ 2, 'l' ^ 3, 'l' ^ 4, 'o' ^ 1, 0x01, 0x7e, 0x00})
	f, ok, err := w.Next()
	if err != nil || !ok || !f.Fin || f.Opcode != WSBinary || !f.Masked || string(f.Payload) != "hello" {
		t.Fatal("ws frame", f, ok, err)
	}
	if _, ok, _ = w.Next(); ok {
		t.Fatal("incomplete ws frame reported complete")
	}
}

func TestForeignTCPOwnSocket(t *testing.T) {
	l, err := net.Listen("tcp", "127.0.0.1:0")
	if err != nil {
		t.Skip(err)
	}
	defer l.Close()
	c, err := net.Dial("tcp", l.Addr().String())
	if err != nil {
		t.Skip(err)
	}
	defer c.Close()
	s, _ := l.Accept()
	defer s.Close()
	if ForeignTCP(c.LocalAddr()) || ForeignTCP(s.RemoteAddr()) {
		t.Fatal("own socket reported as foreign")
	}
	// pid 1's or any other process's sockets cannot be opened here; a vanished endpoint must answer false
	c.Close()
	s.Close()
	if ForeignTCP(&net.TCPAddr{IP: net.IPv4(127, 0, 0, 1), Port: 1}) {
		t.Fatal("unknown endpoint reported as foreign")
	}
}
