//go:build verif

package c15

import (
	"bytes"
	"crypto/tls"
	"fmt"
	"math/rand"
	"net"
	"sync"

	"go.nanomsg.org/mangos/v3"

	"verifharness/mon"
	"verifharness/props/c15/spcodec"
)

// Two kinds about the edges of the stream mapping:
//
// cut    — "every message is a length followed by exactly that many bytes": a stream that ends
//          inside a frame (inside the length prefix, right after it, part-way through the body,
//          one byte short) carries no message for that frame, whatever length was announced and
//          however much of the body did arrive.
// slowhs — "each side first sends the header": the library's own header goes out on every
//          connection at once, whatever other connections of the same end point are doing.  Peers
//          that have connected but not (or only partly) sent their header, or have not even begun
//          TLS, are pending while a by-the-book peer connects, is served, and exchanges a message;
//          the slow ones finish later and are served as well.

type cutSpec struct {
	Pre      []int  `json:"pre,omitempty"` // whole messages (body sizes) delivered on the connection first
	Announce int    `json:"announce"`      // payload length the cut frame announces (at least the pattern header)
	Sent     int    `json:"sent"`          // bytes of that frame (prefix included) written before the stream ends
	End      string `json:"end"`           // fin: orderly end of the peer's direction; close: the peer closes (reset on tcp)
	Seg      string `json:"seg"`           // whole | rand: how the written part is segmented
}

type idleSpec struct {
	Stage string `json:"stage"`       // silent: connected, nothing sent; partial: N bytes of the header sent; notls: tcp up, no TLS hello yet
	N     int    `json:"n,omitempty"` // partial: bytes of the header already sent (1..7)
}

var recvSocks = []string{"xpair", "xpair1", "xsub", "xreq", "xrep", "xpull", "xsurveyor", "xrespondent", "xbus", "xstar"}

func genCutCases(rnd *rand.Rand, rounds, maxCuts int) []mon.CaseSpec {
	var out []mon.CaseSpec
	for round := 0; round < rounds; round++ {
		for _, tr := range streamTrs {
			pl := spcodec.PrefixLen(spcodec.IsIPC(tr))
			for _, role := range roles {
				for _, s := range recvSocks {
					var cuts []cutSpec
					for k := 1 + rnd.Intn(maxCuts); k > 0; k-- {
						var ct cutSpec
						switch rnd.Intn(8) {
						case 0:
							ct.Announce = 1 + rnd.Intn(300)
						case 1, 2:
							ct.Announce = classes[rnd.Intn(len(classes))] - 13 + rnd.Intn(30)
						case 3, 4:
							ct.Announce = 65537 + rnd.Intn(4500)
						case 5, 6:
							ct.Announce = 70000 + rnd.Intn(230000)
						default:
							ct.Announce = 1<<20 - 64 - rnd.Intn(8)
						}
						switch rnd.Intn(8) {
						case 0:
							ct.Sent = 1 + rnd.Intn(pl-1) // inside the prefix
						case 1:
							ct.Sent = pl // the whole prefix, nothing of the payload
						case 2:
							ct.Sent = pl + ct.Announce - 1 // one byte short
						case 3:
							ct.Sent = pl + 1 + rnd.Intn(64)
						default:
							ct.Sent = pl + 1 + rnd.Intn(ct.Announce)
						}
						ct.End = []string{"fin", "fin", "fin", "close"}[rnd.Intn(4)]
						ct.Seg = []string{"whole", "rand"}[rnd.Intn(2)]
						for n := rnd.Intn(3); n > 0; n-- {
							switch rnd.Intn(3) {
							case 0:
								ct.Pre = append(ct.Pre, rnd.Intn(300))
							case 1:
								ct.Pre = append(ct.Pre, rnd.Intn(70000))
							default:
								ct.Pre = append(ct.Pre, 65537+rnd.Intn(150000))
							}
						}
						cuts = append(cuts, ct)
					}
					out = append(out, mon.CaseSpec{Name: "cut", Spec: spec{Kind: "cut", Tr: tr, Role: role, Sock: s, Cuts: cuts}})
				}
			}
		}
	}
	return out
}

func genSlowHsCases(rnd *rand.Rand, rounds int) []mon.CaseSpec {
	var out []mon.CaseSpec
	for round := 0; round < rounds; round++ {
		for _, tr := range streamTrs {
			for _, role := range roles {
				for _, s := range xsocks {
					var idle []idleSpec
					for k := 1 + rnd.Intn(3); k > 0; k-- {
						st := idleSpec{Stage: "silent"}
						switch x := rnd.Intn(4); {
						case x == 0:
							st = idleSpec{Stage: "partial", N: 1 + rnd.Intn(7)}
						case x == 1 && tr == "tls+tcp":
							st = idleSpec{Stage: "notls"}
						}
						idle = append(idle, st)
					}
					out = append(out, mon.CaseSpec{Name: "slowhs", Spec: spec{Kind: "slowhs", Tr: tr, Role: role, Sock: s, Idle: idle}})
				}
			}
		}
	}
	return out
}

// deliver has the peer write one well-formed frame and checks that the library
// delivers exactly it.
func (g *rig) deliver(cn net.Conn, pid uint32, body []byte, what string) bool {
	c := g.c
	wh, want := inbound(g.sp.Sock, c.Rand, pid)
	f := spcodec.Frame(g.ipc, append(append([]byte{}, wh...), body...))
	wr := mon.Go("peer-write", func() (interface{}, error) { _, err := cn.Write(f); return nil, err })
	rc := mon.Go("RecvMsg", func() (interface{}, error) { return g.sock.RecvMsg() })
	if !g.wait("stream/frame-not-delivered", fmt.Sprintf("RecvMsg of %s (payload %d bytes)", what, len(wh)+len(body)), rc) {
		return false
	}
	v, err, _ := rc.Result()
	if err != nil {
		c.Violate("stream/recv-error:"+g.tag, "RecvMsg returned %v while %s (payload %d bytes) was on the wire", err, what, len(wh)+len(body))
		return false
	}
	got := v.(*mangos.Message)
	if !bytes.Equal(got.Header, want) || !bytes.Equal(got.Body, body) {
		c.Violate("stream/delivered-differs:"+g.tag, "%s, payload %d bytes (hdr % x): delivered Header % x (want % x), Body %d bytes (want %d), first difference at %d",
			what, len(wh)+len(body), wh, got.Header, want, len(got.Body), len(body), firstDiff(got.Body, body))
		return false
	}
	got.Free()
	if !g.wait("harness:peer-write-stuck", "raw peer finishing its write", wr) {
		return false
	}
	if _, err, _ := wr.Result(); err != nil {
		c.Violate("stream/peer-write-failed:"+g.tag, "the library closed or broke the connection while a well-formed frame was written: %v", err)
		return false
	}
	return true
}

// awaitDetached waits for the library to let go of a connection the peer has ended.  That it
// does is not the mapping's business: not getting there decides nothing.
func (g *rig) awaitDetached(base int, what string) bool {
	r := mon.Await(func() bool { return g.pw.Detached() > base }, mon.AwaitOpts{})
	if r.V != mon.Done {
		g.c.Inconclusive("%s: the pipe did not detach (%v after %v)", what, r.V, r.Waited)
		return false
	}
	return true
}

func caseCut(c *mon.Case, sp spec) {
	g := newRig(c, sp)
	cn, pid, ok := g.connectGood(nil)
	if !ok {
		return
	}
	whole, discarded := 0, 0
	shape := ""
	for i, ct := range sp.Cuts {
		for k, sz := range ct.Pre {
			if !g.deliver(cn, pid, rndBytes(c.Rand, sz), fmt.Sprintf("whole message %d before cut %d", k, i)) {
				return
			}
			whole++
			shape += sizeClass(sz)
		}
		// a well-formed frame, of which only the first Sent bytes reach the wire
		wh, _ := inbound(sp.Sock, c.Rand, pid)
		n := ct.Announce - len(wh)
		if n < 0 {
			n = 0
		}
		payload := append(append([]byte{}, wh...), rndBytes(c.Rand, n)...)
		frame := spcodec.Frame(g.ipc, payload)
		sent := ct.Sent
		if sent > len(frame)-1 {
			sent = len(frame) - 1
		}
		if sent < 1 {
			sent = 1
		}
		pl := spcodec.PrefixLen(g.ipc)
		where := "in-body"
		if sent < pl {
			where = "in-prefix"
		} else if sent == pl {
			where = "after-prefix"
		}
		c.Logf("cut %d: frame announcing %d payload bytes, %d of %d frame bytes written (%s), then %s, seg=%s", i, len(payload), sent, len(frame), where, ct.End, ct.Seg)
		det0 := g.pw.Detached()
		part := frame[:sent]
		wr := mon.Go("peer-write-cut", func() (interface{}, error) {
			var err error
			if ct.Seg == "rand" {
				err = spcodec.Segment(cn, part, segCuts("rand", rand.New(rand.NewSource(int64(sent))), sent))
			} else {
				_, err = cn.Write(part)
			}
			if err != nil {
				return nil, err
			}
			if ct.End == "fin" {
				closeWrite(cn)
			} else {
				cn.Close()
			}
			return nil, nil
		})
		if !g.wait("harness:peer-write-stuck", "raw peer writing the first part of a frame and ending its stream", wr) {
			return
		}
		if _, err, _ := wr.Result(); err != nil {
			c.Violate("stream/peer-write-failed:"+g.tag, "the library closed or broke the connection while the first %d bytes of a well-formed frame were written: %v", sent, err)
			return
		}
		if !g.awaitDetached(det0, fmt.Sprintf("after the peer's stream ended %s of a frame", where)) {
			return
		}
		if ct.End == "fin" {
			// the peer's own direction is still open: whatever the library wrote on its way out is seen
			tail := mon.Go("peer-read-tail", func() (interface{}, error) { return spcodec.ReadUntilClosed(cn) })
			if r := mon.Await(tail.Done, mon.AwaitOpts{}); r.V != mon.Done {
				c.Inconclusive("the library detached the pipe but did not close the connection whose stream ended inside a frame (%v)", r.V)
				return
			}
			v, _, _ := tail.Result()
			if extra := v.([]byte); len(extra) > 0 {
				c.Violate("stream/stray-bytes:"+g.tag, "the library wrote %d bytes (% x) on a connection it was never asked to send on, after the peer's stream ended inside a frame", len(extra), head(extra, 32))
				return
			}
		}
		cn.Close()
		if g.lastDialer != nil {
			g.lastDialer.Close()
		}

		// Absence: the cut frame's connection is gone (anything the transport made of it was
		// handed up before the pipe detached); the next connection's first message is a
		// sentinel, and the first message the socket delivers must be that sentinel.
		cn, pid, ok = g.connectGood(nil)
		if !ok {
			return
		}
		swh, want := inbound(sp.Sock, c.Rand, pid)
		body := []byte(fmt.Sprintf("SENTINEL-after-cut-%d-%d", c.Idx, i))
		if _, err := cn.Write(spcodec.Frame(g.ipc, append(append([]byte{}, swh...), body...))); err != nil {
			c.Violate("stream/peer-write-failed:"+g.tag, "writing the sentinel frame on the next connection: %v", err)
			return
		}
		rc := mon.Go("RecvMsg", func() (interface{}, error) { return g.sock.RecvMsg() })
		if !g.wait("stream/frame-not-delivered", "RecvMsg of the sentinel on the connection after a cut one", rc) {
			return
		}
		v, err, _ := rc.Result()
		if err != nil {
			c.Violate("stream/recv-error:"+g.tag, "RecvMsg returned %v while the sentinel was on the wire", err)
			return
		}
		m := v.(*mangos.Message)
		if !bytes.Equal(m.Body, body) || !bytes.Equal(m.Header, want) {
			isPart := ""
			if len(m.Body) > 0 && bytes.HasSuffix(part, m.Body) {
				isPart = " — these are the bytes of the cut frame that did arrive"
			}
			c.Violate("stream/cut-frame-delivered:"+g.tag+":"+where,
				"a frame announced %d payload bytes, %d of them arrived, then the peer's stream ended (%s, written %s): RecvMsg delivered Header % x Body %d bytes (prefix % x)%s; the first message may only be the sentinel %q of the next connection",
				len(payload), maxInt(0, sent-pl), ct.End, ct.Seg, m.Header, len(m.Body), head(m.Body, 24), isPart, body)
			return
		}
		m.Free()
		discarded++
		shape += "|" + where + sizeClass(len(payload)) + ct.End
	}
	c.Count("cut_frames_not_delivered", discarded)
	c.Count("whole_frames_before_cut_compared", whole)
	if discarded > 0 {
		c.Nontrivial()
	}
	c.Sig("cut|%s|%s", g.tag, shape)
}

func maxInt(a, b int) int {
	if a > b {
		return a
	}
	return b
}

// ---- peers that are slow with their header -------------------------------------------

// frameSink decodes everything the library writes on one connection (blocks in Read).
type frameSink struct {
	mu  sync.Mutex
	got [][]byte
	err error
}

func startSink(cn net.Conn, ipc bool) *frameSink {
	k := &frameSink{}
	go func() {
		dec := &spcodec.Decoder{IPC: ipc, Max: 1 << 24}
		for {
			fr, err := dec.ReadFrames(cn, 1)
			k.mu.Lock()
			k.got = append(k.got, fr...)
			if err != nil {
				k.err = err
			}
			k.mu.Unlock()
			if err != nil {
				return
			}
		}
	}()
	return k
}

func (k *frameSink) has(p []byte) bool {
	k.mu.Lock()
	defer k.mu.Unlock()
	for _, f := range k.got {
		if bytes.Equal(f, p) {
			return true
		}
	}
	return false
}

func (k *frameSink) frames() [][]byte {
	k.mu.Lock()
	defer k.mu.Unlock()
	return append([][]byte{}, k.got...)
}

type slowPeer struct {
	st   idleSpec
	cn   net.Conn
	dial *mon.Call
	sink *frameSink
}

const sigHeldUp = "stream/handshake-held-up-by-pending-peer"

func caseSlowHs(c *mon.Case, sp spec) {
	g := newRig(c, sp)
	hdr := spcodec.Header(g.proto.PeerNum)
	single := sp.Sock == "xpair" || sp.Sock == "xpair1" // these take one peer at a time
	var attached []*slowPeer                            // peers whose pipe is attached now
	var sentOut [][]byte
	served := 0

	// exchange one message with the peer whose pipe attached last
	exchange := func(p *slowPeer, pid uint32, what string) bool {
		if canRecv(sp.Sock) {
			return g.deliver(p.cn, pid, rndBytes(c.Rand, 1+c.Rand.Intn(600)), "the first message of "+what)
		}
		// xpub sends to every attached peer, xpush to one of them
		p.sink = startSink(p.cn, g.ipc)
		h, wh := outbound(sp.Sock, c.Rand, pid)
		body := append([]byte(fmt.Sprintf("to-%s-%d-", what, len(sentOut))), rndBytes(c.Rand, 1+c.Rand.Intn(600))...)
		wire := append(append([]byte{}, wh...), body...)
		sentOut = append(sentOut, wire)
		mm := mangos.NewMessage(len(body))
		mm.Header = append(mm.Header, h...)
		mm.Body = append(mm.Body, body...)
		sc := mon.Go("SendMsg", func() (interface{}, error) { return nil, g.sock.SendMsg(mm) })
		if !g.wait("stream/send-stuck", "SendMsg with attached, reading peers", sc) {
			return false
		}
		if _, err, _ := sc.Result(); err != nil {
			c.Violate("stream/send-error:"+g.tag, "SendMsg returned %v with attached reading peers", err)
			return false
		}
		need := 1
		if sp.Sock == "xpub" {
			need = len(attached)
		}
		reached := func() bool {
			n := 0
			for _, q := range attached {
				if q.sink.has(wire) {
					n++
				}
			}
			return n >= need
		}
		if !c.AwaitOrViolate("stream/frames-not-received:"+g.tag, fmt.Sprintf("%d of the %d attached raw peers decoding the message the library was asked to send [%s]", need, len(attached), g.tag), reached, mon.AwaitOpts{}) {
			return false
		}
		for _, q := range attached {
			for _, f := range q.sink.frames() {
				known := false
				for _, w := range sentOut {
					known = known || bytes.Equal(f, w)
				}
				if !known {
					c.Violate("stream/library-frame-differs:"+g.tag, "a raw peer decoded a payload of %d bytes (prefix % x) that is none of the %d messages sent", len(f), head(f, 24), len(sentOut))
					return false
				}
			}
		}
		return true
	}
	// for the one-peer-at-a-time patterns the peer served before leaves first
	leave := func() bool {
		if !single || len(attached) == 0 {
			return true
		}
		det0 := g.pw.Detached()
		attached[0].cn.Close()
		attached = nil
		return g.awaitDetached(det0, "after the served peer of a "+sp.Sock+" socket closed")
	}

	// 1. the slow peers connect and stay where their stage says
	var slow []*slowPeer
	for i, st := range sp.Idle {
		if i > 0 {
			g.stallSig = sigHeldUp // an earlier connection is pending from here on
		}
		base := g.pw.Attached()
		cn, dial, _, ok := g.rawConnX(st.Stage == "notls")
		if !ok {
			return
		}
		p := &slowPeer{st: st, cn: cn, dial: dial}
		slow = append(slow, p)
		if st.Stage != "notls" {
			if !g.readOwnHeader(cn) {
				return
			}
		}
		if st.Stage == "partial" {
			if _, err := cn.Write(hdr[:st.N]); err != nil {
				c.Violate("stream/good-header-rejected:"+g.tag, "writing the first %d bytes of the correct peer header failed: %v", st.N, err)
				return
			}
		}
		if n := g.pw.Attached(); n != base {
			attachViolation(c, g.pw, "stream/attached-before-peer-header:"+g.tag, "pipe attached (%d -> %d) although the peer has sent at most %d bytes of its header", base, n, st.N)
			return
		}
		c.Logf("slow peer %d: %s %d", i, st.Stage, st.N)
	}
	g.stallSig = sigHeldUp

	// 2. a peer that does everything by the book is served while they are pending
	cn, pid, ok := g.connectGood(nil)
	if !ok {
		return
	}
	book := &slowPeer{cn: cn}
	attached = append(attached, book)
	if !exchange(book, pid, "the by-the-book peer") {
		return
	}
	served++
	c.Count("served_while_others_pending", 1)
	c.Count("pending_handshakes_alongside", len(slow))

	// 3. the slow ones get round to it, in a PRNG order, and are served as well
	order := c.Rand.Perm(len(slow))
	for _, i := range order {
		p := slow[i]
		if !leave() {
			return
		}
		base := g.pw.Attached()
		if p.st.Stage == "notls" {
			hs := mon.Go("tls-handshake", func() (interface{}, error) { return nil, p.cn.(*tls.Conn).Handshake() })
			if !g.wait(sigHeldUp, "late TLS handshake of a peer that had only opened the tcp connection", hs) {
				return
			}
			if _, err, _ := hs.Result(); err != nil {
				c.Inconclusive("late TLS handshake: %v", err)
				return
			}
			if !g.readOwnHeader(p.cn) {
				return
			}
		}
		rest := hdr[p.st.N:]
		if err := spcodec.Segment(p.cn, rest, segCuts([]string{"whole", "byte"}[c.Rand.Intn(2)], c.Rand, len(rest))); err != nil {
			c.Violate("stream/good-header-rejected:"+g.tag, "writing the last %d bytes of the correct peer header (stage %s) failed: %v", len(rest), p.st.Stage, err)
			return
		}
		if p.dial != nil {
			if !g.wait("stream/dial-stuck-after-good-header", "library Dial returning after a correct, late peer header", p.dial) {
				return
			}
			if _, err, _ := p.dial.Result(); err != nil {
				c.Violate("stream/good-header-rejected:"+g.tag, "Dial returned %v after the correct peer header % x that came late (stage %s %d)", err, hdr, p.st.Stage, p.st.N)
				return
			}
		}
		if !c.AwaitOrViolate("stream/good-header-not-attached:"+g.tag, fmt.Sprintf("pipe attaching after the correct peer header that came late (stage %s %d) [%s]", p.st.Stage, p.st.N, g.tag),
			func() bool { return g.pw.Attached() > base }, mon.AwaitOpts{}) {
			return
		}
		c.Count("good_handshakes", 1)
		attached = append(attached, p)
		if !exchange(p, g.pw.LastID(), fmt.Sprintf("late peer %d", i)) {
			return
		}
		served++
		c.Count("late_headers_served", 1)
	}
	if n := g.pw.Attached(); n != served {
		attachViolation(c, g.pw, "stream/attach-count:"+g.tag, "%d pipes attached in total, %d peers completed a handshake", n, served)
		return
	}
	c.Nontrivial()
	c.Sig("slowhs|%s|%v|%v", g.tag, sp.Idle, order)
}
