package c15

import (
	"bytes"
	"crypto/tls"
	"encoding/binary"
	"fmt"
	"math/rand"
	"net"
	"sync"
	"testing"
	"time"

	"go.nanomsg.org/mangos/v3"

	"verifharness/hx"
	"verifharness/mon"
	"verifharness/props/c15/spcodec"
)

// C15 — bytes on the wire follow the SP stream and WebSocket mappings.
//
// The library is always one end of a real loopback connection (tcp, tls+tcp,
// ipc, ws, wss; as dialer and as listener); the other end is a raw peer driven
// by the independent codec in ./spcodec (net.Conn / crypto/tls directly;
// gorilla's generic WebSocket client/server plus a byte tap whose frames are
// parsed by spcodec.WSParser).

type spec struct {
	Kind    string     `json:"kind"` // frame | hsdev | ws
	Tr      string     `json:"tr"`
	Role    string     `json:"role"` // what the LIBRARY does: dial | listen
	Sock    string     `json:"sock"` // raw-mode socket constructor; its protocol number is the subject
	Seg     string     `json:"seg,omitempty"`
	Sizes   []int      `json:"sizes,omitempty"`   // body sizes, peer -> library then library -> peer
	Devs    [][2]int   `json:"devs,omitempty"`    // hsdev: (position, value) single-byte deviations of the peer header
	Claims  []int      `json:"claims,omitempty"`  // hsdev: well-formed headers naming these protocol numbers
	Trunc   []int      `json:"trunc,omitempty"`   // hsdev: correct header cut to this many bytes, then end of stream
	Full    bool       `json:"full,omitempty"`    // ws listen: the whole list of foreign subprotocol offers
	Cuts    []cutSpec  `json:"cuts,omitempty"`    // cut: streams that end inside a frame, one connection each
	Idle    []idleSpec `json:"idle,omitempty"`    // slowhs: connections that are part-way through the handshake when the next peer arrives
	Over    []overSpec `json:"over,omitempty"`    // over: announced lengths above the receive limit, one connection each
	MaxRx   int        `json:"maxrx,omitempty"`   // over: OptionMaxRecvSize set on the socket before its end point is made (0: default)
	Answers []wsAnswer `json:"answers,omitempty"` // wsdial: what the raw ws/wss server answers the dialer's upgrade requests with, in order, before its one correct answer
	Serve   string     `json:"serve,omitempty"`   // wsemb: who runs the HTTP server of a ws/wss listener: "handler" (the application's own http.Server, OptionWebSocketHandler) | "mux" (the listener's, with application routes added through OptionWebSocketMux)
}

func TestMain(m *testing.M) { hx.Main(m) }

var xsocks = []string{"xpair", "xpair1", "xpub", "xsub", "xreq", "xrep", "xpush", "xpull", "xsurveyor", "xrespondent", "xbus", "xstar"}
var streamTrs = []string{"tcp", "tls+tcp", "ipc"}
var roles = []string{"listen", "dial"}
var segs = []string{"whole", "coalesce", "byte", "rand"}

func canRecv(s string) bool { return s != "xpub" && s != "xpush" }
func canSend(s string) bool { return s != "xsub" && s != "xpull" }

var classes = []int{64, 128, 256, 512, 1024, 4096, 8192, 65536}

func genSizes(rnd *rand.Rand, n int, big bool) []int {
	var out []int
	for i := 0; i < n; i++ {
		switch rnd.Intn(6) {
		case 0:
			out = append(out, rnd.Intn(10))
		case 1, 2:
			c := classes[rnd.Intn(len(classes))]
			out = append(out, c-13+rnd.Intn(17)) // header-shifted totals land on and around the class
		case 3:
			out = append(out, rnd.Intn(300))
		case 4:
			out = append(out, rnd.Intn(5000))
		default:
			out = append(out, rnd.Intn(70000))
		}
	}
	if big {
		out[rnd.Intn(len(out))] = 1<<20 - 16 - rnd.Intn(8)
	}
	return out
}

func TestC15(t *testing.T) {
	r := mon.NewRunner(t, "C15")
	rnd := r.Rand()
	var cases []mon.CaseSpec

	// framing, both directions, every protocol number x stream transport x role
	frameRounds := r.Pick(48, 600)
	for round := 0; round < frameRounds; round++ {
		for _, tr := range streamTrs {
			for _, role := range roles {
				for _, s := range xsocks {
					seg := segs[rnd.Intn(len(segs))]
					if round < len(segs) && r.Thorough() {
						seg = segs[round]
					}
					n := 6 + rnd.Intn(r.Pick(7, 15))
					big := rnd.Intn(12) == 0 && seg != "byte"
					sizes := genSizes(rnd, n, big)
					if seg == "byte" {
						for i := range sizes {
							if sizes[i] > 1500 {
								sizes[i] %= 1500
							}
						}
					}
					cases = append(cases, mon.CaseSpec{Name: "frame", Spec: spec{Kind: "frame", Tr: tr, Role: role, Sock: s, Seg: seg, Sizes: sizes}})
				}
			}
		}
	}

	// handshake deviations
	for _, tr := range streamTrs {
		for _, role := range roles {
			for _, s := range xsocks {
				p := spcodec.ByName(s)
				good := spcodec.Header(p.PeerNum)
				var claims []int
				for _, q := range spcodec.Protos {
					if q.Num != p.PeerNum {
						claims = append(claims, int(q.Num))
					}
				}
				sw := int(p.PeerNum>>8 | p.PeerNum<<8)
				claims = append(claims, sw, int(p.PeerNum)+1, int(p.PeerNum)|0x8000, 0, 0xffff)
				if !r.Thorough() {
					var devs [][2]int
					for pos := 0; pos < 8; pos++ {
						g := int(good[pos])
						seen := map[int]bool{g: true}
						for _, v := range []int{g ^ 0x01, g ^ 0x80, g ^ 0xff} {
							seen[v] = true
							devs = append(devs, [2]int{pos, v})
						}
						for n := 0; n < 29; {
							if v := rnd.Intn(256); !seen[v] {
								seen[v] = true
								devs = append(devs, [2]int{pos, v})
								n++
							}
						}
					}
					cases = append(cases, mon.CaseSpec{Name: "hsdev", Spec: spec{Kind: "hsdev", Tr: tr, Role: role, Sock: s, Devs: devs, Claims: claims, Trunc: []int{0, 1, 2, 3, 4, 5, 6, 7}}})
					continue
				}
				// thorough: every one of the 8 x 255 single-byte deviations, one position per case
				for pos := 0; pos < 8; pos++ {
					var devs [][2]int
					for v := 0; v < 256; v++ {
						if v != int(good[pos]) {
							devs = append(devs, [2]int{pos, v})
						}
					}
					sp := spec{Kind: "hsdev", Tr: tr, Role: role, Sock: s, Devs: devs}
					if pos == 4 {
						sp.Claims = claims
					}
					if pos == 0 {
						sp.Trunc = []int{0, 1, 2, 3, 4, 5, 6, 7}
					}
					cases = append(cases, mon.CaseSpec{Name: "hsdev", Spec: sp})
				}
			}
		}
	}

	// websocket
	wsRounds := r.Pick(16, 150)
	for round := 0; round < wsRounds; round++ {
		for _, tr := range []string{"ws", "wss"} {
			for _, role := range roles {
				for _, s := range xsocks {
					sizes := genSizes(rnd, 5+rnd.Intn(5), rnd.Intn(16) == 0)
					cases = append(cases, mon.CaseSpec{Name: "ws", Spec: spec{Kind: "ws", Tr: tr, Role: role, Sock: s, Sizes: sizes, Full: round == 0}})
				}
			}
		}
	}

	// a peer that sends its first frames right behind its header
	for i := 0; i < r.Pick(36, 600); i++ {
		n := 1 + rnd.Intn(6)
		sizes := make([]int, n)
		for j := range sizes {
			sizes[j] = 1 + rnd.Intn([]int{40, 600, 5000}[rnd.Intn(3)])
		}
		cases = append(cases, mon.CaseSpec{Name: "eager", Spec: spec{Kind: "eager", Tr: streamTrs[i%len(streamTrs)], Role: roles[(i/len(streamTrs))%len(roles)],
			Sock: []string{"xpair", "xpull", "xbus"}[rnd.Intn(3)], Seg: []string{"at-once", "late-read"}[rnd.Intn(2)], Sizes: sizes}})
	}
	// several connections of one process written at the same time
	for i := 0; i < r.Pick(18, 400); i++ {
		cases = append(cases, mon.CaseSpec{Name: "conc", Spec: spec{Kind: "conc", Tr: []string{"ipc", "tcp", "tls+tcp"}[i%3], Sizes: []int{8 + rnd.Intn(12)}}})
	}
	// streams that end inside a frame; peers that are slow with their header while others connect
	// (appended last: the cases above keep their indices and specs)
	cases = append(cases, genCutCases(rnd, r.Pick(3, 20), r.Pick(3, 5))...)
	cases = append(cases, genSlowHsCases(rnd, r.Pick(2, 12))...)
	// lengths of which the upper bytes count
	cases = append(cases, genOverCases(rnd, r.Pick(2, 16), r.Pick(3, 5))...)
	// ws/wss listeners that are part of the application's HTTP service
	cases = append(cases, genWSEmbCases(rnd, r.Pick(2, 12))...)
	// ws/wss dialers whose server upgrades without confirming the offered subprotocol
	cases = append(cases, genWSDialCases(rnd, r.Pick(2, 16))...)

	r.Run(cases, func(c *mon.Case) {
		sp := c.Spec.(spec)
		defer func() {
			// a harness end point that cannot be set up (ports, descriptors) decides nothing
			if p := recover(); p != nil {
				e, ok := p.(envError)
				if !ok {
					panic(p)
				}
				c.Inconclusive("environment: %v", e.err)
			}
		}()
		switch sp.Kind {
		case "frame":
			caseFrame(c, sp)
		case "hsdev":
			caseHsDev(c, sp)
		case "ws", "wsemb":
			caseWS(c, sp)
		case "conc":
			caseConc(c, sp)
		case "eager":
			caseEager(c, sp)
		case "cut":
			caseCut(c, sp)
		case "slowhs":
			caseSlowHs(c, sp)
		case "over":
			caseOver(c, sp)
		case "wsdial":
			caseWSDial(c, sp)
		}
		hx.LedgerCheck(c)
	})
}

type envError struct{ err error }

// ---- pipe watcher ---------------------------------------------------------------

type pipeWatch struct {
	mu       sync.Mutex
	attached int
	detached int
	ids      []uint32
	remotes  []net.Addr
}

func watch(s mangos.Socket) *pipeWatch {
	w := &pipeWatch{}
	s.SetPipeEventHook(func(ev mangos.PipeEvent, p mangos.Pipe) {
		w.mu.Lock()
		switch ev {
		case mangos.PipeEventAttached:
			w.attached++
			w.ids = append(w.ids, p.ID())
			if v, err := p.GetOption(mangos.OptionRemoteAddr); err == nil {
				if a, ok := v.(net.Addr); ok {
					w.remotes = append(w.remotes, a)
				}
			}
		case mangos.PipeEventDetached:
			w.detached++
		}
		w.mu.Unlock()
	})
	return w
}

func (w *pipeWatch) Attached() int { w.mu.Lock(); defer w.mu.Unlock(); return w.attached }
func (w *pipeWatch) Detached() int { w.mu.Lock(); defer w.mu.Unlock(); return w.detached }

// foreign names an attached pipe whose peer is a socket of another process
// (a stray connection to a recycled loopback port), or returns "".
func (w *pipeWatch) foreign() string {
	w.mu.Lock()
	rs := append([]net.Addr{}, w.remotes...)
	w.mu.Unlock()
	for _, a := range rs {
		if spcodec.ForeignTCP(a) {
			return a.String()
		}
	}
	return ""
}

// attachViolation reports a violation about which pipes attached, unless a
// stray connection from another process explains the count.
func attachViolation(c *mon.Case, w *pipeWatch, sig, format string, a ...interface{}) {
	if f := w.foreign(); f != "" {
		c.Inconclusive("a connection from another process (%s) attached to the socket under test", f)
		return
	}
	c.Violate(sig, format, a...)
}
func (w *pipeWatch) LastID() uint32 {
	w.mu.Lock()
	defer w.mu.Unlock()
	if len(w.ids) == 0 {
		return 0
	}
	return w.ids[len(w.ids)-1]
}

// ---- pattern headers (read off the raw-mode receive/send paths) -----------------

func be32(v uint32) []byte { b := make([]byte, 4); binary.BigEndian.PutUint32(b, v); return b }

func rndBytes(rnd *rand.Rand, n int) []byte {
	b := make([]byte, n)
	rnd.Read(b)
	return b
}

// inbound returns the pattern header a peer puts in front of body so that the
// raw socket delivers it, and the Header the library must hand to the application.
func inbound(sock string, rnd *rand.Rand, pipeID uint32) (wireHdr, wantHdr []byte) {
	switch sock {
	case "xpair", "xsub", "xpull":
		return nil, nil
	case "xbus":
		return nil, be32(pipeID)
	case "xreq", "xsurveyor":
		h := rndBytes(rnd, 4)
		return h, h
	case "xrep", "xrespondent":
		var h []byte
		for k := rnd.Intn(3); k > 0; k-- {
			w := rndBytes(rnd, 4)
			w[0] &= 0x7f
			h = append(h, w...)
		}
		w := rndBytes(rnd, 4)
		w[0] |= 0x80
		h = append(h, w...)
		return h, append(be32(pipeID), h...)
	case "xpair1", "xstar":
		hop := byte(rnd.Intn(6))
		return []byte{0, 0, 0, hop}, []byte{0, 0, 0, hop + 1}
	}
	panic("inbound " + sock)
}

// outbound returns the Header to pass to SendMsg and the header bytes that must
// precede the body on the wire.
func outbound(sock string, rnd *rand.Rand, pipeID uint32) (hdr, wireHdr []byte) {
	switch sock {
	case "xpair", "xpub", "xpush", "xreq", "xsurveyor":
		h := rndBytes(rnd, 4*rnd.Intn(4))
		return h, h
	case "xbus":
		h := rndBytes(rnd, []int{0, 8, 12}[rnd.Intn(3)])
		return h, h
	case "xpair1":
		h := []byte{0, 0, 0, byte(rnd.Intn(6))}
		if rnd.Intn(2) == 0 {
			h = append(h, rndBytes(rnd, 4)...)
		}
		return h, h
	case "xstar":
		h := []byte{0, 0, 0, byte(rnd.Intn(6))}
		return h, h
	case "xrep", "xrespondent":
		x := rndBytes(rnd, 4*rnd.Intn(3))
		return append(be32(pipeID), x...), x
	}
	panic("outbound " + sock)
}

// ---- one library socket with one endpoint, and raw peers for it -----------------

type rig struct {
	c      *mon.Case
	sp     spec
	proto  spcodec.Proto
	ipc    bool
	sock   mangos.Socket
	pw     *pipeWatch
	url    string               // library listener address (role listen)
	rl     *spcodec.RawListener // raw listener (role dial)
	srvTLS *tls.Config
	cliTLS *tls.Config
	conns  []net.Conn
	tag    string // tr:role:sock, used in signatures
	// stallSig, when set, is the signature for "the library does not start this connection's
	// handshake" (TLS handshake or own header not forthcoming): the kinds that keep other
	// connections pending on purpose name that situation.
	stallSig   string
	lastDialer mangos.Dialer // role dial: the dialer of the latest rawConn
}

func newRig(c *mon.Case, sp spec) *rig {
	g := &rig{c: c, sp: sp, proto: spcodec.ByName(sp.Sock), ipc: spcodec.IsIPC(sp.Tr), tag: sp.Tr + ":" + sp.Role + ":" + sp.Sock}
	g.srvTLS, g.cliTLS = hx.TlsConfigs()
	g.sock = hx.MustSock(c, sp.Sock)
	g.pw = watch(g.sock)
	if sp.MaxRx > 0 {
		if err := g.sock.SetOption(mangos.OptionMaxRecvSize, sp.MaxRx); err != nil {
			panic(envError{err})
		}
	}
	c.Cleanup(func() {
		for _, cn := range g.conns {
			cn.Close()
		}
		if g.rl != nil {
			g.rl.Close()
		}
	})
	if sp.Role == "listen" {
		var lo map[string]interface{}
		if sp.Tr == "tls+tcp" {
			lo = map[string]interface{}{mangos.OptionTLSConfig: g.srvTLS}
		}
		l, err := g.sock.NewListener(hx.ListenAddr(sp.Tr), lo)
		if err != nil {
			panic(envError{err})
		}
		if err := l.Listen(); err != nil {
			panic(envError{err})
		}
		g.url = l.Address()
	} else {
		path := ""
		if g.ipc {
			_, path = spcodec.SplitURL(hx.ListenAddr("ipc"))
		}
		rl, err := spcodec.Listen(sp.Tr, path, g.srvTLS)
		if err != nil {
			panic(envError{err})
		}
		g.rl = rl
	}
	return g
}

func (g *rig) dialOpts() map[string]interface{} {
	if g.sp.Tr == "tls+tcp" {
		return map[string]interface{}{mangos.OptionTLSConfig: g.cliTLS}
	}
	return nil
}

func (g *rig) wait(sig, what string, call *mon.Call) bool {
	return g.c.AwaitOrViolate(sig+":"+g.tag, what+" ["+g.tag+"]", call.Done, mon.AwaitOpts{})
}

// rawConn establishes the byte stream (no SP bytes written yet by the peer).
// For role dial it also returns the library's Dial call and dialer.
func (g *rig) rawConn() (net.Conn, *mon.Call, mangos.Dialer, bool) { return g.rawConnX(false) }

// stall is the signature for a connection whose set-up the library does not begin.
func (g *rig) stall(def string) string {
	if g.stallSig != "" {
		return g.stallSig
	}
	return def
}

// rawConnX is rawConn; with noTLS (tls+tcp only) the raw side returns its
// *tls.Conn before the TLS handshake: the TCP connection is up and the raw
// peer has sent nothing at all yet.
func (g *rig) rawConnX(noTLS bool) (net.Conn, *mon.Call, mangos.Dialer, bool) {
	c := g.c
	if g.sp.Role == "listen" {
		dc := mon.Go("raw-dial", func() (interface{}, error) {
			if noTLS {
				_, hostport := spcodec.SplitURL(g.url)
				t, err := spcodec.DialTCPNoLinger("tcp", hostport)
				if err != nil {
					return nil, err
				}
				return tls.Client(t, g.cliTLS), nil
			}
			return spcodec.Dial(g.url, g.cliTLS)
		})
		// plain connects complete in the kernel; a TLS handshake needs the library's side to run
		sig := "harness:raw-dial-stuck"
		if g.sp.Tr == "tls+tcp" && !noTLS {
			sig = g.stall(sig)
		}
		if !g.wait(sig, "raw peer connecting to the library listener", dc) {
			return nil, nil, nil, false
		}
		v, err, _ := dc.Result()
		if err != nil {
			c.Inconclusive("raw dial %s: %v", g.url, err)
			return nil, nil, nil, false
		}
		cn := v.(net.Conn)
		g.conns = append(g.conns, cn)
		return cn, nil, nil, true
	}
	d, err := g.sock.NewDialer(g.rl.URL(), g.dialOpts())
	if err != nil {
		panic(envError{err})
	}
	d.SetOption(mangos.OptionReconnectTime, time.Hour) // one connection per dialer: no re-dial into the raw listener
	g.lastDialer = d
	ac := mon.Go("raw-accept", func() (interface{}, error) {
		if noTLS {
			return g.rl.L.Accept() // a *tls.Conn whose handshake has not been run
		}
		return g.rl.Accept()
	})
	dial := mon.Go("Dial", func() (interface{}, error) { return nil, d.Dial() })
	if !g.wait(g.stall("harness:raw-accept-stuck"), "raw listener accepting the library's connection", ac) {
		return nil, nil, nil, false
	}
	v, err, _ := ac.Result()
	if err != nil {
		c.Inconclusive("raw accept: %v", err)
		return nil, nil, nil, false
	}
	cn := v.(net.Conn)
	g.conns = append(g.conns, cn)
	return cn, dial, d, true
}

// readOwnHeader reads the library's connection header and checks it.  The peer
// has written nothing yet, so this also shows that the library sends first.
func (g *rig) readOwnHeader(cn net.Conn) bool {
	c := g.c
	rd := mon.Go("read-header", func() (interface{}, error) {
		b := make([]byte, spcodec.HeaderLen)
		n, err := readFull(cn, b)
		return b[:n], err
	})
	what := "reading the library's 8-byte header before the peer has sent anything [" + g.tag + "]"
	switch r := mon.Await(rd.Done, mon.AwaitOpts{}); {
	case r.V == mon.Done:
	case spcodec.ForeignTCP(cn.RemoteAddr()):
		c.Inconclusive("the raw listener accepted a connection from another process (%s)", cn.RemoteAddr())
		return false
	case r.V == mon.Stuck:
		c.Violate(g.stall("stream/own-header-not-sent-first")+":"+g.tag, "%s: stuck after %v — every goroutine parked, identical over %d samples:\n%s", what, r.Waited, 5, r.Dump)
		return false
	default:
		c.Inconclusive("%s: not done after %v, process still active", what, r.Waited)
		return false
	}
	v, err, _ := rd.Result()
	got := v.([]byte)
	c.Count("own_headers_checked", 1)
	want := spcodec.Header(g.proto.Num)
	if err != nil || !bytes.Equal(got, want) {
		if spcodec.ForeignTCP(cn.RemoteAddr()) {
			c.Inconclusive("the raw listener accepted a connection from another process (%s)", cn.RemoteAddr())
			return false
		}
		c.Violate("stream/own-header-wrong:"+g.tag, "library sent header % x (err %v), the mapping requires % x", got, err, want)
		return false
	}
	return true
}

func readFull(cn net.Conn, b []byte) (int, error) {
	n := 0
	for n < len(b) {
		k, err := cn.Read(b[n:])
		n += k
		if err != nil {
			return n, err
		}
	}
	return n, nil
}

// connectGood performs a correct handshake from the peer side and waits for the
// pipe to attach.  cuts segments the peer's header write.
func (g *rig) connectGood(cuts []int) (net.Conn, uint32, bool) {
	c := g.c
	base := g.pw.Attached()
	cn, dial, _, ok := g.rawConn()
	if !ok {
		return nil, 0, false
	}
	if !g.readOwnHeader(cn) {
		return nil, 0, false
	}
	if n := g.pw.Attached(); n != base {
		attachViolation(c, g.pw, "stream/attached-before-peer-header:"+g.tag, "pipe attached (%d -> %d) although the peer has not sent its header", base, n)
		return nil, 0, false
	}
	hdr := spcodec.Header(g.proto.PeerNum)
	c.Logf("peer header % x cuts %v", hdr, cuts)
	if err := spcodec.Segment(cn, hdr, cuts); err != nil {
		c.Violate("stream/good-header-rejected:"+g.tag, "writing the correct peer header % x failed: %v", hdr, err)
		return nil, 0, false
	}
	if dial != nil {
		if !g.wait("stream/dial-stuck-after-good-header", "library Dial returning after a correct peer header", dial) {
			return nil, 0, false
		}
		if _, err, _ := dial.Result(); err != nil {
			c.Violate("stream/good-header-rejected:"+g.tag, "Dial returned %v after the correct peer header % x", err, hdr)
			return nil, 0, false
		}
	}
	if !c.AwaitOrViolate("stream/good-header-not-attached:"+g.tag, "pipe attaching after the correct peer header ["+g.tag+"]",
		func() bool { return g.pw.Attached() > base }, mon.AwaitOpts{}) {
		return nil, 0, false
	}
	c.Count("good_handshakes", 1)
	return cn, g.pw.LastID(), true
}

// ---- framing ---------------------------------------------------------------------

func segCuts(mode string, rnd *rand.Rand, n int) []int {
	switch mode {
	case "byte":
		cuts := make([]int, 0, n)
		for i := 1; i < n; i++ {
			cuts = append(cuts, i)
		}
		return cuts
	case "rand":
		var cuts []int
		pos := 0
		for pos < n {
			step := 1 + rnd.Intn(17)
			if rnd.Intn(3) == 0 {
				step = 1 + rnd.Intn(20000)
			}
			pos += step
			if pos < n {
				cuts = append(cuts, pos)
			}
		}
		return cuts
	}
	return nil
}

type inMsg struct {
	payload []byte
	wantHdr []byte
	body    []byte
}

func caseFrame(c *mon.Case, sp spec) {
	g := newRig(c, sp)
	hcuts := segCuts(map[string]string{"whole": "whole", "coalesce": "whole", "byte": "byte", "rand": "rand"}[sp.Seg], c.Rand, 8)
	if sp.Seg == "rand" {
		hcuts = []int{1 + c.Rand.Intn(7)}
	}
	cn, pid, ok := g.connectGood(hcuts)
	if !ok {
		return
	}
	nIn, nOut := 0, 0
	shape := ""

	// peer -> library
	if canRecv(sp.Sock) {
		var msgs []inMsg
		for _, sz := range sp.Sizes {
			wh, want := inbound(sp.Sock, c.Rand, pid)
			body := rndBytes(c.Rand, sz)
			msgs = append(msgs, inMsg{payload: append(append([]byte{}, wh...), body...), wantHdr: want, body: body})
		}
		for i := 0; i < len(msgs) && !c.Failed(); {
			n := 1 + c.Rand.Intn(8)
			if i+n > len(msgs) {
				n = len(msgs) - i
			}
			burst := msgs[i : i+n]
			i += n
			var writes [][]byte
			var all []byte
			for _, m := range burst {
				f := spcodec.Frame(g.ipc, m.payload)
				writes = append(writes, f)
				all = append(all, f...)
			}
			c.Logf("peer writes burst of %d frames (%d bytes) seg=%s", len(burst), len(all), sp.Seg)
			wr := mon.Go("peer-write", func() (interface{}, error) {
				switch sp.Seg {
				case "whole":
					for _, f := range writes {
						if _, err := cn.Write(f); err != nil {
							return nil, err
						}
					}
					return nil, nil
				case "coalesce":
					_, err := cn.Write(all)
					return nil, err
				}
				return nil, spcodec.Segment(cn, all, segCuts(sp.Seg, rand.New(rand.NewSource(int64(len(all)))), len(all)))
			})
			for k, m := range burst {
				rc := mon.Go("RecvMsg", func() (interface{}, error) { return g.sock.RecvMsg() })
				if !g.wait("stream/frame-not-delivered", fmt.Sprintf("RecvMsg of message %d of the burst (payload %d bytes)", k, len(m.payload)), rc) {
					return
				}
				v, err, _ := rc.Result()
				if err != nil {
					c.Violate("stream/recv-error:"+g.tag, "RecvMsg returned %v while a frame of %d bytes was on the wire", err, len(m.payload))
					return
				}
				got := v.(*mangos.Message)
				if !bytes.Equal(got.Header, m.wantHdr) || !bytes.Equal(got.Body, m.body) {
					c.Violate("stream/delivered-differs:"+g.tag, "payload %d bytes (hdr % x): delivered Header % x (want % x), Body %d bytes (want %d), first difference at %d",
						len(m.payload), m.payload[:len(m.payload)-len(m.body)], got.Header, m.wantHdr, len(got.Body), len(m.body), firstDiff(got.Body, m.body))
					return
				}
				got.Free()
				nIn++
				shape += sizeClass(len(m.payload))
			}
			if !g.wait("harness:peer-write-stuck", "raw peer finishing its writes", wr) {
				return
			}
			if _, err, _ := wr.Result(); err != nil {
				c.Violate("stream/peer-write-failed:"+g.tag, "the library closed or broke the connection while well-formed frames were written: %v", err)
				return
			}
		}
		c.Count("frames_peer_to_library_compared", nIn)
	}

	// library -> peer
	dec := &spcodec.Decoder{IPC: g.ipc, Max: 1 << 24}
	if canSend(sp.Sock) {
		type outMsg struct{ hdr, wire []byte }
		var msgs []outMsg
		for _, sz := range sp.Sizes {
			h, wh := outbound(sp.Sock, c.Rand, pid)
			body := rndBytes(c.Rand, sz)
			msgs = append(msgs, outMsg{hdr: h, wire: append(append([]byte{}, wh...), body...)})
		}
		for i := 0; i < len(msgs) && !c.Failed(); {
			n := 1 + c.Rand.Intn(8)
			if i+n > len(msgs) {
				n = len(msgs) - i
			}
			burst := msgs[i : i+n]
			i += n
			rd := mon.Go("peer-read", func() (interface{}, error) { return dec.ReadFrames(cn, len(burst)) })
			for _, m := range burst {
				mm := mangos.NewMessage(len(m.wire))
				mm.Header = append(mm.Header, m.hdr...)
				mm.Body = append(mm.Body, m.wire[wireHdrLen(sp.Sock, m.hdr):]...)
				c.Logf("SendMsg header % x body %d bytes", m.hdr, len(mm.Body))
				sc := mon.Go("SendMsg", func() (interface{}, error) { return nil, g.sock.SendMsg(mm) })
				if !g.wait("stream/send-stuck", "SendMsg with one attached, reading peer", sc) {
					return
				}
				if _, err, _ := sc.Result(); err != nil {
					c.Violate("stream/send-error:"+g.tag, "SendMsg returned %v with an attached reading peer", err)
					return
				}
			}
			if !g.wait("stream/frames-not-received", fmt.Sprintf("raw peer decoding %d frames the library was asked to send", len(burst)), rd) {
				return
			}
			v, err, _ := rd.Result()
			got := v.([][]byte)
			if err != nil {
				c.Violate("stream/library-frame-unparseable:"+g.tag, "independent decoder failed after %d of %d frames: %v; unconsumed bytes % x", len(got), len(burst), err, head(dec.Pending(), 48))
				return
			}
			for k, m := range burst {
				if !bytes.Equal(got[k], m.wire) {
					c.Violate("stream/library-frame-differs:"+g.tag, "SendMsg(header % x, body %d bytes): decoded payload has %d bytes, want %d (header then body); first difference at %d; got prefix % x want prefix % x",
						m.hdr, len(m.wire)-wireHdrLen(sp.Sock, m.hdr), len(got[k]), len(m.wire), firstDiff(got[k], m.wire), head(got[k], 24), head(m.wire, 24))
					return
				}
				nOut++
				shape += sizeClass(len(m.wire))
			}
		}
		c.Count("frames_library_to_peer_compared", nOut)
	}

	// nothing but frames: after Close the peer must see the end of the stream with no stray byte
	cl := mon.Go("Close", func() (interface{}, error) { return nil, g.sock.Close() })
	if !g.wait("stream/close-stuck", "socket Close", cl) {
		return
	}
	tail := mon.Go("peer-read-tail", func() (interface{}, error) { return spcodec.ReadUntilClosed(cn) })
	if !g.wait("stream/not-closed-after-close", "raw peer seeing the connection end after socket Close", tail) {
		return
	}
	v, _, _ := tail.Result()
	if extra := v.([]byte); len(extra) > 0 || dec.Buffered() > 0 {
		c.Violate("stream/stray-bytes:"+g.tag, "bytes outside any frame: %d buffered + %d after the last frame (% x)", dec.Buffered(), len(extra), head(extra, 32))
		return
	}
	if nIn+nOut > 0 {
		c.Nontrivial()
	}
	c.Sig("frame|%s|%s|%s", g.tag, sp.Seg, shape)
}

// wireHdrLen is the number of header bytes that appear on the wire for a
// SendMsg header h (xrep/xrespondent strip the leading pipe id).
func wireHdrLen(sock string, h []byte) int {
	if sock == "xrep" || sock == "xrespondent" {
		return len(h) - 4
	}
	return len(h)
}

func firstDiff(a, b []byte) int {
	n := len(a)
	if len(b) < n {
		n = len(b)
	}
	for i := 0; i < n; i++ {
		if a[i] != b[i] {
			return i
		}
	}
	if len(a) != len(b) {
		return n
	}
	return -1
}

func head(b []byte, n int) []byte {
	if len(b) > n {
		return b[:n]
	}
	return b
}

func sizeClass(n int) string {
	switch {
	case n < 10:
		return "0"
	case n < 64:
		return "a"
	case n < 1024:
		return "b"
	case n < 4096:
		return "c"
	case n < 65536:
		return "d"
	case n < 1<<20-64:
		return "e"
	}
	return "M"
}

func closeWrite(cn net.Conn) {
	if cw, ok := cn.(interface{ CloseWrite() error }); ok {
		cw.CloseWrite()
		return
	}
	cn.Close()
}

// ---- handshake deviations -------------------------------------------------------------

func caseHsDev(c *mon.Case, sp spec) {
	g := newRig(c, sp)
	good := spcodec.Header(g.proto.PeerNum)
	// what a bad peer pushes right after its header: two frames the pattern would deliver
	var probeHdr []byte
	if canRecv(sp.Sock) {
		probeHdr, _ = inbound(sp.Sock, c.Rand, 0)
	}
	probe := spcodec.Frame(g.ipc, append(append([]byte{}, probeHdr...), []byte("PROBE-after-bad-header")...))
	extra := append(append([]byte{}, probe...), probe...)

	var hdrs [][]byte
	var kinds []string
	for _, d := range sp.Devs {
		h := append([]byte{}, good...)
		if int(h[d[0]]) == d[1] {
			continue
		}
		h[d[0]] = byte(d[1])
		hdrs = append(hdrs, h)
		kinds = append(kinds, fmt.Sprintf("pos%d", d[0]))
	}
	for _, n := range sp.Claims {
		if uint16(n) == g.proto.PeerNum {
			continue
		}
		hdrs = append(hdrs, spcodec.Header(uint16(n)))
		kinds = append(kinds, "claim")
	}
	trunc := map[int]bool{}
	for _, k := range sp.Trunc {
		trunc[len(hdrs)] = true
		hdrs = append(hdrs, good[:k])
		kinds = append(kinds, "short")
	}
	rejected := 0
	for i, h := range hdrs {
		if c.Failed() || c.Undecided() {
			return
		}
		base := g.pw.Attached()
		cn, dial, d, ok := g.rawConn()
		if !ok {
			return
		}
		if !g.readOwnHeader(cn) {
			return
		}
		c.Logf("bad header #%d %s % x", i, kinds[i], h)
		if trunc[i] {
			cn.Write(h)
			closeWrite(cn) // the stream ends inside the header
		} else {
			cn.Write(append(append([]byte{}, h...), extra...)) // a write error means the library already closed: fine
		}
		rd := mon.Go("peer-read-until-closed", func() (interface{}, error) { return spcodec.ReadUntilClosed(cn) })
		decided := c.AwaitOrViolate("stream/bad-header-not-closed:"+g.tag+":"+kinds[i],
			fmt.Sprintf("library closing the connection after the malformed/mismatched peer header % x [%s]", h, g.tag),
			func() bool { return rd.Done() || g.pw.Attached() > base }, mon.AwaitOpts{})
		if !decided {
			return
		}
		if g.pw.Attached() > base {
			attachViolation(c, g.pw, "stream/bad-header-accepted:"+g.tag+":"+kinds[i], "pipe attached after peer header % x (correct would be % x)", h, good)
			return
		}
		v, _, _ := rd.Result()
		if b := v.([]byte); len(b) > 0 {
			c.Violate("stream/bytes-after-bad-header:"+g.tag+":"+kinds[i], "library sent %d more bytes (% x) after the bad peer header % x", len(b), head(b, 32), h)
			return
		}
		if dial != nil {
			if !g.wait("stream/dial-stuck-after-bad-header", fmt.Sprintf("library Dial returning after the bad peer header % x", h), dial) {
				return
			}
			if _, err, _ := dial.Result(); err == nil {
				c.Violate("stream/bad-header-accepted:"+g.tag+":"+kinds[i], "Dial returned nil after peer header % x (correct would be % x)", h, good)
				return
			}
			d.Close()
		}
		cn.Close()
		rejected++
	}
	c.Count("bad_headers_rejected", rejected)

	// the socket still takes a correct peer, and nothing the bad peers pushed was delivered
	cn, pid, ok := g.connectGood(nil)
	if !ok {
		return
	}
	if n := g.pw.Attached(); n != 1 {
		attachViolation(c, g.pw, "stream/bad-header-accepted:"+g.tag+":late", "%d pipes attached in total, only the one correct peer may", n)
		return
	}
	if canRecv(sp.Sock) {
		wh, want := inbound(sp.Sock, c.Rand, pid)
		body := []byte("SENTINEL-" + hx.Uniq("c15"))
		if _, err := cn.Write(spcodec.Frame(g.ipc, append(append([]byte{}, wh...), body...))); err != nil {
			c.Violate("stream/peer-write-failed:"+g.tag, "writing the sentinel frame on the good connection: %v", err)
			return
		}
		rc := mon.Go("RecvMsg", func() (interface{}, error) { return g.sock.RecvMsg() })
		if !g.wait("stream/frame-not-delivered", "RecvMsg of the sentinel from the correct peer", rc) {
			return
		}
		v, err, _ := rc.Result()
		if err != nil {
			c.Violate("stream/recv-error:"+g.tag, "RecvMsg returned %v", err)
			return
		}
		m := v.(*mangos.Message)
		if !bytes.Equal(m.Body, body) || !bytes.Equal(m.Header, want) {
			c.Violate("stream/delivered-after-bad-header:"+g.tag, "first message delivered is Header % x Body %q, not the sentinel %q of the only correctly connected peer", m.Header, head(m.Body, 64), body)
			return
		}
		c.Count("sentinels_after_bad_headers", 1)
	}
	if rejected > 0 {
		c.Nontrivial()
	}
	c.Sig("hsdev|%s|%v|%v|%v", g.tag, sp.Devs, sp.Claims, sp.Trunc)
}
