package c15

import (
	"bytes"
	"crypto/tls"
	"fmt"
	"math/rand"
	"net"
	"net/http"
	"strings"
	"sync"
	"time"

	"github.com/gorilla/websocket"
	"go.nanomsg.org/mangos/v3"
	"go.nanomsg.org/mangos/v3/transport/ws"

	"verifharness/hx"
	"verifharness/mon"
	"verifharness/props/c15/spcodec"
)

// WebSocket mapping.  The raw peer is gorilla's generic client / server (the
// property is about the SP mapping above RFC 6455).  On "ws" the connection
// runs through a recording relay whose bytes are parsed by spcodec.WSParser
// to see the frames themselves (opcode, FIN, one frame per message); on
// "wss" the relay would only see TLS records, so only the message type that
// gorilla reports is checked there.

type wsUp struct {
	conn   *websocket.Conn
	offers []string
	raw    string
}

// wsServer is the raw peer a library ws/wss dialer connects to.
type wsServer struct {
	path   string // requests for any other path are strays from other processes
	ln     net.Listener
	srv    *http.Server
	mu     sync.Mutex
	reqs   []wsUp // every upgrade request seen
	ups    chan wsUp
	sel    func(offers []string) (string, bool) // subprotocol to select, or refuse
	closed bool
}

func newWSServer(tlsCfg *tls.Config, sel func([]string) (string, bool)) (*wsServer, error) {
	ln, err := net.Listen("tcp", "127.0.0.1:0")
	if err != nil {
		return nil, err
	}
	ln = spcodec.NoLingerListener(ln)
	if tlsCfg != nil {
		ln = tls.NewListener(ln, tlsCfg)
	}
	s := &wsServer{ln: ln, ups: make(chan wsUp, 16), sel: sel}
	s.srv = &http.Server{Handler: http.HandlerFunc(s.handle)}
	go s.srv.Serve(ln)
	return s, nil
}

func (s *wsServer) handle(w http.ResponseWriter, r *http.Request) {
	if s.path != "" && r.URL.Path != s.path {
		http.NotFound(w, r)
		return
	}
	offers := websocket.Subprotocols(r)
	raw := strings.Join(r.Header.Values("Sec-Websocket-Protocol"), " || ")
	up := wsUp{offers: offers, raw: raw}
	choice, ok := s.sel(offers)
	if !ok {
		s.mu.Lock()
		s.reqs = append(s.reqs, up)
		s.mu.Unlock()
		http.Error(w, "SP protocol mismatch", http.StatusBadRequest)
		s.ups <- up
		return
	}
	ug := websocket.Upgrader{CheckOrigin: func(*http.Request) bool { return true }}
	var hdr http.Header
	if choice != "" {
		hdr = http.Header{"Sec-Websocket-Protocol": []string{choice}}
	}
	conn, err := ug.Upgrade(w, r, hdr)
	if err != nil {
		s.ups <- up
		return
	}
	up.conn = conn
	s.mu.Lock()
	s.reqs = append(s.reqs, up)
	s.mu.Unlock()
	s.ups <- up
}

func (s *wsServer) close() {
	s.srv.Close()
	s.mu.Lock()
	for _, u := range s.reqs {
		if u.conn != nil {
			u.conn.Close()
		}
	}
	s.mu.Unlock()
}

func caseWS(c *mon.Case, sp spec) {
	proto := spcodec.ByName(sp.Sock)
	tag := sp.Tr + ":" + sp.Role + ":" + sp.Sock
	srvTLS, cliTLS := hx.TlsConfigs()
	sock := hx.MustSock(c, sp.Sock)
	pw := watch(sock)
	wait := func(sig, what string, call *mon.Call) bool {
		return c.AwaitOrViolate(sig+":"+tag, what+" ["+tag+"]", call.Done, mon.AwaitOpts{})
	}
	secure := sp.Tr == "wss"
	var conn *websocket.Conn
	var tap *spcodec.Tap
	var tapConn func() *spcodec.TapConn
	var libBytes func(tc *spcodec.TapConn) []byte // the direction written by the library

	if sp.Role == "listen" {
		if sp.Serve != "" {
			tag = sp.Tr + "+" + sp.Serve + ":" + sp.Role + ":" + sp.Sock
		}
		var lo map[string]interface{}
		if secure && sp.Serve != "handler" {
			lo = map[string]interface{}{mangos.OptionTLSConfig: srvTLS}
		}
		addr := ""
		var appLn net.Listener
		if sp.Serve == "handler" {
			// the application binds the port; the listener's URL only names it
			ln, err := net.Listen("tcp", hx.OwnIP()+":0")
			if err != nil {
				panic(envError{err})
			}
			appLn = spcodec.NoLingerListener(ln)
			c.Cleanup(func() { appLn.Close() })
			addr = sp.Tr + "://" + ln.Addr().String() + "/" + hx.Uniq("p")
		} else {
			addr = hx.ListenAddr(sp.Tr)
		}
		l, err := sock.NewListener(addr, lo)
		if err != nil {
			panic(envError{err})
		}
		var appHandler http.Handler
		switch sp.Serve {
		case "handler":
			v, err := l.GetOption(ws.OptionWebSocketHandler)
			h, ok := v.(http.Handler)
			if err != nil || !ok {
				c.Inconclusive("GetOption(WEBSOCKET-HANDLER) gave %T, %v: no handler to embed", v, err)
				return
			}
			appHandler = h
		case "mux":
			v, err := l.GetOption(ws.OptionWebSocketMux)
			m, ok := v.(*http.ServeMux)
			if err != nil || !ok {
				c.Inconclusive("GetOption(WEBSOCKET-MUX) gave %T, %v: no mux to add routes to", v, err)
				return
			}
			for k := 1 + c.Rand.Intn(3); k > 0; k-- {
				m.HandleFunc("/"+hx.Uniq("app"), func(w http.ResponseWriter, r *http.Request) { w.Write([]byte("app")) })
			}
			c.Count("ws_listeners_with_application_routes", 1)
		}
		// a configured listener negotiates like a default one: setting an option of the transport
		// (either value, before or after Listen) must not change what the upgrade response says
		optWhen := c.Rand.Intn(3) // 0: leave at default, 1: before Listen, 2: after Listen
		optVal := c.Rand.Intn(2) == 0
		if optWhen == 1 {
			if err := l.SetOption(ws.OptionWebSocketCheckOrigin, optVal); err != nil {
				c.Violate("ws/option-rejected:"+tag, "SetOption(WEBSOCKET-CHECKORIGIN, %v): %v", optVal, err)
				return
			}
		}
		serveApp := func() {
			// the application's own server: the handler at the path of the listener's URL on a mux with
			// other routes, or as the server's only handler; wss: the application terminates TLS
			_, rest := spcodec.SplitURL(addr)
			path := rest[strings.Index(rest, "/"):]
			var root http.Handler = appHandler
			if c.Rand.Intn(2) == 0 {
				m := http.NewServeMux()
				m.Handle(path, appHandler)
				m.HandleFunc("/"+hx.Uniq("app"), func(w http.ResponseWriter, r *http.Request) { w.Write([]byte("app")) })
				root = m
			}
			ln := appLn
			if secure {
				ln = tls.NewListener(ln, srvTLS)
			}
			hs := &http.Server{Handler: root}
			go hs.Serve(ln)
			c.Cleanup(func() { hs.Close() })
			c.Count("ws_listeners_in_application_server", 1)
		}
		appFirst := sp.Serve == "handler" && c.Rand.Intn(2) == 0 // the application's server is up before / after Listen
		if sp.Serve == "handler" && appFirst {
			serveApp()
		}
		if err := l.Listen(); err != nil {
			if sp.Serve == "handler" {
				// nothing to bind in this mode: the error is the library's
				c.Inconclusive("Listen of a listener whose handler was taken returned %v", err)
				return
			}
			panic(envError{err})
		}
		if sp.Serve == "handler" && !appFirst {
			serveApp()
		}
		if optWhen == 2 {
			if err := l.SetOption(ws.OptionWebSocketCheckOrigin, optVal); err != nil {
				c.Violate("ws/option-rejected:"+tag, "SetOption(WEBSOCKET-CHECKORIGIN, %v) after Listen: %v", optVal, err)
				return
			}
		}
		if optWhen != 0 {
			c.Count("ws_listeners_with_checkorigin_set", 1)
		}
		url := l.Address() // ws://127.0.0.1:port/path
		if sp.Serve == "handler" {
			url = addr
		}
		_, rest := spcodec.SplitURL(url)
		hostport, path := rest, "/"
		if i := strings.Index(rest, "/"); i >= 0 {
			hostport, path = rest[:i], rest[i:]
		}
		dialURL := url
		if !secure {
			t, err := spcodec.NewTap(hostport)
			if err != nil {
				panic(envError{err})
			}
			tap = t
			c.Cleanup(tap.Close)
			dialURL = "ws://" + tap.Addr() + path
			libBytes = func(tc *spcodec.TapConn) []byte { return tc.S2C() }
		}
		want := spcodec.WSSubprotocol(proto.Name) // the listener's own name: what its peers offer
		dialWith := func(target string, offers []string) (*websocket.Conn, *http.Response, error, bool) {
			d := &websocket.Dialer{Subprotocols: offers, NetDial: spcodec.DialTCPNoLinger}
			if secure {
				d.TLSClientConfig = cliTLS
			}
			dc := mon.Go("ws-dial", func() (interface{}, error) {
				cn, resp, err := d.Dial(target, nil)
				return [2]interface{}{cn, resp}, err
			})
			if !wait("ws/upgrade-stuck", fmt.Sprintf("library listener answering an upgrade offering %q", offers), dc) {
				return nil, nil, nil, false
			}
			v, err, _ := dc.Result()
			pr := v.([2]interface{})
			cn, _ := pr[0].(*websocket.Conn)
			resp, _ := pr[1].(*http.Response)
			return cn, resp, err, true
		}
		// foreign offers must be refused
		var foreign [][]string
		foreign = append(foreign, nil)
		for _, q := range spcodec.Protos {
			if q.Name != proto.Name {
				foreign = append(foreign, []string{spcodec.WSSubprotocol(q.Name)})
			}
		}
		foreign = append(foreign,
			[]string{proto.Name},
			[]string{proto.Name + ".sp.nanomsg.com"},
			[]string{"x" + want},
			[]string{want + "x"},
			[]string{want[1:]},
			[]string{proto.Name + ".sp.nanomsg"},
			[]string{"sp.nanomsg.org"},
		)
		if !sp.Full {
			// later rounds: no offer at all plus two of the foreign ones
			a, b := 1+c.Rand.Intn(len(foreign)-1), 1+c.Rand.Intn(len(foreign)-1)
			foreign = [][]string{foreign[0], foreign[a], foreign[b]}
		}
		refused := 0
		for _, off := range foreign {
			if c.Failed() || c.Undecided() {
				return
			}
			c.Logf("offer %q", off)
			cn, resp, err, ok := dialWith(url, off)
			if !ok {
				return
			}
			status := 0
			if resp != nil {
				status = resp.StatusCode
			}
			if err == nil || cn != nil || status == http.StatusSwitchingProtocols {
				if cn != nil {
					cn.Close()
				}
				c.Violate("ws/foreign-subprotocol-accepted:"+tag, "listener for %q upgraded a connection offering %q (status %d, err %v)", want, off, status, err)
				return
			}
			if resp == nil {
				c.Inconclusive("ws dial with offer %q failed below HTTP: %v", off, err)
				return
			}
			refused++
		}
		if n := pw.Attached(); n != 0 {
			attachViolation(c, pw, "ws/foreign-subprotocol-accepted:"+tag, "%d pipes attached after only foreign offers", n)
			return
		}
		c.Count("ws_foreign_offers_refused", refused)
		cn, resp, err, ok := dialWith(dialURL, []string{want})
		if !ok {
			return
		}
		if err != nil || cn == nil {
			st := 0
			if resp != nil {
				st = resp.StatusCode
			}
			c.Violate("ws/correct-subprotocol-refused:"+tag, "listener refused the offer %q: status %d err %v", want, st, err)
			return
		}
		c.Cleanup(func() { cn.Close() })
		if got := cn.Subprotocol(); got != want {
			c.Violate("ws/selected-subprotocol-wrong:"+tag, "listener selected %q, the offer was %q", got, want)
			return
		}
		conn = cn
		if tap != nil {
			tapConn = func() *spcodec.TapConn { return findTap(tap, path) }
		}
	} else {
		want := spcodec.WSSubprotocol(proto.PeerName) // the dialer names its peer
		sel := func(offers []string) (string, bool) {
			for _, o := range offers {
				if o == want {
					return o, true
				}
			}
			return "", false
		}
		var scfg *tls.Config
		if secure {
			scfg = srvTLS
		}
		srv, err := newWSServer(scfg, sel)
		if err != nil {
			panic(envError{err})
		}
		c.Cleanup(srv.close)
		hostport := srv.ln.Addr().String()
		path := "/" + hx.Uniq("p")
		srv.path = path
		dialURL := sp.Tr + "://" + hostport + path
		if !secure {
			t, err := spcodec.NewTap(hostport)
			if err != nil {
				panic(envError{err})
			}
			tap = t
			c.Cleanup(tap.Close)
			dialURL = "ws://" + tap.Addr() + path
			libBytes = func(tc *spcodec.TapConn) []byte { return tc.C2S() }
			tapConn = func() *spcodec.TapConn { return findTap(tap, path) }
		}
		var do map[string]interface{}
		if secure {
			do = map[string]interface{}{mangos.OptionTLSConfig: cliTLS}
		}
		d, err := sock.NewDialer(dialURL, do)
		if err != nil {
			panic(envError{err})
		}
		redial := c.Rand.Intn(3) == 0 // the first connection is lost at once: the dialer's second upgrade request is judged like its first
		if redial {
			d.SetOption(mangos.OptionReconnectTime, 3*time.Millisecond)
			d.SetOption(mangos.OptionMaxReconnectTime, 3*time.Millisecond)
		} else {
			d.SetOption(mangos.OptionReconnectTime, time.Hour)
		}
		dial := mon.Go("Dial", func() (interface{}, error) { return nil, d.Dial() })
		up := mon.Go("ws-upgrade", func() (interface{}, error) { return <-srv.ups, nil })
		if !wait("ws/dial-no-upgrade-request", "raw server receiving the library's upgrade request", up) {
			return
		}
		v, _, _ := up.Result()
		u := v.(wsUp)
		c.Count("ws_dialer_offers_checked", 1)
		if len(u.offers) != 1 || u.offers[0] != want {
			c.Violate("ws/dialer-offer-wrong:"+tag, "dialer offered %q (header %q), the mapping requires exactly %q", u.offers, u.raw, want)
			return
		}
		if !wait("ws/dial-stuck", "library Dial returning after a correct upgrade", dial) {
			return
		}
		if _, err, _ := dial.Result(); err != nil || u.conn == nil {
			c.Violate("ws/dial-failed:"+tag, "Dial returned %v after the raw server selected %q", err, want)
			return
		}
		conn = u.conn
		if redial {
			if !c.AwaitOrViolate("ws/not-attached:"+tag, "pipe attaching after the websocket upgrade ["+tag+"]", func() bool { return pw.Attached() >= 1 }, mon.AwaitOpts{}) {
				return
			}
			conn.Close()
			up2 := mon.Go("ws-upgrade-2", func() (interface{}, error) { return <-srv.ups, nil })
			if !wait("ws/redial-no-upgrade-request", "raw server receiving the upgrade request of the dialer's reconnect", up2) {
				return
			}
			v2, _, _ := up2.Result()
			u2 := v2.(wsUp)
			c.Count("ws_dialer_offers_checked", 1)
			if len(u2.offers) != 1 || u2.offers[0] != want {
				c.Violate("ws/dialer-offer-wrong:"+tag, "on reconnecting the dialer offered %q (header %q), the mapping requires exactly %q", u2.offers, u2.raw, want)
				return
			}
			if u2.conn == nil {
				c.Inconclusive("the raw server could not upgrade the reconnect")
				return
			}
			d.SetOption(mangos.OptionReconnectTime, time.Hour)
			conn = u2.conn
			if !c.AwaitOrViolate("ws/not-attached:"+tag, "pipe attaching after the dialer's reconnect ["+tag+"]", func() bool { return pw.Attached() >= 2 }, mon.AwaitOpts{}) {
				return
			}
		}
	}
	if !c.AwaitOrViolate("ws/not-attached:"+tag, "pipe attaching after the websocket upgrade ["+tag+"]", func() bool { return pw.Attached() >= 1 }, mon.AwaitOpts{}) {
		return
	}
	pid := pw.LastID()
	nIn, nOut := 0, 0
	shape := ""

	// peer -> library: a few messages written back to back, all on the wire before the application
	// takes the first (each must still be delivered as itself)
	if canRecv(sp.Sock) && c.Rand.Intn(2) == 0 {
		type bm struct{ payload, wantHdr, body []byte }
		var burst []bm
		for i := 0; i < 4; i++ {
			wh, want := inbound(sp.Sock, c.Rand, pid)
			body := rndBytes(c.Rand, 20+c.Rand.Intn(400))
			burst = append(burst, bm{append(append([]byte{}, wh...), body...), want, body})
		}
		wr := mon.Go("ws-write-burst", func() (interface{}, error) {
			for _, b := range burst {
				if err := conn.WriteMessage(websocket.BinaryMessage, b.payload); err != nil {
					return nil, err
				}
			}
			return nil, nil
		})
		if !wait("harness:ws-write-stuck", "raw peer writing four messages back to back", wr) {
			return
		}
		if _, err, _ := wr.Result(); err != nil {
			c.Violate("ws/peer-write-failed:"+tag, "WriteMessage of well-formed binary messages failed: %v", err)
			return
		}
		mon.Sleep(3 * time.Millisecond)
		for i, b := range burst {
			rc := mon.Go("RecvMsg", func() (interface{}, error) { return sock.RecvMsg() })
			if !wait("ws/message-not-delivered", fmt.Sprintf("RecvMsg of message %d of a back-to-back burst", i), rc) {
				return
			}
			v, err, _ := rc.Result()
			if err != nil {
				c.Violate("ws/recv-error:"+tag, "RecvMsg returned %v", err)
				return
			}
			m := v.(*mangos.Message)
			if !bytes.Equal(m.Header, b.wantHdr) || !bytes.Equal(m.Body, b.body) {
				c.Violate("ws/delivered-differs:"+tag, "message %d of 4 written back to back: delivered Header % x (want % x), Body %d bytes (want %d), first difference at %d",
					i, m.Header, b.wantHdr, len(m.Body), len(b.body), firstDiff(m.Body, b.body))
				return
			}
			m.Free()
		}
		c.Count("ws_back_to_back_messages_compared", len(burst))
	}

	// peer -> library: one binary message each
	if canRecv(sp.Sock) {
		for _, sz := range sp.Sizes {
			wh, want := inbound(sp.Sock, c.Rand, pid)
			body := rndBytes(c.Rand, sz)
			payload := append(append([]byte{}, wh...), body...)
			c.Logf("peer writes binary message of %d bytes", len(payload))
			wr := mon.Go("ws-write", func() (interface{}, error) { return nil, conn.WriteMessage(websocket.BinaryMessage, payload) })
			rc := mon.Go("RecvMsg", func() (interface{}, error) { return sock.RecvMsg() })
			if !wait("ws/message-not-delivered", fmt.Sprintf("RecvMsg of a %d-byte binary message", len(payload)), rc) {
				return
			}
			v, err, _ := rc.Result()
			if err != nil {
				c.Violate("ws/recv-error:"+tag, "RecvMsg returned %v", err)
				return
			}
			m := v.(*mangos.Message)
			if !bytes.Equal(m.Header, want) || !bytes.Equal(m.Body, body) {
				c.Violate("ws/delivered-differs:"+tag, "binary message of %d bytes: delivered Header % x (want % x), Body %d bytes (want %d), first difference at %d",
					len(payload), m.Header, want, len(m.Body), len(body), firstDiff(m.Body, body))
				return
			}
			m.Free()
			if !wait("harness:ws-write-stuck", "raw peer finishing WriteMessage", wr) {
				return
			}
			if _, err, _ := wr.Result(); err != nil {
				c.Violate("ws/peer-write-failed:"+tag, "WriteMessage of a well-formed binary message failed: %v", err)
				return
			}
			nIn++
			shape += sizeClass(len(payload))
		}
		c.Count("ws_messages_peer_to_library_compared", nIn)
	}

	// library -> peer
	var sent [][]byte
	if canSend(sp.Sock) {
		for _, sz := range sp.Sizes {
			h, wh := outbound(sp.Sock, c.Rand, pid)
			body := rndBytes(c.Rand, sz)
			wire := append(append([]byte{}, wh...), body...)
			mm := mangos.NewMessage(len(body))
			mm.Header = append(mm.Header, h...)
			mm.Body = append(mm.Body, body...)
			c.Logf("SendMsg header % x body %d bytes", h, len(body))
			// Patterns that pass the header through untouched: the application keeps a second reference
			// and sends the same message object again (what REQ does for a retransmission and SURVEYOR
			// for a fan-out).  The second transmission must be the same bytes as the first.
			again := (sp.Sock == "xreq" || sp.Sock == "xsurveyor") && c.Rand.Intn(2) == 0
			if again {
				mm.Clone()
			}
		resend:
			rd := mon.Go("ws-read", func() (interface{}, error) {
				mt, data, err := conn.ReadMessage()
				return [2]interface{}{mt, data}, err
			})
			sc := mon.Go("SendMsg", func() (interface{}, error) { return nil, sock.SendMsg(mm) })
			if !wait("ws/send-stuck", "SendMsg with one attached, reading peer", sc) {
				return
			}
			if _, err, _ := sc.Result(); err != nil {
				c.Violate("ws/send-error:"+tag, "SendMsg returned %v", err)
				return
			}
			if !wait("ws/message-not-received", fmt.Sprintf("raw peer reading the %d-byte message the library was asked to send", len(wire)), rd) {
				return
			}
			v, err, _ := rd.Result()
			if err != nil {
				c.Violate("ws/peer-read-error:"+tag, "ReadMessage failed: %v", err)
				return
			}
			pr := v.([2]interface{})
			mt, data := pr[0].(int), pr[1].([]byte)
			if mt != websocket.BinaryMessage {
				c.Violate("ws/non-binary-message:"+tag, "library sent a message of type %d, the mapping requires binary (2)", mt)
				return
			}
			if !bytes.Equal(data, wire) {
				c.Violate("ws/library-message-differs:"+tag, "SendMsg(header % x, body %d bytes): peer read %d bytes, want %d (header then body); first difference at %d",
					h, len(body), len(data), len(wire), firstDiff(data, wire))
				return
			}
			sent = append(sent, wire)
			nOut++
			shape += sizeClass(len(wire))
			if again {
				again = false
				c.Count("ws_same_message_sent_twice", 1)
				goto resend
			}
		}
		c.Count("ws_messages_library_to_peer_compared", nOut)
	}

	// frames as seen on the wire (ws only)
	if tapConn != nil && len(sent) > 0 {
		tc := tapConn()
		if tc == nil {
			c.Inconclusive("the tap saw no upgrade request for this case's path")
			return
		}
		raw := libBytes(tc)
		_, rest, ok := spcodec.SplitHTTPHead(raw)
		if !ok {
			c.Violate("harness:tap-no-http-head", "tap recorded %d bytes without an HTTP head", len(raw))
			return
		}
		p := &spcodec.WSParser{}
		p.Write(rest)
		var data []spcodec.WSFrame
		for {
			f, ok, err := p.Next()
			if err != nil {
				c.Violate("ws/frame-unparseable:"+tag, "frame parser: %v", err)
				return
			}
			if !ok {
				break
			}
			if !f.IsControl() {
				data = append(data, f)
			}
		}
		c.Count("ws_frames_parsed", len(data))
		k := 0
		for i, w := range sent {
			if k >= len(data) {
				c.Violate("ws/frame-missing:"+tag, "message %d (%d bytes) has no frame on the wire (%d data frames seen, %d bytes unparsed)", i, len(w), len(data), p.Buffered())
				return
			}
			f := data[k]
			if f.Opcode != spcodec.WSBinary {
				c.Violate("ws/non-binary-frame:"+tag, "message %d (%d bytes) starts with a frame of opcode %#x, the mapping requires a binary frame", i, len(w), f.Opcode)
				return
			}
			if !f.Fin || !bytes.Equal(f.Payload, w) {
				// count how many frames carry this message
				n, tot := 1, len(f.Payload)
				for j := k + 1; j < len(data) && data[j].Opcode == spcodec.WSContinuation; j++ {
					n++
					tot += len(data[j].Payload)
					if data[j].Fin {
						break
					}
				}
				c.Violate("ws/message-split-over-frames:"+sp.Role+":"+sizeBucket(len(w)), "message %d of %d bytes (header then body) was sent as %d frames (first: FIN=%v, %d payload bytes; %d bytes in total); the mapping requires one binary frame per message [%s]",
					i, len(w), n, f.Fin, len(f.Payload), tot, tag)
				return
			}
			k++
		}
		if k != len(data) {
			c.Violate("ws/extra-frames:"+tag, "%d data frames on the wire for %d messages", len(data), len(sent))
			return
		}
		c.Count("ws_single_frame_messages", k)
	}
	if nIn+nOut > 0 {
		c.Nontrivial()
	}
	c.Sig("ws|%s|%s", tag, shape)
}

// genWSEmbCases: ws/wss listeners whose HTTP side is (partly) the application's:
// the handler taken out with OptionWebSocketHandler and served by the
// application's own http.Server, or application routes added to the listener's
// mux (OptionWebSocketMux) before Listen.  The negotiation and the messages
// are judged exactly as for a listener that serves itself.
func genWSEmbCases(rnd *rand.Rand, rounds int) []mon.CaseSpec {
	var out []mon.CaseSpec
	for round := 0; round < rounds; round++ {
		for _, serve := range []string{"handler", "mux"} {
			for _, tr := range []string{"ws", "wss"} {
				for i, s := range xsocks {
					if serve == "mux" && round == 0 && (i%2 == 0) != (tr == "ws") {
						// first round: each socket twice in the application's server, once (ws or wss) with application routes
						continue
					}
					sizes := genSizes(rnd, 3+rnd.Intn(4), false)
					out = append(out, mon.CaseSpec{Name: "wsemb", Spec: spec{Kind: "wsemb", Tr: tr, Role: "listen", Sock: s, Sizes: sizes, Serve: serve, Full: round == 0 && serve == "handler"}})
				}
			}
		}
	}
	return out
}

// findTap returns the relayed connection whose upgrade request names path
// (other connections to the tap's port are strays from other processes).
func findTap(t *spcodec.Tap, path string) *spcodec.TapConn {
	var last *spcodec.TapConn // the most recent one: a dialer may have reconnected
	for _, tc := range t.Conns() {
		if bytes.Contains(head(tc.C2S(), 1024), []byte(" "+path+" ")) {
			last = tc
		}
	}
	return last
}

func sizeBucket(n int) string {
	if n <= 4096 {
		return "le4096"
	}
	return "gt4096"
}
