package c15

import (
	"bytes"
	"crypto/tls"
	"fmt"
	"math/rand"
	"sync"
	"time"

	"github.com/gorilla/websocket"
	"go.nanomsg.org/mangos/v3"

	"verifharness/hx"
	"verifharness/mon"
	"verifharness/props/c15/spcodec"
)

// wsdial: the library is the ws/wss CLIENT of an independent WebSocket server
// that completes the upgrade (101) but does not confirm the subprotocol the
// dialer offered: it selects none, the name of another SP protocol, or a near
// miss of the offered name (or answers 400).  The negotiation did not yield
// the dialer's peer protocol, so Dial must fail and no pipe may attach; only
// the server that selects exactly '<peer-name>.sp.nanomsg.org' is a peer, and
// the first messages the socket exchanges are with that one.
//
// Two ways of dialling: "sync" (each answer is given to a synchronous Dial of
// a fresh dialer of the same socket: the verdict is Dial's return value and
// the attach count at that moment) and "async" (one dialer with DIAL-ASYNC and
// a short reconnect time meets the wrong answers one after the other: each
// next upgrade request must arrive with no pipe attached, and exactly one pipe
// attaches, after the server's first correct answer).

type wsAnswer struct {
	Sel   string `json:"sel,omitempty"` // Sec-WebSocket-Protocol of the 101 response; "" = none
	Deny  bool   `json:"deny,omitempty"`
	Class string `json:"class"` // none | other:<name> | near:<what> | denied
}

// wsWrongAnswers lists what a server that is not the dialer's peer may answer.
func wsWrongAnswers(p spcodec.Proto) []wsAnswer {
	want := spcodec.WSSubprotocol(p.PeerName)
	out := []wsAnswer{{Sel: "", Class: "none"}}
	for _, q := range spcodec.Protos {
		if q.Name != p.PeerName {
			out = append(out, wsAnswer{Sel: spcodec.WSSubprotocol(q.Name), Class: "other:" + q.Name})
		}
	}
	out = append(out,
		wsAnswer{Sel: p.PeerName, Class: "near:bare-name"},
		wsAnswer{Sel: p.PeerName + ".sp.nanomsg.com", Class: "near:com"},
		wsAnswer{Sel: "x" + want, Class: "near:x-prefixed"},
		wsAnswer{Sel: want + "x", Class: "near:x-suffixed"},
		wsAnswer{Sel: want[1:], Class: "near:first-letter-cut"},
		wsAnswer{Sel: p.PeerName + ".sp.nanomsg", Class: "near:org-cut"},
		wsAnswer{Sel: "sp.nanomsg.org", Class: "near:no-name"},
		wsAnswer{Sel: p.PeerName + "sp.nanomsg.org", Class: "near:no-dot"},
		wsAnswer{Sel: p.PeerName + ".x.sp.nanomsg.org", Class: "near:extra-label"},
		wsAnswer{Sel: "x." + p.PeerName + ".sp.nanomsg.org", Class: "near:sub-label"},
		wsAnswer{Deny: true, Class: "denied"},
	)
	return out
}

func genWSDialCases(rnd *rand.Rand, rounds int) []mon.CaseSpec {
	var out []mon.CaseSpec
	for round := 0; round < rounds; round++ {
		for _, tr := range []string{"ws", "wss"} {
			for i, s := range xsocks {
				all := wsWrongAnswers(spcodec.ByName(s))
				mode := "sync"
				var ans []wsAnswer
				switch {
				case round == 0:
					// every answer once, half of the sockets per transport dialling asynchronously
					ans = all
					if (i%2 == 0) == (tr == "ws") {
						mode = "async"
					}
				default:
					mode = []string{"sync", "async"}[rnd.Intn(2)]
					ans = append(ans, all[0])
					for k := 2 + rnd.Intn(4); k > 0; k-- {
						ans = append(ans, all[1+rnd.Intn(len(all)-1)])
					}
				}
				rnd.Shuffle(len(ans), func(a, b int) { ans[a], ans[b] = ans[b], ans[a] })
				out = append(out, mon.CaseSpec{Name: "wsdial", Spec: spec{Kind: "wsdial", Tr: tr, Role: "dial", Sock: s, Seg: mode,
					Sizes: genSizes(rnd, 2+rnd.Intn(2), false), Answers: ans}})
			}
		}
	}
	return out
}

func caseWSDial(c *mon.Case, sp spec) {
	proto := spcodec.ByName(sp.Sock)
	tag := sp.Tr + ":" + sp.Seg + ":" + sp.Sock
	want := spcodec.WSSubprotocol(proto.PeerName)
	srvTLS, cliTLS := hx.TlsConfigs()
	secure := sp.Tr == "wss"
	sock := hx.MustSock(c, sp.Sock)
	pw := watch(sock)
	wait := func(sig, what string, call *mon.Call) bool {
		return c.AwaitOrViolate(sig+":"+tag, what+" ["+tag+"]", call.Done, mon.AwaitOpts{MaxTimer: 2 * time.Millisecond})
	}

	// the server's answers, one per upgrade request, in order; after the script: the correct one
	var mu sync.Mutex
	var script []wsAnswer
	given := 0
	sel := func(offers []string) (string, bool) {
		mu.Lock()
		defer mu.Unlock()
		given++
		if len(script) == 0 {
			return want, true
		}
		a := script[0]
		script = script[1:]
		return a.Sel, !a.Deny
	}
	push := func(a ...wsAnswer) { mu.Lock(); script = append(script, a...); mu.Unlock() }

	var scfg *tls.Config
	if secure {
		scfg = srvTLS
	}
	srv, err := newWSServer(scfg, sel)
	if err != nil {
		panic(envError{err})
	}
	srv.path = "/" + hx.Uniq("p")
	c.Cleanup(srv.close)
	quit := make(chan struct{})
	c.Cleanup(func() { close(quit) })
	nextUp := func(name string) *mon.Call {
		return mon.Go(name, func() (interface{}, error) {
			select {
			case u := <-srv.ups:
				return u, nil
			case <-quit:
				return wsUp{}, fmt.Errorf("case over")
			}
		})
	}
	url := sp.Tr + "://" + srv.ln.Addr().String() + srv.path
	var do map[string]interface{}
	if secure {
		do = map[string]interface{}{mangos.OptionTLSConfig: cliTLS}
	}
	checkOffer := func(u wsUp, when string) bool {
		c.Count("ws_dialer_offers_checked", 1)
		if len(u.offers) != 1 || u.offers[0] != want {
			c.Violate("ws/dialer-offer-wrong:"+tag, "%s the dialer offered %q (header %q), the mapping requires exactly %q", when, u.offers, u.raw, want)
			return false
		}
		return true
	}
	describe := func(a wsAnswer) string {
		if a.Deny {
			return "answered 400"
		}
		if a.Sel == "" {
			return "upgraded and selected no subprotocol"
		}
		return fmt.Sprintf("upgraded and selected %q", a.Sel)
	}
	sigClass := func(a wsAnswer) string {
		// other:<name> -> other (the socket is in the tag; the witness names the answer)
		for i := 0; i < len(a.Class); i++ {
			if a.Class[i] == ':' && a.Class[:i] == "other" {
				return "other-protocol"
			}
		}
		return a.Class
	}

	var conn *websocket.Conn
	rejected := 0
	shape := ""
	if sp.Seg == "sync" {
		for i, a := range append(append([]wsAnswer{}, sp.Answers...), wsAnswer{Sel: want, Class: "correct"}) {
			if c.Failed() || c.Undecided() {
				return
			}
			good := a.Class == "correct"
			if !good {
				push(a)
			}
			c.Logf("dial %d: server %s", i, describe(a))
			d, err := sock.NewDialer(url, do)
			if err != nil {
				panic(envError{err})
			}
			d.SetOption(mangos.OptionReconnectTime, time.Hour)
			up := nextUp("ws-upgrade")
			dial := mon.Go("Dial", func() (interface{}, error) { return nil, d.Dial() })
			if !wait("ws/dial-no-upgrade-request", "raw server receiving the library's upgrade request", up) {
				return
			}
			v, _, _ := up.Result()
			u := v.(wsUp)
			if !checkOffer(u, fmt.Sprintf("on dial %d", i)) {
				return
			}
			if !wait("ws/dial-stuck", "library Dial returning after the server "+describe(a), dial) {
				return
			}
			_, derr, _ := dial.Result()
			if good {
				if derr != nil || u.conn == nil {
					c.Violate("ws/dial-failed:"+tag, "Dial returned %v after the raw server selected %q (after %d answers that were not the offered subprotocol)", derr, want, rejected)
					return
				}
				conn = u.conn
				break
			}
			if !a.Deny && u.conn == nil {
				c.Inconclusive("the raw server could not complete the upgrade with %q", a.Sel)
				return
			}
			if derr == nil {
				c.Violate("ws/dial-accepted-unconfirmed-subprotocol:"+tag+":"+sigClass(a), "dialer offered %q, the server %s: Dial returned nil (pipes attached: %d); the negotiation did not yield the peer protocol", want, describe(a), pw.Attached())
				return
			}
			if n := pw.Attached(); n != 0 {
				attachViolation(c, pw, "ws/pipe-attached-unconfirmed-subprotocol:"+tag+":"+sigClass(a), "dialer offered %q, the server %s: Dial returned %v but %d pipes attached", want, describe(a), derr, n)
				return
			}
			d.Close()
			rejected++
			shape += a.Class + ","
		}
	} else {
		push(sp.Answers...)
		d, err := sock.NewDialer(url, do)
		if err != nil {
			panic(envError{err})
		}
		if err := d.SetOption(mangos.OptionDialAsynch, true); err != nil {
			c.Inconclusive("SetOption(DIAL-ASYNCH) on a %s dialer: %v", sp.Tr, err)
			return
		}
		d.SetOption(mangos.OptionReconnectTime, 2*time.Millisecond)
		d.SetOption(mangos.OptionMaxReconnectTime, 2*time.Millisecond)
		if err := d.Dial(); err != nil {
			c.Violate("ws/async-dial-failed:"+tag, "asynchronous Dial returned %v", err)
			return
		}
		for i := 0; i <= len(sp.Answers); i++ {
			// upgrade request i arrives only after the library is done with answer i-1
			up := nextUp("ws-upgrade")
			what := "raw server receiving the dialer's first upgrade request"
			if i > 0 {
				what = "raw server receiving the dialer's next upgrade request after it " + describe(sp.Answers[i-1])
			}
			// a pipe that is attached while the server has not yet given its one correct answer (read in
			// this order: attach count first, answers given second) came out of an unconfirmed upgrade
			early, earlyG := 0, 0
			cond := func() bool {
				n := pw.Attached()
				mu.Lock()
				g := given
				mu.Unlock()
				if n > 0 && g <= len(sp.Answers) {
					early, earlyG = n, g
					return true
				}
				return up.Done()
			}
			if !c.AwaitOrViolate("ws/redial-no-upgrade-request:"+tag, what+" ["+tag+"]", cond, mon.AwaitOpts{MaxTimer: 2 * time.Millisecond}) {
				return
			}
			if early > 0 {
				// the dialer makes one attempt at a time: the pipe came out of the last answer given
				if earlyG == 0 {
					attachViolation(c, pw, "ws/pipe-attached-before-upgrade:"+tag, "%d pipes attached before the server answered an upgrade request", early)
					return
				}
				a := sp.Answers[earlyG-1]
				attachViolation(c, pw, "ws/pipe-attached-unconfirmed-subprotocol:"+tag+":"+sigClass(a), "dialer offered %q, the server %s: a pipe attached (%d attached, %d answers given, none of them the offered subprotocol)", want, describe(a), early, earlyG)
				return
			}
			v, _, _ := up.Result()
			u := v.(wsUp)
			if !checkOffer(u, fmt.Sprintf("on connection attempt %d", i)) {
				return
			}
			if i > 0 {
				// the dialer came back for another attempt with nothing attached: answer i-1 was turned down
				rejected++
				shape += sp.Answers[i-1].Class + ","
			}
			if i < len(sp.Answers) {
				if !sp.Answers[i].Deny && u.conn == nil {
					c.Inconclusive("the raw server could not complete the upgrade with %q", sp.Answers[i].Sel)
					return
				}
				continue
			}
			if u.conn == nil {
				c.Inconclusive("the raw server could not upgrade the connection it selected %q on", want)
				return
			}
			conn = u.conn
		}
		d.SetOption(mangos.OptionReconnectTime, time.Hour)
		d.SetOption(mangos.OptionMaxReconnectTime, time.Hour)
	}
	if conn == nil {
		return
	}
	c.Count("ws_unconfirmed_upgrades_rejected_by_dialer", rejected)
	if !c.AwaitOrViolate("ws/not-attached:"+tag, "pipe attaching after the server confirmed the offered subprotocol ["+tag+"]", func() bool { return pw.Attached() >= 1 }, mon.AwaitOpts{MaxTimer: 2 * time.Millisecond}) {
		return
	}
	if n := pw.Attached(); n != 1 {
		attachViolation(c, pw, "ws/extra-pipe-attached:"+tag, "%d pipes attached, the server confirmed the offered subprotocol on one connection only (%d other answers)", n, rejected)
		return
	}
	pid := pw.LastID()
	compared := 0

	// the one confirmed connection is the socket's peer: messages both ways, byte-compared
	if canRecv(sp.Sock) {
		for _, sz := range sp.Sizes {
			wh, wantHdr := inbound(sp.Sock, c.Rand, pid)
			body := rndBytes(c.Rand, sz)
			payload := append(append([]byte{}, wh...), body...)
			wr := mon.Go("ws-write", func() (interface{}, error) { return nil, conn.WriteMessage(websocket.BinaryMessage, payload) })
			rc := mon.Go("RecvMsg", func() (interface{}, error) { return sock.RecvMsg() })
			if !wait("ws/message-not-delivered", fmt.Sprintf("RecvMsg of a %d-byte binary message", len(payload)), rc) {
				return
			}
			v, err, _ := rc.Result()
			if err != nil {
				c.Violate("ws/recv-error:"+tag, "RecvMsg returned %v", err)
				return
			}
			m := v.(*mangos.Message)
			if !bytes.Equal(m.Header, wantHdr) || !bytes.Equal(m.Body, body) {
				c.Violate("ws/delivered-differs:"+tag, "binary message of %d bytes: delivered Header % x (want % x), Body %d bytes (want %d), first difference at %d",
					len(payload), m.Header, wantHdr, len(m.Body), len(body), firstDiff(m.Body, body))
				return
			}
			m.Free()
			if !wait("harness:ws-write-stuck", "raw peer finishing WriteMessage", wr) {
				return
			}
			if _, err, _ := wr.Result(); err != nil {
				c.Violate("ws/peer-write-failed:"+tag, "WriteMessage of a well-formed binary message failed: %v", err)
				return
			}
			compared++
		}
	}
	if canSend(sp.Sock) {
		for _, sz := range sp.Sizes {
			h, wh := outbound(sp.Sock, c.Rand, pid)
			body := rndBytes(c.Rand, sz)
			wire := append(append([]byte{}, wh...), body...)
			mm := mangos.NewMessage(len(body))
			mm.Header = append(mm.Header, h...)
			mm.Body = append(mm.Body, body...)
			rd := mon.Go("ws-read", func() (interface{}, error) {
				mt, data, err := conn.ReadMessage()
				return [2]interface{}{mt, data}, err
			})
			sc := mon.Go("SendMsg", func() (interface{}, error) { return nil, sock.SendMsg(mm) })
			if !wait("ws/send-stuck", "SendMsg with one attached, reading peer", sc) {
				return
			}
			if _, err, _ := sc.Result(); err != nil {
				c.Violate("ws/send-error:"+tag, "SendMsg returned %v", err)
				return
			}
			if !wait("ws/message-not-received", fmt.Sprintf("the confirmed peer reading the %d-byte message the library was asked to send", len(wire)), rd) {
				return
			}
			v, err, _ := rd.Result()
			if err != nil {
				c.Violate("ws/peer-read-error:"+tag, "ReadMessage on the confirmed connection failed: %v", err)
				return
			}
			pr := v.([2]interface{})
			mt, data := pr[0].(int), pr[1].([]byte)
			if mt != websocket.BinaryMessage {
				c.Violate("ws/non-binary-message:"+tag, "library sent a message of type %d, the mapping requires binary (2)", mt)
				return
			}
			if !bytes.Equal(data, wire) {
				c.Violate("ws/library-message-differs:"+tag, "SendMsg(header % x, body %d bytes): peer read %d bytes, want %d (header then body); first difference at %d",
					h, len(body), len(data), len(wire), firstDiff(data, wire))
				return
			}
			compared++
		}
	}
	c.Count("ws_messages_with_confirmed_peer_compared", compared)
	if n := pw.Attached(); n != 1 {
		attachViolation(c, pw, "ws/extra-pipe-attached:"+tag, "%d pipes attached by the end, the server confirmed the offered subprotocol on one connection only", n)
		return
	}
	if rejected > 0 {
		c.Nontrivial()
	}
	c.Sig("wsdial|%s|%s", tag, shape)
}
