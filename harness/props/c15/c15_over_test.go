//go:build verif

package c15

import (
	"bytes"
	"fmt"
	"math/bits"
	"math/rand"

	"go.nanomsg.org/mangos/v3"

	"verifharness/mon"
	"verifharness/props/c15/spcodec"
)

// over — "an 8-byte big-endian length followed by exactly that many bytes": all eight bytes of
// the length count.  A peer announces a length L = hi + n whose part hi lies wholly above the
// socket's receive limit (one bit, a whole upper byte, the upper word, the sign bit, PRNG bits
// from some position up) and whose low part n is the size of a payload the pattern would
// deliver; exactly n such bytes follow, then 0-2 well-formed frames.  The n bytes are not a
// message (they are the beginning of one of L bytes that never completes), and neither is
// anything behind them.  The limit (default 1 MiB, or set on the socket) is always below L, so
// the library is never asked to buffer L bytes.
//
// The oracle: a RecvMsg is pending from before the length is written.  Either the peer then
// ends its direction ("fin": the library sees the end of the stream whatever it made of the
// length) or it leaves the connection open ("keep": the library has to drop a peer whose
// message exceeds the limit — the stuck detector decides if it neither drops nor delivers).
// After the pipe has detached the next connection sends a sentinel, and the pending RecvMsg
// must return that sentinel.

type overSpec struct {
	Pre  []int  `json:"pre,omitempty"` // whole messages (body sizes) delivered on the connection first
	Hi   uint64 `json:"hi"`            // the part of the announced length above the receive limit
	N    int    `json:"n"`             // body bytes that follow the prefix (the pattern header comes on top)
	Post int    `json:"post"`          // well-formed frames written right behind
	End  string `json:"end"`           // fin | keep
	Seg  string `json:"seg"`           // whole | rand
}

// genHi returns a non-zero value with no bit below position p0 set.
func genHi(rnd *rand.Rand, p0 int) uint64 {
	switch rnd.Intn(6) {
	case 0: // one bit
		return 1 << uint(p0+rnd.Intn(64-p0))
	case 1: // the upper word counts
		return uint64(1+rnd.Intn(0xffff)) << 32
	case 2: // one upper byte
		return uint64(1+rnd.Intn(255)) << uint(8*(4+rnd.Intn(4)))
	case 3:
		return []uint64{0xffffffff00000000, 1 << 32, 1 << 63, 0x7fffffff00000000, 1 << 31, 0xffffffff80000000}[rnd.Intn(6)]
	default: // PRNG bits from some position up
		q := p0 + rnd.Intn(64-p0)
		v := (rnd.Uint64() >> uint(q)) << uint(q)
		return v | 1<<uint(q)
	}
}

func genOverCases(rnd *rand.Rand, rounds, maxOver int) []mon.CaseSpec {
	var out []mon.CaseSpec
	for round := 0; round < rounds; round++ {
		for _, tr := range streamTrs {
			for _, role := range roles {
				for _, s := range recvSocks {
					maxrx := []int{0, 0, 4096, 65536, 1 << 20, 1 << 24}[rnd.Intn(6)] // 0: the socket's default, 1 MiB
					eff := maxrx
					if eff == 0 {
						eff = 1 << 20
					}
					p0 := bits.Len(uint(eff)) // 2^p0 > limit
					var overs []overSpec
					for k := 1 + rnd.Intn(maxOver); k > 0; k-- {
						ov := overSpec{Hi: genHi(rnd, p0), N: 1 + rnd.Intn([]int{8, 300, 3000}[rnd.Intn(3)]), Post: rnd.Intn(3),
							End: []string{"fin", "keep", "keep"}[rnd.Intn(3)], Seg: []string{"whole", "rand"}[rnd.Intn(2)]}
						for n := rnd.Intn(3); n > 0; n-- {
							lim := eff - 64
							if lim > 70000 {
								lim = 70000
							}
							ov.Pre = append(ov.Pre, rnd.Intn([]int{300, lim}[rnd.Intn(2)]))
						}
						overs = append(overs, ov)
					}
					out = append(out, mon.CaseSpec{Name: "over", Spec: spec{Kind: "over", Tr: tr, Role: role, Sock: s, MaxRx: maxrx, Over: overs}})
				}
			}
		}
	}
	return out
}

// hiClass names which part of the 64-bit length carries the excess (for signatures).
func hiClass(hi uint64) string {
	switch {
	case hi>>63 != 0:
		return "bit63"
	case hi>>32 != 0 && hi&0xffffffff == 0:
		return "upper-word-only"
	case hi>>32 != 0:
		return "both-words"
	}
	return "lower-word"
}

func caseOver(c *mon.Case, sp spec) {
	g := newRig(c, sp)
	cn, pid, ok := g.connectGood(nil)
	if !ok {
		return
	}
	limit := sp.MaxRx
	if limit == 0 {
		limit = 1 << 20
	}
	whole, discarded, dropped := 0, 0, 0
	shape := ""
	for i, ov := range sp.Over {
		for k, sz := range ov.Pre {
			if !g.deliver(cn, pid, rndBytes(c.Rand, sz), fmt.Sprintf("whole message %d before over-long length %d", k, i)) {
				return
			}
			whole++
			shape += sizeClass(sz)
		}
		// what the low part of the length describes: a payload the pattern would hand up
		wh, _ := inbound(sp.Sock, c.Rand, pid)
		low := append(append([]byte{}, wh...), []byte("LOW-PART-")...)
		low = append(low, rndBytes(c.Rand, ov.N)...)
		L := ov.Hi + uint64(len(low))
		data := spcodec.AppendPrefix(nil, g.ipc, L)
		data = append(data, low...)
		for k := 0; k < ov.Post; k++ {
			ph, _ := inbound(sp.Sock, c.Rand, pid)
			data = spcodec.AppendFrame(data, g.ipc, append(append([]byte{}, ph...), []byte(fmt.Sprintf("BEHIND-%d-", k))...))
		}
		cls := hiClass(ov.Hi)
		c.Logf("over %d: length %#016x (= %#x + %d) announced, limit %d; %d payload bytes and %d well-formed frames follow, then %s, seg=%s",
			i, L, ov.Hi, len(low), limit, len(low), ov.Post, ov.End, ov.Seg)

		det0 := g.pw.Detached()
		rc := mon.Go("RecvMsg", func() (interface{}, error) { return g.sock.RecvMsg() })
		wr := mon.Go("peer-write-over", func() (interface{}, error) {
			var err error
			if ov.Seg == "rand" {
				err = spcodec.Segment(cn, data, segCuts("rand", rand.New(rand.NewSource(int64(len(data)))), len(data)))
			} else {
				_, err = cn.Write(data)
			}
			if ov.End == "fin" {
				closeWrite(cn)
			}
			return nil, err // an error means the library has already hung up: that is its right
		})
		if !g.wait("harness:peer-write-stuck", "raw peer writing an over-long length and what follows it", wr) {
			return
		}
		what := fmt.Sprintf("the library dropping (or, wrongly, serving) a peer that announced a message of %#x bytes, limit %d [%s]", L, limit, g.tag)
		cond := func() bool { return rc.Done() || g.pw.Detached() > det0 }
		if ov.End == "keep" {
			if !c.AwaitOrViolate("stream/over-long-length-connection-kept:"+g.tag+":"+cls, what, cond, mon.AwaitOpts{}) {
				return
			}
		} else if r := mon.Await(cond, mon.AwaitOpts{}); r.V != mon.Done {
			c.Inconclusive("%s: the peer ended its stream, the pipe did not detach (%v after %v)", what, r.V, r.Waited)
			return
		}
		delivered := func(m *mangos.Message, err error) {
			if f := g.pw.foreign(); f != "" {
				c.Inconclusive("a connection from another process (%s) attached to the socket under test", f)
				return
			}
			if err != nil {
				c.Violate("stream/recv-error:"+g.tag, "RecvMsg returned %v after a peer announced a message of %#x bytes", err, L)
				return
			}
			isLow := ""
			if len(m.Body) > 0 && bytes.HasSuffix(low, m.Body) {
				isLow = fmt.Sprintf(" — these are the %d bytes that followed the prefix: only part of the 64-bit length was decoded", len(low))
			}
			c.Violate("stream/over-long-length-delivered:"+g.tag+":"+cls,
				"a peer announced length %#016x (prefix % x; receive limit %d) and wrote %d payload bytes and %d more frames (%s, written %s): RecvMsg delivered Header % x Body %d bytes (prefix %q)%s; nothing of this connection is a message",
				L, spcodec.AppendPrefix(nil, g.ipc, L), limit, len(low), ov.Post, ov.End, ov.Seg, m.Header, len(m.Body), head(m.Body, 24), isLow)
		}
		if rc.Done() {
			v, err, _ := rc.Result()
			m, _ := v.(*mangos.Message)
			delivered(m, err)
			return
		}
		if ov.End == "keep" {
			dropped++
		}
		// whatever the library wrote on its way out is seen (nothing may be: it was never asked to send)
		tail := mon.Go("peer-read-tail", func() (interface{}, error) { return spcodec.ReadUntilClosed(cn) })
		if r := mon.Await(tail.Done, mon.AwaitOpts{}); r.V != mon.Done {
			c.Inconclusive("the library detached the pipe but did not close the connection of the peer that announced %#x bytes (%v)", L, r.V)
			return
		}
		tv, _, _ := tail.Result()
		if extra := tv.([]byte); len(extra) > 0 {
			c.Violate("stream/stray-bytes:"+g.tag, "the library wrote %d bytes (% x) on a connection it was never asked to send on, after the peer announced a message of %#x bytes", len(extra), head(extra, 32), L)
			return
		}
		cn.Close()
		if g.lastDialer != nil {
			g.lastDialer.Close()
		}

		// Absence: that connection is gone; the next connection's first message is a sentinel and
		// the RecvMsg pending since before the over-long length must return it.
		cn, pid, ok = g.connectGood(nil)
		if !ok {
			return
		}
		swh, want := inbound(sp.Sock, c.Rand, pid)
		body := []byte(fmt.Sprintf("SENTINEL-after-over-%d-%d", c.Idx, i))
		if _, err := cn.Write(spcodec.Frame(g.ipc, append(append([]byte{}, swh...), body...))); err != nil {
			c.Violate("stream/peer-write-failed:"+g.tag, "writing the sentinel frame on the next connection: %v", err)
			return
		}
		if !g.wait("stream/frame-not-delivered", "RecvMsg of the sentinel on the connection after one with an over-long length", rc) {
			return
		}
		v, err, _ := rc.Result()
		m, _ := v.(*mangos.Message)
		if err != nil || !bytes.Equal(m.Body, body) || !bytes.Equal(m.Header, want) {
			delivered(m, err)
			return
		}
		m.Free()
		discarded++
		shape += "|" + cls + ov.End + fmt.Sprint(ov.Post)
	}
	c.Count("over_long_lengths_not_delivered", discarded)
	c.Count("over_long_lengths_dropped_by_library", dropped)
	c.Count("whole_frames_before_over_long_compared", whole)
	if discarded > 0 {
		c.Nontrivial()
	}
	c.Sig("over|%s|%d|%s", g.tag, sp.MaxRx, shape)
}
