//go:build verif

package c15

import (
	"bytes"
	"fmt"
	"io"
	"net"
	"path/filepath"
	"time"

	"go.nanomsg.org/mangos/v3"

	"verifharness/hx"
	"verifharness/mon"
	"verifharness/props/c15/spcodec"
)

// caseConc: several library sockets of one process write to raw peers at the same time, each its
// own connection, sizes distinct per connection, the peers reading slowly so that writers block
// part-way.  Every connection's byte stream, parsed by the independent decoder, must be exactly
// the frames that were sent on that connection: a length prefix, a type byte or a body belonging
// to another connection's message shows as a frame that differs or does not parse.
func caseConc(c *mon.Case, sp spec) {
	tr := sp.Tr
	ipc := tr == "ipc"
	srvTLS, cliTLS := hx.TlsConfigs()
	rl, err := spcodec.Listen(tr, filepath.Join(hx.ScratchDir(), hx.Uniq("conc")), srvTLS)
	if err != nil {
		panic(envError{err})
	}
	c.Cleanup(rl.Close)
	k := 4 + c.Rand.Intn(5)
	per := sp.Sizes[0]
	proto := spcodec.ByName("xpair")
	type link struct {
		sock mangos.Socket
		cn   net.Conn
		want [][]byte
	}
	links := make([]*link, k)
	for i := range links {
		s := hx.MustSock(c, "xpair")
		var do map[string]interface{}
		if tr == "tls+tcp" {
			do = map[string]interface{}{mangos.OptionTLSConfig: cliTLS}
		}
		d, err := s.NewDialer(rl.URL(), do)
		if err != nil {
			panic(envError{err})
		}
		dk := mon.Go("Dial", func() (interface{}, error) { return nil, d.Dial() })
		ak := mon.Go("raw-accept", func() (interface{}, error) {
			cn, err := rl.Accept()
			if err != nil {
				return nil, err
			}
			if _, err := cn.Write(spcodec.Header(proto.PeerNum)); err != nil {
				return nil, err
			}
			h := make([]byte, 8)
			cn.SetReadDeadline(time.Now().Add(10 * time.Second))
			if _, err := io.ReadFull(cn, h); err != nil {
				return nil, err
			}
			cn.SetReadDeadline(time.Time{})
			return cn, nil
		})
		if !c.AwaitOrViolate("conc/connect-stuck:"+tr, "library dialer and raw listener completing the handshake", func() bool { return dk.Done() && ak.Done() }, mon.AwaitOpts{}) {
			return
		}
		v, aerr, _ := ak.Result()
		if _, derr, _ := dk.Result(); derr != nil || aerr != nil {
			c.Inconclusive("setup: dial %v, accept %v", derr, aerr)
			return
		}
		cn := v.(net.Conn)
		c.Cleanup(func() { cn.Close() })
		links[i] = &link{sock: s, cn: cn}
		// sizes distinct per connection (and from every other connection's)
		for j := 0; j < per; j++ {
			n := 1000*(i+1) + 37*j + 60000*(j%3)
			b := make([]byte, n)
			for x := range b {
				b[x] = byte(i*31 + j*7 + x)
			}
			links[i].want = append(links[i].want, b)
		}
	}
	var senders, readers []*mon.Call
	for _, lk := range links {
		lk := lk
		senders = append(senders, mon.Go("sender", func() (interface{}, error) {
			for _, b := range lk.want {
				m := mangos.NewMessage(len(b))
				m.Body = append(m.Body, b...)
				if err := lk.sock.SendMsg(m); err != nil {
					m.Free()
					return nil, err
				}
			}
			return nil, nil
		}))
		readers = append(readers, mon.Go("raw-reader", func() (interface{}, error) {
			dec := &spcodec.Decoder{IPC: ipc, Max: 1 << 24}
			var out [][]byte
			buf := make([]byte, 8<<10)
			for len(out) < len(lk.want) {
				for {
					p, ok, err := dec.Next()
					if err != nil {
						return out, err
					}
					if !ok {
						break
					}
					out = append(out, p)
				}
				if len(out) >= len(lk.want) {
					break
				}
				time.Sleep(150 * time.Microsecond) // a slow reader: the writers block part-way through a message
				n, err := lk.cn.Read(buf)
				dec.Write(buf[:n])
				if err != nil && n == 0 {
					return out, err
				}
			}
			return out, nil
		}))
	}
	all := func() bool {
		for _, x := range append(append([]*mon.Call{}, senders...), readers...) {
			if !x.Done() {
				return false
			}
		}
		return true
	}
	if !c.AwaitOrViolate("conc/frames-not-received:"+tr, fmt.Sprintf("%d connections x %d frames written concurrently all being parsed by their peers", k, per), all, mon.AwaitOpts{MaxTimer: 2 * time.Millisecond}) {
		return
	}
	frames := 0
	for i, lk := range links {
		if _, err, _ := senders[i].Result(); err != nil {
			c.Violate("conc/send-error:"+tr, "connection %d: SendMsg returned %v", i, err)
			return
		}
		v, err, _ := readers[i].Result()
		got, _ := v.([][]byte)
		if err != nil {
			c.Violate("conc/library-frame-unparseable:"+tr, "connection %d: after %d good frames the stream written by the library does not parse: %v (concurrent writers on %d connections)", i, len(got), err, k)
			return
		}
		for j := range lk.want {
			if j >= len(got) || !bytes.Equal(got[j], lk.want[j]) {
				gl := -1
				if j < len(got) {
					gl = len(got[j])
				}
				c.Violate("conc/library-frame-differs:"+tr, "connection %d frame %d: peer parsed %d bytes, the message sent on this connection has %d (first difference at %d) — bytes of another connection's message?", i, j, gl, len(lk.want[j]), firstDiff(safeIdx(got, j), lk.want[j]))
				return
			}
			frames++
		}
	}
	c.Count("conc_frames_compared", frames)
	c.Count("conc_connections", k)
	c.Nontrivial()
	c.Sig("conc|%s|%d", tr, k)
}

func safeIdx(a [][]byte, i int) []byte {
	if i < len(a) {
		return a[i]
	}
	return nil
}

// caseEager: a peer that does not wait for the library's header before it talks: its own header and
// its first frames go out in one write as soon as the connection is up (each side sends its header
// first and may follow it with messages at once).  Nothing that was queued behind the header may be
// lost or shifted: the library must deliver exactly these frames.
func caseEager(c *mon.Case, sp spec) {
	g := newRig(c, sp)
	base := g.pw.Attached()
	cn, dial, _, ok := g.rawConn()
	if !ok {
		return
	}
	var bodies [][]byte
	all := append([]byte{}, spcodec.Header(g.proto.PeerNum)...)
	for _, sz := range sp.Sizes {
		b := rndBytes(c.Rand, sz)
		bodies = append(bodies, b)
		all = spcodec.AppendFrame(all, g.ipc, b)
	}
	wr := mon.Go("peer-write", func() (interface{}, error) { _, err := cn.Write(all); return nil, err })
	if sp.Seg == "late-read" {
		mon.Sleep(3 * time.Millisecond) // the library's handshake read finds header and frames together
	}
	if !g.readOwnHeader(cn) {
		return
	}
	if dial != nil {
		if !g.wait("stream/dial-stuck-after-good-header", "library Dial returning after a correct peer header", dial) {
			return
		}
		if _, err, _ := dial.Result(); err != nil {
			c.Violate("stream/good-header-rejected:"+g.tag, "Dial returned %v after a correct peer header followed at once by frames", err)
			return
		}
	}
	if !c.AwaitOrViolate("stream/good-header-not-attached:"+g.tag, "pipe attaching after a correct peer header followed at once by frames ["+g.tag+"]",
		func() bool { return g.pw.Attached() > base }, mon.AwaitOpts{}) {
		return
	}
	for k, want := range bodies {
		rc := mon.Go("RecvMsg", func() (interface{}, error) { return g.sock.RecvMsg() })
		if !g.wait("stream/frame-not-delivered", fmt.Sprintf("RecvMsg of frame %d of %d that the peer sent right behind its header", k, len(bodies)), rc) {
			return
		}
		v, err, _ := rc.Result()
		if err != nil {
			c.Violate("stream/recv-error:"+g.tag, "RecvMsg returned %v for a frame sent right behind the peer's header", err)
			return
		}
		got := v.(*mangos.Message)
		if !bytes.Equal(got.Body, want) {
			c.Violate("stream/delivered-differs:"+g.tag, "frame %d sent right behind the peer's header: delivered %d bytes, want %d (first difference at %d)", k, len(got.Body), len(want), firstDiff(got.Body, want))
			return
		}
		got.Free()
	}
	if !g.wait("harness:peer-write-stuck", "raw peer finishing its write", wr) {
		return
	}
	c.Count("frames_behind_header_compared", len(bodies))
	c.Nontrivial()
	c.Sig("eager|%s|%s|%d", g.tag, sp.Seg, len(bodies))
}
