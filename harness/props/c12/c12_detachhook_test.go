//go:build verif

package c12

import (
	"fmt"
	"sync"
	"time"

	"go.nanomsg.org/mangos/v3"

	"verifharness/hx"
	"verifharness/mon"
)

// runDetachHook: the application's pipe event hook uses the pipe it is told about while the connection is
// being torn down — in the Detached callback it closes the pipe again (Close is idempotent), asks it for
// options, or simply takes its time.  Those are API calls like any other: they must return, and losing
// the connection must still not stop the dialer from redialling nor the listener from accepting.  After
// the loss a peer is available again at the same address (the same listener, or a new socket listening
// there), and the socket must attach to it and converse.
func runDetachHook(c *mon.Case, sp spec) {
	tr, what := sp.Tran, sp.Err // what the hook does inside Detached
	ctx := "detachhook/" + tr + "/" + what + "/" + sp.Stranger
	p := "bus"
	cli := hx.MustSock(c, p)
	srv := hx.MustSock(c, p)
	const R = 5 * time.Millisecond
	cli.SetOption(mangos.OptionReconnectTime, R)
	cli.SetOption(mangos.OptionMaxReconnectTime, R)
	var mu sync.Mutex
	attached, detached, hookReturned := 0, 0, 0
	release := make(chan struct{})
	hook := func(ev mangos.PipeEvent, pp mangos.Pipe) {
		switch ev {
		case mangos.PipeEventAttached:
			mu.Lock()
			attached++
			mu.Unlock()
		case mangos.PipeEventDetached:
			mu.Lock()
			detached++
			mu.Unlock()
			switch what {
			case "close":
				_ = pp.Close()
			case "options":
				_, _ = pp.GetOption(mangos.OptionLocalAddr)
				_, _ = pp.GetOption(mangos.OptionRemoteAddr)
				_ = pp.ID()
				_ = pp.Close()
			case "slow":
				<-release // held until the socket has its new connection
			}
			mu.Lock()
			hookReturned++
			mu.Unlock()
		}
	}
	// which side carries the hook: the dialling socket or the listening one
	hooked, other := cli, srv
	if sp.Stranger == "listen-side" {
		hooked, other = srv, cli
	}
	hooked.SetPipeEventHook(hook)
	ow := hx.WatchPipes(other)
	l, _, err := hx.Connect(srv, cli, tr)
	if err != nil {
		c.Inconclusive("setup: %s: %v", tr, err)
		return
	}
	att := func() int { mu.Lock(); defer mu.Unlock(); return attached }
	if !c.AwaitOrViolate("wedged:"+ctx+"/attach", ctx+": first connection attaching", func() bool { return att() >= 1 && ow.Attached() >= 1 }, mon.AwaitOpts{MaxTimer: R}) {
		return
	}
	if !converse(c, ctx, p, cli, srv) {
		return
	}
	// lose the connection from the side that does not carry the hook
	how := []string{"pipe", "socket"}[c.Rand.Intn(2)]
	if sp.Stranger == "listen-side" {
		how = "pipe" // the dialling side closes its pipe; its dialer redials
	}
	newSrv := srv
	nw, nwWant := ow, 2 // the other end's view: it, too, must have the new connection before traffic (BUS drops what it cannot send)
	switch how {
	case "pipe":
		ps := ow.Pipes()
		_ = ps[len(ps)-1].Close()
	case "socket":
		_ = srv.Close()
		newSrv = hx.MustSock(c, p)
		nw = hx.WatchPipes(newSrv)
		nwWant = 1
		// the address is free once Close returned; listen there again
		var lo map[string]interface{}
		if hx.NeedsTLS(tr) {
			scfg, _ := hx.TlsConfigs()
			lo = map[string]interface{}{mangos.OptionTLSConfig: scfg}
		}
		k := mon.Go("Listen", func() (interface{}, error) { return nil, newSrv.ListenOptions(l.Address(), lo) })
		if !c.AwaitOrViolate("wedged:"+ctx+"/listen-again", ctx+": a new socket listening at the freed address", k.Done, mon.AwaitOpts{}) {
			return
		}
		if _, e, _ := k.Result(); e != nil {
			c.Inconclusive("setup: listening again at %s: %v", l.Address(), e)
			return
		}
	}
	c.Count("connections_lost_with_a_hook_active_in_detached", 1)
	// the hooked socket must come back: Detached seen, a new connection attached
	ok := c.AwaitOrViolate("not-redialling:"+ctx, fmt.Sprintf("%s: the connection was lost (%s closed by the peer side) while the application's hook %s inside Detached; a peer is available at the same address: a new connection must attach", ctx, how, map[string]string{"close": "closes the pipe again", "options": "reads the pipe's options and closes it", "slow": "is taking its time"}[what]),
		func() bool { return att() >= 2 }, mon.AwaitOpts{MaxTimer: R})
	if what == "slow" {
		close(release)
	}
	if !ok {
		return
	}
	if !c.AwaitOrViolate("wedged:"+ctx+"/hook-return", ctx+": the Detached callback returning", func() bool { mu.Lock(); defer mu.Unlock(); return hookReturned >= 1 }, mon.AwaitOpts{}) {
		return
	}
	if !c.AwaitOrViolate("wedged:"+ctx+"/other-end-attach", ctx+": the other end attaching the new connection", func() bool { return nw.Attached() >= nwWant }, mon.AwaitOpts{MaxTimer: R}) {
		return
	}
	if !converse(c, ctx, p, cli, newSrv) {
		return
	}
	c.Count("locks_probed", hx.ProbeLocks(c, "lock-held:"+ctx+":", ctx, cli, newSrv))
	c.Count("reattached_after_hooked_detach", 1)
	c.Nontrivial()
}
