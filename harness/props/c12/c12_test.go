package c12

import (
	"crypto/tls"
	"errors"
	"fmt"
	"net"
	"os"
	"path/filepath"
	"strings"
	"sync"
	"syscall"
	"testing"
	"time"

	"go.nanomsg.org/mangos/v3"

	"verifharness/hx"
	"verifharness/mon"
	"verifharness/vt"
)

// C12 — a failed operation leaves the object usable; nothing stays locked.

func TestMain(m *testing.M) { hx.Main(m) }

type spec struct {
	Kind  string `json:"kind"` // listener | dialer | socket | qlen0 | reject | pairbusy | wrongproto | sibling | detachhook | peerloss | qresize | supersede
	Tran  string `json:"tran,omitempty"`
	Err   string `json:"err,omitempty"`
	Proto string `json:"proto,omitempty"`
	// wrongproto: Proto is the protocol of the endpoint under test (Err = listen: the listening
	// socket, Err = dial: the dialing socket), Stranger a protocol it cannot talk to.
	Stranger string `json:"stranger,omitempty"`
}

var listenerErrs = []string{"inuse", "twice", "closed", "badaddr", "tls-noconfig", "tls-nocert", "badpeer"}
var dialerErrs = []string{"refused", "async-refused", "twice", "closed", "handshake", "tls-badca"}

func TestC12(t *testing.T) {
	r := mon.NewRunner(t, "C12")
	var cases []mon.CaseSpec
	trans := hx.Transports
	reps := r.Pick(1, 40)
	for rep := 0; rep < reps; rep++ {
		for _, tr := range append(append([]string{}, trans...), "vt") {
			for _, e := range listenerErrs {
				if strings.HasPrefix(e, "tls-") && !hx.NeedsTLS(tr) {
					continue
				}
				if e == "badpeer" && (tr == "inproc" || tr == "vt") {
					continue
				}
				if tr == "vt" && (e == "badaddr" || e == "inuse") {
					continue
				}
				cases = append(cases, mon.CaseSpec{Name: "listener/" + tr + "/" + e, Spec: spec{Kind: "listener", Tran: tr, Err: e}})
			}
			for _, e := range dialerErrs {
				if e == "tls-badca" && !hx.NeedsTLS(tr) {
					continue
				}
				if e == "handshake" && !(tr == "tcp" || tr == "ipc" || tr == "tls+tcp") {
					continue
				}
				cases = append(cases, mon.CaseSpec{Name: "dialer/" + tr + "/" + e, Spec: spec{Kind: "dialer", Tran: tr, Err: e}})
			}
			if tr != "vt" {
				cases = append(cases, mon.CaseSpec{Name: "reject/" + tr + "/pair-busy", Spec: spec{Kind: "pairbusy", Tran: tr}})
				for _, side := range []string{"listen", "dial"} {
					cases = append(cases, mon.CaseSpec{Name: "reject/" + tr + "/" + side, Spec: spec{Kind: "reject", Tran: tr, Err: side}})
				}
			}
		}
		for _, p := range hx.AllProtos {
			cases = append(cases, mon.CaseSpec{Name: "socket/" + p, Spec: spec{Kind: "socket", Proto: p}})
			cases = append(cases, mon.CaseSpec{Name: "qlen0/" + p, Spec: spec{Kind: "qlen0", Proto: p}})
		}
	}
	// connections refused for a protocol mismatch, then a matched peer on the same endpoint: appended
	// after the catalogue so that the indices of the older cases stay what they were
	rnd := r.Rand()
	for rep := 0; rep < reps; rep++ {
		for _, tr := range trans {
			for _, side := range []string{"listen", "dial"} {
				p := hx.AllProtos[rnd.Intn(len(hx.AllProtos))]
				if p[0] == 'x' { // the raw variants only get as far as attaching: draw again, once
					p = hx.AllProtos[rnd.Intn(len(hx.AllProtos))]
				}
				st := pickStranger(rnd, p)
				cases = append(cases, mon.CaseSpec{Name: "wrongproto/" + tr + "/" + side + "/" + p + "-vs-" + st,
					Spec: spec{Kind: "wrongproto", Tran: tr, Err: side, Proto: p, Stranger: st}})
			}
		}
	}
	// a second listener for an address that a live listener owns fails and is disposed of; the live
	// one must go on accepting (appended last, for the same reason)
	var cooked []string
	for _, p := range hx.AllProtos {
		if p[0] != 'x' {
			cooked = append(cooked, p)
		}
	}
	for rep := 0; rep < reps; rep++ {
		for _, tr := range trans {
			for _, m := range siblingModes {
				p := cooked[rnd.Intn(len(cooked))]
				cases = append(cases, mon.CaseSpec{Name: "sibling/" + tr + "/" + m + "/" + p, Spec: spec{Kind: "sibling", Tran: tr, Err: m, Proto: p}})
			}
		}
	}
	// the application's hook uses the pipe inside its Detached callback (appended last)
	for rep := 0; rep < reps; rep++ {
		for _, tr := range trans {
			for _, m := range []string{"close", "options", "slow"} {
				side := []string{"dial-side", "listen-side"}[rnd.Intn(2)]
				if rep%2 == 1 {
					side = "dial-side"
				}
				cases = append(cases, mon.CaseSpec{Name: "detachhook/" + tr + "/" + m, Spec: spec{Kind: "detachhook", Tran: tr, Err: m, Stranger: side}})
			}
		}
	}
	// the last peer is lost, calls fail for want of one, OptionFailNoPeers is toggled around that, a new
	// peer attaches (appended last)
	for rep := 0; rep < reps; rep++ {
		for _, p := range hx.AllProtos {
			for _, m := range peerLossCorrect {
				tr := trans[rnd.Intn(len(trans))]
				cases = append(cases, mon.CaseSpec{Name: "peerloss/" + tr + "/" + p + "/" + m, Spec: spec{Kind: "peerloss", Tran: tr, Proto: p, Err: m}})
			}
		}
	}
	// READQ-LEN set again under a parked pipe receiver; a Recv ended without a reply (appended last)
	cases = append(cases, qresizeCases(r, rnd)...)
	r.Run(cases, func(c *mon.Case) {
		sp := c.Spec.(spec)
		switch sp.Kind {
		case "qresize":
			runQResize(c, sp)
		case "supersede":
			runSupersede(c, sp)
		case "peerloss":
			runPeerLoss(c, sp)
		case "detachhook":
			runDetachHook(c, sp)
		case "listener":
			runListener(c, sp)
		case "dialer":
			runDialer(c, sp)
		case "socket":
			runSocket(c, sp)
		case "qlen0":
			runQlen0(c, sp)
		case "reject":
			runReject(c, sp)
		case "pairbusy":
			runPairBusy(c, sp)
		case "wrongproto":
			if sp.Err == "listen" {
				runWrongProtoListen(c, sp)
			} else {
				runWrongProtoDial(c, sp)
			}
		case "sibling":
			runSibling(c, sp)
		}
		c.Sig("%s|%s|%s|%s%s", sp.Kind, sp.Tran, sp.Err, sp.Proto, sp.Stranger)
	})
}

// call runs f under the stuck detector; a call that never returns is the violation.
func call(c *mon.Case, ctx, name string, maxTimer time.Duration, f func() error) (error, bool) {
	k := mon.Go(name, func() (interface{}, error) { return nil, f() })
	if !c.AwaitOrViolate("wedged:"+ctx+"/"+name, ctx+": "+name+" returning", k.Done, mon.AwaitOpts{MaxTimer: maxTimer}) {
		return nil, false
	}
	_, err, _ := k.Result()
	c.Count("followup_calls", 1)
	c.Logf("%s: %s -> %v", ctx, name, err)
	return err, true
}

func freeTCPPort() string {
	l, err := net.Listen("tcp", "127.0.0.1:0")
	if err != nil {
		panic(err)
	}
	a := l.Addr().String()
	l.Close()
	return a
}

// unusedAddr returns an address of the transport on which nothing listens.
func unusedAddr(tr string) string {
	switch tr {
	case "tcp", "tls+tcp":
		return tr + "://" + freeTCPPort()
	case "ws", "wss":
		return tr + "://" + freeTCPPort() + "/" + hx.Uniq("p")
	}
	return hx.ListenAddr(tr)
}

func lopts(tr string) map[string]interface{} {
	if hx.NeedsTLS(tr) {
		s, _ := hx.TLSConfigs()
		return map[string]interface{}{mangos.OptionTLSConfig: s}
	}
	return nil
}
func dopts(tr string) map[string]interface{} {
	if hx.NeedsTLS(tr) {
		_, c := hx.TLSConfigs()
		return map[string]interface{}{mangos.OptionTLSConfig: c}
	}
	return nil
}

// exchange proves the pair of sockets still works: one message each way.
func exchange(c *mon.Case, ctx string, a, b mangos.Socket) bool {
	for i, dir := range [][2]mangos.Socket{{a, b}, {b, a}} {
		msg := []byte(fmt.Sprintf("ping-%d-%s", i, hx.Uniq("x")))
		if err, ok := call(c, ctx, "Send", 0, func() error { return dir[0].Send(msg) }); !ok || err != nil {
			if ok {
				c.Violate("unusable:"+ctx+"/send", "%s: Send on a connected PAIR socket failed: %v", ctx, err)
			}
			return false
		}
		var got []byte
		if err, ok := call(c, ctx, "Recv", 0, func() error { var e error; got, e = dir[1].Recv(); return e }); !ok || err != nil || string(got) != string(msg) {
			if ok {
				c.Violate("unusable:"+ctx+"/recv", "%s: Recv returned %q, %v; want %q", ctx, got, err, msg)
			}
			return false
		}
	}
	return true
}

// exchangeResending is exchange for two PAIR sockets whose connection may still be replaced: the
// side that did not reject can itself turn a connection away while it has not yet noticed that
// the previous one is gone (PAIR keeps one peer), so a message sent into that connection is lost,
// legitimately, and the dialer connects again.  The message is therefore sent again whenever the
// sender has seen a new connection attach since; what must not happen is that nothing arrives and
// nothing moves any more.  attA/attB count the connections attached so far at a and at b.
func exchangeResending(c *mon.Case, ctx string, a, b mangos.Socket, attA, attB func() int) bool {
	type end struct {
		s   mangos.Socket
		att func() int
	}
	for i, dir := range [][2]end{{{a, attA}, {b, attB}}, {{b, attB}, {a, attA}}} {
		from, to := dir[0], dir[1]
		msg := fmt.Sprintf("ping-%d-%s", i, hx.Uniq("x"))
		rk := mon.Go("Recv", func() (interface{}, error) {
			for { // copies of a message that was sent again
				m, e := to.s.Recv()
				if e != nil || string(m) == msg {
					return m, e
				}
			}
		})
		for attempt := 0; !rk.Done(); attempt++ {
			if attempt == 50 {
				c.Inconclusive("%s: the connection was replaced %d times while a message was on its way", ctx, attempt)
				return false
			}
			if attempt > 0 {
				c.Count("resent_after_reconnect", 1)
			}
			a0 := from.att()
			if err, ok := call(c, ctx, "Send", 0, func() error { return from.s.Send([]byte(msg)) }); !ok || err != nil {
				if ok {
					c.Violate("unusable:"+ctx+"/send", "%s: Send on a connected PAIR socket failed: %v", ctx, err)
				}
				return false
			}
			r := mon.Await(func() bool { return rk.Done() || from.att() > a0 }, mon.AwaitOpts{MaxTimer: 5 * time.Millisecond, Ignore: []string{"internal/core.(*dialer)"}})
			switch r.V {
			case mon.Done:
			case mon.Stuck:
				c.Violate("wedged:"+ctx+"/Recv", "%s: Recv returning: stuck after %v — every goroutine parked, identical over %d samples:\n%s", ctx, r.Waited, 5, r.Dump)
				return false
			default:
				c.Inconclusive("%s: Recv returning: not done after %v, process still active", ctx, r.Waited)
				return false
			}
		}
		c.Count("followup_calls", 1)
		if got, err, _ := rk.Result(); err != nil || string(got.([]byte)) != msg {
			c.Violate("unusable:"+ctx+"/recv", "%s: Recv returned %q, %v; want %q", ctx, got, err, msg)
			return false
		}
	}
	return true
}

// ---------------------------------------------------------------------------

func runListener(c *mon.Case, sp spec) {
	tr := sp.Tran
	ctx := "listener/" + tr + "/" + sp.Err
	srv := hx.MustSock(c, "pair")
	cli := hx.MustSock(c, "pair")
	ws := hx.WatchPipes(srv)
	var l mangos.Listener
	var err error
	var blocker mangos.Socket
	addr := hx.ListenAddr(tr)
	opts := lopts(tr)
	wantFirst := ""
	switch sp.Err {
	case "inuse":
		blocker = hx.MustSock(c, "pair")
		bl, e := blocker.NewListener(addr, lopts(tr))
		if e != nil || bl.Listen() != nil {
			c.Inconclusive("cannot set up the blocking listener: %v", e)
			return
		}
		addr = bl.Address()
		wantFirst = "error"
	case "tls-noconfig":
		opts = nil
		wantFirst = "error"
	case "tls-nocert":
		opts = map[string]interface{}{mangos.OptionTLSConfig: &tls.Config{}}
		wantFirst = "error"
	case "badaddr":
		switch tr {
		case "tcp", "tls+tcp":
			addr = tr + "://203.0.113.77:1" // not a local address: bind fails
		case "ws", "wss":
			addr = tr + "://203.0.113.77:1/x"
		case "ipc":
			addr = "ipc://" + filepath.Join(hx.ScratchDir(), "no", "such", "dir", "sock")
		case "inproc":
			c.Nontrivial()
			return // every inproc name is usable
		}
		wantFirst = "error"
	}
	l, err = srv.NewListener(addr, opts)
	if err != nil {
		if sp.Err == "badaddr" {
			// rejected at construction: the socket must still be usable
			c.Count("errors_provoked", 1)
			finishSocket(c, ctx, srv, cli, tr)
			return
		}
		c.Inconclusive("setup "+ctx+": NewListener(%s): %v", addr, err)
		return
	}
	if tr == "vt" && sp.Err == "inuse" {
		// vt has no shared address space between sockets; script the failure instead
		vt.L(strings.TrimPrefix(addr, "vt://")).SetListenErr(mangos.ErrAddrInUse)
	}
	if sp.Err == "badpeer" {
		runBadPeer(c, ctx, tr, srv, cli, l, ws)
		return
	}
	switch sp.Err {
	case "twice":
		if e, ok := call(c, ctx, "Listen#1", 0, l.Listen); !ok || e != nil {
			if ok {
				c.Inconclusive("setup "+ctx+": first Listen failed: %v", e)
			}
			return
		}
		wantFirst = "error"
	case "closed":
		if e, ok := call(c, ctx, "Close", 0, l.Close); !ok || e != nil {
			return
		}
		wantFirst = "closed"
	}
	// the failing call
	e1, ok := call(c, ctx, "Listen", 0, l.Listen)
	if !ok {
		return
	}
	c.Count("errors_provoked", 1)
	// the probe runs before any follow-up call: a lock left held is found even if nothing contends for it
	c.Count("locks_probed", hx.ProbeLocks(c, "lock-held:"+ctx+":", ctx+" right after the failed Listen", srv, l))
	switch wantFirst {
	case "error":
		if e1 == nil {
			c.Violate("no-error:"+ctx, "Listen succeeded although it must fail (%s)", sp.Err)
			return
		}
	case "closed":
		if e1 != mangos.ErrClosed {
			c.Violate("wrong-error:"+ctx, "Listen on a closed listener returned %v", e1)
		}
	}
	// every other call on the same object
	followups := []struct {
		n string
		f func() error
	}{
		{"GetOption(MaxRecvSize)", func() error { _, e := l.GetOption(mangos.OptionMaxRecvSize); return e }},
		{"SetOption(MaxRecvSize)", func() error { return l.SetOption(mangos.OptionMaxRecvSize, 65536) }},
		{"GetOption(bogus)", func() error { _, e := l.GetOption("no-such-option"); return e }},
		{"SetOption(bogus)", func() error { return l.SetOption("no-such-option", 1) }},
		{"Address", func() error { _ = l.Address(); return nil }},
		{"GetOption(TLSConfig)", func() error { _, e := l.GetOption(mangos.OptionTLSConfig); return e }},
		{"Listen-again", l.Listen},
		{"socket.GetOption", func() error { _, e := srv.GetOption(mangos.OptionRecvDeadline); return e }},
	}
	for _, fu := range followups {
		if _, ok := call(c, ctx, fu.n, 0, fu.f); !ok {
			return
		}
	}
	if !concurrently(c, ctx, 0,
		func() { srv.SetOption(mangos.OptionMaxRecvSize, 65536) },
		func() { l.GetOption("no-such-option") },
		func() { l.GetOption(mangos.OptionMaxRecvSize) },
		func() { srv.GetOption(mangos.OptionMaxRecvSize) },
		func() { l.SetOption(mangos.OptionMaxRecvSize, 65536) }) {
		return
	}
	// correct and retry
	retry := false
	switch sp.Err {
	case "inuse":
		if tr == "vt" {
			vt.L(strings.TrimPrefix(addr, "vt://")).SetListenErr(nil)
		} else {
			blocker.Close()
		}
		retry = true
	case "tls-noconfig", "tls-nocert":
		s, _ := hx.TLSConfigs()
		if e, ok := call(c, ctx, "SetOption(TLSConfig)", 0, func() error { return l.SetOption(mangos.OptionTLSConfig, s) }); !ok || e != nil {
			if ok {
				c.Violate("cannot-correct:"+ctx, "SetOption(TLSConfig) after the failed Listen returned %v", e)
			}
			return
		}
		retry = true
	}
	if retry {
		e, ok := call(c, ctx, "Listen-retry", 0, l.Listen)
		if !ok {
			return
		}
		if e != nil {
			if sp.Err == "inuse" && tr != "ipc" && tr != "inproc" && tr != "vt" && errors.Is(e, syscall.EADDRINUSE) {
				// the operating system still refuses the bind: on a shared machine somebody else's
				// listener can be given the ephemeral port in the moment it is free, so the cause
				// of the failure is not known to have been removed
				c.Inconclusive("%s: after the blocking listener was closed the operating system still reports the address in use (%v): taken by another process?", ctx, e)
				return
			}
			c.Violate("retry-failed:"+ctx, "the cause of the failed Listen (%v) was corrected but Listen on the same listener still fails: %v", e1, e)
			return
		}
	}
	if retry || sp.Err == "twice" {
		// a good peer must be accepted
		if tr == "vt" {
			vt.L(strings.TrimPrefix(addr, "vt://")).Connect()
		} else {
			d, e := cli.NewDialer(l.Address(), dopts(tr))
			if e != nil {
				c.Inconclusive("setup "+ctx+": NewDialer: %v", e)
				return
			}
			if e, ok := call(c, ctx, "peer.Dial", 0, d.Dial); !ok || e != nil {
				if ok {
					c.Violate("not-accepting:"+ctx, "a peer dialing the corrected listener got %v", e)
				}
				return
			}
		}
		if !hx.WaitAttached(c, ws, 1, "peer of the corrected listener") {
			return
		}
		if tr != "vt" && !exchange(c, ctx, srv, cli) {
			return
		}
	}
	n := hx.ProbeLocks(c, "lock-held:"+ctx+":", ctx, srv, l)
	c.Count("locks_probed", n)
	if _, ok := call(c, ctx, "Close-final", 0, func() error { l.Close(); return nil }); !ok {
		return
	}
	call(c, ctx, "socket.Close", 0, srv.Close)
	c.Nontrivial()
}

// finishSocket: after a constructor-level failure the socket itself must work.
func finishSocket(c *mon.Case, ctx string, srv, cli mangos.Socket, tr string) {
	if tr == "vt" {
		return
	}
	k := mon.Go("connect", func() (interface{}, error) { _, _, e := hx.Connect(srv, cli, tr); return nil, e })
	if !c.AwaitOrViolate("wedged:"+ctx+"/connect-after", ctx+": Listen+Dial on the socket after the failure", k.Done, mon.AwaitOpts{}) {
		return
	}
	if _, e, _ := k.Result(); e != nil {
		c.Violate("unusable:"+ctx+"/connect", "%s: socket cannot listen/dial after the failure: %v", ctx, e)
		return
	}
	exchange(c, ctx, srv, cli)
	c.Count("locks_probed", hx.ProbeLocks(c, "lock-held:"+ctx+":", ctx, srv, cli))
	c.Nontrivial()
}

// ---------------------------------------------------------------------------

// rawPeer is a stream listener that speaks (or garbles) the SP handshake for PAIR.
type rawPeer struct {
	l    net.Listener
	mu   sync.Mutex
	bad  int // number of connections still to be answered with a bad header
	wg   sync.WaitGroup
	conn []net.Conn
}

func newRawPeer(tr string, bad int) (*rawPeer, string) {
	var l net.Listener
	var err error
	var addr string
	switch tr {
	case "tcp":
		l, err = net.Listen("tcp", "127.0.0.1:0")
		if err == nil {
			addr = "tcp://" + l.Addr().String()
		}
	case "tls+tcp":
		s, _ := hx.TLSConfigs()
		l, err = tls.Listen("tcp", "127.0.0.1:0", s)
		if err == nil {
			addr = "tls+tcp://" + l.Addr().String()
		}
	case "ipc":
		p := strings.TrimPrefix(hx.ListenAddr("ipc"), "ipc://")
		l, err = net.Listen("unix", p)
		addr = "ipc://" + p
	}
	if err != nil {
		panic(err)
	}
	rp := &rawPeer{l: l, bad: bad}
	rp.wg.Add(1)
	go func() {
		defer rp.wg.Done()
		for {
			cn, err := l.Accept()
			if err != nil {
				return
			}
			rp.mu.Lock()
			bad := rp.bad > 0
			if bad {
				rp.bad--
			}
			rp.conn = append(rp.conn, cn)
			rp.mu.Unlock()
			hdr := []byte{0, 'S', 'P', 0, 0, 0x10, 0, 0}
			if bad {
				hdr = []byte{0, 'X', 'P', 0, 0, 0x10, 0, 0}
			}
			rp.wg.Add(1)
			go func() {
				defer rp.wg.Done()
				cn.Write(hdr)
				buf := make([]byte, 64)
				for {
					if _, err := cn.Read(buf); err != nil {
						return
					}
				}
			}()
		}
	}()
	return rp, addr
}

func (rp *rawPeer) close() {
	rp.l.Close()
	rp.mu.Lock()
	for _, cn := range rp.conn {
		cn.Close()
	}
	rp.mu.Unlock()
	rp.wg.Wait()
}

func runDialer(c *mon.Case, sp spec) {
	tr := sp.Tran
	ctx := "dialer/" + tr + "/" + sp.Err
	srv := hx.MustSock(c, "pair")
	cli := hx.MustSock(c, "pair")
	wc := hx.WatchPipes(cli)
	cli.SetOption(mangos.OptionReconnectTime, 5*time.Millisecond)
	cli.SetOption(mangos.OptionMaxReconnectTime, 5*time.Millisecond)
	maxT := 5 * time.Millisecond
	var d mangos.Dialer
	var err error
	addr := unusedAddr(tr)
	do := dopts(tr)
	var rp *rawPeer
	var vd *vt.DialerCtl
	if tr == "vt" {
		vd = vt.D(strings.TrimPrefix(addr, "vt://"))
	}
	switch sp.Err {
	case "handshake":
		rp, addr = newRawPeer(tr, 1)
		defer rp.close()
	case "tls-badca":
		do = map[string]interface{}{mangos.OptionTLSConfig: &tls.Config{ServerName: "127.0.0.1"}} // no RootCAs: verification fails
	case "async-refused":
		cli.SetOption(mangos.OptionDialAsynch, true)
	}
	var l mangos.Listener
	startListener := func() bool {
		if tr == "vt" {
			vd.SetDefault(vt.Outcome{Kind: vt.Succeed})
			return true
		}
		var e error
		l, e = srv.NewListener(addr, lopts(tr))
		if e == nil {
			e = l.Listen()
		}
		if e != nil {
			c.Inconclusive("cannot start the listener at %s: %v", addr, e)
			return false
		}
		return true
	}
	if sp.Err == "tls-badca" || sp.Err == "twice" || sp.Err == "closed" {
		if !startListener() {
			return
		}
	}
	d, err = cli.NewDialer(addr, do)
	if err != nil {
		c.Inconclusive("setup "+ctx+": NewDialer(%s): %v", addr, err)
		return
	}
	wantErr := true
	switch sp.Err {
	case "twice":
		if e, ok := call(c, ctx, "Dial#1", maxT, d.Dial); !ok || e != nil {
			if ok {
				c.Inconclusive("setup "+ctx+": first Dial failed: %v", e)
			}
			return
		}
	case "closed":
		if e, ok := call(c, ctx, "Close", maxT, d.Close); !ok || e != nil {
			return
		}
	case "async-refused":
		wantErr = false
	}
	e1, ok := call(c, ctx, "Dial", maxT, d.Dial)
	if !ok {
		return
	}
	c.Count("errors_provoked", 1)
	c.Count("locks_probed", hx.ProbeLocks(c, "lock-held:"+ctx+":", ctx+" right after the failed Dial", cli, d))
	if wantErr && e1 == nil {
		if sp.Err == "refused" && tr != "ipc" && tr != "inproc" && tr != "vt" {
			// nothing of ours listens at the port, but on a shared machine somebody else's listener
			// can have been given it since it was found free: a Dial that really connected (a pipe
			// attached) did not fail to fail
			r := mon.Await(func() bool { return wc.Attached() >= 1 }, mon.AwaitOpts{MaxTimer: maxT, Ignore: []string{"internal/core.(*dialer)"}})
			if r.V != mon.Stuck {
				c.Inconclusive("%s: the port found unused (%s) accepted the connection (%v): taken by another process?", ctx, addr, r.V)
				return
			}
		}
		c.Violate("no-error:"+ctx, "Dial succeeded although it must fail (%s)", sp.Err)
		return
	}
	if !wantErr && e1 != nil {
		c.Violate("wrong-error:"+ctx, "asynchronous Dial returned %v", e1)
		return
	}
	if sp.Err == "closed" && e1 != mangos.ErrClosed {
		c.Violate("wrong-error:"+ctx, "Dial on a closed dialer returned %v", e1)
	}
	followups := []struct {
		n string
		f func() error
	}{
		{"GetOption(ReconnectTime)", func() error { _, e := d.GetOption(mangos.OptionReconnectTime); return e }},
		{"SetOption(ReconnectTime)", func() error { return d.SetOption(mangos.OptionReconnectTime, 5*time.Millisecond) }},
		{"GetOption(MaxRecvSize)", func() error { _, e := d.GetOption(mangos.OptionMaxRecvSize); return e }},
		{"SetOption(MaxRecvSize)", func() error { return d.SetOption(mangos.OptionMaxRecvSize, 65536) }},
		{"GetOption(bogus)", func() error { _, e := d.GetOption("no-such-option"); return e }},
		{"SetOption(bogus)", func() error { return d.SetOption("no-such-option", 1) }},
		{"GetOption(TLSConfig)", func() error { _, e := d.GetOption(mangos.OptionTLSConfig); return e }},
		{"Address", func() error { _ = d.Address(); return nil }},
		{"socket.GetOption", func() error { _, e := cli.GetOption(mangos.OptionRecvDeadline); return e }},
	}
	for _, fu := range followups {
		if _, ok := call(c, ctx, fu.n, maxT, fu.f); !ok {
			return
		}
	}
	if !concurrently(c, ctx, maxT,
		func() { cli.SetOption(mangos.OptionReconnectTime, 5*time.Millisecond) },
		func() { d.GetOption("no-such-option") },
		func() { d.GetOption(mangos.OptionMaxRecvSize) },
		func() { cli.GetOption(mangos.OptionMaxReconnectTime) },
		func() { d.SetOption(mangos.OptionMaxReconnectTime, 5*time.Millisecond) }) {
		return
	}
	// correct the cause and retry
	retry := false
	switch sp.Err {
	case "refused":
		if !startListener() {
			return
		}
		retry = true
	case "handshake":
		retry = true // the raw peer answers correctly from the second connection on
	case "tls-badca":
		_, good := hx.TLSConfigs()
		if e, ok := call(c, ctx, "SetOption(TLSConfig)", maxT, func() error { return d.SetOption(mangos.OptionTLSConfig, good) }); !ok || e != nil {
			if ok {
				c.Violate("cannot-correct:"+ctx, "SetOption(TLSConfig) after the failed Dial returned %v", e)
			}
			return
		}
		retry = true
	case "async-refused":
		if !startListener() {
			return
		}
	}
	if retry {
		e, ok := call(c, ctx, "Dial-retry", maxT, d.Dial)
		if !ok {
			return
		}
		if e != nil {
			c.Violate("retry-failed:"+ctx, "the cause of the failed Dial (%v) was corrected but Dial on the same dialer fails: %v", e1, e)
			return
		}
	}
	if retry || sp.Err == "async-refused" || sp.Err == "twice" {
		if !c.AwaitOrViolate("not-connecting:"+ctx, ctx+": the dialer establishing a connection after the cause of failure was removed", func() bool { return wc.Attached() >= 1 }, mon.AwaitOpts{MaxTimer: maxT, Ignore: []string{"internal/core.(*dialer)"}}) {
			return
		}
		if tr != "vt" && sp.Err != "handshake" && !exchange(c, ctx, cli, srv) {
			return
		}
	}
	n := hx.ProbeLocks(c, "lock-held:"+ctx+":", ctx, cli, d)
	c.Count("locks_probed", n)
	call(c, ctx, "Close-final", maxT, func() error { d.Close(); return nil })
	call(c, ctx, "socket.Close", maxT, cli.Close)
	_ = l
	c.Nontrivial()
}

// ---------------------------------------------------------------------------

// runSocket provokes every socket-level error outcome and requires every other call to return.
func runSocket(c *mon.Case, sp spec) {
	p := sp.Proto
	ctx := "socket/" + p
	s := hx.MustSock(c, p)
	short := 8 * time.Millisecond
	maxT := short
	if strings.HasSuffix(p, "req") {
		s.SetOption(mangos.OptionRetryTime, time.Duration(0))
	}
	var cx mangos.Context
	step := func(name string, f func() error) bool {
		_, ok := call(c, ctx, name, maxT, f)
		return ok
	}
	steps := []struct {
		n string
		f func() error
	}{
		{"SetOption(bogus)", func() error { return s.SetOption("no-such-option", 1) }},
		{"SetOption(RecvDeadline,wrongtype)", func() error { return s.SetOption(mangos.OptionRecvDeadline, "x") }},
		{"SetOption(RecvDeadline)", func() error { return s.SetOption(mangos.OptionRecvDeadline, short) }},
		{"SetOption(SendDeadline)", func() error { return s.SetOption(mangos.OptionSendDeadline, short) }},
		{"Recv(no peer, deadline)", func() error { _, e := s.Recv(); return e }},
		{"Send(no peer, deadline)", func() error { return s.Send([]byte("x")) }},
		{"Recv-again", func() error { _, e := s.Recv(); return e }},
		{"SetOption(FailNoPeers)", func() error { return s.SetOption(mangos.OptionFailNoPeers, true) }},
		{"Send(fail-no-peers)", func() error { return s.Send([]byte("x")) }},
		{"Recv(fail-no-peers)", func() error { _, e := s.Recv(); return e }},
		{"SetOption(FailNoPeers,false)", func() error { return s.SetOption(mangos.OptionFailNoPeers, false) }},
		{"SetOption(BestEffort)", func() error { return s.SetOption(mangos.OptionBestEffort, true) }},
		{"Send(best-effort)", func() error { return s.Send([]byte("x")) }},
		{"SetOption(BestEffort,false)", func() error { return s.SetOption(mangos.OptionBestEffort, false) }},
		{"Dial(bad scheme)", func() error { return s.Dial("nosuch://x") }},
		{"Listen(bad scheme)", func() error { return s.Listen("nosuch://x") }},
		{"Dial(bad address)", func() error { return s.Dial("tcp://127.0.0.1:notaport") }},
		{"Listen(bad address)", func() error { return s.Listen("tcp://127.0.0.1:notaport") }},
		{"OpenContext", func() error { var e error; cx, e = s.OpenContext(); return e }},
		{"ctx.Recv", func() error {
			if cx == nil {
				return nil
			}
			cx.SetOption(mangos.OptionRecvDeadline, short)
			_, e := cx.Recv()
			return e
		}},
		{"ctx.Send", func() error {
			if cx == nil {
				return nil
			}
			cx.SetOption(mangos.OptionSendDeadline, short)
			return cx.Send([]byte("y"))
		}},
		{"ctx.Close", func() error {
			if cx == nil {
				return nil
			}
			return cx.Close()
		}},
		{"ctx.Recv-after-close", func() error {
			if cx == nil {
				return nil
			}
			_, e := cx.Recv()
			return e
		}},
		{"GetOption(TTL)", func() error { _, e := s.GetOption(mangos.OptionTTL); return e }},
		{"SetOption(TTL,0)", func() error { return s.SetOption(mangos.OptionTTL, 0) }},
		{"SetOption(ReadQLen,-1)", func() error { return safe(func() error { return s.SetOption(mangos.OptionReadQLen, -1) }) }},
		{"SetOption(WriteQLen,-1)", func() error { return safe(func() error { return s.SetOption(mangos.OptionWriteQLen, -1) }) }},
		{"Recv-final", func() error { _, e := s.Recv(); return e }},
		{"Send-final", func() error { return s.Send([]byte("z")) }},
	}
	for _, st := range steps {
		if !step(st.n, st.f) {
			return
		}
	}
	c.Count("errors_provoked", len(steps))
	c.Count("locks_probed", hx.ProbeLocks(c, "lock-held:"+ctx+":", ctx, s))
	// carrying on: after all these failed calls the socket still does its job with a real peer
	if p[0] != 'x' && !carryOn(c, ctx, p, s) {
		return
	}
	if !step("Close", s.Close) {
		return
	}
	for _, st := range []struct {
		n string
		f func() error
	}{
		{"Send-after-close", func() error { return s.Send([]byte("x")) }},
		{"Recv-after-close", func() error { _, e := s.Recv(); return e }},
		{"GetOption-after-close", func() error { _, e := s.GetOption(mangos.OptionRecvDeadline); return e }},
		{"Close-again", s.Close},
	} {
		if !step(st.n, st.f) {
			return
		}
	}
	c.Count("locks_probed", hx.ProbeLocks(c, "lock-held:"+ctx+"(closed):", ctx, s))
	c.Nontrivial()
}

// carryOn connects a real peer over inproc and runs one exchange in each direction the pattern has.
func carryOn(c *mon.Case, ctx, p string, s mangos.Socket) bool {
	// REP and RESPONDENT refuse a zero deadline (ErrBadValue): the short deadline of the error catalogue
	// would stay armed and could expire under load, so fall back to an hour there
	for _, o := range []string{mangos.OptionRecvDeadline, mangos.OptionSendDeadline} {
		if s.SetOption(o, time.Duration(0)) != nil {
			s.SetOption(o, time.Hour)
		}
	}
	s.SetOption(mangos.OptionRetryTime, time.Hour)
	peer := hx.MustSock(c, hx.PeerOf[p])
	// the reply must not race the survey's expiry on a loaded machine (the default is one second)
	s.SetOption(mangos.OptionSurveyTime, time.Hour)
	peer.SetOption(mangos.OptionSurveyTime, time.Hour)
	if p == "sub" || p == "pub" {
		s.SetOption(mangos.OptionSubscribe, []byte{})
		peer.SetOption(mangos.OptionSubscribe, []byte{})
	}
	ws, wp := hx.WatchPipes(s), hx.WatchPipes(peer)
	if _, _, err := hx.Connect(s, peer, "inproc"); err != nil {
		c.Violate("unusable:"+ctx+"/listen", "%s: after the provoked errors the socket cannot listen on a fresh inproc address: %v", ctx, err)
		return false
	}
	if !hx.WaitAttached(c, ws, 1, "carry-on peer (socket side)") || !hx.WaitAttached(c, wp, 1, "carry-on peer (peer side)") {
		return false
	}
	return converse(c, ctx, p, s, peer)
}

// converse runs one exchange in each direction the pattern of p (the protocol of s) has, between
// two connected cooked sockets whose pipes have attached on both sides.
func converse(c *mon.Case, ctx, p string, s, peer mangos.Socket) bool {
	xfer := func(from, to mangos.Socket, what string) bool {
		msg := []byte("carry-on-" + hx.Uniq("m"))
		rk := mon.Go("Recv", func() (interface{}, error) {
			for { // messages the earlier steps left queued come first
				b, e := to.Recv()
				if e != nil || string(b) == string(msg) {
					return b, e
				}
			}
		})
		sk := mon.Go("Send", func() (interface{}, error) { return nil, from.Send(msg) })
		if !c.AwaitOrViolate("wedged:"+ctx+"/carry-on-send", ctx+": "+what+": Send returning", sk.Done, mon.AwaitOpts{}) {
			return false
		}
		if _, e, _ := sk.Result(); e != nil {
			c.Violate("unusable:"+ctx+"/send", "%s: %s: Send returned %v after the socket had only seen failed calls that were corrected", ctx, what, e)
			return false
		}
		if !c.AwaitOrViolate("wedged:"+ctx+"/carry-on-recv", ctx+": "+what+": Recv returning", rk.Done, mon.AwaitOpts{}) {
			return false
		}
		if v, e, _ := rk.Result(); e != nil || string(v.([]byte)) != string(msg) {
			c.Violate("unusable:"+ctx+"/recv", "%s: %s: Recv returned (%q, %v), want %q", ctx, what, v, e, msg)
			return false
		}
		return true
	}
	ok := true
	switch p {
	case "req", "surveyor":
		ok = xfer(s, peer, "request out") && xfer(peer, s, "reply back")
	case "rep", "respondent":
		ok = xfer(peer, s, "request in") && xfer(s, peer, "reply out")
	case "pub", "push":
		ok = xfer(s, peer, "message out")
	case "sub", "pull":
		ok = xfer(peer, s, "message in")
	default:
		ok = xfer(s, peer, "message out") && xfer(peer, s, "message in")
	}
	if ok {
		c.Count("carry_on_exchanges", 1)
	}
	return ok
}

// safe turns a panic into an error: panics are C19's subject, here only wedging matters.
func safe(f func() error) (err error) {
	defer func() {
		if p := recover(); p != nil {
			err = fmt.Errorf("panic: %v", p)
		}
	}()
	return f()
}

// runQlen0: an accepted queue length of zero must not wedge the socket once traffic flows.
func runQlen0(c *mon.Case, sp spec) {
	p := sp.Proto
	ctx := "qlen0/" + p
	s := hx.MustSock(c, p)
	peer := hx.MustSock(c, hx.PeerOf[p])
	short := 8 * time.Millisecond
	accepted := ""
	for _, o := range []string{mangos.OptionReadQLen, mangos.OptionWriteQLen} {
		if e := safe(func() error { return s.SetOption(o, 0) }); e == nil {
			accepted += o + " "
		}
	}
	if accepted == "" {
		return // the pattern does not take a zero queue length: nothing to check
	}
	if strings.HasSuffix(p, "req") {
		s.SetOption(mangos.OptionRetryTime, time.Duration(0))
	}
	if hx.PeerOf[p] == "req" {
		peer.SetOption(mangos.OptionRetryTime, time.Duration(0))
	}
	if strings.HasSuffix(p, "sub") {
		s.SetOption(mangos.OptionSubscribe, []byte{})
	}
	ws := hx.WatchPipes(s)
	if _, _, err := hx.Connect(s, peer, "inproc"); err != nil {
		c.Inconclusive("setup "+ctx+": connect: %v", err)
		return
	}
	if !hx.WaitAttached(c, ws, 1, "peer") {
		return
	}
	peer.SetOption(mangos.OptionSendDeadline, short)
	peer.SetOption(mangos.OptionRecvDeadline, short)
	// peer traffic towards s (ignored if the pattern cannot send that way)
	for i := 0; i < 3; i++ {
		if _, ok := call(c, ctx, "peer.Send", short, func() error { return peer.Send([]byte("hello")) }); !ok {
			return
		}
	}
	mon.Sleep(5 * time.Millisecond)
	maxT := short
	for _, st := range []struct {
		n string
		f func() error
	}{
		{"GetOption(ReadQLen)", func() error { _, e := s.GetOption(mangos.OptionReadQLen); return e }},
		{"SetOption(RecvDeadline)", func() error { return s.SetOption(mangos.OptionRecvDeadline, short) }},
		{"SetOption(SendDeadline)", func() error { return s.SetOption(mangos.OptionSendDeadline, short) }},
		{"Recv", func() error { _, e := s.Recv(); return e }},
		{"Send", func() error { return s.Send([]byte("back")) }},
		{"Recv-2", func() error { _, e := s.Recv(); return e }},
		{"GetOption(WriteQLen)", func() error { _, e := s.GetOption(mangos.OptionWriteQLen); return e }},
	} {
		if _, ok := call(c, ctx, st.n, maxT, st.f); !ok {
			return
		}
	}
	c.Count("locks_probed", hx.ProbeLocks(c, "lock-held:"+ctx+":", ctx+" (accepted "+accepted+")", s))
	call(c, ctx, "Close", maxT, s.Close)
	c.Nontrivial()
}

// runReject: a connection rejected by the hook (or a second PAIR peer) must not stop the endpoint.
func runReject(c *mon.Case, sp spec) {
	tr := sp.Tran
	side := sp.Err
	ctx := "reject/" + tr + "/" + side
	srv := hx.MustSock(c, "pair")
	cli := hx.MustSock(c, "pair")
	cli.SetOption(mangos.OptionReconnectTime, 5*time.Millisecond)
	cli.SetOption(mangos.OptionMaxReconnectTime, 5*time.Millisecond)
	var mu sync.Mutex
	rejects := 2
	attached := 0 // on the rejecting side: only connections that were let through attach
	rejecter := func(ev mangos.PipeEvent, p mangos.Pipe) {
		mu.Lock()
		defer mu.Unlock()
		if ev == mangos.PipeEventAttaching && rejects > 0 {
			rejects--
			p.Close()
		}
		if ev == mangos.PipeEventAttached {
			attached++
		}
	}
	otherAttached := 0
	counter := func(ev mangos.PipeEvent, p mangos.Pipe) {
		if ev == mangos.PipeEventAttached {
			mu.Lock()
			otherAttached++
			mu.Unlock()
		}
	}
	if side == "listen" {
		srv.SetPipeEventHook(rejecter)
		cli.SetPipeEventHook(counter)
	} else {
		cli.SetPipeEventHook(rejecter)
		srv.SetPipeEventHook(counter)
	}
	k := mon.Go("connect", func() (interface{}, error) { _, _, e := hx.Connect(srv, cli, tr); return nil, e })
	if !c.AwaitOrViolate("wedged:"+ctx+"/connect", ctx+": Listen+Dial while the hook rejects the first connections", k.Done, mon.AwaitOpts{MaxTimer: 5 * time.Millisecond}) {
		return
	}
	if _, e, _ := k.Result(); e != nil {
		c.Inconclusive("setup "+ctx+": connect: %v", e)
		return
	}
	if !c.AwaitOrViolate("not-carrying-on:"+ctx, ctx+": a later connection attaching on both sides after two rejected ones", func() bool { mu.Lock(); defer mu.Unlock(); return attached >= 1 && rejects == 0 }, mon.AwaitOpts{MaxTimer: 5 * time.Millisecond, Ignore: []string{"internal/core.(*dialer)"}}) {
		return
	}
	// the rejecting side sends first: its current pipe is the connection that was let through
	first, second := srv, cli
	if side == "dial" {
		first, second = cli, srv
	}
	attFirst := func() int { mu.Lock(); defer mu.Unlock(); return attached }
	attSecond := func() int { mu.Lock(); defer mu.Unlock(); return otherAttached }
	if !exchangeResending(c, ctx, first, second, attFirst, attSecond) {
		return
	}
	c.Count("locks_probed", hx.ProbeLocks(c, "lock-held:"+ctx+":", ctx, srv, cli))
	c.Count("errors_provoked", 2)
	c.Nontrivial()
	_ = os.Getpid
}

// runBadPeer: raw peers that garble, truncate or never send the SP header must not stop the
// listener from accepting a good peer, and must leave no lock held.
func runBadPeer(c *mon.Case, ctx, tr string, srv, cli mangos.Socket, l mangos.Listener, ws *hx.PipeWatch) {
	if e, ok := call(c, ctx, "Listen", 0, l.Listen); !ok || e != nil {
		if ok {
			c.Inconclusive("setup "+ctx+": Listen: %v", e)
		}
		return
	}
	addr := l.Address()
	dial := func() (net.Conn, error) {
		switch tr {
		case "tcp":
			return net.Dial("tcp", strings.TrimPrefix(addr, "tcp://"))
		case "tls+tcp":
			_, cc := hx.TLSConfigs()
			return tls.Dial("tcp", strings.TrimPrefix(addr, "tls+tcp://"), cc)
		default:
			return net.Dial("unix", strings.TrimPrefix(addr, "ipc://"))
		}
	}
	var keep []net.Conn
	defer func() {
		for _, k := range keep {
			k.Close()
		}
	}()
	// connections that never get as far as the SP handshake: a plain TCP connect that sends nothing
	// (no TLS hello, no HTTP request) or half a request, left open
	host := addr[strings.Index(addr, "://")+3:]
	if i := strings.Index(host, "/"); i >= 0 {
		host = host[:i]
	}
	if tr != "ipc" {
		for i := 0; i < 3; i++ {
			cn, err := net.Dial("tcp", host)
			if err != nil {
				c.Inconclusive("setup: raw dial: %v", err)
				return
			}
			if i == 1 {
				cn.Write([]byte("GET /"))
			}
			keep = append(keep, cn)
			c.Count("errors_provoked", 1)
		}
	}
	if tr == "ws" || tr == "wss" {
		// the SP-level broken peers below do not apply to the HTTP based transports
		d, e := cli.NewDialer(addr, dopts(tr))
		if e != nil {
			c.Inconclusive("setup: NewDialer: %v", e)
			return
		}
		if e, ok := call(c, ctx, "peer.Dial", 0, d.Dial); !ok || e != nil {
			if ok {
				c.Violate("not-accepting:"+ctx, "a good peer dialing while three connections stall before the HTTP/TLS handshake got %v", e)
			}
			return
		}
		if !hx.WaitAttached(c, ws, 1, "good peer after stalled ones") || !exchange(c, ctx, srv, cli) {
			return
		}
		c.Count("locks_probed", hx.ProbeLocks(c, "lock-held:"+ctx+":", ctx, srv, l))
		c.Nontrivial()
		return
	}
	for i, hdr := range [][]byte{{0, 'X', 'P', 0, 0, 0x10, 0, 0}, {0, 'S', 'P', 0, 0, 0x31, 0, 0}, {0, 'S', 'P'}, {}, {0, 'S', 'P', 1, 0, 0x10, 0, 0}, {0, 'S', 'P', 0, 0}, {} /* hangs up in an orderly way before its first byte */} {
		var cn net.Conn
		dk := mon.Go("raw-connect", func() (interface{}, error) { var e error; cn, e = dial(); return nil, e })
		if !c.AwaitOrViolate("not-accepting:"+ctx+"/raw-connect-stuck", ctx+": a further raw peer completing its transport-level connect (TLS handshake) while earlier peers stall", dk.Done, mon.AwaitOpts{}) {
			return
		}
		if _, err, _ := dk.Result(); err != nil {
			c.Violate("not-accepting:"+ctx, "raw connection %d refused: %v", i, err)
			return
		}
		cn.Write(hdr)
		if i%2 == 0 {
			cn.Close()
		} else {
			keep = append(keep, cn) // stays open, handshake never completes
		}
		c.Count("errors_provoked", 1)
	}
	d, e := cli.NewDialer(addr, dopts(tr))
	if e != nil {
		c.Inconclusive("setup "+ctx+": NewDialer: %v", e)
		return
	}
	if e, ok := call(c, ctx, "peer.Dial", 0, d.Dial); !ok || e != nil {
		if ok {
			c.Violate("not-accepting:"+ctx, "a good peer dialing after seven broken ones got %v", e)
		}
		return
	}
	if !c.AwaitOrViolate("not-accepting:"+ctx+"/good-peer-never-attached", ctx+": the good peer's connection being accepted after the broken peers", func() bool { return ws.Attached() >= 1 }, mon.AwaitOpts{MaxTimer: 200 * time.Millisecond}) {
		return
	}
	if !exchange(c, ctx, srv, cli) {
		return
	}
	c.Count("locks_probed", hx.ProbeLocks(c, "lock-held:"+ctx+":", ctx, srv, l))
	c.Nontrivial()
}

// concurrently runs pairs of calls that take the object's and the socket's locks in different
// orders, many times, under the stuck detector: a lock-order inversion wedges both objects.
func concurrently(c *mon.Case, ctx string, maxT time.Duration, fs ...func()) bool {
	var wg sync.WaitGroup
	for _, f := range fs {
		f := f
		wg.Add(1)
		go func() {
			defer wg.Done()
			for i := 0; i < 300; i++ {
				f()
			}
		}()
	}
	k := mon.Go("concurrent-calls", func() (interface{}, error) { wg.Wait(); return nil, nil })
	ok := c.AwaitOrViolate("wedged:"+ctx+"/concurrent-option-calls", ctx+": option calls on the endpoint and on its socket issued concurrently", k.Done, mon.AwaitOpts{MaxTimer: maxT, Ignore: []string{"internal/core.(*dialer).redial", "internal/core.(*dialer).dial"}})
	c.Count("followup_calls", 300*len(fs))
	return ok
}

// runPairBusy: a PAIR socket that already has its peer dials a second address; the protocol refuses
// that connection each time it is made.  The refusal must not silence the dialer: once the first
// peer has gone, the second dialer connects and the conversation moves over.
func runPairBusy(c *mon.Case, sp spec) {
	tr := sp.Tran
	ctx := "reject/" + tr + "/pair-busy"
	a, b1, b2 := hx.MustSock(c, "pair"), hx.MustSock(c, "pair"), hx.MustSock(c, "pair")
	a.SetOption(mangos.OptionReconnectTime, 5*time.Millisecond)
	a.SetOption(mangos.OptionMaxReconnectTime, 5*time.Millisecond)
	wa, w2 := hx.WatchPipes(a), hx.WatchPipes(b2)
	l1, _, err := hx.Connect(b1, a, tr)
	if err != nil {
		c.Inconclusive("setup %s: %v", ctx, err)
		return
	}
	if !hx.WaitAttached(c, wa, 1, "first peer") {
		return
	}
	l2, err := b2.NewListener(hx.ListenAddr(tr), lopts(tr))
	if err == nil {
		err = l2.Listen()
	}
	if err != nil {
		c.Inconclusive("setup %s: %v", ctx, err)
		return
	}
	a.SetOption(mangos.OptionDialAsynch, true)
	d2, err := a.NewDialer(l2.Address(), dopts(tr))
	if err == nil {
		err = d2.Dial()
	}
	if err != nil {
		c.Violate("wrong-error:"+ctx, "asynchronous Dial of the second address returned %v", err)
		return
	}
	// let the second dialer be refused a few times (the peer side sees connections come and go)
	mon.Await(func() bool { return w2.Attached() >= 2 }, mon.AwaitOpts{Watchdog: 3 * time.Second})
	c.Count("errors_provoked", w2.Attached())
	if !exchange(c, ctx, a, b1) {
		return
	}
	// the first peer goes away: the refused dialer must take over
	l1.Close()
	b1.Close()
	if !c.AwaitOrViolate("not-carrying-on:"+ctx, ctx+": the dialer that had been refused connecting once the first peer has gone", func() bool { return wa.Live() == 1 && wa.Attached() >= 2 }, mon.AwaitOpts{MaxTimer: 5 * time.Millisecond, Ignore: []string{"internal/core.(*dialer)"}}) {
		return
	}
	if !exchangeResending(c, ctx, a, b2, wa.Attached, w2.Attached) {
		return
	}
	c.Count("locks_probed", hx.ProbeLocks(c, "lock-held:"+ctx+":", ctx, a, d2))
	c.Nontrivial()
}

// ---------------------------------------------------------------------------
// connections refused because the two ends speak protocols that do not go together

func baseProto(p string) string { return strings.TrimPrefix(p, "x") }

// speaks reports whether a socket of protocol a and one of protocol b accept each other.
func speaks(a, b string) bool { return baseProto(hx.PeerOf[a]) == baseProto(b) }

// pickStranger draws a protocol that cannot talk to p.
func pickStranger(rnd interface{ Intn(int) int }, p string) string {
	var cand []string
	for _, q := range hx.AllProtos {
		if !speaks(p, q) {
			cand = append(cand, q)
		}
	}
	return cand[rnd.Intn(len(cand))]
}

// tune takes the protocol timers out of the picture and opens the subscription.
func tune(s mangos.Socket, p string) {
	switch baseProto(p) {
	case "req":
		s.SetOption(mangos.OptionRetryTime, time.Hour)
	case "surveyor":
		s.SetOption(mangos.OptionSurveyTime, time.Hour)
	case "sub":
		s.SetOption(mangos.OptionSubscribe, []byte{})
	}
}

// Reconnect times of the dialers in the wrongproto cases.  A stream listener's accept loop pauses
// 10 ms after every failed handshake, so the strangers that keep knocking in the background (at
// most two per case) do so slowly enough for it to keep up: the cases are about a listener that
// stops accepting, not about one that is kept busy.
const (
	knockEvery  = 5 * time.Millisecond
	knockSlowly = 40 * time.Millisecond
)

var wrongProtoWait = mon.AwaitOpts{MaxTimer: knockSlowly, Ignore: []string{"internal/core.(*dialer).redial"}}

func endpointFollowups(c *mon.Case, ctx, who string, get func(string) (interface{}, error), set func(string, interface{}) error, address func() string) bool {
	for _, fu := range []struct {
		n string
		f func() error
	}{
		{who + ".GetOption(MaxRecvSize)", func() error { _, e := get(mangos.OptionMaxRecvSize); return e }},
		{who + ".SetOption(MaxRecvSize)", func() error { return set(mangos.OptionMaxRecvSize, 65536) }},
		{who + ".GetOption(bogus)", func() error { _, e := get("no-such-option"); return e }},
		{who + ".Address", func() error { _ = address(); return nil }},
	} {
		if _, ok := call(c, ctx, fu.n, knockSlowly, fu.f); !ok {
			return false
		}
	}
	return true
}

// runWrongProtoListen: sockets of a protocol the listener cannot talk to dial it and are refused —
// once, repeatedly, or for as long as the case runs.  None of that may cost the listener anything:
// every matched peer that dials afterwards is accepted and served.
func runWrongProtoListen(c *mon.Case, sp spec) {
	tr, p := sp.Tran, sp.Proto
	ctx := "wrongproto/" + tr + "/listen"
	srv := hx.MustSock(c, p)
	tune(srv, p)
	ws := hx.WatchPipes(srv)
	l, err := srv.NewListener(hx.ListenAddr(tr), lopts(tr))
	if err != nil {
		c.Inconclusive("setup "+ctx+": NewListener: %v", err)
		return
	}
	if e, ok := call(c, ctx, "Listen", 0, l.Listen); !ok || e != nil {
		if ok {
			c.Inconclusive("setup "+ctx+": Listen: %v", e)
		}
		return
	}
	addr := l.Address()
	probe := []interface{}{srv, l}
	script := ""
	refusals, knockers := 0, 0

	// knock: one stranger is refused (a synchronous Dial, so the refusal is known to have happened),
	// then goes away, stays around, or keeps knocking in the background.
	knock := func(sproto string) bool {
		st := hx.MustSock(c, sproto)
		st.SetOption(mangos.OptionReconnectTime, knockEvery)
		st.SetOption(mangos.OptionMaxReconnectTime, knockEvery)
		d, e := st.NewDialer(addr, dopts(tr))
		if e != nil {
			c.Inconclusive("setup "+ctx+": stranger NewDialer: %v", e)
			return false
		}
		times := 1 + c.Rand.Intn(2)
		for i := 0; i < times; i++ {
			// the first refusal is the provoked error; a later mismatched Dial that never returns means
			// the listener has stopped answering
			sig, what := "wedged:"+ctx+"/stranger.Dial", ctx+": the Dial of a mismatched "+sproto+" socket returning"
			if refusals > 0 {
				sig = "not-accepting:" + ctx + "/mismatched-dial-stuck-after-refusal"
				what = fmt.Sprintf("%s: the Dial of a mismatched %s socket returning (the %s listener refused %d connections before: [%s])", ctx, sproto, p, refusals, fmt.Sprintf("%s%s*%d...", script, sproto, i))
			}
			k := mon.Go("stranger.Dial", func() (interface{}, error) { return nil, d.Dial() })
			if !c.AwaitOrViolate(sig, what, k.Done, wrongProtoWait) {
				return false
			}
			_, e, _ := k.Result()
			c.Count("followup_calls", 1)
			c.Logf("%s: stranger.Dial (%s) -> %v", ctx, sproto, e)
			if e == nil {
				c.Inconclusive("%s: a %s socket dialing the %s listener was not refused: the situation did not arise", ctx, sproto, p)
				return false
			}
			refusals++
			c.Count("errors_provoked", 1)
			c.Count("mismatched_dials_refused", 1)
		}
		if !endpointFollowups(c, ctx, "stranger-dialer", d.GetOption, d.SetOption, d.Address) {
			return false
		}
		mode := []string{"leaves", "stays", "keeps-knocking"}[c.Rand.Intn(3)]
		if mode == "keeps-knocking" && knockers >= 2 {
			mode = "stays"
		}
		script += fmt.Sprintf("%s*%d:%s ", sproto, times, mode)
		switch mode {
		case "leaves":
			if _, ok := call(c, ctx, "stranger.Close", knockSlowly, st.Close); !ok {
				return false
			}
		case "stays":
			probe = append(probe, st, d)
		case "keeps-knocking":
			st.SetOption(mangos.OptionReconnectTime, knockSlowly)
			st.SetOption(mangos.OptionMaxReconnectTime, knockSlowly)
			st.SetOption(mangos.OptionDialAsynch, true)
			d2, e := st.NewDialer(addr, dopts(tr))
			if e != nil {
				c.Inconclusive("setup "+ctx+": stranger NewDialer: %v", e)
				return false
			}
			if e, ok := call(c, ctx, "stranger.Dial(asynch)", knockSlowly, d2.Dial); !ok || e != nil {
				if ok {
					c.Violate("wrong-error:"+ctx+"/asynch-dial", "asynchronous Dial of a %s socket to the %s listener returned %v", sproto, p, e)
				}
				return false
			}
			knockers++
			c.Count("background_knockers", 1)
		}
		return true
	}

	// admit: a matched peer dials and must be accepted; the first one also converses.
	admitted := 0
	admit := func() bool {
		gp := hx.PeerOf[p]
		cli := hx.MustSock(c, gp)
		tune(cli, gp)
		cli.SetOption(mangos.OptionReconnectTime, knockEvery)
		cli.SetOption(mangos.OptionMaxReconnectTime, knockEvery)
		wc := hx.WatchPipes(cli)
		asynch := c.Rand.Intn(3) == 0
		if asynch {
			cli.SetOption(mangos.OptionDialAsynch, true)
		}
		script += fmt.Sprintf("good(asynch=%v) ", asynch)
		gd, e := cli.NewDialer(addr, dopts(tr))
		if e != nil {
			c.Inconclusive("setup "+ctx+": NewDialer: %v", e)
			return false
		}
		k := mon.Go("matched.Dial", func() (interface{}, error) { return nil, gd.Dial() })
		if !c.AwaitOrViolate("not-accepting:"+ctx+"/matched-dial-stuck",
			fmt.Sprintf("%s: the Dial of a matched %s peer returning, after the %s listener refused [%s]", ctx, gp, p, script), k.Done, wrongProtoWait) {
			return false
		}
		if _, e, _ := k.Result(); e != nil {
			c.Violate("not-accepting:"+ctx+"/matched-dial-failed", "%s: a matched %s peer dialing the %s listener got %v after the listener refused [%s]", ctx, gp, p, e, script)
			return false
		}
		admitted++
		n := admitted
		if !c.AwaitOrViolate("not-accepting:"+ctx+"/matched-peer-never-attached",
			fmt.Sprintf("%s: matched peer #%d (%s) attaching on both sides, after the %s listener refused [%s]", ctx, n, gp, p, script),
			func() bool { return ws.Attached() >= n && wc.Attached() >= 1 }, wrongProtoWait) {
			return false
		}
		c.Count("matched_peers_admitted", 1)
		probe = append(probe, cli, gd)
		if n == 1 && p[0] != 'x' {
			if !converse(c, ctx, p, srv, cli) {
				return false
			}
		}
		return true
	}

	strangers := 1 + c.Rand.Intn(3)
	for i := 0; i < strangers; i++ {
		sproto := sp.Stranger
		if i > 0 {
			sproto = pickStranger(c.Rand, p)
		}
		if !knock(sproto) {
			return
		}
	}
	c.Count("locks_probed", hx.ProbeLocks(c, "lock-held:"+ctx+":", ctx+" right after the refused connections", probe...))
	if !endpointFollowups(c, ctx, "listener", l.GetOption, l.SetOption, l.Address) {
		return
	}
	if !admit() {
		return
	}
	// a listener that takes several peers goes through it once more
	if b := baseProto(p); b != "pair" && b != "pair1" && c.Rand.Intn(2) == 0 {
		if !knock(pickStranger(c.Rand, p)) || !admit() {
			return
		}
	}
	c.Logf("script: %s", script)
	c.Count("locks_probed", hx.ProbeLocks(c, "lock-held:"+ctx+":", ctx, probe...))
	if _, ok := call(c, ctx, "Close-final", knockSlowly, func() error { l.Close(); return nil }); !ok {
		return
	}
	if _, ok := call(c, ctx, "socket.Close", knockSlowly, srv.Close); !ok {
		return
	}
	c.Nontrivial()
}

// runWrongProtoDial: a dialer is refused because the listener at its address speaks a protocol it
// cannot talk to.  The cause is corrected (a matched listener takes over the address); the same
// dialer — retried by hand or redialling on its own — must connect, and the socket converses.
func runWrongProtoDial(c *mon.Case, sp spec) {
	tr, p := sp.Tran, sp.Proto
	ctx := "wrongproto/" + tr + "/dial"
	cli := hx.MustSock(c, p)
	tune(cli, p)
	cli.SetOption(mangos.OptionReconnectTime, knockEvery)
	cli.SetOption(mangos.OptionMaxReconnectTime, knockEvery)
	wc := hx.WatchPipes(cli)
	wrong := hx.MustSock(c, sp.Stranger)
	wl, err := wrong.NewListener(hx.ListenAddr(tr), lopts(tr))
	if err == nil {
		err = wl.Listen()
	}
	if err != nil {
		c.Inconclusive("setup "+ctx+": the mismatched listener: %v", err)
		return
	}
	addr := wl.Address()
	d, err := cli.NewDialer(addr, dopts(tr))
	if err != nil {
		c.Inconclusive("setup "+ctx+": NewDialer(%s): %v", addr, err)
		return
	}
	times := 1 + c.Rand.Intn(3)
	var e1 error
	for i := 0; i < times; i++ {
		name := "Dial"
		if i > 0 {
			name = "Dial-again-after-refusal"
		}
		e, ok := call(c, ctx, name, knockSlowly, d.Dial)
		if !ok {
			return
		}
		if e == nil {
			c.Inconclusive("%s: a %s socket dialing a %s listener was not refused: the situation did not arise", ctx, p, sp.Stranger)
			return
		}
		e1 = e
		c.Count("errors_provoked", 1)
		c.Count("mismatched_dials_refused", 1)
	}
	c.Count("locks_probed", hx.ProbeLocks(c, "lock-held:"+ctx+":", ctx+" right after the refused Dial", cli, d, wrong, wl))
	if !endpointFollowups(c, ctx, "dialer", d.GetOption, d.SetOption, d.Address) {
		return
	}
	asynch := c.Rand.Intn(2) == 0
	c.Logf("refused %d times (%v); asynch=%v", times, e1, asynch)
	if asynch {
		// the dialer goes on knocking at the mismatched listener on its own
		if e, ok := call(c, ctx, "SetOption(DialAsynch)", knockSlowly, func() error { return d.SetOption(mangos.OptionDialAsynch, true) }); !ok || e != nil {
			if ok {
				c.Violate("cannot-correct:"+ctx, "SetOption(DialAsynch) on the dialer after its refused Dial returned %v", e)
			}
			return
		}
		if e, ok := call(c, ctx, "Dial(asynch)", knockSlowly, d.Dial); !ok || e != nil {
			if ok {
				c.Violate("wrong-error:"+ctx+"/asynch-dial", "asynchronous Dial after %d refused synchronous ones (%v) returned %v", times, e1, e)
			}
			return
		}
		c.Count("background_knockers", 1)
	}
	// the cause is corrected: a matched listener takes over the address
	if _, ok := call(c, ctx, "mismatched-listener.Close", knockSlowly, wl.Close); !ok {
		return
	}
	if _, ok := call(c, ctx, "mismatched-socket.Close", knockSlowly, wrong.Close); !ok {
		return
	}
	gp := hx.PeerOf[p]
	right := hx.MustSock(c, gp)
	tune(right, gp)
	wr := hx.WatchPipes(right)
	rl, err := right.NewListener(addr, lopts(tr))
	if err != nil {
		c.Inconclusive("setup "+ctx+": NewListener(%s) for the matched listener: %v", addr, err)
		return
	}
	if e, ok := call(c, ctx, "matched-listener.Listen", knockSlowly, rl.Listen); !ok || e != nil {
		if ok {
			c.Inconclusive("setup "+ctx+": the matched listener cannot take over %s: %v", addr, e)
		}
		return
	}
	if !asynch {
		e, ok := call(c, ctx, "Dial-retry", knockSlowly, d.Dial)
		if !ok {
			return
		}
		if e != nil {
			c.Violate("retry-failed:"+ctx, "the cause of the refused Dial (%v: a %s listener at the address of a %s dialer) was corrected, but Dial on the same dialer fails: %v", e1, sp.Stranger, p, e)
			return
		}
	}
	if !c.AwaitOrViolate("not-connecting:"+ctx,
		fmt.Sprintf("%s: the %s dialer (asynch=%v) connecting to the matched %s listener that replaced the %s one which had refused it %d times", ctx, p, asynch, gp, sp.Stranger, times),
		func() bool { return wc.Attached() >= 1 && wr.Attached() >= 1 }, wrongProtoWait) {
		return
	}
	c.Count("refused_dialers_connected", 1)
	if p[0] != 'x' {
		if !converse(c, ctx, p, cli, right) {
			return
		}
	}
	c.Count("locks_probed", hx.ProbeLocks(c, "lock-held:"+ctx+":", ctx, cli, d, right, rl))
	if _, ok := call(c, ctx, "Close-final", knockSlowly, func() error { d.Close(); return nil }); !ok {
		return
	}
	if _, ok := call(c, ctx, "socket.Close", knockSlowly, cli.Close); !ok {
		return
	}
	c.Nontrivial()
}

// ---------------------------------------------------------------------------
// a listener that never bound its address, next to the live listener that owns the address

// How the second listener fails / what becomes of it afterwards.  The failure is either the bind
// (the address is in use: by a listener made with NewListener, whose handle the application keeps,
// or inside ListenOptions, which keeps it to itself) or the construction (an option is rejected
// and the library disposes of the half-made listener itself).  A listener that failed to bind is
// closed through its handle, closed together with its socket (a socket other than the one the
// live listener belongs to), or kept.
var siblingModes = []string{
	"listen-inuse/close", "listen-inuse/sockclose", "listen-inuse/kept",
	"listenopts-inuse/sockclose", "listenopts-inuse/kept",
	"newlistener-badopt", "listenopts-badopt",
}

// The longest library timer in these cases: the ipc transport probes an address it finds in use
// with a connect that has a 100 ms timeout.
var siblingWait = mon.AwaitOpts{MaxTimer: 100 * time.Millisecond, Ignore: []string{"internal/core.(*dialer)"}}

type sibPeer struct {
	s mangos.Socket
	w *hx.PipeWatch
}

// runSibling: a socket listens at an address and has a peer.  Further listeners for the very same
// address are attempted, on that socket or on another one, and fail; what is left of them is
// disposed of.  None of that is the live listener's business: the peer it has, once its connection
// is lost, redials and is taken back, and a new peer that dials is accepted and served.
func runSibling(c *mon.Case, sp spec) {
	tr, p := sp.Tran, sp.Proto
	how, disposal := sp.Err, ""
	if i := strings.Index(how, "/"); i >= 0 {
		how, disposal = how[:i], how[i+1:]
	}
	ctx := "sibling/" + tr + "/" + sp.Err
	gp := hx.PeerOf[p]
	srv := hx.MustSock(c, p)
	tune(srv, p)
	ws := hx.WatchPipes(srv)
	l1, err := srv.NewListener(hx.ListenAddr(tr), lopts(tr))
	if err != nil {
		c.Inconclusive("setup "+ctx+": NewListener: %v", err)
		return
	}
	if e, ok := call(c, ctx, "live-listener.Listen", 0, l1.Listen); !ok || e != nil {
		if ok {
			c.Inconclusive("setup "+ctx+": Listen: %v", e)
		}
		return
	}
	addr := l1.Address()
	probe := []interface{}{srv, l1}
	script := ""

	// connect: a matched peer dials the live listener and must attach on both sides.  Before any
	// listener has failed this is set-up; afterwards it is the listener still accepting.
	connect := func(phase string, asynch bool) *sibPeer {
		cli := hx.MustSock(c, gp)
		tune(cli, gp)
		cli.SetOption(mangos.OptionReconnectTime, knockEvery)
		cli.SetOption(mangos.OptionMaxReconnectTime, knockEvery)
		if asynch {
			cli.SetOption(mangos.OptionDialAsynch, true)
		}
		pr := &sibPeer{s: cli, w: hx.WatchPipes(cli)}
		d, e := cli.NewDialer(addr, dopts(tr))
		if e != nil {
			c.Inconclusive("setup "+ctx+": NewDialer: %v", e)
			return nil
		}
		a0 := ws.Attached()
		k := mon.Go(phase+".Dial", func() (interface{}, error) { return nil, d.Dial() })
		if !c.AwaitOrViolate("not-accepting:"+ctx+"/"+phase+"-dial-stuck",
			fmt.Sprintf("%s: the Dial (asynch=%v) of a matched %s peer to the live %s listener returning [%s]", ctx, asynch, gp, p, script), k.Done, siblingWait) {
			return nil
		}
		c.Count("followup_calls", 1)
		if _, e, _ := k.Result(); e != nil {
			if script == "" {
				c.Inconclusive("setup "+ctx+": the first peer cannot connect: %v", e)
			} else {
				c.Violate("not-accepting:"+ctx+"/"+phase+"-dial-failed", "%s: a matched %s peer dialing (asynch=%v) the live %s listener at %s got %v, after [%s]", ctx, gp, asynch, p, addr, e, script)
			}
			return nil
		}
		if !c.AwaitOrViolate("not-accepting:"+ctx+"/"+phase+"-never-attached",
			fmt.Sprintf("%s: the matched %s peer (asynch=%v) attaching on both sides at the live %s listener [%s]", ctx, gp, asynch, p, script),
			func() bool { return ws.Attached() >= a0+1 && pr.w.Attached() >= 1 }, siblingWait) {
			return nil
		}
		probe = append(probe, cli, d)
		return pr
	}
	cur := connect("first-peer", false)
	if cur == nil {
		return
	}
	if !converse(c, ctx, p, srv, cur.s) {
		return
	}

	// one more listener for the address fails and is disposed of
	fail := func() bool {
		other := disposal == "sockclose" || (disposal != "sockclose" && c.Rand.Intn(2) == 0)
		own, owner := srv, "same-socket"
		if other {
			own, owner = hx.MustSock(c, p), "other-socket"
			tune(own, p)
		}
		opts := lopts(tr)
		bad := ""
		if strings.HasSuffix(how, "-badopt") {
			o := map[string]interface{}{}
			for k, v := range opts {
				o[k] = v
			}
			n := 2
			if hx.NeedsTLS(tr) {
				n = 3
			}
			switch c.Rand.Intn(n) {
			case 0:
				o["no-such-option"], bad = 1, "unknown-option"
			case 1:
				o[mangos.OptionMaxRecvSize], bad = "not-a-number", "MaxRecvSize-of-wrong-type"
			case 2:
				o[mangos.OptionTLSConfig], bad = 42, "TLSConfig-of-wrong-type"
			}
			opts = o
		}
		var l2 mangos.Listener
		var e error
		var ok bool
		switch how {
		case "listen-inuse":
			if l2, e = own.NewListener(addr, opts); e != nil {
				c.Inconclusive("setup "+ctx+": NewListener for the second listener: %v", e)
				return false
			}
			e, ok = call(c, ctx, "second-listener.Listen", siblingWait.MaxTimer, l2.Listen)
		case "listenopts-inuse", "listenopts-badopt":
			e, ok = call(c, ctx, "second.ListenOptions", siblingWait.MaxTimer, func() error { return own.ListenOptions(addr, opts) })
		case "newlistener-badopt":
			e, ok = call(c, ctx, "second.NewListener", siblingWait.MaxTimer, func() error { var e error; l2, e = own.NewListener(addr, opts); return e })
		}
		if !ok {
			return false
		}
		if e == nil {
			c.Inconclusive("%s: a second listener (%s, %s %s) for %s, which a live listener owns, did not fail: the situation did not arise", ctx, owner, how, bad, addr)
			return false
		}
		c.Count("errors_provoked", 1)
		c.Count("sibling_listeners_failed", 1)
		script += fmt.Sprintf("%s:%s(%s)->%v", owner, how, bad, e)
		if strings.HasSuffix(how, "-badopt") {
			l2 = nil
		}
		pl := append([]interface{}{}, probe...)
		if other {
			pl = append(pl, own)
		}
		if l2 != nil {
			pl = append(pl, l2)
		}
		c.Count("locks_probed", hx.ProbeLocks(c, "lock-held:"+ctx+":", ctx+" right after the second listener failed ["+script+"]", pl...))
		if l2 != nil && !endpointFollowups(c, ctx, "failed-listener", l2.GetOption, l2.SetOption, l2.Address) {
			return false
		}
		// what becomes of it
		did := disposal
		if did == "" { // the library has disposed of the rejected listener itself
			did = "rejected"
			if other && c.Rand.Intn(2) == 0 {
				did = "rejected,sockclose"
			}
		}
		script += "," + did + " "
		if strings.HasSuffix(did, "sockclose") {
			if _, ok := call(c, ctx, "second-socket.Close", siblingWait.MaxTimer, own.Close); !ok {
				return false
			}
		}
		if did == "close" {
			if _, ok := call(c, ctx, "failed-listener.Close", siblingWait.MaxTimer, l2.Close); !ok {
				return false
			}
		}
		if did != "kept" {
			c.Count("sibling_listeners_disposed", 1)
		}
		if l2 != nil {
			// whatever has become of it, Listen on it returns
			if _, ok := call(c, ctx, "failed-listener.Listen-again", siblingWait.MaxTimer, l2.Listen); !ok {
				return false
			}
			if did == "kept" {
				probe = append(probe, l2)
			}
		}
		if other && did == "kept" {
			probe = append(probe, own)
		}
		return true
	}

	// redial: the live listener's socket loses its peer's connection; the peer's dialer comes back
	redial := func() bool {
		pipes := ws.Pipes()
		a0, c0 := ws.Attached(), cur.w.Attached()
		if _, ok := call(c, ctx, "live-pipe.Close", siblingWait.MaxTimer, pipes[len(pipes)-1].Close); !ok {
			return false
		}
		if !c.AwaitOrViolate("not-connecting:"+ctx+"/lost-peer-redial",
			fmt.Sprintf("%s: the %s peer, whose connection the %s socket closed, redialling the live listener at %s and attaching again [%s]", ctx, gp, p, addr, script),
			func() bool { return ws.Attached() >= a0+1 && cur.w.Attached() >= c0+1 }, siblingWait) {
			return false
		}
		c.Count("lost_peers_redialled", 1)
		return converse(c, ctx, p, srv, cur.s)
	}
	// replace: the peer leaves, a new one dials
	replace := func() bool {
		if _, ok := call(c, ctx, "peer.Close", siblingWait.MaxTimer, cur.s.Close); !ok {
			return false
		}
		if r := mon.Await(func() bool { return ws.Live() == 0 }, siblingWait); r.V != mon.Done {
			c.Inconclusive("%s: the %s socket has not noticed that its peer left (%v after %v)", ctx, p, r.V, r.Waited)
			return false
		}
		if cur = connect("new-peer", c.Rand.Intn(2) == 0); cur == nil {
			return false
		}
		c.Count("new_peers_admitted", 1)
		return converse(c, ctx, p, srv, cur.s)
	}

	rounds := 1 + c.Rand.Intn(2)
	for i := 0; i < rounds; i++ {
		if !fail() {
			return
		}
		steps := []func() bool{redial, replace}
		if c.Rand.Intn(2) == 0 {
			steps[0], steps[1] = steps[1], steps[0]
		}
		for _, st := range steps {
			if !st() {
				return
			}
		}
	}
	c.Logf("script: %s", script)
	c.Count("locks_probed", hx.ProbeLocks(c, "lock-held:"+ctx+":", ctx+" ["+script+"]", probe...))
	if !endpointFollowups(c, ctx, "live-listener", l1.GetOption, l1.SetOption, l1.Address) {
		return
	}
	if _, ok := call(c, ctx, "live-listener.Close", siblingWait.MaxTimer, func() error { l1.Close(); return nil }); !ok {
		return
	}
	if _, ok := call(c, ctx, "socket.Close", siblingWait.MaxTimer, srv.Close); !ok {
		return
	}
	c.Nontrivial()
}
