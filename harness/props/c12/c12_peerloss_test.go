//go:build verif

package c12

import (
	"fmt"
	"sync"
	"time"

	"go.nanomsg.org/mangos/v3"

	"verifharness/hx"
	"verifharness/mon"
)

// The peerloss kind: a socket loses its last peer, calls made while it has none fail (no peers, timed
// out, wrong state, dropped), the application changes its mind about OptionFailNoPeers around that
// moment, and a new peer attaches.  Nothing of the peerless episode may stick: with a peer attached on
// both sides every Send must succeed and every message must arrive, whatever the option was while the
// peer went away and whenever it was switched back.

// when OptionFailNoPeers is switched on, relative to the loss of the peer (every case goes through all
// three, one per peer generation, starting at a drawn one)
var peerLossArms = []string{"early", "late", "after-loss"}

// when it is switched off again, relative to the attaching of the next peer (kept: never)
var peerLossCorrect = []string{"before-reattach", "after-reattach", "kept"}

// plDirs: the directions the pattern of p has, in the order they have to be used.
func plDirs(p string) []string {
	switch baseProto(p) {
	case "req", "surveyor":
		return []string{"out", "in"}
	case "rep", "respondent":
		return []string{"in", "out"}
	case "pub", "push":
		return []string{"out"}
	case "sub", "pull":
		return []string{"in"}
	}
	return []string{"out", "in"}
}

// plSock wraps the socket under test so that the raw variants get the header their pattern needs.
type plSock struct {
	p   string
	s   mangos.Socket
	mu  sync.Mutex
	hdr []byte // header of the last message received (xrep, xrespondent: the way back)
	n   uint32
}

func (w *plSock) send(b []byte) error {
	if w.p[0] != 'x' {
		return w.s.Send(b)
	}
	var h []byte
	switch w.p {
	case "xreq", "xsurveyor":
		w.mu.Lock()
		w.n++
		h = hx.Be32(0x80000000 | w.n)
		w.mu.Unlock()
	case "xrep", "xrespondent":
		w.mu.Lock()
		h = append([]byte{}, w.hdr...)
		w.mu.Unlock()
	case "xpair1":
		h = []byte{0, 0, 0, 1}
	case "xstar":
		h = []byte{0, 0, 0, 0}
	}
	m := mangos.NewMessage(len(b))
	m.Header = append(m.Header, h...)
	m.Body = append(m.Body, b...)
	return w.s.SendMsg(m)
}

func (w *plSock) recv() ([]byte, error) {
	if w.p[0] != 'x' {
		return w.s.Recv()
	}
	m, e := w.s.RecvMsg()
	if e != nil {
		return nil, e
	}
	w.mu.Lock()
	w.hdr = append([]byte{}, m.Header...)
	w.mu.Unlock()
	b := append([]byte{}, m.Body...)
	m.Free()
	return b, nil
}

func runPeerLoss(c *mon.Case, sp spec) {
	tr, p, correct := sp.Tran, sp.Proto, sp.Err
	ctx := "peerloss/" + p + "/" + correct
	gp := hx.PeerOf[p]
	s := hx.MustSock(c, p)
	tune(s, p)
	// the socket's own dialers never come back by themselves: every connection of the case is one the
	// script made
	s.SetOption(mangos.OptionReconnectTime, time.Hour)
	s.SetOption(mangos.OptionMaxReconnectTime, time.Hour)
	w := &plSock{p: p, s: s}
	ws := hx.WatchPipes(s)
	const short = 8 * time.Millisecond
	const gens = 3
	const perReattach = 12
	script := ""
	fnpTaken, fnpOn := false, false
	probe := []interface{}{s}

	setFNP := func(v bool) bool {
		e, ok := call(c, ctx, fmt.Sprintf("SetOption(FailNoPeers,%v)", v), 0, func() error { return s.SetOption(mangos.OptionFailNoPeers, v) })
		if !ok {
			return false
		}
		if e == nil {
			fnpTaken, fnpOn = true, v
			script += fmt.Sprintf("fail-no-peers=%v ", v)
		}
		return true
	}

	// noDeadline takes the deadline of the peerless episode away again.  A socket that does not take
	// zero for "none" (RESPONDENT answers ErrBadValue) gets an hour instead, and from then on that hour
	// is the longest timer that could end a Send or Recv of the case: a hang is inconclusive there.
	var armed time.Duration
	noDeadline := func(opt string) error {
		e := s.SetOption(opt, time.Duration(0))
		if e != nil {
			if e2 := s.SetOption(opt, time.Hour); e2 != nil {
				return e2
			}
			armed = time.Hour
			c.Count("deadline_zero_refused", 1)
		}
		return e
	}

	listens := c.Rand.Intn(2) == 0
	var l mangos.Listener
	if listens {
		var e error
		if l, e = s.NewListener(hx.ListenAddr(tr), lopts(tr)); e != nil {
			c.Inconclusive("setup "+ctx+": NewListener(%s): %v", tr, e)
			return
		}
		if e, ok := call(c, ctx, "Listen", 0, l.Listen); !ok || e != nil {
			if ok {
				c.Inconclusive("setup "+ctx+": Listen(%s): %v", tr, e)
			}
			return
		}
		probe = append(probe, l)
		script += "listens(" + tr + ") "
	} else {
		script += "dials(" + tr + ") "
	}

	// attach: peer number g appears and the connection attaches on both sides.
	attach := func(g int) (mangos.Socket, mangos.Dialer, bool) {
		peer := hx.MustSock(c, gp)
		tune(peer, gp)
		wp := hx.WatchPipes(peer)
		var d mangos.Dialer
		if listens {
			pd, e := peer.NewDialer(l.Address(), dopts(tr))
			if e != nil {
				c.Inconclusive("setup "+ctx+": peer NewDialer: %v", e)
				return nil, nil, false
			}
			k := mon.Go("peer.Dial", func() (interface{}, error) { return nil, pd.Dial() })
			if !c.AwaitOrViolate("not-accepting:"+ctx+"/peer-dial-stuck", fmt.Sprintf("%s: the Dial of %s peer #%d returning [%s]", ctx, gp, g, script), k.Done, mon.AwaitOpts{}) {
				return nil, nil, false
			}
			if _, e, _ := k.Result(); e != nil {
				if g == 1 {
					c.Inconclusive("setup "+ctx+": the first peer's Dial: %v", e)
				} else {
					c.Violate("not-accepting:"+ctx+"/peer-dial-failed", "%s: %s peer #%d dialing the %s listener of the %s socket got %v; the socket had lost %d peers before [%s]", ctx, gp, g, tr, p, e, g-1, script)
				}
				return nil, nil, false
			}
		} else {
			pl, e := peer.NewListener(hx.ListenAddr(tr), lopts(tr))
			if e == nil {
				e = pl.Listen()
			}
			if e != nil {
				c.Inconclusive("setup "+ctx+": peer listening: %v", e)
				return nil, nil, false
			}
			if d, e = s.NewDialer(pl.Address(), dopts(tr)); e != nil {
				c.Violate("unusable:"+ctx+"/new-dialer", "%s: NewDialer for peer #%d returned %v [%s]", ctx, g, e, script)
				return nil, nil, false
			}
			e, ok := call(c, ctx, "Dial", 0, d.Dial)
			if !ok {
				return nil, nil, false
			}
			if e != nil {
				if g == 1 {
					c.Inconclusive("setup "+ctx+": the first Dial: %v", e)
				} else {
					c.Violate("unusable:"+ctx+"/dial", "%s: Dial to %s peer #%d (listening, %s) returned %v; the socket had lost %d peers before [%s]", ctx, gp, g, tr, e, g-1, script)
				}
				return nil, nil, false
			}
		}
		if !c.AwaitOrViolate("not-attaching:"+ctx, fmt.Sprintf("%s: the connection to %s peer #%d attaching on both sides [%s]", ctx, gp, g, script),
			func() bool { return ws.Attached() >= g && wp.Attached() >= 1 }, mon.AwaitOpts{MaxTimer: 200 * time.Millisecond}) {
			return nil, nil, false
		}
		script += fmt.Sprintf("peer#%d ", g)
		c.Count("peers_attached", 1)
		return peer, d, true
	}

	// xfer: one message, which must be accepted by Send and must arrive.
	xfer := func(peer mangos.Socket, dir string, g, i int) bool {
		send, recv := w.send, peer.Recv
		if dir == "in" {
			send, recv = peer.Send, w.recv
		}
		msg := "pl-" + hx.Uniq("m")
		rk := mon.Go("Recv", func() (interface{}, error) {
			for { // what the peerless Sends left queued comes first
				b, e := recv()
				if e != nil || string(b) == msg {
					return b, e
				}
			}
		})
		sk := mon.Go("Send", func() (interface{}, error) { return nil, send([]byte(msg)) })
		what := fmt.Sprintf("%s: message %d %s with peer #%d attached on both sides", ctx, i, dir, g)
		if !c.AwaitOrViolate("wedged:"+ctx+"/send-"+dir, what+": Send returning", sk.Done, mon.AwaitOpts{MaxTimer: armed}) {
			return false
		}
		if _, e, _ := sk.Result(); e != nil {
			who := "the socket under test"
			if dir == "in" {
				who = "the peer"
			}
			c.Violate(fmt.Sprintf("unusable:%s/send-%s:%v", ctx, dir, e), "%s: Send (%s) returned %v; fail-no-peers is %v now (option taken: %v), peers lost before: %d [%s]", what, who, e, fnpOn, fnpTaken, g-1, script)
			return false
		}
		if !c.AwaitOrViolate("wedged:"+ctx+"/recv-"+dir, what+": Recv returning the message (Send returned nil) ["+script+"]", rk.Done, mon.AwaitOpts{MaxTimer: armed}) {
			return false
		}
		if v, e, _ := rk.Result(); e != nil || string(v.([]byte)) != msg {
			c.Violate("unusable:"+ctx+"/recv-"+dir, "%s: Recv returned (%q, %v), want %q [%s]", what, v, e, msg, script)
			return false
		}
		c.Count("messages_exchanged_with_peer_attached", 1)
		return true
	}
	talk := func(peer mangos.Socket, g, n int) bool {
		for i := 0; i < n; i++ {
			for _, dir := range plDirs(p) {
				if !xfer(peer, dir, g, i) {
					return false
				}
			}
		}
		script += fmt.Sprintf("talk*%d ", n)
		return true
	}

	errs, noPeers := 0, 0
	start := c.Rand.Intn(len(peerLossArms))
	for g := 1; g <= gens+1; g++ {
		arm := ""
		if g <= gens {
			arm = peerLossArms[(start+g-1)%len(peerLossArms)]
		}
		if arm == "early" && !setFNP(true) {
			return
		}
		peer, d, ok := attach(g)
		if !ok {
			return
		}
		if g > 1 && correct == "after-reattach" && !setFNP(false) {
			return
		}
		n := perReattach
		if g == 1 {
			n = 1
		}
		if !talk(peer, g, n) {
			return
		}
		if g > gens {
			probe = append(probe, peer)
			break
		}
		if arm == "late" && !setFNP(true) {
			return
		}
		// the peer goes away
		if _, ok := call(c, ctx, "peer.Close", 0, peer.Close); !ok {
			return
		}
		if r := mon.Await(func() bool { return ws.Detached() >= g }, mon.AwaitOpts{MaxTimer: 200 * time.Millisecond}); r.V != mon.Done {
			c.Inconclusive("%s: the socket did not see peer #%d go (%v after %v): the situation did not arise", ctx, g, r.V, r.Waited)
			return
		}
		script += "lost "
		c.Count("last_peers_lost", 1)
		if d != nil {
			if _, ok := call(c, ctx, "dialer.Close", 0, d.Close); !ok {
				return
			}
		}
		if arm == "after-loss" && !setFNP(true) {
			return
		}
		// the peerless episode: calls that fail, time out or are dropped
		be := c.Rand.Intn(3) == 0
		for _, st := range []struct {
			n string
			f func() error
		}{
			{"SetOption(SendDeadline)", func() error { return s.SetOption(mangos.OptionSendDeadline, short) }},
			{"SetOption(RecvDeadline)", func() error { return s.SetOption(mangos.OptionRecvDeadline, short) }},
			{"SetOption(BestEffort)", func() error {
				if !be {
					return nil
				}
				return s.SetOption(mangos.OptionBestEffort, true)
			}},
			{"Send(peerless)", func() error { return w.send([]byte("peerless")) }},
			{"Recv(peerless)", func() error { _, e := w.recv(); return e }},
			{"Send(peerless)-2", func() error { return w.send([]byte("peerless-2")) }},
			{"GetOption(FailNoPeers)", func() error { _, e := s.GetOption(mangos.OptionFailNoPeers); return e }},
			{"SetOption(BestEffort,false)", func() error { return s.SetOption(mangos.OptionBestEffort, false) }},
			{"SetOption(SendDeadline,0)", func() error { return noDeadline(mangos.OptionSendDeadline) }},
			{"SetOption(RecvDeadline,0)", func() error { return noDeadline(mangos.OptionRecvDeadline) }},
		} {
			e, ok := call(c, ctx, st.n, short, st.f)
			if !ok {
				return
			}
			if e != nil && (st.n[:4] == "Send" || st.n[:4] == "Recv") {
				errs++
				if e == mangos.ErrNoPeers {
					noPeers++
				}
			}
		}
		script += fmt.Sprintf("peerless(best-effort=%v) ", be)
		if correct == "before-reattach" && !setFNP(false) {
			return
		}
	}
	c.Logf("script: %s", script)
	c.Count("errors_provoked", errs)
	c.Count("no_peers_errors", noPeers)
	c.Count("locks_probed", hx.ProbeLocks(c, "lock-held:"+ctx+":", ctx+" ["+script+"]", probe...))
	if _, ok := call(c, ctx, "Close", 0, s.Close); !ok {
		return
	}
	if errs > 0 {
		c.Nontrivial()
	}
}
