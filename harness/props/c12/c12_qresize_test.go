package c12

import (
	"bytes"
	"fmt"
	"strings"
	"time"

	"go.nanomsg.org/mangos/v3"

	"verifharness/hx"
	"verifharness/mon"
	"verifharness/vt"
)

// Two kinds about calls that succeed (or fail as documented) while a goroutine of the same object is
// parked, and must leave the object usable:
//
// qresize   — OptionReadQLen is set again on a socket whose receive queue is full, with the pipe's
//             receiver parked on it holding the peer's next message: afterwards what that peer sends
//             is received again.
// supersede — a Recv on a REQ/SURVEYOR socket or context ends without a reply (superseded by a new
//             Send on the same object: ErrCanceled; or timed out): the Recv for the new request
//             returns its reply, and a whole further exchange works.

// protocols with a socket-level receive queue that takes OptionReadQLen and whose incoming traffic is
// unsolicited (cooked REQ/SURVEYOR receive per request; REP, PUB, PUSH have no such queue)
var qresizeProtos = []string{"pair", "xpair", "pair1", "xpair1", "xreq", "xrep", "sub", "xsub", "pull", "xpull",
	"xsurveyor", "respondent", "xrespondent", "bus", "xbus", "star", "xstar"}

// qresizeLossy: the receiver drops rather than parks when the queue is full
func qresizeLossy(p string) bool { return baseProto(p) == "sub" }

// qresizeWire is what the peer of a socket of protocol p puts on the wire around payload.
func qresizeWire(p string, n uint32, payload []byte) []byte {
	switch baseProto(p) {
	case "pair1", "star":
		return hx.Cat([]byte{0, 0, 0, 1}, payload)
	case "req", "rep", "surveyor", "respondent":
		return hx.Cat(hx.Be32(0x80000000|n), payload)
	}
	return append([]byte{}, payload...)
}

// receiverParkedOnQueue: a library pipe receiver goroutine is parked outside the transport's Recv,
// i.e. on the socket's queue, holding a message.
func receiverParkedOnQueue() bool {
	for _, g := range mon.Dump() {
		if g.IsMangos() && g.Parked() && g.HasFrame(").receiver") && !g.HasFrame("vt.(*Pipe).Recv") &&
			(g.State == "select" || g.State == "chan send") {
			return true
		}
	}
	return false
}

func qresizeCases(r *mon.Runner, rnd interface{ Intn(int) int }) []mon.CaseSpec {
	var cases []mon.CaseSpec
	for rep := 0; rep < r.Pick(1, 40); rep++ {
		for _, p := range qresizeProtos {
			q0 := 1
			if rnd.Intn(4) == 0 {
				q0 = 2
			}
			n := []int{1, 2, 4, 16}[rnd.Intn(4)]
			rounds := 1 + rnd.Intn(2)
			cases = append(cases, mon.CaseSpec{Name: fmt.Sprintf("qresize/%s/%d-to-%d", p, q0, n),
				Spec: spec{Kind: "qresize", Tran: "vt", Proto: p, Err: fmt.Sprintf("%d-to-%dx%d", q0, n, rounds)}})
		}
	}
	for rep := 0; rep < r.Pick(1, 20); rep++ {
		for _, p := range []string{"req", "surveyor"} {
			for _, obj := range []string{"socket", "context"} {
				for _, m := range []string{"superseded", "timeout"} {
					cases = append(cases, mon.CaseSpec{Name: "supersede/" + p + "/" + obj + "/" + m,
						Spec: spec{Kind: "supersede", Tran: "vt", Proto: p, Err: m, Stranger: obj}})
				}
			}
		}
	}
	return cases
}

func runQResize(c *mon.Case, sp spec) {
	p := sp.Proto
	var q0, n, rounds int
	if _, err := fmt.Sscanf(sp.Err, "%d-to-%dx%d", &q0, &n, &rounds); err != nil {
		panic(err)
	}
	ctx := "qresize/" + p
	s := hx.MustSock(c, p)
	tune(s, p)
	if e := safe(func() error { return s.SetOption(mangos.OptionReadQLen, q0) }); e != nil {
		c.Logf("%s: OptionReadQLen not taken: %v", ctx, e)
		return
	}
	name := hx.Uniq("qr")
	L := vt.L(name)
	c.Cleanup(func() { vt.Forget(name) })
	ws := hx.WatchPipes(s)
	if err := s.Listen(vt.Addr(name)); err != nil {
		c.Inconclusive("setup %s: listen: %v", ctx, err)
		return
	}
	pipe := L.Connect()
	if !hx.WaitAttached(c, ws, 1, "vt pipe") {
		return
	}
	var serial uint32
	inject := func(tag string) []byte {
		serial++
		pl := []byte(fmt.Sprintf("%s-%d-%s", tag, serial, name))
		pipe.Inject(qresizeWire(p, serial, pl))
		return pl
	}
	// recvUpTo: Recv (no deadline) until the message with this payload; older ones may or may not come.
	// A library that answers the resize by closing the peer's connection has lost what was sent into it,
	// legitimately; the peer connects again and sends again (what must not happen is that nothing
	// arrives and nothing moves any more).
	recvUpTo := func(what string, tag string) bool {
		pl := inject(tag)
		reconnects := 0
		for k := 0; k < 64; k++ {
			var body []byte
			rk := mon.Go(what, func() (interface{}, error) {
				m, e := s.RecvMsg()
				if e == nil {
					body = append([]byte{}, m.Body...)
					m.Free()
				}
				return nil, e
			})
			for !rk.Done() {
				cur := pipe
				r := mon.Await(func() bool { return rk.Done() || cur.LibClosed() }, mon.AwaitOpts{})
				if r.V == mon.Stuck {
					c.Violate("wedged:"+ctx+"/"+what, "%s: %s returning: stuck after %v with the peer's message %q sent (READQ-LEN %s) — every goroutine parked, identical over 5 samples:\n%s", ctx, what, r.Waited, pl, sp.Err, r.Dump)
					return false
				}
				if r.V != mon.Done {
					c.Inconclusive("%s: %s returning: not done after %v, process still active", ctx, what, r.Waited)
					return false
				}
				if rk.Done() {
					break
				}
				// the library closed the connection: the peer comes back and sends again
				if reconnects++; reconnects > 4 {
					c.Violate("unusable:"+ctx+"/"+what+"/dropped-again", "%s: %s: the library closed the peer's connection %d times while %q was on its way", ctx, what, reconnects, pl)
					return false
				}
				c.Count("connections_closed_by_resize", 1)
				att := ws.Attached()
				pipe = L.Connect()
				if !hx.WaitAttached(c, ws, att+1, "vt pipe again") {
					return false
				}
				pl = inject(tag)
			}
			c.Count("followup_calls", 1)
			_, err, _ := rk.Result()
			if err != nil {
				c.Violate("unusable:"+ctx+"/"+what, "%s: %s: Recv failed with %v while the peer's message %q is on its way (READQ-LEN %s)", ctx, what, err, pl, sp.Err)
				return false
			}
			if bytes.HasSuffix(body, pl) {
				c.Count("received_after_resize", 1)
				return true
			}
			c.Count("older_messages_received", 1)
		}
		c.Violate("unusable:"+ctx+"/"+what+"/flood", "%s: %s: 64 other messages received instead of %q", ctx, what, pl)
		return false
	}
	parkedSeen := 0
	cur := q0
	for round := 0; round < rounds; round++ {
		taken0 := pipe.Taken()
		// the peer sends two more than the queue holds
		for i := 0; i < cur+2; i++ {
			inject("pre")
		}
		if qresizeLossy(p) {
			// nothing parks; all of it is consumed (kept or dropped) before the resize
			r := mon.Await(func() bool { rw, _ := pipe.Waiters(); return pipe.Pending() == 0 && rw == 1 }, mon.AwaitOpts{})
			if r.V != mon.Done {
				c.Inconclusive("setup %s: the receiver did not consume the peer's messages: %v", ctx, r.V)
				return
			}
		} else {
			// queue full (cur), one more held by the receiver, one still in the pipe
			r := mon.Await(func() bool {
				rw, _ := pipe.Waiters()
				return pipe.Taken()-taken0 == cur+1 && rw == 0 && receiverParkedOnQueue()
			}, mon.AwaitOpts{Watchdog: 10 * time.Second})
			if r.V == mon.Done {
				parkedSeen++
				c.Count("receiver_parked_on_full_queue", 1)
			} else {
				c.Logf("%s: receiver not seen parked on the full queue (taken %d of %d): %v", ctx, pipe.Taken()-taken0, cur+2, r.V)
			}
		}
		if err, ok := call(c, ctx, fmt.Sprintf("SetOption(ReadQLen,%d)", n), 0, func() error { return s.SetOption(mangos.OptionReadQLen, n) }); !ok {
			return
		} else if err != nil {
			c.Violate("unusable:"+ctx+"/setopt", "%s: SetOption(ReadQLen,%d) failed: %v (it was accepted before)", ctx, n, err)
			return
		}
		if v, err := s.GetOption(mangos.OptionReadQLen); err != nil || v != n {
			c.Violate("unusable:"+ctx+"/getopt", "%s: GetOption(ReadQLen) = %v, %v after a successful SetOption(%d)", ctx, v, err, n)
			return
		}
		cur = n
		// traffic from that peer is received again: one at a time, so that nothing is dropped for
		// want of room in the patterns that drop
		for i := 0; i < 3; i++ {
			if qresizeLossy(p) {
				r := mon.Await(func() bool { rw, _ := pipe.Waiters(); return pipe.Pending() == 0 && rw == 1 }, mon.AwaitOpts{})
				if r.V != mon.Done {
					c.Inconclusive("%s: the receiver is not back at its pipe: %v", ctx, r.V)
					return
				}
				// room for the next one: take out whatever is queued (known: the receiver is idle)
				if !qresizeDrain(c, ctx, s) {
					return
				}
			}
			if !recvUpTo("Recv-after-resize", "after") {
				return
			}
		}
	}
	c.Count("locks_probed", hx.ProbeLocks(c, "lock-held:"+ctx+":", ctx+" ("+sp.Err+")", s))
	if _, ok := call(c, ctx, "Close", 0, s.Close); !ok {
		return
	}
	if qresizeLossy(p) || parkedSeen > 0 {
		c.Nontrivial()
	}
}

// qresizeDrain empties the socket's receive queue while the pipe receiver is known to be idle (parked
// in the transport with nothing pending): Recv with a deadline until it times out.  A Recv that does
// not return at all is the violation; a timeout is the expected end.
func qresizeDrain(c *mon.Case, ctx string, s mangos.Socket) bool {
	const d = 5 * time.Millisecond
	if e := s.SetOption(mangos.OptionRecvDeadline, d); e != nil {
		c.Inconclusive("%s: SetOption(RecvDeadline): %v", ctx, e)
		return false
	}
	for k := 0; k < 64; k++ {
		err, ok := call(c, ctx, "Recv-drain", d, func() error {
			m, e := s.RecvMsg()
			if e == nil {
				m.Free()
			}
			return e
		})
		if !ok {
			return false
		}
		if err != nil {
			break
		}
	}
	if e := s.SetOption(mangos.OptionRecvDeadline, time.Duration(0)); e != nil {
		c.Inconclusive("%s: SetOption(RecvDeadline,0): %v", ctx, e)
		return false
	}
	return true
}

// ---------------------------------------------------------------------------

func runSupersede(c *mon.Case, sp spec) {
	p, obj, mode := sp.Proto, sp.Stranger, sp.Err
	ctx := "supersede/" + p + "/" + obj + "/" + mode
	rig := hx.NewReqRig(c, p, 2, 1)
	if c.Failed() || c.Undecided() {
		return
	}
	tune(rig.Sock, p)
	ci := 0
	if obj == "context" {
		ci = 1
	}
	cx := rig.Ctxs[ci]
	if ci == 1 {
		if p == "req" {
			cx.SetOption(mangos.OptionRetryTime, time.Hour)
		} else {
			cx.SetOption(mangos.OptionSurveyTime, time.Hour)
		}
	}
	pipe := rig.Pipes[0]
	k := 0
	// send makes a new request and returns the id it went out with
	send := func(what string) (uint32, bool) {
		k++
		n0 := pipe.SentCount()
		body := rig.ReqBody(ci, k)
		want := append([]byte{}, body...)
		if err, ok := call(c, ctx, what, 0, func() error { return cx.Send(body) }); !ok {
			return 0, false
		} else if err != nil {
			c.Violate("unusable:"+ctx+"/"+what, "%s: %s failed: %v", ctx, what, err)
			return 0, false
		}
		if !c.AwaitOrViolate("wedged:"+ctx+"/"+what+"/transmit", ctx+": "+what+": the request reaching the peer", func() bool {
			for _, tx := range pipe.SentFrom(n0) {
				if bytes.HasSuffix(tx.Wire(), want) {
					return true
				}
			}
			return false
		}, mon.AwaitOpts{}) {
			return 0, false
		}
		for _, tx := range pipe.SentFrom(n0) {
			if w := tx.Wire(); bytes.HasSuffix(w, want) && len(w) >= 4+len(want) {
				return uint32(w[0])<<24 | uint32(w[1])<<16 | uint32(w[2])<<8 | uint32(w[3]), true
			}
		}
		c.Inconclusive("%s: %s: request without an id on the wire", ctx, what)
		return 0, false
	}
	replyAndRecv := func(what string, id uint32) bool {
		pl := []byte(fmt.Sprintf("reply-%d-%s", k, hx.Uniq("r")))
		pipe.Inject(hx.Cat(hx.Be32(id), pl))
		var got []byte
		err, ok := call(c, ctx, what, 0, func() error { var e error; got, e = cx.Recv(); return e })
		if !ok {
			return false
		}
		if err != nil || !bytes.Equal(got, pl) {
			c.Violate("unusable:"+ctx+"/"+what, "%s: %s returned %q, %v; the reply %q to the outstanding request (id %#x) had arrived", ctx, what, got, err, pl, id)
			return false
		}
		c.Count("replies_received_after", 1)
		return true
	}

	if _, ok := send("Send-1"); !ok {
		return
	}
	ended := ""
	switch mode {
	case "superseded":
		rk := mon.Go("Recv-parked", func() (interface{}, error) { return cx.Recv() })
		parked := rk.ParkedIn("RecvMsg")
		id2, ok := send("Send-2")
		if !ok {
			return
		}
		if !c.AwaitOrViolate("wedged:"+ctx+"/Recv-parked", ctx+": the Recv of the superseded request returning", rk.Done, mon.AwaitOpts{}) {
			return
		}
		_, err, _ := rk.Result()
		ended = fmt.Sprint(err)
		c.Logf("%s: parked Recv -> %v (parked seen: %v)", ctx, err, parked)
		if err == nil {
			c.Violate("unusable:"+ctx+"/Recv-parked/phantom", "%s: the Recv of the superseded request returned a message although the peer never replied", ctx)
			return
		}
		if parked {
			c.Count("recv_parked_when_superseded", 1)
		}
		if !replyAndRecv("Recv-2", id2) {
			return
		}
		if !parked {
			return
		}
	case "timeout":
		const d = 5 * time.Millisecond
		if e := cx.SetOption(mangos.OptionRecvDeadline, d); e != nil {
			c.Inconclusive("%s: SetOption(RecvDeadline): %v", ctx, e)
			return
		}
		err, ok := call(c, ctx, "Recv-timeout", d, func() error { _, e := cx.Recv(); return e })
		if !ok {
			return
		}
		ended = fmt.Sprint(err)
		if err == nil {
			c.Violate("unusable:"+ctx+"/Recv-timeout/phantom", "%s: Recv returned a message although the peer never replied", ctx)
			return
		}
		if e := cx.SetOption(mangos.OptionRecvDeadline, time.Duration(0)); e != nil {
			c.Inconclusive("%s: SetOption(RecvDeadline,0): %v", ctx, e)
			return
		}
		id2, ok := send("Send-2")
		if !ok {
			return
		}
		if !replyAndRecv("Recv-2", id2) {
			return
		}
	}
	// and a whole further exchange
	id3, ok := send("Send-3")
	if !ok {
		return
	}
	if !replyAndRecv("Recv-3", id3) {
		return
	}
	c.Count("locks_probed", hx.ProbeLocks(c, "lock-held:"+ctx+":", ctx, rig.Sock))
	c.Sig("supersede-ended|%s|%s", p, strings.ReplaceAll(ended, " ", "_"))
	c.Nontrivial()
}
