//go:build verif

package c19

import (
	"fmt"
	"strings"
	"time"

	"go.nanomsg.org/mangos/v3"

	"verifharness/hx"
	"verifharness/mon"
)

// =============================================================================
// resize: changing a queue length with traffic flowing never disconnects a peer
// =============================================================================

var resizeSeq = []int{1, 3, 2, 5, 1, 16, 2, 128, 4, 1}

// receiverParked reports whether a protocol receiver goroutine is parked on the
// socket's queue rather than inside the transport (evidence and pacing only).
func receiverParked() bool {
	for _, g := range mon.Dump() {
		if !g.Parked() {
			continue
		}
		for _, f := range g.Frames {
			if strings.HasPrefix(f, "runtime.") {
				continue
			}
			if strings.Contains(f, "mangos/v3/protocol/") && strings.Contains(f, ".(*pipe).receiver") {
				return true
			}
			break
		}
	}
	return false
}

func detachedCheck(c *mon.Case, label, when string, lk *link, proto, tr, opt string) bool {
	if d1, d2 := lk.SW.nDetached(), lk.PW.nDetached(); d1+d2 > 0 {
		c.Violate("resize-disconnected:"+label, "%s over %s: %s of %s the pipe event hooks saw %d (socket) + %d (peer) Detached events; nothing was closed", proto, tr, when, opt, d1, d2)
		return false
	}
	return true
}

func runResize(c *mon.Case, sp spec) {
	proto, opt, tr := sp.Proto, sp.Opt, sp.Tran
	label := proto + "/" + opt
	shape := shapeOf(proto)
	dup := 1
	if proto == "surveyor" && opt == mangos.OptionReadQLen {
		dup = 12 // one survey at a time: let the raw respondent answer it many times
	}
	lk, pproto := linkFor(c, proto, tr, true, dup, sp.Dir == "dial")
	seq := sp.Seq
	if len(seq) == 0 {
		seq = resizeSeq
	}
	if lk == nil {
		return
	}
	S, P := lk.S, lk.P
	defer lk.watchDetach()()
	if err, pan, _ := safeSet(S, opt, 2); pan != nil || err != nil {
		c.Count("resize_option_unsupported", 1)
		return
	}
	set := func(v int, how string) bool {
		_, err, ok := blk(c, "resize-set-stuck:"+label, fmt.Sprintf("%s SetOption(%s, %d) %s", proto, opt, v, how), func() (interface{}, error) { return nil, S.SetOption(opt, v) })
		if !ok {
			return false
		}
		if err != nil {
			c.Violate("resize-set-rejected:"+label, "SetOption(%s, %d) returned %v", opt, v, err)
			return false
		}
		return true
	}
	parkedResizes, fed := 0, 0

	if opt == mangos.OptionReadQLen {
		if shape == "out" {
			c.Count("resize_option_unsupported", 1)
			return
		}
		// inbound traffic, never awaited: with a full queue the senders park (they are
		// harness goroutines that block, the receive loop at the end releases them)
		feedIn := func(i int) {
			fed++
			b := []byte(fmt.Sprintf("rz-%d", i))
			switch shape {
			case "dgram", "in":
				mon.Go("peer Send", func() (interface{}, error) { return nil, sendData(P, pproto, b) })
			case "resp":
				mon.Go("peer Send", func() (interface{}, error) { return nil, sendReq(P, pproto, 100+i, b) })
			case "init":
				if isRaw(proto) { // the echo peer sends the reply back in
					mon.Go("Send", func() (interface{}, error) { return nil, sendReq(S, proto, 100+i, b) })
				}
			}
		}
		pace := func() { // pacing only
			for j := 0; j < 40 && !receiverParked(); j++ {
				mon.Sleep(500 * time.Microsecond)
			}
		}
		if shape == "init" && !isRaw(proto) {
			if _, err, ok := blk(c, "resize-setup-stuck:"+label, "Send(survey)", func() (interface{}, error) { return nil, S.Send([]byte("rz-survey")) }); !ok || err != nil {
				return
			}
		}
		dbg("resize: filling")
		for i := 0; i < 12; i++ { // queue (2) + whatever the transport buffers
			feedIn(i)
		}
		pace()
		dbg("resize: filled, parked=%v", receiverParked())
		for i := 0; i < 50; i++ {
			if receiverParked() {
				parkedResizes++
			}
			if !set(seq[i%len(seq)], "with inbound traffic queued") {
				return
			}
			feedIn(12 + i)
			if i%5 == 4 {
				pace()
			}
		}
		dbg("resize: 50 resizes done")
		if !detachedCheck(c, label, "after 50 changes", lk, proto, tr, opt) {
			return
		}
		if !exchangeOrDetached(c, "resize-exchange", label, lk, proto, pproto) {
			return
		}
		dbg("resize: exchange done")
	} else {
		if shape == "in" {
			c.Count("resize_option_unsupported", 1)
			return
		}
		// WRITEQ-LEN: resize, send, the peer receives — 50 times.  Every iteration is
		// itself the "subsequent exchange" for the resize before it.
		for i := 0; i < 50; i++ {
			if !set(seq[i%len(seq)], "between transmissions") {
				return
			}
			switch shape {
			case "dgram", "out":
				b := []byte(fmt.Sprintf("wz-%d-%s", i, hx.Uniq("m")))
				if _, err, ok := blk(c, "resize-exchange-send-stuck:"+label, proto+" Send after a resize", func() (interface{}, error) { return nil, sendData(S, proto, b) }); !ok || err != nil {
					if ok {
						c.Violate("resize-exchange-send-error:"+label, "Send returned %v", err)
					}
					return
				}
				m, _, ok := recvUntil(c, "resize-exchange-peer-recv-stuck:"+label, "resize-exchange-peer-recv-error:"+label, fmt.Sprintf("%s peer Recv of message %d sent after a %s change", pproto, i, opt), P, b)
				if !ok {
					detachedCheck(c, label, "after a change", lk, proto, tr, opt)
					return
				}
				m.Free()
				fed++
			default:
				if i%5 == 0 {
					if !exchangeOrDetached(c, "resize-exchange", label, lk, proto, pproto) {
						return
					}
					fed++
				}
			}
		}
		if !detachedCheck(c, label, "after 50 changes", lk, proto, tr, opt) {
			return
		}
		if !exchangeOrDetached(c, "resize-exchange", label, lk, proto, pproto) {
			return
		}
	}
	c.Count("resizes", 50)
	c.Count("resizes_with_receiver_parked_on_full_queue", parkedResizes)
	c.Count("traffic_units", fed)
	c.Nontrivial()
	c.Sig("resize|%s|%s|%s|%s|%v|parked=%v", proto, opt, tr, sp.Dir, seq, parkedResizes > 0)
}

// =============================================================================
// unsup: operations the pattern does not have
// =============================================================================

func runUnsup(c *mon.Case, sp spec) {
	proto, tr := sp.Proto, sp.Tran
	shape := shapeOf(proto)
	checked := 0
	probe := func(s mangos.Socket, when string) bool {
		// contexts
		cx, err := func() (cx mangos.Context, err error) {
			defer func() {
				if p := recover(); p != nil {
					err = fmt.Errorf("panic: %v", p)
				}
			}()
			return s.OpenContext()
		}()
		if hasCtx(proto) {
			if err != nil {
				c.Violate("ctx-open-failed:"+proto, "%s.OpenContext() (%s) returned %v", proto, when, err)
				return false
			}
			cx.Close()
		} else {
			checked++
			if err != mangos.ErrProtoOp || cx != nil {
				c.Violate("unsup-wrong-error:"+proto+"/OpenContext", "%s.OpenContext() (%s) returned (%v, %v), want (nil, ErrProtoOp)", proto, when, cx, err)
				return false
			}
		}
		switch shape {
		case "out":
			checked++
			v, err, ok := blk(c, "unsup-blocks:"+proto+"/Recv", fmt.Sprintf("%s Recv (%s)", proto, when), func() (interface{}, error) { return s.RecvMsg() })
			if !ok {
				return false
			}
			if err != mangos.ErrProtoOp || v.(*mangos.Message) != nil {
				c.Violate("unsup-wrong-error:"+proto+"/Recv", "%s.RecvMsg() (%s) returned (%v, %v), want (nil, ErrProtoOp)", proto, when, brief(v), err)
				return false
			}
		case "in":
			checked++
			_, err, ok := blk(c, "unsup-blocks:"+proto+"/Send", fmt.Sprintf("%s Send (%s)", proto, when), func() (interface{}, error) { return nil, s.Send([]byte("must-not-be-sent")) })
			if !ok {
				return false
			}
			if err != mangos.ErrProtoOp {
				c.Violate("unsup-wrong-error:"+proto+"/Send", "%s.Send() (%s) returned %v, want ErrProtoOp", proto, when, err)
				return false
			}
		}
		return true
	}
	if !probe(newSock(c, proto), "fresh socket") {
		return
	}
	lk, pproto := linkFor(c, proto, tr, false, 1, false)
	if lk == nil {
		return
	}
	if !probe(lk.S, "connected over "+tr) {
		return
	}
	// no side effect: still connected, and the pattern's own operations still work
	if !exchangeOrDetached(c, "unsup-exchange", proto, lk, proto, pproto) {
		return
	}
	if !probe(lk.S, "after traffic") {
		return
	}
	c.Count("unsupported_operations_checked", checked)
	if checked > 0 {
		c.Nontrivial()
	}
	c.Sig("unsup|%s|%s|%d", proto, tr, checked)
}

// =============================================================================
// device: Device on cooked, mismatched or nil sockets
// =============================================================================

func forwarders(base mon.GoroutineBaseline) []mon.G {
	var out []mon.G
	for _, g := range mon.Dump() {
		if base[g.ID] {
			continue
		}
		if g.HasFrame("mangos/v3.forwarder") {
			out = append(out, g)
		}
	}
	return out
}

func runDevice(c *mon.Case, sp spec) {
	proto, tr := sp.Proto, sp.Tran
	base := mon.TakeBaseline()
	lk, pproto := linkFor(c, proto, tr, false, 1, false)
	if lk == nil {
		return
	}
	S := lk.S
	selfPeering := S.Info().Self == S.Info().Peer
	// a socket whose protocol cannot peer with S
	mismatch := "xpub"
	if cookedOf(proto) == "sub" || cookedOf(proto) == "pub" {
		mismatch = "xpush"
	}
	partnerRaw := "x" + cookedOf(hxPeer(proto))
	partnerCooked := cookedOf(hxPeer(proto))
	type tc struct {
		name string
		a, b mangos.Socket
		want error
	}
	var tcs []tc
	tcs = append(tcs, tc{"Device(nil, nil)", nil, nil, mangos.ErrClosed})
	mm := newSock(c, mismatch)
	tcs = append(tcs, tc{fmt.Sprintf("Device(%s, %s)", proto, mismatch), S, mm, mangos.ErrBadProto})
	tcs = append(tcs, tc{fmt.Sprintf("Device(%s, %s)", mismatch, proto), mm, S, mangos.ErrBadProto})
	if !isRaw(proto) {
		tcs = append(tcs, tc{fmt.Sprintf("Device(%s, %s)", proto, partnerRaw), S, newSock(c, partnerRaw), mangos.ErrNotRaw})
		tcs = append(tcs, tc{fmt.Sprintf("Device(%s, %s)", partnerRaw, proto), newSock(c, partnerRaw), S, mangos.ErrNotRaw})
		tcs = append(tcs, tc{fmt.Sprintf("Device(%s, %s)", proto, partnerCooked), S, newSock(c, partnerCooked), mangos.ErrNotRaw})
		if selfPeering {
			tcs = append(tcs, tc{fmt.Sprintf("Device(%s, nil)", proto), S, nil, mangos.ErrNotRaw})
			tcs = append(tcs, tc{fmt.Sprintf("Device(%s, same)", proto), S, S, mangos.ErrNotRaw})
		} else {
			tcs = append(tcs, tc{fmt.Sprintf("Device(%s, nil)", proto), S, nil, mangos.ErrBadProto})
		}
	} else {
		tcs = append(tcs, tc{fmt.Sprintf("Device(%s, %s)", proto, partnerCooked), S, newSock(c, partnerCooked), mangos.ErrNotRaw})
		tcs = append(tcs, tc{fmt.Sprintf("Device(%s, %s)", partnerCooked, proto), newSock(c, partnerCooked), S, mangos.ErrNotRaw})
		if !selfPeering {
			tcs = append(tcs, tc{fmt.Sprintf("Device(%s, nil)", proto), S, nil, mangos.ErrBadProto})
			tcs = append(tcs, tc{fmt.Sprintf("Device(nil, %s)", proto), nil, S, mangos.ErrBadProto})
		}
	}
	for _, t := range tcs {
		t := t
		v, _, ok := blk(c, "device-blocks:"+proto, t.name, func() (r interface{}, err error) {
			defer func() {
				if p := recover(); p != nil {
					r = fmt.Errorf("panic: %v", p)
				}
			}()
			return mangos.Device(t.a, t.b), nil
		})
		if !ok {
			return
		}
		var got error
		if v != nil {
			got = v.(error)
		}
		c.Count("device_calls_checked", 1)
		if got != t.want {
			kind := "mismatched"
			switch t.want {
			case mangos.ErrNotRaw:
				kind = "cooked"
			case mangos.ErrClosed:
				kind = "nil"
			}
			c.Violate(fmt.Sprintf("device-wrong-error:%s/%s", proto, kind), "%s returned %v, want %v", t.name, got, t.want)
		}
	}
	if c.Failed() {
		return
	}
	// no side effect: no forwarding goroutine exists, the socket still works
	if fw := forwarders(base); len(fw) > 0 {
		c.Violate("device-side-effect:"+proto, "a rejected Device call left %d forwarder goroutine(s):\n%s", len(fw), mon.RenderGs(fw))
		return
	}
	if !exchangeOrDetached(c, "device-exchange", proto, lk, proto, pproto) {
		return
	}
	c.Nontrivial()
	c.Sig("device|%s|%s|%d", proto, tr, len(tcs))
}
