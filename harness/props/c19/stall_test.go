//go:build verif

package c19

import (
	"bytes"
	"fmt"

	"go.nanomsg.org/mangos/v3"

	"verifharness/hx"
	"verifharness/mon"
	"verifharness/vt"
)

// =============================================================================
// stall: queue-length changes against a vt peer whose state the harness knows
// exactly — READQ-LEN with the receive queue full and the pipe's receiver parked
// on it, WRITEQ-LEN with the peer stalled (transport Send held) and the send
// queue full.  The library must neither close the transport pipe nor report a
// Detached, and traffic sent afterwards must still get through.
// =============================================================================

func stallPlans(r *mon.Runner) []spec {
	rnd := r.Rand()
	for i := 0; i < 1000; i++ { // decouple from the resize variants' draws
		rnd.Int()
	}
	var out []spec
	nvar := r.Pick(1, 8)
	for _, p := range hx.AllProtos {
		for _, o := range []string{mangos.OptionReadQLen, mangos.OptionWriteQLen} {
			out = append(out, spec{Kind: "stall", Proto: p, Opt: o, Seq: resizeSeq})
			for v := 0; v < nvar; v++ {
				q := make([]int, 4+rnd.Intn(8))
				for i := range q {
					q[i] = []int{1, 1, 2, 2, 3, 4, 5, 8, 16, 128}[rnd.Intn(10)]
				}
				out = append(out, spec{Kind: "stall", Proto: p, Opt: o, Seq: q})
			}
		}
	}
	return out
}

// wireIn builds what a peer of proto's partner type would put on the wire.
func wireIn(proto string, id uint32, body []byte) []byte {
	switch cookedOf(proto) {
	case "pair1", "star":
		return hx.Cat([]byte{0, 0, 0, 0}, body)
	case "rep", "respondent", "req", "surveyor":
		return hx.Cat(be32(id), body)
	}
	return body
}

func runStall(c *mon.Case, sp spec) {
	proto, opt, seq := sp.Proto, sp.Opt, sp.Seq
	label := proto + "/" + opt
	shape := shapeOf(proto)
	s := newSock(c, proto)
	w := watch(s)
	prepPatience(s)
	if err, pan, _ := safeSet(s, opt, 2); pan != nil || err != nil {
		c.Count("resize_option_unsupported", 1)
		return
	}
	if (opt == mangos.OptionReadQLen && shape == "out") || (opt == mangos.OptionWriteQLen && (shape == "in" || shape == "resp")) {
		c.Count("stall_not_driven", 1) // no traffic in that direction without a request to answer
		return
	}
	if proto == "sub" {
		s.SetOption(mangos.OptionSubscribe, []byte{})
	}
	L := vtListen(c, s)
	if L == nil {
		return
	}
	p := L.Connect()
	if !awaitOrInconcl(c, "vt pipe attach", func() bool { return w.nAttached() >= 1 }, mon.AwaitOpts{}) {
		return
	}
	gone := func() bool { return w.nDetached() > 0 || p.LibClosed() }
	prev := stuckPre
	stuckPre = gone
	defer func() { stuckPre = prev }()
	disconnected := func(when string) bool {
		if gone() {
			c.Violate("resize-disconnected:"+label, "%s (vt peer): %s of %s the library closed the transport pipe (LibClosed=%v, Detached events=%d); nothing else closed it", proto, when, opt, p.LibClosed(), w.nDetached())
			return true
		}
		return false
	}
	set := func(v int) bool {
		_, err, ok := blk(c, "resize-set-stuck:"+label, fmt.Sprintf("%s SetOption(%s, %d)", proto, opt, v), func() (interface{}, error) { return nil, s.SetOption(opt, v) })
		if ok && err != nil {
			c.Violate("resize-set-rejected:"+label, "SetOption(%s, %d) returned %v", opt, v, err)
		}
		return ok && err == nil
	}
	parked := 0

	if opt == mangos.OptionReadQLen {
		id := reqID(7)
		if shape == "init" && !isRaw(proto) {
			// replies are only taken for the outstanding survey: learn its id from the wire
			if _, err, ok := blk(c, "resize-setup-stuck:"+label, "Send(survey)", func() (interface{}, error) { return nil, s.Send([]byte("survey")) }); !ok || err != nil {
				return
			}
			if !awaitOrInconcl(c, "survey on the wire", func() bool { return p.SentCount() >= 1 }, mon.AwaitOpts{}) {
				return
			}
			wire := p.SentLog()[0].Wire()
			if len(wire) < 4 {
				c.Inconclusive("harness: short survey on the wire")
				return
			}
			id = uint32(wire[0])<<24 | uint32(wire[1])<<16 | uint32(wire[2])<<8 | uint32(wire[3])
		}
		for i := 0; i < 6; i++ {
			p.Inject(wireIn(proto, id, []byte(fmt.Sprintf("si-%d", i))))
		}
		// known state: everything consumed (lossy receivers) or the receiver parked on the full queue
		if !awaitOrInconcl(c, "inbound traffic settling", func() bool {
			r, _ := p.Waiters()
			return (p.Pending() == 0 && r >= 1) || (r == 0 && receiverParked())
		}, mon.AwaitOpts{}) {
			return
		}
		for i := 0; i < 30; i++ {
			if r, _ := p.Waiters(); r == 0 && receiverParked() {
				parked++
			}
			if !set(seq[i%len(seq)]) {
				return
			}
			p.Inject(wireIn(proto, id, []byte(fmt.Sprintf("si-%d", 6+i))))
		}
		if disconnected("after 30 changes") {
			return
		}
		// sentinel; re-injected whenever nothing is pending (a full best-effort queue may drop it)
		want := []byte("si-sentinel-" + hx.Uniq("m"))
		found := false
		for i := 0; i < 100000 && !found; i++ {
			if p.Pending() == 0 {
				p.Inject(wireIn(proto, id, want))
			}
			v, err, ok := blk(c, "resize-exchange-recv-stuck:"+label, fmt.Sprintf("%s Recv after the %s changes (vt peer keeps a sentinel pending)", proto, opt), func() (interface{}, error) { return s.RecvMsg() })
			if !ok {
				disconnected("after 30 changes")
				return
			}
			if err != nil {
				c.Violate("resize-exchange-recv-error:"+label, "RecvMsg returned %v", err)
				return
			}
			m := v.(*mangos.Message)
			found = bytes.Equal(m.Body, want)
			m.Free()
		}
		if !found {
			c.Inconclusive("no sentinel in 100000 messages")
			return
		}
	} else {
		n := 0
		send := func(b string) func() (interface{}, error) {
			n++
			k := n
			return func() (interface{}, error) {
				if shape == "init" {
					return nil, sendReq(s, proto, k, []byte(b))
				}
				return nil, sendData(s, proto, []byte(b))
			}
		}
		p.HoldSends()
		for i := 0; i < 5; i++ {
			mon.Go("Send", send(fmt.Sprintf("so-%d", i))) // parks when the queue is full: never awaited
		}
		if !awaitOrInconcl(c, "pipe sender stalled in the held transport Send", func() bool { _, sw := p.Waiters(); return sw >= 1 }, mon.AwaitOpts{}) {
			return
		}
		for i := 0; i < 30; i++ {
			parked++
			if !set(seq[i%len(seq)]) {
				return
			}
			mon.Go("Send", send(fmt.Sprintf("so-%d", 5+i)))
		}
		if disconnected("after 30 changes with the peer stalled") {
			return
		}
		p.ReleaseSends()
		seen := func(want []byte) func() bool {
			return func() bool {
				for _, st := range p.SentFrom(0) {
					if bytes.HasSuffix(st.Body, want) {
						return true
					}
				}
				return false
			}
		}
		ok := false
		for attempt := 0; attempt < 2 && !ok; attempt++ {
			want := fmt.Sprintf("so-sentinel-%d-%s", attempt, hx.Uniq("m"))
			if _, err, sok := blk(c, "resize-exchange-send-stuck:"+label, proto+" Send after the peer resumed", send(want)); !sok || err != nil {
				if sok {
					c.Violate("resize-exchange-send-error:"+label, "Send returned %v", err)
				} else {
					disconnected("after 30 changes")
				}
				return
			}
			r := mon.Await(seen([]byte(want)), mon.AwaitOpts{})
			switch r.V {
			case mon.Done:
				ok = true
			case mon.Inconclusive:
				c.Inconclusive("sentinel neither transmitted nor process quiescent")
				return
			default:
				// quiescent: the queues are empty now, so a best-effort drop cannot
				// excuse the second attempt
				if disconnected("after 30 changes") {
					return
				}
				if attempt == 1 {
					c.Violate("resize-exchange-never-transmitted:"+label, "%s (vt peer): after the %s changes and the peer resuming, two messages sent into an idle socket were never transmitted (%d transmissions in all)\n%s", proto, opt, p.SentCount(), r.Dump)
					return
				}
			}
		}
	}
	c.Count("resizes", 30)
	c.Count("resizes_with_known_parked_pipe_goroutine", parked)
	c.Nontrivial()
	c.Sig("stall|%s|%s|%v|%d", proto, opt, seq, parked)
	_ = vt.Addr
}
