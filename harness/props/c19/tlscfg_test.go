//go:build verif

package c19

import (
	"bytes"
	"crypto/ecdsa"
	"crypto/elliptic"
	crand "crypto/rand"
	"crypto/tls"
	"crypto/x509"
	"crypto/x509/pkix"
	"fmt"
	"math/big"
	"math/rand"
	"net"
	"strings"
	"sync"
	"sync/atomic"
	"time"

	"go.nanomsg.org/mangos/v3"

	"verifharness/hx"
	"verifharness/mon"
)

// =============================================================================
// tlscfg: an accepted TLS-CONFIG is what Get returns and what then takes effect
// =============================================================================
//
// Every way crypto/tls lets a configuration supply what its side needs is a
// TLS-CONFIG value the endpoints accept (SetOption cannot tell them apart: the
// value is a *tls.Config).  The case sets one on a listener and one on a dialer
// of a TLS transport, by every route the API offers (options map at creation,
// SetOption afterwards, SetOption replacing an earlier value, socket-level
// ListenOptions/DialOptions), and then demands that exactly this value is in
// effect: Get returns the same pointer, Listen succeeds, a dial completes the
// handshake, the callbacks of the accepted configurations were consulted (a lower
// bound on a counter, read after the handshake is known complete), the
// certificate the client saw is the one the accepted server configuration
// supplies, and the connection carries messages in every direction the pattern
// offers.
//
// server shapes: static (Certificates), getcert (GetCertificate only), both,
//                getconfig (GetConfigForClient only — recorded, see below)
// client shapes: rootcas (RootCAs), verifycb (InsecureSkipVerify + VerifyConnection)

var tlsTrans = []string{"tls+tcp", "wss"}

func tlscfgPlans(r *mon.Runner, rnd *rand.Rand) []spec {
	var out []spec
	protos := []string{"pair", "push", "pull", "pub", "sub", "req", "rep", "bus", "surveyor", "respondent", "xpair", "xreq", "xrep", "star", "pair1"}
	reps := r.Pick(1, 5)
	for rep := 0; rep < reps; rep++ {
		for _, tr := range tlsTrans {
			for _, shape := range []string{"static", "getcert", "both"} {
				for _, how := range []string{"create", "set", "replace", "sockopt"} {
					out = append(out, spec{Kind: "tlscfg", Tran: tr, Opt: shape, Phase: how,
						Proto: protos[rnd.Intn(len(protos))],
						Cli:   []string{"rootcas", "verifycb"}[rnd.Intn(2)],
						Dir:   []string{"create", "set", "replace", "sockopt"}[rnd.Intn(4)]})
				}
			}
			if rep == 0 {
				out = append(out, spec{Kind: "tlscfg", Tran: tr, Opt: "getconfig", Phase: "set", Proto: "pair", Cli: "rootcas", Dir: "create"})
			}
		}
	}
	return out
}

type pkiT struct {
	pool *x509.CertPool
	leaf [2]tls.Certificate
	der  [2][]byte
}

var pkiOnce sync.Once
var pkiV pkiT

// pki: a throw-away CA and two leaf certificates for the loopback addresses the harness binds.
func pki() *pkiT {
	pkiOnce.Do(func() {
		caKey, _ := ecdsa.GenerateKey(elliptic.P256(), crand.Reader)
		caT := &x509.Certificate{SerialNumber: big.NewInt(1), Subject: pkix.Name{CommonName: "c19-ca"},
			NotBefore: time.Now().Add(-time.Hour), NotAfter: time.Now().Add(240 * time.Hour),
			IsCA: true, KeyUsage: x509.KeyUsageCertSign | x509.KeyUsageDigitalSignature, BasicConstraintsValid: true}
		caDER, _ := x509.CreateCertificate(crand.Reader, caT, caT, &caKey.PublicKey, caKey)
		caCert, _ := x509.ParseCertificate(caDER)
		pkiV.pool = x509.NewCertPool()
		pkiV.pool.AddCert(caCert)
		for i := 0; i < 2; i++ {
			key, _ := ecdsa.GenerateKey(elliptic.P256(), crand.Reader)
			t := &x509.Certificate{SerialNumber: big.NewInt(int64(10 + i)), Subject: pkix.Name{CommonName: fmt.Sprintf("c19-leaf-%d", i)},
				NotBefore: time.Now().Add(-time.Hour), NotAfter: time.Now().Add(240 * time.Hour),
				KeyUsage: x509.KeyUsageDigitalSignature, ExtKeyUsage: []x509.ExtKeyUsage{x509.ExtKeyUsageServerAuth, x509.ExtKeyUsageClientAuth},
				IPAddresses: []net.IP{net.ParseIP("127.0.0.1"), net.ParseIP(hx.OwnIP())}, DNSNames: []string{"localhost"}}
			der, _ := x509.CreateCertificate(crand.Reader, t, caCert, &key.PublicKey, caKey)
			pkiV.leaf[i] = tls.Certificate{Certificate: [][]byte{der}, PrivateKey: key}
			pkiV.der[i] = der
		}
	})
	return &pkiV
}

// srvConfig builds a fresh server configuration of the given shape serving leaf
// certificate which; calls counts the invocations of its callback.
func srvConfig(shape string, which int, calls *atomic.Int64) *tls.Config {
	k := pki()
	cert := k.leaf[which]
	cfg := &tls.Config{MinVersion: tls.VersionTLS12}
	getcert := func(*tls.ClientHelloInfo) (*tls.Certificate, error) {
		calls.Add(1)
		return &cert, nil
	}
	switch shape {
	case "static":
		cfg.Certificates = []tls.Certificate{cert}
	case "getcert":
		cfg.GetCertificate = getcert
	case "both":
		cfg.Certificates = []tls.Certificate{cert}
		cfg.GetCertificate = getcert
	case "getconfig":
		inner := &tls.Config{MinVersion: tls.VersionTLS12, Certificates: []tls.Certificate{cert}}
		cfg.GetConfigForClient = func(*tls.ClientHelloInfo) (*tls.Config, error) {
			calls.Add(1)
			return inner, nil
		}
	default:
		panic("server shape " + shape)
	}
	return cfg
}

// cliConfig builds a fresh client configuration; good=false gives one that cannot
// verify the harness CA (used as the value that a later SetOption replaces).
func cliConfig(shape string, good bool, calls *atomic.Int64, seen *atomic.Value) *tls.Config {
	k := pki()
	if !good {
		return &tls.Config{RootCAs: x509.NewCertPool(), ServerName: "127.0.0.1", MinVersion: tls.VersionTLS12}
	}
	switch shape {
	case "rootcas":
		return &tls.Config{RootCAs: k.pool, ServerName: "127.0.0.1", MinVersion: tls.VersionTLS12}
	case "verifycb":
		return &tls.Config{InsecureSkipVerify: true, ServerName: "127.0.0.1", MinVersion: tls.VersionTLS12,
			VerifyConnection: func(cs tls.ConnectionState) error {
				calls.Add(1)
				if len(cs.PeerCertificates) > 0 {
					seen.Store(append([]byte{}, cs.PeerCertificates[0].Raw...))
				}
				return nil
			}}
	}
	panic("client shape " + shape)
}

// fixedPortAddr replaces the ":0" of an ephemeral listen address by a concrete free port.
func fixedPortAddr(addr string) (string, error) {
	nl, err := net.Listen("tcp", hx.OwnIP()+":0")
	if err != nil {
		return "", err
	}
	port := nl.Addr().(*net.TCPAddr).Port
	nl.Close()
	if !strings.Contains(addr, ":0") {
		return "", fmt.Errorf("no ephemeral port in %s", addr)
	}
	return strings.Replace(addr, ":0", fmt.Sprintf(":%d", port), 1), nil
}

func errName(err error) string {
	switch err {
	case mangos.ErrTLSNoCert:
		return "ErrTLSNoCert"
	case mangos.ErrTLSNoConfig:
		return "ErrTLSNoConfig"
	case mangos.ErrBadValue:
		return "ErrBadValue"
	case mangos.ErrBadOption:
		return "ErrBadOption"
	}
	return "other"
}

func tlsFailure(err error) bool {
	s := err.Error()
	return strings.Contains(s, "tls:") || strings.Contains(s, "x509:")
}

func runTLSCfg(c *mon.Case, sp spec) {
	tr, shape, how, proto := sp.Tran, sp.Opt, sp.Phase, sp.Proto
	cshape, chow := sp.Cli, sp.Dir
	pproto := hxPeer(proto)
	llabel := fmt.Sprintf("listener.%s/TLS-CONFIG=%s", tr, shape)
	dlabel := fmt.Sprintf("dialer.%s/TLS-CONFIG=%s", tr, cshape)
	desc := fmt.Sprintf("%s listener of a %s socket, TLS-CONFIG of shape %q given by %q; %s dialer config %q given by %q", tr, proto, shape, how, pproto, cshape, chow)

	lk := &link{}
	lk.S, lk.P = newSock(c, proto), newSock(c, pproto)
	lk.SW, lk.PW = watch(lk.S), watch(lk.P)
	prepPatience(lk.S)
	prepPatience(lk.P)
	lk.P.SetOption(mangos.OptionReconnectTime, time.Hour)

	var scalls, oldcalls, ccalls atomic.Int64
	var seen atomic.Value
	wantLeaf := 0
	if how == "replace" {
		wantLeaf = 1 // the replaced value serves leaf 0, the value in effect leaf 1
	}
	scfg := srvConfig(shape, wantLeaf, &scalls)
	addr := hx.ListenAddr(tr)

	// ---- the listening side ----
	var l mangos.Listener
	var err error
	setL := func() bool {
		serr, pan, st := safeSet(l, mangos.OptionTLSConfig, scfg)
		if pan != nil {
			c.Violate("opt-panic:"+llabel, "%s: SetOption(TLS-CONFIG) panicked: %v\n%s", desc, pan, trimStack(st))
			return false
		}
		if serr != nil {
			c.Violate("opt-good-rejected:"+llabel, "%s: SetOption(TLS-CONFIG, *tls.Config) returned %v", desc, serr)
			return false
		}
		return true
	}
	var lerr error
	switch how {
	case "create":
		l, err = lk.S.NewListener(addr, map[string]interface{}{mangos.OptionTLSConfig: scfg})
	case "set":
		if l, err = lk.S.NewListener(addr, nil); err == nil && !setL() {
			return
		}
	case "replace":
		old := srvConfig("static", 0, &oldcalls)
		if l, err = lk.S.NewListener(addr, map[string]interface{}{mangos.OptionTLSConfig: old}); err == nil && !setL() {
			return
		}
	case "sockopt":
		// no listener object to ask for the bound address: a port that was free a moment ago on
		// this process's own loopback address (losing it to somebody else is inconclusive)
		if addr, err = fixedPortAddr(addr); err == nil {
			lerr = lk.S.ListenOptions(addr, map[string]interface{}{mangos.OptionTLSConfig: scfg})
		}
	default:
		panic("how " + how)
	}
	if err != nil {
		if err == mangos.ErrBadValue || err == mangos.ErrBadOption {
			c.Violate("opt-good-rejected:"+llabel, "%s: NewListener with the option returned %v", desc, err)
		} else {
			c.Inconclusive("harness: NewListener(%s): %v", tr, err)
		}
		return
	}
	if l != nil {
		got, gerr, pan, _ := safeGet(l, mangos.OptionTLSConfig)
		if pan != nil || gerr != nil {
			c.Violate("opt-odd-error:"+llabel+"/get", "%s: GetOption(TLS-CONFIG) after the accepted value: (%v, panic %v)", desc, gerr, pan)
			return
		}
		if g, ok := got.(*tls.Config); !ok || g != scfg {
			c.Violate("opt-roundtrip:"+llabel, "%s: GetOption(TLS-CONFIG) returned %T %p, want the accepted *tls.Config %p", desc, got, got, scfg)
			return
		}
		c.Count("tlscfg_get_after_set_compared", 1)
		lerr = l.Listen()
	}
	switch {
	case lerr == nil:
	case lerr == mangos.ErrTLSNoCert || lerr == mangos.ErrTLSNoConfig:
		if shape == "getconfig" {
			// neither TLS transport counts GetConfigForClient as a source of certificates; the
			// designated error at Listen is taken as the documented answer — recorded only
			c.Count("tlscfg_getconfig_only_refused_at_listen", 1)
			c.Sig("tlscfg|%s|%s|refused:%s", tr, shape, errName(lerr))
			return
		}
		c.Violate("effect:"+llabel+"/listen-refused:"+errName(lerr),
			"%s: the value was accepted (and Get returns it) but Listen returned %v — the configuration supplies its server certificate (%s) and crypto/tls serves with it",
			desc, lerr, map[string]string{"static": "Certificates", "getcert": "GetCertificate callback, no static Certificates", "both": "Certificates and GetCertificate"}[shape])
		return
	case lerr == mangos.ErrBadValue || lerr == mangos.ErrBadOption:
		c.Violate("opt-good-rejected:"+llabel, "%s: ListenOptions with the option returned %v", desc, lerr)
		return
	default:
		c.Inconclusive("harness: Listen(%s): %v", tr, lerr)
		return
	}
	if l != nil {
		addr = l.Address()
	}

	// ---- the dialing side ----
	ccfg := cliConfig(cshape, true, &ccalls, &seen)
	var d mangos.Dialer
	setD := func() bool {
		serr, pan, st := safeSet(d, mangos.OptionTLSConfig, ccfg)
		if pan != nil {
			c.Violate("opt-panic:"+dlabel, "%s: dialer SetOption(TLS-CONFIG) panicked: %v\n%s", desc, pan, trimStack(st))
			return false
		}
		if serr != nil {
			c.Violate("opt-good-rejected:"+dlabel, "%s: dialer SetOption(TLS-CONFIG, *tls.Config) returned %v", desc, serr)
			return false
		}
		return true
	}
	var dial func() error
	switch chow {
	case "create":
		d, err = lk.P.NewDialer(addr, map[string]interface{}{mangos.OptionTLSConfig: ccfg})
	case "set":
		if d, err = lk.P.NewDialer(addr, nil); err == nil && !setD() {
			return
		}
	case "replace":
		if d, err = lk.P.NewDialer(addr, map[string]interface{}{mangos.OptionTLSConfig: cliConfig(cshape, false, nil, nil)}); err == nil && !setD() {
			return
		}
	case "sockopt":
		dial = func() error { return lk.P.DialOptions(addr, map[string]interface{}{mangos.OptionTLSConfig: ccfg}) }
	default:
		panic("client how " + chow)
	}
	if err != nil {
		c.Inconclusive("harness: NewDialer(%s): %v", addr, err)
		return
	}
	if d != nil {
		got, gerr, pan, _ := safeGet(d, mangos.OptionTLSConfig)
		if pan != nil || gerr != nil {
			c.Violate("opt-odd-error:"+dlabel+"/get", "%s: dialer GetOption(TLS-CONFIG) after the accepted value: (%v, panic %v)", desc, gerr, pan)
			return
		}
		if g, ok := got.(*tls.Config); !ok || g != ccfg {
			c.Violate("opt-roundtrip:"+dlabel, "%s: dialer GetOption(TLS-CONFIG) returned %T %p, want the accepted *tls.Config %p", desc, got, got, ccfg)
			return
		}
		c.Count("tlscfg_get_after_set_compared", 1)
		dial = d.Dial
	}
	call := mon.Go("Dial", func() (interface{}, error) { return nil, dial() })
	if !c.AwaitOrViolate("effect:"+llabel+"/dial-stuck", desc+": synchronous Dial", call.Done, mon.AwaitOpts{}) {
		return
	}
	if _, derr, _ := call.Result(); derr != nil {
		if tlsFailure(derr) {
			c.Violate("effect:"+llabel+"/handshake-failed", "%s: both sides' TLS-CONFIG were accepted, the client trusts the CA of the certificate the server configuration supplies, but Dial returned %v", desc, derr)
		} else {
			c.Inconclusive("harness: Dial(%s): %v", addr, derr)
		}
		return
	}
	if !awaitOrInconcl(c, "TLS connection attaching on both sides", func() bool { return lk.SW.nAttached() >= 1 && lk.PW.nAttached() >= 1 }, mon.AwaitOpts{}) {
		return
	}
	c.Count("tlscfg_handshakes_completed", 1)

	// ---- the accepted values are the ones in effect ----
	// (the handshake is complete on both sides: the pipes are attached)
	if shape == "getcert" || shape == "getconfig" {
		if scalls.Load() < 1 {
			c.Violate("effect:"+llabel+"/callback-not-used", "%s: the handshake completed but the callback of the accepted server configuration was never called", desc)
			return
		}
		c.Count("tlscfg_server_callbacks_seen", int(scalls.Load()))
	}
	if how == "replace" && oldcalls.Load() > 0 {
		c.Violate("effect:"+llabel+"/replaced-value-used", "%s: the callback of the configuration that SetOption replaced was called", desc)
		return
	}
	if cshape == "verifycb" {
		if ccalls.Load() < 1 {
			c.Violate("effect:"+dlabel+"/callback-not-used", "%s: the handshake completed but VerifyConnection of the accepted client configuration was never called", desc)
			return
		}
		c.Count("tlscfg_client_callbacks_seen", int(ccalls.Load()))
	}
	// the certificate the client saw: from its own callback, else from the pipe's TLS-CONN-STATE
	var peerDER []byte
	if v := seen.Load(); v != nil {
		peerDER = v.([]byte)
	} else if pp := lk.PW.first(); pp != nil {
		if v, gerr, pan, _ := safeGet(pp, mangos.OptionTLSConnState); pan == nil && gerr == nil {
			if cs, ok := v.(tls.ConnectionState); ok && len(cs.PeerCertificates) > 0 {
				peerDER = cs.PeerCertificates[0].Raw
			}
		}
	}
	if peerDER != nil {
		c.Count("tlscfg_served_certificates_compared", 1)
		if !bytes.Equal(peerDER, pki().der[wantLeaf]) {
			which := "an unknown certificate"
			if bytes.Equal(peerDER, pki().der[1-wantLeaf]) {
				which = "the certificate of the configuration that was replaced"
			}
			c.Violate("effect:"+llabel+"/wrong-certificate-served", "%s: the client was shown %s, not the one the accepted configuration supplies", desc, which)
			return
		}
	}

	// ---- and the connection works ----
	if cookedOf(proto) == "sub" {
		lk.S.SetOption(mangos.OptionSubscribe, []byte{})
	}
	if cookedOf(pproto) == "sub" {
		lk.P.SetOption(mangos.OptionSubscribe, []byte{})
	}
	if shapeOf(proto) == "init" {
		echoPeer(lk.P, pproto, 1)
	}
	restore := lk.watchDetach()
	ok := exchange(c, "tlscfg-exchange", llabel, lk, proto, pproto)
	restore()
	if d1, d2 := lk.SW.nDetached(), lk.PW.nDetached(); d1+d2 > 0 {
		c.Violate("tlscfg-disconnected:"+llabel, "%s: the pipe event hooks saw %d+%d Detached events although nothing was closed", desc, d1, d2)
		return
	}
	if !ok {
		return
	}
	c.Nontrivial()
	c.Sig("tlscfg|%s|%s|%s|%s|%s|%s|srvcb=%v|clicb=%v", tr, shape, how, cshape, chow, proto, scalls.Load() > 0, ccalls.Load() > 0)
}
