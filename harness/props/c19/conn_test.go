//go:build verif

package c19

import (
	"fmt"
	"os"
	"strings"
	"sync"
	"time"

	"go.nanomsg.org/mangos/v3"

	"verifharness/hx"
	"verifharness/mon"
)

// pipeLog records pipe events of one socket (attach order and detaches).
type pipeLog struct {
	mu       sync.Mutex
	attached []mangos.Pipe
	detached []mangos.Pipe
}

func watch(s mangos.Socket) *pipeLog {
	w := &pipeLog{}
	s.SetPipeEventHook(func(ev mangos.PipeEvent, p mangos.Pipe) {
		w.mu.Lock()
		switch ev {
		case mangos.PipeEventAttached:
			w.attached = append(w.attached, p)
		case mangos.PipeEventDetached:
			w.detached = append(w.detached, p)
		}
		w.mu.Unlock()
	})
	return w
}

func (w *pipeLog) nAttached() int { w.mu.Lock(); defer w.mu.Unlock(); return len(w.attached) }
func (w *pipeLog) nDetached() int { w.mu.Lock(); defer w.mu.Unlock(); return len(w.detached) }
func (w *pipeLog) first() mangos.Pipe {
	w.mu.Lock()
	defer w.mu.Unlock()
	if len(w.attached) == 0 {
		return nil
	}
	return w.attached[0]
}

// link is a socket under test S connected to one peer P over a real transport.
type link struct {
	S, P   mangos.Socket
	SW, PW *pipeLog
	L      mangos.Listener // on the listening side
	D      mangos.Dialer   // on the dialing side
	SDials bool
}

// newSock opens a socket, closed at case end.  The Close runs under the stuck
// detector: a socket the case has shown to be wedged (lock left held) must not
// hang the runner's cleanup; its Close goroutine is abandoned, parked.
func newSock(c *mon.Case, proto string) mangos.Socket {
	f, ok := hx.SockCtors[proto]
	if !ok {
		panic("unknown protocol " + proto)
	}
	s, err := f()
	if err != nil {
		panic(err)
	}
	c.Cleanup(func() { safeClose(c, proto, s) })
	return s
}

func safeClose(c *mon.Case, proto string, s mangos.Socket) {
	call := mon.Go("Close", func() (interface{}, error) { return nil, s.Close() })
	r := call.Wait(mon.AwaitOpts{Watchdog: 30 * time.Second})
	if r.V != mon.Done {
		c.Count("sockets_abandoned_close_stuck", 1)
		c.Logf("cleanup: %s Close did not return (%v) — abandoned", proto, r.V)
	}
}

// connect builds S (proto) and P (peer protocol) and connects them over tr.
// S listens unless sDials.  Redials are pushed out of the case's lifetime (1h)
// so that a disconnect provoked by the code under test stays visible.
func connect(c *mon.Case, proto, peerProto, tr string, sDials bool) *link {
	lk := &link{SDials: sDials}
	lk.S = newSock(c, proto)
	lk.P = newSock(c, peerProto)
	lk.SW = watch(lk.S)
	lk.PW = watch(lk.P)
	srv, cli := lk.S, lk.P
	if sDials {
		srv, cli = lk.P, lk.S
	}
	if err := cli.SetOption(mangos.OptionReconnectTime, time.Hour); err != nil {
		c.Inconclusive("harness: cannot set reconnect time on %s: %v", proto, err)
		return nil
	}
	l, d, err := hx.Connect(srv, cli, tr)
	for try := 0; err != nil && try < 4 && portPressure(err); try++ {
		// the machine ran out of ephemeral ports (TIME_WAIT from everybody's
		// connections): give it a moment — pacing, the outcome stays inconclusive
		mon.Sleep(400 * time.Millisecond)
		l, d, err = hx.Connect(srv, cli, tr)
	}
	if err != nil {
		c.Inconclusive("harness: connect %s<->%s over %s: %v", proto, peerProto, tr, err)
		return nil
	}
	lk.L, lk.D = l, d
	ok := awaitOrInconcl(c, fmt.Sprintf("%s<->%s over %s attaching on both sides", proto, peerProto, tr),
		func() bool { return lk.SW.nAttached() >= 1 && lk.PW.nAttached() >= 1 }, mon.AwaitOpts{MaxTimer: 200 * time.Millisecond})
	if !ok {
		return nil
	}
	return lk
}

func portPressure(err error) bool {
	s := err.Error()
	return strings.Contains(s, "address already in use") || strings.Contains(s, "cannot assign requested address")
}

// rawPeerOf: a raw peer that can push traffic at / echo traffic of S freely.
var rawPeerOf = map[string]string{
	"rep": "xreq", "xrep": "xreq", "respondent": "xsurveyor", "xrespondent": "xsurveyor",
	"req": "xrep", "xreq": "xrep", "surveyor": "xrespondent", "xsurveyor": "xrespondent",
}

// dbg prints timing traces when C19_DEBUG is set (development aid only).
func dbg(format string, a ...interface{}) {
	if os.Getenv("C19_DEBUG") != "" {
		fmt.Fprintf(os.Stderr, "%9.3fms "+format+"\n", append([]interface{}{float64(mon.Now().Microseconds()) / 1000}, a...)...)
	}
}
