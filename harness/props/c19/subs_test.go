//go:build verif

package c19

import (
	"fmt"
	"math/rand"
	"sort"
	"strings"
	"time"

	"go.nanomsg.org/mangos/v3"

	"verifharness/hx"
	"verifharness/mon"
	"verifharness/vt"
)

// =============================================================================
// subs: accepted SUBSCRIBE / UNSUBSCRIBE values take effect as documented
// =============================================================================
//
// SUBSCRIBE and UNSUBSCRIBE are settable but not gettable, so "an accepted value
// takes effect as documented" is all there is to observe: "The application will
// receive messages that start with this prefix.  Multiple subscriptions may be in
// effect ... will not receive messages that do not match any current
// subscription"; UNSUBSCRIBE takes "a previously established subscription, which
// will be removed".  The model is therefore a plain set of topics per receiver
// (the SUB socket itself and each of its contexts has its own): an accepted
// SUBSCRIBE adds exactly its topic, UNSUBSCRIBE of a member is accepted and
// removes exactly that member, UNSUBSCRIBE of a non-member is a bad value.
//
// The script is drawn from the case seed over a universe in which topics are
// prefixes of one another (including the empty prefix and self-overlapping words)
// next to unrelated ones, values are given as []byte (scribbled over after the
// call) or string, and ends by removing every member one by one.  After every
// option call a probe batch (one message below every topic of the universe, one
// equal to a topic, one unrelated) followed by a sentinel under a dedicated,
// always-present subscription travels over the one connection; every receiver
// must deliver exactly the probes its own set matches, in order, then the
// sentinel (absence by FIFO + sentinel; batch of at most 11 << queue of 128).

func subsPlans(r *mon.Runner, rnd *rand.Rand) []spec {
	var out []spec
	n := r.Pick(40, 240)
	for i := 0; i < n; i++ {
		sp := spec{Kind: "subs", Seed: 1 + rnd.Int63n(1<<40), K: i % 4}
		switch {
		case r.Thorough() && i%3 == 2:
			sp.Tran = hx.Transports[(i/3)%len(hx.Transports)]
		case !r.Thorough() && i%6 == 5:
			sp.Tran = "inproc"
		}
		out = append(out, sp)
	}
	return out
}

type subOptRecv interface {
	Recv() ([]byte, error)
	SetOption(string, interface{}) error
}

type subRx struct {
	label   string // signature label: sub | sub.ctx
	name    string // witness name
	rx      subOptRecv
	set     map[string]bool // model: the subscriptions in effect
	covered map[string]bool // member was subscribed while a proper prefix of it was a member
}

func (r *subRx) matches(body string) bool {
	for t := range r.set {
		if strings.HasPrefix(body, t) {
			return true
		}
	}
	return false
}

func (r *subRx) members() []string {
	var m []string
	for t := range r.set {
		m = append(m, t)
	}
	sort.Strings(m)
	return m
}

func (r *subRx) hasProperPrefixOf(t string) bool {
	for m := range r.set {
		if len(m) < len(t) && strings.HasPrefix(t, m) {
			return true
		}
	}
	return false
}

const subSentinelTopic = "~S~"

func runSubs(c *mon.Case, sp spec) {
	rnd := rand.New(rand.NewSource(sp.Seed))

	// ---- the topic universe ----
	words := []string{"news.sport.f1", "abcabc", "aaaa", "\x00\x00\x01\xff", "t/1/22", "ABab"}
	word := words[rnd.Intn(len(words))]
	cutset := map[int]bool{}
	if rnd.Intn(3) == 0 {
		cutset[0] = true // the empty prefix: everything
	}
	for want := 2 + rnd.Intn(3); len(cutset) < want; {
		cutset[1+rnd.Intn(len(word))] = true
	}
	var chain []string
	for k := range cutset {
		chain = append(chain, word[:k])
	}
	sort.Slice(chain, func(i, j int) bool { return len(chain[i]) < len(chain[j]) })
	universe := append([]string{}, chain...)
	universe = append(universe, []string{"b", "zz"}[:1+rnd.Intn(2)]...)

	// ---- the socket, its receivers, the connection ----
	s := newSock(c, "sub")
	w := watch(s)
	var rxs []*subRx
	addCtx := func(i int) bool {
		cx, err := s.OpenContext()
		if err != nil {
			c.Violate("ctx-open-failed:sub", "sub.OpenContext: %v", err)
			return false
		}
		c.Cleanup(func() { cx.Close() })
		rxs = append(rxs, &subRx{label: "sub.ctx", name: fmt.Sprintf("ctx%d", i), rx: cx})
		return true
	}
	sockRx := &subRx{label: "sub", name: "socket", rx: s}
	switch sp.K {
	case 0:
		rxs = append(rxs, sockRx)
	case 1:
		if !addCtx(1) {
			return
		}
	case 2:
		if !addCtx(1) || !addCtx(2) {
			return
		}
	default:
		rxs = append(rxs, sockRx)
		if !addCtx(1) {
			return
		}
	}
	for _, r := range rxs {
		r.set, r.covered = map[string]bool{}, map[string]bool{}
	}
	var feed func(body []byte) bool
	if sp.Tran == "" {
		name := hx.Uniq("c19sub")
		L := vt.L(name)
		c.Cleanup(func() { vt.Forget(name) })
		if err := s.Listen(vt.Addr(name)); err != nil {
			c.Inconclusive("harness: listen vt: %v", err)
			return
		}
		p := L.Connect()
		if !awaitOrInconcl(c, "vt pipe attach", func() bool { return w.nAttached() >= 1 }, mon.AwaitOpts{}) {
			return
		}
		feed = func(b []byte) bool { p.Inject(b); return true }
	} else {
		pub := newSock(c, "pub")
		pw := watch(pub)
		pub.SetOption(mangos.OptionReconnectTime, time.Hour)
		if _, _, err := hx.Connect(s, pub, sp.Tran); err != nil {
			c.Inconclusive("harness: connect sub<->pub over %s: %v", sp.Tran, err)
			return
		}
		if !awaitOrInconcl(c, "sub<->pub attaching", func() bool { return w.nAttached() >= 1 && pw.nAttached() >= 1 }, mon.AwaitOpts{}) {
			return
		}
		feed = func(b []byte) bool {
			if err := pub.Send(b); err != nil {
				c.Inconclusive("harness: pub Send: %v", err)
				return false
			}
			return true
		}
	}

	var hist []string
	history := func() string {
		h := hist
		if len(h) > 24 {
			h = append([]string{"..."}, h[len(h)-24:]...)
		}
		return strings.Join(h, " ")
	}
	nOps, nProbes, nCompared, nNested, nAbsent, nPrefixRemoved := 0, 0, 0, 0, 0, 0
	lastOp := "start"

	// do performs one option call on r and checks its outcome against the model.
	do := func(r *subRx, unsub bool, topic string) bool {
		opt, opName := mangos.OptionSubscribe, "subscribe"
		if unsub {
			opt, opName = mangos.OptionUnsubscribe, "unsubscribe"
		}
		var val interface{} = topic
		var scratch []byte
		form := "string"
		if rnd.Intn(2) == 0 {
			scratch = []byte(topic)
			val, form = scratch, "[]byte"
		}
		hist = append(hist, fmt.Sprintf("%s.%s(%q)", r.name, map[bool]string{false: "SUB", true: "UNSUB"}[unsub], topic))
		err, pan, st := safeSet(r.rx, opt, val)
		for i := range scratch {
			scratch[i] = '#' // the caller's buffer is the caller's again
		}
		nOps++
		lastOp = opName
		if pan != nil {
			c.Violate(fmt.Sprintf("opt-panic:%s/%s", r.label, opt), "%s: SetOption(%s, %s %q) panicked: %v\n%s\nscript: %s", r.name, opt, form, topic, pan, trimStack(st), history())
			return false
		}
		member := r.set[topic]
		switch {
		case !unsub:
			if err != nil {
				c.Violate("subs-subscribe-rejected:"+r.label, "%s: SetOption(SUBSCRIBE, %s %q) returned %v; subscriptions in effect %q\nscript: %s", r.name, form, topic, err, r.members(), history())
				return false
			}
			if !member {
				if r.hasProperPrefixOf(topic) {
					r.covered[topic] = true
					nNested++
				}
				r.set[topic] = true
			}
		case member:
			if err != nil {
				sig := "subs-unsubscribe-rejected:" + r.label
				how := ""
				if r.covered[topic] {
					sig += "/subscribed-under-a-shorter-prefix"
					how = " (it was subscribed, and accepted, while a shorter prefix of it was subscribed)"
				}
				c.Violate(sig, "%s: SetOption(UNSUBSCRIBE, %s %q) returned %v although %q is an established subscription%s; subscriptions in effect %q\nscript: %s",
					r.name, form, topic, err, topic, how, r.members(), history())
				return false
			}
			delete(r.set, topic)
			delete(r.covered, topic)
			for m := range r.set {
				if len(m) > len(topic) && strings.HasPrefix(m, topic) {
					nPrefixRemoved++
					break
				}
			}
		default:
			if err == nil {
				c.Violate("subs-unsubscribe-absent-accepted:"+r.label, "%s: SetOption(UNSUBSCRIBE, %s %q) returned nil although no such subscription is established; subscriptions in effect %q\nscript: %s", r.name, form, topic, r.members(), history())
				return false
			}
			if err != mangos.ErrBadValue {
				c.Violate("opt-odd-error:"+r.label+"/UNSUBSCRIBE", "%s: SetOption(UNSUBSCRIBE, %s %q) of a subscription that is not established returned %v, want ErrBadValue", r.name, form, topic, err)
				return false
			}
			nAbsent++
		}
		return true
	}

	// probe sends one batch + sentinel and compares what every receiver delivers.
	round := 0
	probe := func() bool {
		round++
		var bodies []string
		for _, t := range universe {
			bodies = append(bodies, fmt.Sprintf("%s|%d", t, round))
		}
		bodies = append(bodies, universe[rnd.Intn(len(universe))]) // a body equal to a topic (possibly empty)
		bodies = append(bodies, fmt.Sprintf("q|%d", round))        // below no topic but the empty one
		rnd.Shuffle(len(bodies), func(i, j int) { bodies[i], bodies[j] = bodies[j], bodies[i] })
		sentinel := fmt.Sprintf("%s|%d", subSentinelTopic, round)
		for _, b := range bodies {
			if !feed([]byte(b)) {
				return false
			}
		}
		if !feed([]byte(sentinel)) {
			return false
		}
		nProbes += len(bodies) + 1
		for _, r := range rxs {
			var want, got []string
			for _, b := range bodies {
				if r.matches(b) {
					want = append(want, b)
				}
			}
			sawSentinel := false
			for i := 0; i < len(bodies)+1; i++ {
				v, err, ok := blk(c, "subs-recv-stuck:"+r.label,
					fmt.Sprintf("%s Recv #%d after %s (subscriptions in effect %q plus the sentinel topic; delivered so far %q; script: %s)", r.name, i+1, lastOp, r.members(), got, history()),
					func() (interface{}, error) { return r.rx.Recv() })
				if !ok {
					return false
				}
				if err != nil {
					c.Violate("subs-recv-error:"+r.label, "%s: Recv returned %v", r.name, err)
					return false
				}
				if b := string(v.([]byte)); b == sentinel {
					sawSentinel = true
					break
				} else {
					got = append(got, b)
				}
			}
			nCompared += len(got)
			if sameStrings(got, want) && sawSentinel {
				continue
			}
			ctxt := fmt.Sprintf("%s after %s: subscriptions in effect %q; probe batch %q; delivered %q, want %q\nscript: %s", r.name, lastOp, r.members(), bodies, got, want, history())
			if m := firstNotIn(want, got); m != "" {
				c.Violate(fmt.Sprintf("subs-missing:%s/after-%s", r.label, lastOp), "message %q matches an established subscription but was not delivered — %s", m, ctxt)
			} else if m := firstNotIn(got, want); m != "" || !sawSentinel {
				c.Violate(fmt.Sprintf("subs-unexpected:%s/after-%s", r.label, lastOp), "message %q was delivered although it matches no current subscription — %s", m, ctxt)
			} else {
				c.Violate("subs-order:"+r.label, "deliveries out of order or duplicated — %s", ctxt)
			}
			return false
		}
		return true
	}

	finish := func() {
		c.Count("subs_option_calls", nOps)
		c.Count("subs_probe_messages_sent", nProbes)
		c.Count("subs_deliveries_compared", nCompared)
		c.Count("subs_subscribes_extending_a_member", nNested)
		c.Count("subs_unsubscribes_of_a_prefix_of_a_member", nPrefixRemoved)
		c.Count("subs_unsubscribe_absent_refused", nAbsent)
	}
	defer finish()

	// the sentinel subscription comes first on every receiver and stays
	for _, r := range rxs {
		if err := r.rx.SetOption(mangos.OptionSubscribe, []byte(subSentinelTopic)); err != nil {
			c.Violate("subs-subscribe-rejected:"+r.label, "%s: SetOption(SUBSCRIBE, %q) returned %v", r.name, subSentinelTopic, err)
			return
		}
	}
	if !probe() {
		return
	}
	step := func(r *subRx, unsub bool, topic string) bool { return do(r, unsub, topic) && probe() }

	// phase 1: the nested family, shortest first / longest first / shuffled
	for i, r := range rxs {
		if i > 0 && rnd.Intn(2) == 0 {
			continue
		}
		order := append([]string{}, chain...)
		switch rnd.Intn(3) {
		case 1:
			for a, b := 0, len(order)-1; a < b; a, b = a+1, b-1 {
				order[a], order[b] = order[b], order[a]
			}
		case 2:
			rnd.Shuffle(len(order), func(i, j int) { order[i], order[j] = order[j], order[i] })
		}
		for _, t := range order {
			if !step(r, false, t) {
				return
			}
		}
	}
	// phase 2: random calls
	for i, n := 0, 6+rnd.Intn(8); i < n; i++ {
		r := rxs[rnd.Intn(len(rxs))]
		unsub := rnd.Intn(2) == 0
		topic := universe[rnd.Intn(len(universe))]
		if m := r.members(); unsub && len(m) > 0 && rnd.Intn(10) < 7 {
			topic = m[rnd.Intn(len(m))]
		}
		if !step(r, unsub, topic) {
			return
		}
	}
	// phase 3: every established subscription can be removed, one by one, in any order
	for _, r := range rxs {
		m := r.members()
		rnd.Shuffle(len(m), func(i, j int) { m[i], m[j] = m[j], m[i] })
		for _, t := range m {
			if !step(r, true, t) {
				return
			}
		}
		if !step(r, true, universe[rnd.Intn(len(universe))]) { // and once removed it is not there
			return
		}
	}
	if d := w.nDetached(); d > 0 {
		c.Violate("subs-disconnected:sub", "the pipe event hook saw %d Detached events although nothing was closed", d)
		return
	}
	if nCompared > 0 && nNested > 0 {
		c.Nontrivial()
	}
	var names []string
	for _, r := range rxs {
		names = append(names, r.name)
	}
	c.Sig("subs|%s|%s|%q|%s", strings.Join(names, "+"), trOrVT(sp.Tran), universe, strings.Join(hist, " "))
}

func trOrVT(tr string) string {
	if tr == "" {
		return "vt"
	}
	return tr
}

func sameStrings(a, b []string) bool {
	if len(a) != len(b) {
		return false
	}
	for i := range a {
		if a[i] != b[i] {
			return false
		}
	}
	return true
}

// firstNotIn returns the first element of a that b does not contain ("" if none;
// probe bodies are never empty unless equal to the empty topic, which every
// receiver that could deliver it matches by the same subscription as the rest).
func firstNotIn(a, b []string) string {
	in := map[string]int{}
	for _, x := range b {
		in[x]++
	}
	for _, x := range a {
		if in[x] == 0 {
			if x == "" {
				return "<empty body>"
			}
			return x
		}
		in[x]--
	}
	return ""
}
