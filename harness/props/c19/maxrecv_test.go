//go:build verif

package c19

import (
	"bytes"
	"fmt"
	"math/rand"
	"time"

	"go.nanomsg.org/mangos/v3"

	"verifharness/hx"
	"verifharness/mon"
)

// maxrecv: an accepted MAX-RCV-SIZE "takes effect as documented" whenever it is accepted — before
// the endpoint is started, after it has been started (listening / dialed) and after connections
// have already been made — and by whichever route (the socket, which hands it to its endpoints,
// or the endpoint itself).  The script is a sequence of limits; after every accepted Set
//
//   - the endpoint's Get returns the value;
//   - a NEW connection is made (the first Dial, or the present connection is closed from the peer's
//     side and the dialer reconnects);
//   - over that connection a message well under the limit (half of it; with limit 0 = "no limit", a
//     message twice the size of the limit in effect before) is delivered, and
//   - a message well over it (twice the limit) is not: the receiver drops the connection instead.
//
// "Not delivered" is decided by FIFO + sentinel: once the receiving socket reported the pipe
// detached, the peer reconnects and sends a small sentinel; the one parked Recv returns either the
// probe (delivered) or the sentinel (dropped).  Nothing is decided by elapsed time.
//
// Consecutive limits differ by a factor of 5 or more, so a limit left over from before the Set
// (in either direction) decides one of the two probes differently.

var mrLimits = []int{0, 64, 320, 1600, 8000}
var mrProtos = []string{"pair", "pull", "sub", "bus", "xpair", "xpull"}
var mrTrans = []string{"ipc", "tcp", "tls+tcp", "ws", "wss"} // inproc does not honour the limit (documented)

func maxrecvPlans(r *mon.Runner, rnd *rand.Rand) []spec {
	var out []spec
	reps := r.Pick(1, 8)
	for rep := 0; rep < reps; rep++ {
		for _, tr := range mrTrans {
			for _, dir := range []string{"listen", "dial"} {
				for _, ph := range []string{"pre", "post"} {
					n := 2 + rnd.Intn(2)
					seq := make([]int, n)
					routes := make([]byte, n)
					for i := range seq {
						seq[i] = mrLimits[rnd.Intn(len(mrLimits))]
						for i > 0 && seq[i] == seq[i-1] {
							seq[i] = mrLimits[rnd.Intn(len(mrLimits))]
						}
						routes[i] = "se"[rnd.Intn(2)]
					}
					out = append(out, spec{Kind: "maxrecv", Tran: tr, Dir: dir, Phase: ph, Seq: seq, Opt: string(routes),
						Proto: mrProtos[rnd.Intn(len(mrProtos))]})
				}
			}
		}
	}
	return out
}

func mrBody(kind byte, round, size int) []byte {
	b := make([]byte, size)
	for i := range b {
		b[i] = byte('a' + (i+round)%23)
	}
	copy(b, fmt.Sprintf("%c%02d:%08d|", kind, round, size))
	return b
}

func (w *pipeLog) live() int { w.mu.Lock(); defer w.mu.Unlock(); return len(w.attached) - len(w.detached) }
func (w *pipeLog) last() mangos.Pipe {
	w.mu.Lock()
	defer w.mu.Unlock()
	if len(w.attached) == 0 {
		return nil
	}
	return w.attached[len(w.attached)-1]
}

func runMaxRecv(c *mon.Case, sp spec) {
	const opt = mangos.OptionMaxRecvSize
	tr := sp.Tran
	rxDials := sp.Dir == "dial"
	ep := map[bool]string{false: "listener", true: "dialer"}[rxDials]
	obj := ep + "." + tr
	rx := newSock(c, sp.Proto)
	tx := newSock(c, hx.PeerOf[sp.Proto])
	rw, tw := watch(rx), watch(tx)
	reconn := 10 * time.Millisecond
	wait := mon.AwaitOpts{MaxTimer: 2 * reconn}
	for _, s := range []mangos.Socket{rx, tx} {
		if err := s.SetOption(mangos.OptionReconnectTime, reconn); err != nil {
			c.Inconclusive("harness: cannot set reconnect time: %v", err)
			return
		}
		_ = s.SetOption(mangos.OptionMaxReconnectTime, time.Duration(0))
	}
	if sp.Proto == "sub" {
		if err := rx.SetOption(mangos.OptionSubscribe, ""); err != nil {
			c.Inconclusive("harness: subscribe: %v", err)
			return
		}
	}
	prev := 0
	if v, err := rx.GetOption(opt); err == nil {
		prev, _ = v.(int)
	}
	if prev <= 0 {
		c.Inconclusive("harness: the socket's default MAX-RCV-SIZE reads %d", prev)
		return
	}

	// ---- endpoints: created now, started according to the phase ----
	srv, cli := rx, tx
	if rxDials {
		srv, cli = tx, rx
	}
	l, err := srv.NewListener(hx.ListenAddr(tr), tlsOpts(tr, true))
	if err != nil {
		c.Inconclusive("harness: NewListener(%s): %v", tr, err)
		return
	}
	var d mangos.Dialer
	listening, dialed := false, false
	listen := func() bool {
		if listening {
			return true
		}
		err := l.Listen()
		for try := 0; err != nil && try < 4 && portPressure(err); try++ {
			mon.Sleep(400 * time.Millisecond) // pacing only
			err = l.Listen()
		}
		if err != nil {
			c.Inconclusive("harness: Listen(%s): %v", tr, err)
			return false
		}
		listening = true
		return true
	}
	mkDialer := func() bool {
		if d != nil {
			return true
		}
		var err error
		if d, err = cli.NewDialer(l.Address(), tlsOpts(tr, false)); err != nil {
			c.Inconclusive("harness: NewDialer(%s): %v", l.Address(), err)
			return false
		}
		return true
	}
	bothLive := func(ra, ta int) func() bool {
		return func() bool { return rw.nAttached() > ra && tw.nAttached() > ta && rw.live() == 1 && tw.live() == 1 }
	}
	dial := func() bool {
		if dialed {
			return true
		}
		_, err, ok := blk(c, "maxrecv/dial-stuck:"+tr, "Dial over "+tr, func() (interface{}, error) { return nil, d.Dial() })
		if !ok {
			return false
		}
		if err != nil {
			c.Inconclusive("harness: Dial(%s): %v", l.Address(), err)
			return false
		}
		dialed = true
		return awaitOrInconcl(c, "the first connection attaching on both sides", bothLive(0, 0), wait)
	}
	// the endpoint under test (the receiving socket's)
	endpoint := func() interface {
		SetOption(string, interface{}) error
		GetOption(string) (interface{}, error)
	} {
		if rxDials {
			return d
		}
		return l
	}
	if rxDials {
		// the dialer object needs the listener's address: the peer listens first
		if !listen() || !mkDialer() {
			return
		}
	}
	if sp.Phase == "post" {
		// the endpoint is started before the first limit is given
		if !listen() || !mkDialer() {
			return
		}
		if rxDials && !dial() {
			return
		}
	}

	// probe sends body to rx over the present connection and says whether it was delivered; when the
	// receiver dropped the connection instead, it waits for the reconnect and uses a sentinel.
	probe := func(round int, body []byte, what string) (delivered, ok bool) {
		d0 := rw.nDetached()
		ra, ta := rw.nAttached(), tw.nAttached()
		recv := mon.Go("RecvMsg", func() (interface{}, error) { return rx.RecvMsg() })
		if _, err, ok := blk(c, "maxrecv/send-stuck:"+obj, "SendMsg of "+what, func() (interface{}, error) { return nil, tx.Send(body) }); !ok || err != nil {
			if ok {
				c.Inconclusive("harness: Send of %s: %v", what, err)
			}
			return false, false
		}
		if !c.AwaitOrViolate("effect:"+obj+"/MAX-RCV-SIZE/neither-delivered-nor-disconnected",
			what+" being delivered or the receiver dropping the connection",
			func() bool { return recv.Done() || rw.nDetached() > d0 }, wait) {
			return false, false
		}
		sentinel := mrBody('S', round, 16)
		if !recv.Done() {
			// dropped (or about to be delivered all the same): reconnect, then a sentinel behind it
			if !awaitOrInconcl(c, "reconnecting after the receiver dropped the connection", func() bool { return recv.Done() || bothLive(ra, ta)() }, wait) {
				return false, false
			}
			c.Count("maxrecv_reconnects", 1)
			if !recv.Done() {
				if _, err, ok := blk(c, "maxrecv/send-stuck:"+obj, "SendMsg of the sentinel", func() (interface{}, error) { return nil, tx.Send(sentinel) }); !ok || err != nil {
					if ok {
						c.Inconclusive("harness: Send of the sentinel: %v", err)
					}
					return false, false
				}
				if !awaitOrInconcl(c, "the sentinel (or the probe) arriving after the reconnect", recv.Done, wait) {
					return false, false
				}
			}
		}
		v, err, _ := recv.Result()
		if err != nil {
			c.Inconclusive("harness: RecvMsg: %v", err)
			return false, false
		}
		m := v.(*mangos.Message)
		got := append([]byte{}, m.Body...)
		m.Free()
		switch {
		case bytes.Equal(got, body):
			return true, true
		case bytes.Equal(got, sentinel):
			return false, true
		}
		c.Inconclusive("harness: received an unexpected %d-byte message %q... while probing with %s", len(got), brief(got), what)
		return false, false
	}

	when := "set-before-start"
	script := ""
	for i, lim := range sp.Seq {
		route := "endpoint"
		if sp.Opt[i] == 's' {
			route = "socket"
		}
		if rxDials && !mkDialer() {
			return
		}
		started := listening
		if rxDials {
			started = dialed
		}
		if started {
			when = "set-after-start"
		}
		script += fmt.Sprintf("%c%d,", sp.Opt[i], lim)
		// ---- the Set and what Get then returns ----
		var serr error
		if route == "socket" {
			serr = rx.SetOption(opt, lim)
		} else {
			serr = endpoint().SetOption(opt, lim)
		}
		if serr != nil {
			c.Violate(fmt.Sprintf("opt-good-rejected:%s/MAX-RCV-SIZE@%s", obj, route), "%s: SetOption(MAX-RCV-SIZE, %d) on the %s (%s) returned %v", sp.Proto, lim, route, when, serr)
			return
		}
		if got, gerr := endpoint().GetOption(opt); gerr != nil || got != lim {
			sig := fmt.Sprintf("opt-roundtrip:%s/MAX-RCV-SIZE", obj)
			if route == "socket" {
				sig = fmt.Sprintf("inherit-late:%s/MAX-RCV-SIZE", obj)
			}
			c.Violate(sig, "%s: MAX-RCV-SIZE %d accepted on the %s (%s), the %s's GetOption then returns (%v, %v)", sp.Proto, lim, route, when, ep, got, gerr)
			return
		}
		c.Count("maxrecv_limits_set", 1)
		// ---- a new connection ----
		if !dialed {
			if !listen() || !mkDialer() || !dial() {
				return
			}
		} else {
			ra, ta := rw.nAttached(), tw.nAttached()
			p := tw.last()
			if p == nil {
				c.Inconclusive("harness: no pipe on the sending socket")
				return
			}
			_ = p.Close()
			if !awaitOrInconcl(c, "reconnecting after the peer closed its pipe", bothLive(ra, ta), wait) {
				return
			}
			c.Count("maxrecv_reconnects", 1)
		}
		// ---- under the limit: delivered ----
		under, label := lim/2, "under-limit-dropped"
		if lim == 0 {
			under, label = 2*prev, "no-limit-dropped"
		}
		del, ok := probe(i, mrBody('U', i, under), fmt.Sprintf("a %d-byte message (MAX-RCV-SIZE %d)", under, lim))
		if !ok {
			return
		}
		if !del {
			c.Violate(fmt.Sprintf("effect:%s/MAX-RCV-SIZE/%s:%s", obj, label, when),
				"%s: MAX-RCV-SIZE %d accepted on the %s (%s, limit before: %d) and read back from the %s; over a connection made afterwards a %d-byte message was not delivered — the receiver dropped the connection (script %s)",
				sp.Proto, lim, route, when, prev, ep, under, script)
			return
		}
		c.Count("maxrecv_under_delivered", 1)
		// ---- over the limit: refused ----
		if lim > 0 {
			over := 2 * lim
			del, ok := probe(i, mrBody('O', i, over), fmt.Sprintf("a %d-byte message (MAX-RCV-SIZE %d)", over, lim))
			if !ok {
				return
			}
			if del {
				c.Violate(fmt.Sprintf("effect:%s/MAX-RCV-SIZE/over-limit-delivered:%s", obj, when),
					"%s: MAX-RCV-SIZE %d accepted on the %s (%s, limit before: %d) and read back from the %s; over a connection made afterwards a %d-byte message was delivered (script %s)",
					sp.Proto, lim, route, when, prev, ep, over, script)
				return
			}
			c.Count("maxrecv_over_refused", 1)
		}
		if lim > 0 {
			prev = lim
		}
	}
	c.Nontrivial()
	c.Sig("maxrecv|%s|%s|%s|%s|%s", sp.Proto, tr, sp.Dir, sp.Phase, script)
}
