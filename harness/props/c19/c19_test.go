//go:build verif

// Package c19 — options and unsupported operations follow one uniform contract.
//
// Case kinds (the case list is the same for every seed: the grid is finite and
// enumerated completely; the seed only permutes nothing here):
//
//	grid-sock / grid-ctx / grid-dialer / grid-listener / grid-pipe
//	    one object's whole option-name x value grid (Set under recover, Get after
//	    an accepted Set), before ("fresh") or after ("conn") connecting
//	zero      accepted zero duration = no limit (stuck detector is the positive witness)
//	retain    queue-length retention counts over the vt transport
//	qlen0     an accepted queue length of 0 must leave the socket responsive
//	deferred  an accepted queue length must not blow up when the next pipe is added
//	inherit   options set on the socket are read back from dialers/listeners/contexts made afterwards
//	resize    changing a queue length with traffic flowing never disconnects a peer
//	unsup     operations the pattern does not have -> ErrProtoOp, no side effect
//	device    Device on cooked / mismatched / nil sockets -> designated error, no side effect
package c19

import (
	"testing"

	"verifharness/hx"
	"verifharness/mon"
)

type spec struct {
	Kind  string `json:"kind"`
	Proto string `json:"proto,omitempty"`
	Tran  string `json:"tran,omitempty"`
	Phase string `json:"phase,omitempty"` // fresh | conn
	Opt   string `json:"opt,omitempty"`
	K     int    `json:"k,omitempty"`
	Dir   string `json:"dir,omitempty"`
}

func TestMain(m *testing.M) { hx.Main(m) }

// ctxProtos are the patterns that have contexts.
var ctxProtos = []string{"req", "rep", "sub", "surveyor", "respondent"}

func hasCtx(p string) bool {
	for _, q := range ctxProtos {
		if p == q {
			return true
		}
	}
	return false
}

func caseList(r *mon.Runner) []mon.CaseSpec {
	var cases []mon.CaseSpec
	add := func(s spec) { cases = append(cases, mon.CaseSpec{Name: s.Kind, Spec: s}) }

	// ---- the grid (identical in both tiers; exhaustive) ----
	for _, p := range hx.AllProtos {
		add(spec{Kind: "grid-sock", Proto: p, Phase: "fresh"})
		for _, tr := range hx.Transports {
			add(spec{Kind: "grid-sock", Proto: p, Tran: tr, Phase: "conn"})
		}
	}
	for _, p := range ctxProtos {
		add(spec{Kind: "grid-ctx", Proto: p, Phase: "fresh"})
		for _, tr := range hx.Transports {
			add(spec{Kind: "grid-ctx", Proto: p, Tran: tr, Phase: "conn"})
		}
	}
	for _, p := range hx.AllProtos {
		for _, tr := range hx.Transports {
			for _, ph := range []string{"fresh", "conn"} {
				add(spec{Kind: "grid-dialer", Proto: p, Tran: tr, Phase: ph})
				add(spec{Kind: "grid-listener", Proto: p, Tran: tr, Phase: ph})
			}
			add(spec{Kind: "grid-pipe", Proto: p, Tran: tr, Phase: "conn"})
		}
	}

	// ---- effects ----
	effTrans := []string{"inproc"}
	if r.Thorough() {
		effTrans = hx.Transports
	}
	for _, z := range zeroPlans() {
		add(z)
	}
	for _, s := range retainPlans(r.Thorough()) {
		add(s)
	}
	for _, s := range qlen0Plans() {
		add(s)
	}
	for _, s := range deferredPlans() {
		add(s)
	}
	for _, p := range hx.AllProtos {
		for _, tr := range effTrans {
			add(spec{Kind: "inherit", Proto: p, Tran: tr})
		}
	}
	for _, p := range hx.AllProtos {
		for _, o := range []string{"READQ-LEN", "WRITEQ-LEN"} {
			for _, tr := range effTrans {
				add(spec{Kind: "resize", Proto: p, Tran: tr, Opt: o})
			}
		}
	}
	for _, p := range hx.AllProtos {
		for _, tr := range effTrans {
			add(spec{Kind: "unsup", Proto: p, Tran: tr})
		}
	}
	for _, p := range hx.AllProtos {
		for _, tr := range effTrans {
			add(spec{Kind: "device", Proto: p, Tran: tr})
		}
	}
	return cases
}

func TestC19(t *testing.T) {
	r := mon.NewRunner(t, "C19")
	cases := caseList(r)
	r.Run(cases, func(c *mon.Case) {
		sp := c.Spec.(spec)
		switch sp.Kind {
		case "grid-sock", "grid-ctx", "grid-dialer", "grid-listener", "grid-pipe":
			runGrid(c, sp)
		case "zero":
			runZero(c, sp)
		case "retain":
			runRetain(c, sp)
		case "qlen0":
			runQLen0(c, sp)
		case "deferred":
			runDeferred(c, sp)
		case "inherit":
			runInherit(c, sp)
		case "resize":
			runResize(c, sp)
		case "unsup":
			runUnsup(c, sp)
		case "device":
			runDevice(c, sp)
		default:
			panic("unknown case kind " + sp.Kind)
		}
	})
}
