//go:build verif

// Package c19 — options and unsupported operations follow one uniform contract.
//
// Case kinds (the case list is the same for every seed: the grid is finite and
// enumerated completely; the seed only permutes nothing here):
//
// The grid and most effect cases do not depend on the seed; the seed chooses the
// queue-length sequences of the additional resize variants.
//
//	grid-sock / grid-ctx / grid-dialer / grid-listener / grid-pipe
//	    one object's whole option-name x value grid (Set under recover, Get after
//	    an accepted Set), before ("fresh") or after ("conn") connecting
//	zero      accepted zero duration = no limit (stuck detector is the positive witness)
//	retain    queue-length retention counts over the vt transport
//	qlen0     an accepted queue length of 0 must leave the socket responsive
//	deferred  an accepted queue length must not blow up when the next pipe is added
//	inherit   options set on the socket are read back from dialers/listeners/contexts made afterwards
//	resize    changing a queue length with traffic flowing never disconnects a peer
//	stall     the same against a vt peer: receiver known parked on a full queue / peer known stalled
//	unsup     operations the pattern does not have -> ErrProtoOp, no side effect
//	device    Device on cooked / mismatched / nil sockets -> designated error, no side effect
//	tlscfg    an accepted TLS-CONFIG (every way crypto/tls lets a config supply its side's needs, every
//	          route of setting it) is what Get returns and what Listen/Dial then use
//	subs      SUBSCRIBE/UNSUBSCRIBE scripts over nested topics on the SUB socket and its contexts:
//	          each receiver delivers exactly what its own set of accepted subscriptions matches
//	maxrecv   MAX-RCV-SIZE sequences set on the socket / the endpoint before and after the endpoint was
//	          started: every connection made after an accepted Set delivers what is under the limit and
//	          drops what is over it
//	propagate a socket-level endpoint option (RECONNECT-TIME, MAX-RECONNECT-TIME, DIAL-ASYNCH, MAX-RCV-SIZE) accepted by
//	          the socket is what every dialer that exists already (and, for MAX-RCV-SIZE, listener) then returns; over
//	          vt the accepted DIAL-ASYNCH / RECONNECT-TIME decide what that dialer's Dial and redial do
//	ctxq      a READQ-LEN accepted by the socket is the number of messages a SUB / SURVEYOR context opened
//	          afterwards holds while nobody receives
//	ownopt    RETRY-TIME / SURVEY-TIME / RECV-DEADLINE accepted with different values by the socket and by its
//	          contexts: each object's own value decides its own request, survey or Recv
package c19

import (
	"testing"

	"verifharness/hx"
	"verifharness/mon"
)

type spec struct {
	Kind  string `json:"kind"`
	Proto string `json:"proto,omitempty"`
	Tran  string `json:"tran,omitempty"`
	Phase string `json:"phase,omitempty"` // fresh | conn
	Opt   string `json:"opt,omitempty"`
	K     int    `json:"k,omitempty"`
	Dir   string `json:"dir,omitempty"` // resize: which side the socket under test is (listen | dial)
	Seq   []int  `json:"seq,omitempty"` // resize: queue lengths to cycle through
	Cli   string `json:"cli,omitempty"`  // tlscfg: shape of the client configuration
	Seed  int64  `json:"seed,omitempty"` // subs: seed of the subscription script
}

func TestMain(m *testing.M) { hx.Main(m) }

// ctxProtos are the patterns that have contexts.
var ctxProtos = []string{"req", "rep", "sub", "surveyor", "respondent"}

func hasCtx(p string) bool {
	for _, q := range ctxProtos {
		if p == q {
			return true
		}
	}
	return false
}

func caseList(r *mon.Runner) []mon.CaseSpec {
	var cases []mon.CaseSpec
	add := func(s spec) { cases = append(cases, mon.CaseSpec{Name: s.Kind, Spec: s}) }

	// ---- the grid (identical in both tiers; exhaustive) ----
	for _, p := range hx.AllProtos {
		add(spec{Kind: "grid-sock", Proto: p, Phase: "fresh"})
		for _, tr := range hx.Transports {
			add(spec{Kind: "grid-sock", Proto: p, Tran: tr, Phase: "conn"})
		}
	}
	for _, p := range ctxProtos {
		add(spec{Kind: "grid-ctx", Proto: p, Phase: "fresh"})
		for _, tr := range hx.Transports {
			add(spec{Kind: "grid-ctx", Proto: p, Tran: tr, Phase: "conn"})
		}
	}
	for _, p := range hx.AllProtos {
		for _, tr := range hx.Transports {
			for _, ph := range []string{"fresh", "conn"} {
				add(spec{Kind: "grid-dialer", Proto: p, Tran: tr, Phase: ph})
				add(spec{Kind: "grid-listener", Proto: p, Tran: tr, Phase: ph})
			}
			add(spec{Kind: "grid-pipe", Proto: p, Tran: tr, Phase: "conn"})
		}
	}

	// ---- effects ----
	effTrans := []string{"inproc"}
	if r.Thorough() {
		effTrans = hx.Transports
	}
	for _, z := range zeroPlans(effTrans) {
		add(z)
	}
	for _, s := range retainPlans(r.Thorough()) {
		add(s)
	}
	for _, s := range qlen0Plans(effTrans) {
		add(s)
	}
	for _, s := range deferredPlans() {
		add(s)
	}
	for _, p := range hx.AllProtos {
		for _, tr := range hx.Transports { // cheap (nothing connects): every transport in both tiers
			add(spec{Kind: "inherit", Proto: p, Tran: tr})
		}
	}
	rnd := r.Rand()
	for i := 0; i < r.Pick(1, 8); i++ {
		add(spec{Kind: "ipcperm"})
	}
	for i := 0; i < r.Pick(6, 120); i++ {
		q := make([]int, 2+rnd.Intn(5))
		for j := range q {
			q[j] = rnd.Intn(2)
		}
		q[0], q[1] = 1, 0 // every sequence starts with off, on
		add(spec{Kind: "wsorigin", Tran: []string{"ws", "wss"}[i%2], Seq: q})
	}
	randSeq := func() []int {
		q := make([]int, 5+rnd.Intn(8))
		for i := range q {
			q[i] = []int{1, 1, 2, 3, 4, 5, 8, 16, 64, 128, 300}[rnd.Intn(11)]
		}
		return q
	}
	nvar := r.Pick(1, 4)
	for _, p := range hx.AllProtos {
		for _, o := range []string{"READQ-LEN", "WRITEQ-LEN"} {
			for _, tr := range effTrans {
				add(spec{Kind: "resize", Proto: p, Tran: tr, Opt: o, Dir: "listen", Seq: resizeSeq})
				for v := 0; v < nvar; v++ {
					add(spec{Kind: "resize", Proto: p, Tran: tr, Opt: o, Dir: []string{"dial", "listen"}[v%2], Seq: randSeq()})
				}
			}
		}
	}
	for _, s := range stallPlans(r) {
		add(s)
	}
	for _, p := range hx.AllProtos {
		for _, tr := range effTrans {
			add(spec{Kind: "unsup", Proto: p, Tran: tr})
		}
	}
	for _, p := range hx.AllProtos {
		for _, tr := range effTrans {
			add(spec{Kind: "device", Proto: p, Tran: tr})
		}
	}
	// appended last: the indices (and with them the per-case PRNGs) of the cases above stay what they were
	for _, s := range tlscfgPlans(r, rnd) {
		add(s)
	}
	for _, s := range subsPlans(r, rnd) {
		add(s)
	}
	for _, s := range maxrecvPlans(r, rnd) {
		add(s)
	}
	for _, s := range propagatePlans(r, rnd) {
		add(s)
	}
	for _, s := range ctxqPlans(r, rnd) {
		add(s)
	}
	for _, s := range ownoptPlans(r, rnd) {
		add(s)
	}
	return cases
}

func TestC19(t *testing.T) {
	r := mon.NewRunner(t, "C19")
	cases := caseList(r)
	r.Run(cases, func(c *mon.Case) {
		sp := c.Spec.(spec)
		switch sp.Kind {
		case "grid-sock", "grid-ctx", "grid-dialer", "grid-listener", "grid-pipe":
			runGrid(c, sp)
		case "zero":
			runZero(c, sp)
		case "retain":
			runRetain(c, sp)
		case "qlen0":
			runQLen0(c, sp)
		case "deferred":
			runDeferred(c, sp)
		case "inherit":
			runInherit(c, sp)
		case "resize":
			runResize(c, sp)
		case "stall":
			runStall(c, sp)
		case "wsorigin":
			runWSOrigin(c, sp)
		case "ipcperm":
			runIPCPerm(c, sp)
		case "unsup":
			runUnsup(c, sp)
		case "device":
			runDevice(c, sp)
		case "tlscfg":
			runTLSCfg(c, sp)
		case "subs":
			runSubs(c, sp)
		case "maxrecv":
			runMaxRecv(c, sp)
		case "propagate":
			runPropagate(c, sp)
		case "ctxq":
			runCtxQ(c, sp)
		case "ownopt":
			runOwnOpt(c, sp)
		default:
			panic("unknown case kind " + sp.Kind)
		}
	})
}
