//go:build verif

package c19

import (
	"bytes"
	"crypto/tls"
	"fmt"
	"time"

	"go.nanomsg.org/mangos/v3"

	"verifharness/hx"
	"verifharness/mon"
)

func trOr(tr string) string {
	if tr == "" {
		return "inproc"
	}
	return tr
}
func hxPeer(p string) string        { return hx.PeerOf[p] }
func hxListenAddr(tr string) string { return hx.ListenAddr(tr) }
func isRaw(p string) bool           { return len(p) > 0 && p[0] == 'x' }
func cookedOf(p string) string {
	if isRaw(p) {
		return p[1:]
	}
	return p
}
func be32(v uint32) []byte { return hx.Be32(v) }
func reqID(n int) uint32   { return 0x80000000 | uint32(n) }

// dialAddr: an address a dialer object can be created for without anything listening.
func dialAddr(tr string) string {
	switch tr {
	case "inproc":
		return "inproc://" + hx.Uniq("nobody")
	case "ipc":
		return hx.ListenAddr("ipc")
	case "tcp":
		return "tcp://127.0.0.1:9"
	case "tls+tcp":
		return "tls+tcp://127.0.0.1:9"
	case "ws":
		return "ws://127.0.0.1:9/x"
	case "wss":
		return "wss://127.0.0.1:9/x"
	}
	panic(tr)
}

func tlsOpts(tr string, server bool) map[string]interface{} {
	if !hx.NeedsTLS(tr) {
		return nil
	}
	s, cl := hx.TlsConfigs()
	var cfg *tls.Config = cl
	if server {
		cfg = s
	}
	return map[string]interface{}{mangos.OptionTLSConfig: cfg}
}

func shapeOf(p string) string {
	switch cookedOf(p) {
	case "pair", "pair1", "bus", "star":
		return "dgram"
	case "sub", "pull":
		return "in"
	case "pub", "push":
		return "out"
	case "req", "surveyor":
		return "init"
	case "rep", "respondent":
		return "resp"
	}
	panic("shape of " + p)
}

// awaitOrInconcl: harness plumbing waits never become C19 violations.
func awaitOrInconcl(c *mon.Case, what string, cond func() bool, o mon.AwaitOpts) bool {
	r := mon.Await(cond, o)
	if r.V == mon.Done {
		return true
	}
	c.Inconclusive("harness: %s: %v after %v", what, r.V, r.Waited)
	return false
}

// blk runs one blocking library call under the stuck detector.  sig is the
// violation signature if it never returns (no timer is armed in these flows:
// deadlines unset, retry/survey/reconnect times one hour).
func blk(c *mon.Case, sig, what string, fn func() (interface{}, error)) (interface{}, error, bool) {
	call := mon.Go(what, fn)
	r := call.Wait(mon.AwaitOpts{})
	switch r.V {
	case mon.Done:
		v, err, _ := call.Result()
		return v, err, true
	case mon.Stuck:
		// the process is quiescent, so every pipe event hook has run: if a
		// disconnect is what starved the call, the caller reports that instead
		if stuckPre != nil && stuckPre() {
			return nil, nil, false
		}
		c.Violate(sig, "%s: stuck after %v — every goroutine parked, identical over 5 samples:\n%s", what, r.Waited, r.Dump)
	default:
		c.Inconclusive("%s: not done after %v, process still active", what, r.Waited)
	}
	return nil, nil, false
}

// stuckPre, when set, is asked first when a blocking call is found stuck; true
// means the caller has a more specific explanation (a Detached event) to report.
var stuckPre func() bool

func (lk *link) watchDetach() func() {
	prev := stuckPre
	stuckPre = func() bool { return lk.SW.nDetached()+lk.PW.nDetached() > 0 }
	return func() { stuckPre = prev }
}

// sendData sends one datagram-style message (dgram/out shapes).
func sendData(s mangos.Socket, proto string, body []byte) error {
	if !isRaw(proto) {
		return s.Send(body)
	}
	m := mangos.NewMessage(len(body))
	m.Body = append(m.Body, body...)
	switch proto {
	case "xpair1", "xstar":
		m.Header = append(m.Header, 0, 0, 0, 0) // hop count
	}
	return s.SendMsg(m)
}

// sendReq sends one request/survey (init shapes).
func sendReq(s mangos.Socket, proto string, n int, body []byte) error {
	if !isRaw(proto) {
		return s.Send(body)
	}
	m := mangos.NewMessage(len(body))
	m.Body = append(m.Body, body...)
	m.Header = append(m.Header, be32(reqID(n))...)
	return s.SendMsg(m)
}

// reply answers request rq (resp shapes).
func reply(s mangos.Socket, proto string, rq *mangos.Message, body []byte) error {
	if !isRaw(proto) {
		return s.Send(body)
	}
	m := mangos.NewMessage(len(body))
	m.Body = append(m.Body, body...)
	m.Header = append(m.Header, rq.Header...)
	return s.SendMsg(m)
}

// prepPatience pushes every protocol timer out of the case's lifetime.
func prepPatience(s mangos.Socket) {
	s.SetOption(mangos.OptionRetryTime, time.Hour)
	s.SetOption(mangos.OptionSurveyTime, time.Hour)
}

// echoPeer answers everything P receives with the same body, dup times, until P is closed.
func echoPeer(p mangos.Socket, proto string, dup int) {
	go func() {
		for {
			m, err := p.RecvMsg()
			if err != nil {
				return
			}
			if !isRaw(proto) {
				b := append([]byte{}, m.Body...)
				m.Free()
				if p.Send(b) != nil {
					return
				}
				continue
			}
			for i := 0; i < dup; i++ {
				mm := mangos.NewMessage(len(m.Body))
				mm.Body = append(mm.Body, m.Body...)
				mm.Header = append(mm.Header, m.Header...)
				if p.SendMsg(mm) != nil {
					m.Free()
					return
				}
			}
			m.Free()
		}
	}()
}

// recvUntil receives on s until a message with the wanted body shows up
// (older traffic still queued is skipped and counted).
func recvUntil(c *mon.Case, sig, sigErr, what string, s mangos.Socket, want []byte) (*mangos.Message, int, bool) {
	skipped := 0
	for i := 0; i < 100000; i++ {
		v, err, ok := blk(c, sig, what, func() (interface{}, error) { return s.RecvMsg() })
		if !ok {
			return nil, skipped, false
		}
		if err != nil {
			c.Violate(sigErr, "%s: RecvMsg returned %v", what, err)
			return nil, skipped, false
		}
		m := v.(*mangos.Message)
		if bytes.Equal(m.Body, want) {
			return m, skipped, true
		}
		skipped++
		m.Free()
	}
	c.Inconclusive("%s: 100000 messages without the sentinel", what)
	return nil, skipped, false
}

// recvResend receives on s until the wanted body shows up.  The peer's send runs
// beside it (under back-pressure it can only finish once s is being drained) and,
// when resend is set, is repeated before each further Recv: a best-effort
// receiver whose queue was still full of older traffic drops the newest arrival,
// so a single send could legitimately be lost.
func recvResend(c *mon.Case, sig, sigErr, sigSendErr, what string, s mangos.Socket, want []byte, send func() error, resend bool) (*mangos.Message, bool) {
	var sc *mon.Call
	for i := 0; i < 100000; i++ {
		if sc == nil || (resend && sc.Done()) {
			if sc != nil {
				if _, err, _ := sc.Result(); err != nil {
					c.Violate(sigSendErr, "%s: the peer's Send returned %v", what, err)
					return nil, false
				}
			}
			sc = mon.Go("peer Send", func() (interface{}, error) { return nil, send() })
		}
		v, err, ok := blk(c, sig, what, func() (interface{}, error) { return s.RecvMsg() })
		if !ok {
			return nil, false
		}
		if err != nil {
			c.Violate(sigErr, "%s: RecvMsg returned %v", what, err)
			return nil, false
		}
		m := v.(*mangos.Message)
		if bytes.Equal(m.Body, want) {
			return m, true
		}
		m.Free()
	}
	c.Inconclusive("%s: 100000 messages without the sentinel", what)
	return nil, false
}

var exchN int

// exchange checks that S (proto) and its peer P (pproto) can still do what the
// pattern offers, in every direction it offers.  sig prefixes the signatures.
// For init shapes an echo service must already run on P (echoPeer).
func exchange(c *mon.Case, kind, label string, lk *link, proto, pproto string) bool {
	sg := func(suffix string) string { return kind + "-" + suffix + ":" + label }
	exchN++
	tag := []byte(fmt.Sprintf("c19-x-%d-%s", exchN, hx.Uniq("m")))
	S, P := lk.S, lk.P
	in := func() bool {
		m, ok := recvResend(c, sg("recv-stuck"), sg("recv-error"), sg("peer-send-error"), fmt.Sprintf("%s Recv of a message the %s peer sent", proto, pproto), S, tag,
			func() error { return sendData(P, pproto, tag) }, true)
		if ok {
			m.Free()
			c.Count("exchange_messages", 1)
		}
		return ok
	}
	out := func() bool {
		t2 := append(append([]byte{}, tag...), "-out"...)
		if _, err, ok := blk(c, sg("send-stuck"), proto+" Send", func() (interface{}, error) { return nil, sendData(S, proto, t2) }); !ok || err != nil {
			if ok {
				c.Violate(sg("send-error"), "%s Send returned %v", proto, err)
			}
			return false
		}
		m, _, ok := recvUntil(c, sg("peer-recv-stuck"), sg("peer-recv-error"), fmt.Sprintf("%s peer Recv of a message %s sent", pproto, proto), P, t2)
		if ok {
			m.Free()
			c.Count("exchange_messages", 1)
		}
		return ok
	}
	switch shapeOf(proto) {
	case "dgram":
		return in() && out()
	case "in":
		return in()
	case "out":
		return out()
	case "init":
		if _, err, ok := blk(c, sg("send-stuck"), proto+" Send(request)", func() (interface{}, error) { return nil, sendReq(S, proto, exchN, tag) }); !ok || err != nil {
			if ok {
				c.Violate(sg("send-error"), "%s Send returned %v", proto, err)
			}
			return false
		}
		m, _, ok := recvUntil(c, sg("recv-stuck"), sg("recv-error"), fmt.Sprintf("%s Recv of the reply echoed by the %s peer", proto, pproto), S, tag)
		if ok {
			m.Free()
			c.Count("exchange_messages", 2)
		}
		return ok
	case "resp":
		n := exchN
		rq, ok := recvResend(c, sg("recv-stuck"), sg("recv-error"), sg("peer-send-error"), fmt.Sprintf("%s Recv of a request the %s peer sent", proto, pproto), S, tag,
			func() error { return sendReq(P, pproto, n, tag) }, isRaw(pproto))
		if !ok {
			return false
		}
		t2 := append(append([]byte{}, tag...), "-re"...)
		_, err, ok := blk(c, sg("send-stuck"), proto+" Send(reply)", func() (interface{}, error) { return nil, reply(S, proto, rq, t2) })
		rq.Free()
		if !ok || err != nil {
			if ok {
				c.Violate(sg("send-error"), "%s Send(reply) returned %v", proto, err)
			}
			return false
		}
		m, _, ok := recvUntil(c, sg("peer-recv-stuck"), sg("peer-recv-error"), fmt.Sprintf("%s peer Recv of the reply", pproto), P, t2)
		if ok {
			m.Free()
			c.Count("exchange_messages", 2)
		}
		return ok
	}
	return false
}

// linkFor connects S (proto) with a peer suited for exchange(): cooked partner,
// subscribed / patient / echoing as the shape needs.  raw=true picks a raw peer
// for the request/reply shapes (free-flowing traffic, used by resize).
func linkFor(c *mon.Case, proto, tr string, rawPeer bool, echoDup int, sDials bool) (*link, string) {
	pproto := hxPeer(proto)
	if rawPeer {
		if rp, ok := rawPeerOf[proto]; ok {
			pproto = rp
		}
	}
	lk := connect(c, proto, pproto, tr, sDials)
	if lk == nil {
		return nil, pproto
	}
	prepPatience(lk.S)
	prepPatience(lk.P)
	if cookedOf(proto) == "sub" {
		lk.S.SetOption(mangos.OptionSubscribe, []byte{})
	}
	if cookedOf(pproto) == "sub" {
		lk.P.SetOption(mangos.OptionSubscribe, []byte{})
	}
	if shapeOf(proto) == "init" {
		echoPeer(lk.P, pproto, echoDup)
	}
	return lk, pproto
}
