//go:build verif

package c19

import (
	"fmt"
	"net/http"

	"github.com/gorilla/websocket"
	"go.nanomsg.org/mangos/v3/transport/ws"

	"verifharness/hx"
	"verifharness/mon"
)

// runWSOrigin: WEBSOCKET-CHECKORIGIN on a ws/wss listener "takes effect as documented" for every
// sequence of accepted values: after each accepted SetOption, Get returns the value and a handshake
// carrying a foreign Origin header is refused exactly when the value is true (same-origin
// handshakes always succeed).
func runWSOrigin(c *mon.Case, sp spec) {
	tr := sp.Tran
	s := newSock(c, "pull")
	l, err := s.NewListener(hx.ListenAddr(tr), tlsOpts(tr, true))
	if err != nil {
		c.Inconclusive("harness: NewListener(%s): %v", tr, err)
		return
	}
	if err := l.Listen(); err != nil {
		c.Inconclusive("harness: Listen(%s): %v", tr, err)
		return
	}
	addr := l.Address()
	peer := s.Info().SelfName // the name a dialing peer announces: the listener's own
	dial := func(origin string) (accepted bool, status int, err error) {
		wd := &websocket.Dialer{Subprotocols: []string{peer + ".sp.nanomsg.org"}}
		if tr == "wss" {
			_, cc := hx.TlsConfigs()
			wd.TLSClientConfig = cc
		}
		hdr := http.Header{}
		if origin != "" {
			hdr.Set("Origin", origin)
		}
		var cn *websocket.Conn
		var resp *http.Response
		k := mon.Go("ws-handshake", func() (interface{}, error) { var e error; cn, resp, e = wd.Dial(addr, hdr); return nil, e })
		if !c.AwaitOrViolate("wsorigin/handshake-stuck:"+tr, "a raw WebSocket handshake completing or being refused", k.Done, mon.AwaitOpts{}) {
			return false, 0, fmt.Errorf("stuck")
		}
		_, e, _ := k.Result()
		if e == nil {
			cn.Close()
			return true, 101, nil
		}
		if resp != nil {
			return false, resp.StatusCode, nil
		}
		return false, 0, e
	}
	check := func(want bool, when string) bool {
		got, gerr := l.GetOption(ws.OptionWebSocketCheckOrigin)
		if gerr != nil || got != want {
			c.Violate("opt-roundtrip:listener."+tr+"/WEBSOCKET-CHECKORIGIN", "%s: GetOption returned (%v, %v), want %v", when, got, gerr, want)
			return false
		}
		acc, st, err := dial("http://evil.example")
		if err != nil {
			if !c.Failed() {
				c.Inconclusive("harness: foreign-origin handshake: %v", err)
			}
			return false
		}
		if !acc && st != http.StatusForbidden {
			c.Inconclusive("harness: foreign-origin handshake refused with HTTP %d, not 403", st)
			return false
		}
		if acc == want {
			c.Violate(fmt.Sprintf("effect:listener.%s/WEBSOCKET-CHECKORIGIN=%v", tr, want), "%s: WEBSOCKET-CHECKORIGIN reads back %v but a handshake with a foreign Origin was %s (HTTP %d)", when, want, map[bool]string{true: "accepted", false: "refused"}[acc], st)
			return false
		}
		if acc2, st2, err := dial(""); err != nil || !acc2 {
			if err == nil {
				c.Violate("effect:listener."+tr+"/WEBSOCKET-CHECKORIGIN/same-origin-refused", "%s: a handshake without a foreign Origin was refused (HTTP %d)", when, st2)
			}
			return false
		}
		c.Count("origin_handshakes_checked", 2)
		return true
	}
	if !check(true, "default") {
		return
	}
	seq := ""
	for _, v := range sp.Seq {
		b := v%2 == 0
		seq += map[bool]string{true: "T", false: "F"}[b]
		if err := l.SetOption(ws.OptionWebSocketCheckOrigin, b); err != nil {
			c.Violate("opt-good-rejected:listener."+tr+"/WEBSOCKET-CHECKORIGIN", "SetOption(%v) returned %v", b, err)
			return
		}
		if !check(b, "after the sequence "+seq) {
			return
		}
	}
	c.Nontrivial()
	c.Sig("wsorigin|%s|%s", tr, seq)
}
