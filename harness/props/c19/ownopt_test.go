//go:build verif

package c19

import (
	"fmt"
	"math/rand"
	"time"

	"go.nanomsg.org/mangos/v3"

	"verifharness/hx"
	"verifharness/mon"
	"verifharness/vt"
)

// =============================================================================
// ownopt: an option that both the socket and its contexts have (RETRY-TIME on REQ,
// SURVEY-TIME on SURVEYOR, RECV-DEADLINE on every context pattern) is accepted with
// DIFFERENT values by the socket and by one or two of its contexts; each object's
// GetOption returns its own value, and each object's own value is what decides its
// own request / survey / Recv — over one vt connection, everything at once.
//
//	RETRY-TIME / drop   every object sends a request over pipe 1, the peer drops pipe 1 and
//	                    connects pipe 2: an object whose own RETRY-TIME is 0 never has its
//	                    request transmitted a second time (FIFO sentinel: its next request on
//	                    pipe 2), an object whose own RETRY-TIME is non-zero has its request
//	                    retransmitted on pipe 2 and receives the reply given there
//	RETRY-TIME / timer  pipe 1 stays: an object whose own value is 40ms retransmits (no earlier
//	                    than 40ms after its Send was invoked), an object with 0 or 1h never does
//	SURVEY-TIME         an object whose own value is 60ms has its Recv end with an error no
//	                    earlier than 60ms after its Send was invoked; after that an object with
//	                    0 or 1h still receives the response to its survey
//	RECV-DEADLINE       an object whose own value is 50ms gets ErrRecvTimeout no earlier than
//	                    50ms after Recv was invoked; the Recv of an object with 0 or 1h is then
//	                    still outstanding and completes with the message sent afterwards
//
// Seq = the values in milliseconds for [socket, context A, context B]; -1 = never set
// (socket: default; context: what it inherited when opened).  K=0: socket set, contexts opened,
// each context set; K=1: contexts opened and set first, the socket set last.  Every verdict is
// made against what the object's own GetOption returned just before the traffic.
// =============================================================================

const ooHour = 3600000

func ownoptPlans(r *mon.Runner, rnd *rand.Rand) []spec {
	var out []spec
	add := func(proto, opt, phase string, k int, seq ...int) {
		out = append(out, spec{Kind: "ownopt", Proto: proto, Opt: opt, Phase: phase, K: k, Seq: seq})
	}
	// RETRY-TIME, peer drops the connection
	dropSeqs := [][]int{{-1, 0}, {0, ooHour}, {ooHour, 0, ooHour}, {0, ooHour, 0}, {0, -1, ooHour}, {-1, 0, 0}}
	timerSeqs := [][]int{{ooHour, 40}, {40, ooHour}, {0, 40, ooHour}, {40, 0, 40}, {-1, 40, 0}}
	survSeqs := [][]int{{ooHour, 60}, {60, ooHour}, {60, 0, 60}, {0, 60, ooHour}, {-1, 0, 60}, {60, -1, ooHour}}
	dlSeqs := [][]int{{0, 50}, {50, 0}, {ooHour, 50, 0}, {50, ooHour, 50}, {-1, 50, ooHour}, {50, -1, 0}}
	pick := func(all [][]int, n int) [][]int {
		if r.Thorough() || n >= len(all) {
			return all
		}
		o := rnd.Intn(len(all))
		var q [][]int
		for i := 0; i < n; i++ {
			q = append(q, all[(o+i)%len(all)])
		}
		return q
	}
	ks := []int{0, 1}
	for i, q := range dropSeqs { // the whole list in both tiers: no timer is waited for
		for _, k := range ks {
			if !r.Thorough() && k == 1 && i%2 == 1 {
				continue
			}
			add("req", mangos.OptionRetryTime, "drop", k, q...)
		}
	}
	for i, q := range pick(timerSeqs, 3) {
		add("req", mangos.OptionRetryTime, "timer", i%2, q...)
		if r.Thorough() {
			add("req", mangos.OptionRetryTime, "timer", (i+1)%2, q...)
		}
	}
	for i, q := range pick(survSeqs, 3) {
		add("surveyor", mangos.OptionSurveyTime, "expire", i%2, q...)
		if r.Thorough() {
			add("surveyor", mangos.OptionSurveyTime, "expire", (i+1)%2, q...)
		}
	}
	for pi, p := range ctxProtos {
		for i, q := range pick(dlSeqs, 2) {
			add(p, mangos.OptionRecvDeadline, "deadline", (i+pi)%2, q...)
			if r.Thorough() {
				add(p, mangos.OptionRecvDeadline, "deadline", (i+pi+1)%2, q...)
			}
		}
	}
	return out
}

// ooSR is what a socket and a context have in common.
type ooSR interface {
	Send([]byte) error
	Recv() ([]byte, error)
	SetOption(string, interface{}) error
	GetOption(string) (interface{}, error)
}

type ooObj struct {
	x       ooSR
	tag     string // S, A, B
	what    string // "socket" | "context"
	set     int    // value asked for in ms, -1 = not set
	val     time.Duration
	body    string
	id      []byte        // request / survey id
	invoked time.Duration // harness clock just before Send / Recv was invoked
	call    *mon.Call
}

func ooDur(ms int) time.Duration { return time.Duration(ms) * time.Millisecond }

func ooTx(p *vt.Pipe, body string) []vt.Sent {
	var out []vt.Sent
	for _, s := range p.SentLog() {
		w := s.Wire()
		if len(w) >= 4 && string(w[4:]) == body {
			out = append(out, s)
		}
	}
	return out
}

func runOwnOpt(c *mon.Case, sp spec) {
	proto, opt := sp.Proto, sp.Opt
	s := newSock(c, proto)
	w := watch(s)
	// timers that are not the subject are pushed out of the case's lifetime
	if opt != mangos.OptionRetryTime {
		s.SetOption(mangos.OptionRetryTime, time.Hour)
	}
	if opt != mangos.OptionSurveyTime {
		s.SetOption(mangos.OptionSurveyTime, time.Hour)
	}
	objs := []*ooObj{{x: s, tag: "S", what: "socket", set: sp.Seq[0]}}
	setOn := func(o *ooObj) bool {
		if o.set < 0 {
			return true
		}
		err := o.x.SetOption(opt, ooDur(o.set))
		if err == mangos.ErrBadValue && o.set == 0 {
			// a documented value being rejected is outside what the statement fixes (kind zero
			// records it too): the object keeps what it had, and is judged by what it reports
			c.Count("zero_duration_rejected", 1)
			c.Logf("%s %s: SetOption(%s, 0) rejected with ErrBadValue", proto, o.what, opt)
			o.set = -1
			return true
		}
		if err != nil {
			c.Violate(fmt.Sprintf("ownopt-set-rejected:%s.%s/%s=%v", proto, o.what, opt, ooDur(o.set)), "%s %s SetOption(%s, %v) returned %v", proto, o.what, opt, ooDur(o.set), err)
			return false
		}
		return true
	}
	if sp.K == 0 && !setOn(objs[0]) {
		return
	}
	for i, ms := range sp.Seq[1:] {
		cx, err := s.OpenContext()
		if err != nil {
			c.Violate("ctx-open-failed:"+proto, "%s.OpenContext: %v", proto, err)
			return
		}
		c.Cleanup(func() { cx.Close() })
		o := &ooObj{x: cx, tag: string(rune('A' + i)), what: "context", set: ms}
		if !setOn(o) {
			return
		}
		objs = append(objs, o)
	}
	if sp.K == 1 && !setOn(objs[0]) {
		return
	}
	// what every object says it has, read after all the Sets
	desc := ""
	for _, o := range objs {
		v, err := o.x.GetOption(opt)
		d, isd := v.(time.Duration)
		if err != nil || !isd {
			c.Violate(fmt.Sprintf("ownopt-get-failed:%s.%s/%s", proto, o.what, opt), "%s %s GetOption(%s) returned (%v, %v)", proto, o.what, opt, v, err)
			return
		}
		o.val = d
		if o.set >= 0 && d != ooDur(o.set) {
			if o.what == "context" && sp.K == 1 {
				// the socket was set after this context: recorded, the effect cannot be judged
				c.Inconclusive("%s context %s reports %s %v after the socket was set to %v (context had accepted %v)", proto, o.tag, opt, d, ooDur(sp.Seq[0]), ooDur(o.set))
				return
			}
			c.Violate(fmt.Sprintf("ownopt-get-mismatch:%s.%s/%s", proto, o.what, opt),
				"%s: values %v ms for [socket, contexts...] (order %d): %s %s accepted %s=%v, nothing set on it since, GetOption returns %v", proto, sp.Seq, sp.K, o.what, o.tag, opt, ooDur(o.set), d)
			return
		}
		desc += fmt.Sprintf(" %s=%v", o.tag, d)
		c.Count("ownopt_values_read_back", 1)
	}
	L := vtListen(c, s)
	if L == nil {
		return
	}
	p1 := L.Connect()
	if !awaitOrInconcl(c, "vt pipe attach", func() bool { return w.nAttached() >= 1 }, mon.AwaitOpts{}) {
		return
	}
	ctxt := fmt.Sprintf("%s %s: socket and contexts accepted their own values (ms, -1 = not set) %v, order %d; GetOption:%s", proto, opt, sp.Seq, sp.K, desc)

	// send: the object's request / survey goes out on pipe p and its id is noted
	send := func(o *ooObj, p *vt.Pipe, body string) bool {
		o.body = body
		o.invoked = mon.Now()
		_, err, ok := blk(c, "ownopt-send-stuck:"+proto+"."+o.what, fmt.Sprintf("%s %s %s Send", proto, o.what, o.tag), func() (interface{}, error) { return nil, o.x.Send([]byte(body)) })
		if !ok {
			return false
		}
		if err != nil {
			c.Inconclusive("harness: %s %s Send: %v", proto, o.what, err)
			return false
		}
		if !awaitOrInconcl(c, "transmission of "+body, func() bool { return len(ooTx(p, body)) >= 1 }, mon.AwaitOpts{}) {
			return false
		}
		o.id = append([]byte{}, ooTx(p, body)[0].Wire()[:4]...)
		return true
	}
	recvGo := func(o *ooObj) {
		o.call = mon.Go(fmt.Sprintf("%s %s %s Recv", proto, o.what, o.tag), func() (interface{}, error) { return o.x.Recv() })
	}
	// expectReply: the object's outstanding (or next) Recv returns body
	expectReply := func(o *ooObj, sig, want string) bool {
		if o.call == nil {
			recvGo(o)
		}
		r := o.call.Wait(mon.AwaitOpts{})
		if r.V == mon.Inconclusive {
			c.Inconclusive("%s: not done after %v, process still active", o.call.Name, r.Waited)
			return false
		}
		if r.V == mon.Stuck {
			c.Violate(sig, "%s\n%s %s (own value %v): its Recv is stuck although %q was delivered to the socket for it:\n%s", ctxt, o.what, o.tag, o.val, want, r.Dump)
			return false
		}
		v, err, _ := o.call.Result()
		o.call = nil
		if err != nil || string(v.([]byte)) != want {
			c.Violate(sig, "%s\n%s %s (own value %v): Recv returned (%s, %v), want %q", ctxt, o.what, o.tag, o.val, brief(v), err, want)
			return false
		}
		c.Count("ownopt_replies_delivered", 1)
		return true
	}
	lab := func(o *ooObj) string {
		return fmt.Sprintf("%s.%s/%s=%v[socket=%v]", proto, o.what, opt, o.val, objs[0].val)
	}

	switch sp.Phase {
	case "drop":
		for _, o := range objs {
			if !send(o, p1, "rq-"+o.tag) {
				return
			}
		}
		before := c.Rand.Intn(2) == 0 // Recv already parked when the peer goes away, or called afterwards
		if before {
			for _, o := range objs {
				recvGo(o)
			}
		}
		p1.Drop()
		if !awaitOrInconcl(c, "Detached after the peer dropped the pipe", func() bool { return w.nDetached() >= 1 }, mon.AwaitOpts{}) {
			return
		}
		p2 := L.Connect()
		if !awaitOrInconcl(c, "second vt pipe attach", func() bool { return w.nAttached() >= 2 }, mon.AwaitOpts{}) {
			return
		}
		for _, o := range objs {
			if o.call == nil {
				recvGo(o)
			}
			o := o
			r := mon.Await(func() bool { return o.call.Done() || len(ooTx(p2, o.body)) >= 1 }, mon.AwaitOpts{})
			if r.V == mon.Inconclusive {
				c.Inconclusive("%s: neither done nor retransmitted after %v, process still active", o.call.Name, r.Waited)
				return
			}
			retx := len(ooTx(p2, o.body))
			if o.val == 0 {
				if retx > 0 {
					c.Violate("ownopt-retry0-retransmitted:"+lab(o), "%s\nthe peer took every request and dropped the connection, another peer connected: the request of %s %s, whose own RETRY-TIME is 0 (no automatic retries), was transmitted again to the new peer", ctxt, o.what, o.tag)
					return
				}
				if r.V == mon.Stuck {
					c.Inconclusive("%s %s (RETRY-TIME 0): request neither retransmitted nor its Recv returned; process quiescent", o.what, o.tag)
					return
				}
				v, err, _ := o.call.Result()
				o.call = nil
				if err == nil {
					c.Violate("ownopt-retry0-phantom-reply:"+lab(o), "%s\n%s %s Recv returned %s although no reply was ever sent", ctxt, o.what, o.tag, brief(v))
					return
				}
				c.Count("ownopt_retry0_recv_ended_"+err.Error(), 1)
				// FIFO sentinel: the object's next request on the same (only) connection
				if !send(o, p2, "s2-"+o.tag) {
					return
				}
				if n := len(ooTx(p2, "rq-"+o.tag)); n > 0 {
					c.Violate("ownopt-retry0-retransmitted:"+lab(o), "%s\nthe request of %s %s (own RETRY-TIME 0) was transmitted again to the new peer (%d times) before its next request", ctxt, o.what, o.tag, n)
					return
				}
				p2.Inject(hx.Cat(o.id, []byte("a2-"+o.tag)))
				if !expectReply(o, "ownopt-next-request-lost:"+lab(o), "a2-"+o.tag) {
					return
				}
				c.Count("ownopt_retry0_not_retransmitted", 1)
				continue
			}
			// own RETRY-TIME non-zero: the request stays outstanding and moves to the new peer
			if retx == 0 {
				if r.V == mon.Stuck {
					c.Violate("ownopt-request-not-resent:"+lab(o), "%s\nthe peer dropped the connection, another connected: the request of %s %s (own RETRY-TIME %v) was neither retransmitted nor failed; process quiescent:\n%s", ctxt, o.what, o.tag, o.val, r.Dump)
					return
				}
				v, err, _ := o.call.Result()
				c.Violate("ownopt-request-lost:"+lab(o), "%s\nthe peer dropped the connection, another connected: Recv of %s %s, whose own RETRY-TIME is %v, returned (%s, %v) and the request was not retransmitted", ctxt, o.what, o.tag, o.val, brief(v), err)
				return
			}
			id := ooTx(p2, o.body)[0].Wire()[:4]
			p2.Inject(hx.Cat(id, []byte("an-"+o.tag)))
			if !expectReply(o, "ownopt-request-lost:"+lab(o), "an-"+o.tag) {
				return
			}
			c.Count("ownopt_retry_resent_to_new_peer", 1)
		}

	case "timer":
		for _, o := range objs {
			if !send(o, p1, "rq-"+o.tag) {
				return
			}
		}
		nshort := 0
		for _, o := range objs {
			if o.val > 0 && o.val < time.Minute {
				nshort++
				o := o
				r := mon.Await(func() bool { return len(ooTx(p1, o.body)) >= 3 }, mon.AwaitOpts{MaxTimer: o.val})
				if r.V == mon.Inconclusive {
					c.Inconclusive("retransmissions of %s: process never quiescent", o.body)
					return
				}
				tx := ooTx(p1, o.body)
				if r.V == mon.Stuck {
					c.Violate("ownopt-retry-never:"+lab(o), "%s\n%s %s (own RETRY-TIME %v) had its unanswered request transmitted %d times, process quiescent after %v", ctxt, o.what, o.tag, o.val, len(tx), r.Waited)
					return
				}
				if tx[1].T < o.invoked+o.val {
					c.Violate("ownopt-retry-early:"+lab(o), "%s\n%s %s: Send invoked at %v, retransmission at %v, earlier than its own RETRY-TIME %v", ctxt, o.what, o.tag, o.invoked, tx[1].T, o.val)
					return
				}
				c.Count("ownopt_retry_timer_retransmissions", len(tx)-1)
			}
		}
		if nshort == 0 {
			c.Inconclusive("no object reports a short RETRY-TIME")
			return
		}
		for _, o := range objs {
			if o.val == 0 || o.val >= time.Minute {
				if n := len(ooTx(p1, o.body)); n != 1 {
					c.Violate("ownopt-retry-unasked:"+lab(o), "%s\n%s %s (own RETRY-TIME %v) had its request transmitted %d times within %v", ctxt, o.what, o.tag, o.val, n, mon.Now()-o.invoked)
					return
				}
				c.Count("ownopt_retry_single_transmission", 1)
			}
			p1.Inject(hx.Cat(o.id, []byte("an-"+o.tag)))
			if !expectReply(o, "ownopt-request-lost:"+lab(o), "an-"+o.tag) {
				return
			}
		}

	case "expire":
		for _, o := range objs {
			if !send(o, p1, "sv-"+o.tag) {
				return
			}
		}
		nshort := 0
		for _, o := range objs {
			if o.val > 0 && o.val < time.Minute {
				nshort++
				recvGo(o)
				r := o.call.Wait(mon.AwaitOpts{MaxTimer: o.val})
				if r.V == mon.Inconclusive {
					c.Inconclusive("%s: process never quiescent", o.call.Name)
					return
				}
				if r.V == mon.Stuck {
					c.Violate("ownopt-survey-never-expires:"+lab(o), "%s\n%s %s (own SURVEY-TIME %v): Recv with no response still parked after %v, process quiescent", ctxt, o.what, o.tag, o.val, r.Waited)
					return
				}
				v, err, ended := o.call.Result()
				o.call = nil
				if err == nil {
					c.Violate("ownopt-phantom-response:"+lab(o), "%s\n%s %s Recv returned %s although no response was sent", ctxt, o.what, o.tag, brief(v))
					return
				}
				if ended < o.invoked+o.val {
					c.Violate("ownopt-survey-early:"+lab(o), "%s\n%s %s: Send invoked at %v, Recv ended with %v at %v, earlier than its own SURVEY-TIME %v", ctxt, o.what, o.tag, o.invoked, err, ended, o.val)
					return
				}
				c.Count("ownopt_surveys_expired_on_own_time", 1)
			}
		}
		if nshort == 0 {
			c.Inconclusive("no object reports a short SURVEY-TIME")
			return
		}
		for _, o := range objs {
			if o.val == 0 || o.val >= time.Minute {
				p1.Inject(hx.Cat(o.id, []byte("rs-"+o.tag)))
				if !expectReply(o, "ownopt-survey-expired-unasked:"+lab(o), "rs-"+o.tag) {
					return
				}
				c.Count("ownopt_surveys_alive_past_others_expiry", 1)
			}
		}

	case "deadline":
		switch proto {
		case "req", "surveyor":
			for _, o := range objs {
				if !send(o, p1, "rq-"+o.tag) {
					return
				}
			}
		case "sub":
			for _, o := range objs {
				if err := o.x.SetOption(mangos.OptionSubscribe, []byte("t")); err != nil {
					c.Inconclusive("harness: subscribe: %v", err)
					return
				}
			}
		}
		for _, o := range objs {
			recvGo(o)
		}
		nshort := 0
		for _, o := range objs {
			if o.val > 0 && o.val < time.Minute {
				nshort++
				r := o.call.Wait(mon.AwaitOpts{MaxTimer: o.val})
				if r.V == mon.Inconclusive {
					c.Inconclusive("%s: process never quiescent", o.call.Name)
					return
				}
				if r.V == mon.Stuck {
					c.Violate("ownopt-deadline-never:"+lab(o), "%s\n%s %s (own RECV-DEADLINE %v): Recv with nothing to receive still parked after %v, process quiescent", ctxt, o.what, o.tag, o.val, r.Waited)
					return
				}
				v, err, ended := o.call.Result()
				started := o.call.Started
				o.call = nil
				if err != mangos.ErrRecvTimeout {
					c.Violate("ownopt-deadline-error:"+lab(o), "%s\n%s %s Recv returned (%s, %v), want ErrRecvTimeout", ctxt, o.what, o.tag, brief(v), err)
					return
				}
				if ended < started+o.val {
					c.Violate("ownopt-deadline-early:"+lab(o), "%s\n%s %s: Recv invoked at %v returned ErrRecvTimeout at %v, earlier than its own RECV-DEADLINE %v", ctxt, o.what, o.tag, started, ended, o.val)
					return
				}
				c.Count("ownopt_deadlines_expired_on_own_time", 1)
			}
		}
		if nshort == 0 {
			c.Inconclusive("no object reports a short RECV-DEADLINE")
			return
		}
		var long []*ooObj
		for _, o := range objs {
			if o.val == 0 || o.val >= time.Minute {
				long = append(long, o)
				if o.call.Done() {
					v, err, _ := o.call.Result()
					c.Violate("ownopt-deadline-unasked:"+lab(o), "%s\n%s %s (own RECV-DEADLINE %v, 0 = no limit): Recv with nothing to receive returned (%s, %v) after %v", ctxt, o.what, o.tag, o.val, brief(v), err, mon.Now()-o.call.Started)
					return
				}
			}
		}
		// now something arrives for every Recv still outstanding
		switch proto {
		case "req", "surveyor":
			for _, o := range long {
				p1.Inject(hx.Cat(o.id, []byte("an-"+o.tag)))
				if !expectReply(o, "ownopt-deadline-unasked:"+lab(o), "an-"+o.tag) {
					return
				}
			}
		case "sub":
			p1.Inject([]byte("t-all"))
			for _, o := range long {
				if !expectReply(o, "ownopt-deadline-unasked:"+lab(o), "t-all") {
					return
				}
			}
		default: // rep, respondent: one request per outstanding Recv; whichever takes it
			want := map[string]bool{}
			for i := range long {
				b := fmt.Sprintf("in-%d", i)
				want[b] = true
				p1.Inject(hx.Cat(hx.Be32(0x80000100+uint32(i)), []byte(b)))
			}
			for _, o := range long {
				r := o.call.Wait(mon.AwaitOpts{})
				if r.V == mon.Inconclusive {
					c.Inconclusive("%s: not done after %v, process still active", o.call.Name, r.Waited)
					return
				}
				if r.V == mon.Stuck {
					c.Violate("ownopt-deadline-unasked:"+lab(o), "%s\n%s %s: %d requests arrived for the %d outstanding Recv calls, this one is stuck:\n%s", ctxt, o.what, o.tag, len(long), len(long), r.Dump)
					return
				}
				v, err, _ := o.call.Result()
				b, _ := v.([]byte)
				if err != nil || !want[string(b)] {
					c.Violate("ownopt-deadline-unasked:"+lab(o), "%s\n%s %s (own RECV-DEADLINE %v): Recv returned (%s, %v), want one of the %d requests sent once the short deadlines had expired", ctxt, o.what, o.tag, o.val, brief(v), err, len(long))
					return
				}
				delete(want, string(b))
				c.Count("ownopt_replies_delivered", 1)
			}
		}
	default:
		panic("ownopt: unknown phase " + sp.Phase)
	}
	c.Nontrivial()
	c.Sig("ownopt|%s|%s|%s|%d|%v|held", proto, opt, sp.Phase, sp.K, sp.Seq)
}
