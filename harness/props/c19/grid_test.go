//go:build verif

package c19

import (
	"crypto/tls"
	"fmt"
	"math"
	"os"
	"reflect"
	"runtime/debug"
	"sort"
	"strings"
	"sync"
	"time"

	"go.nanomsg.org/mangos/v3"
	"go.nanomsg.org/mangos/v3/transport/ipc"
	"go.nanomsg.org/mangos/v3/transport/ws"

	"verifharness/mon"
)

// ---- catalogue ---------------------------------------------------------------

// optNames: every documented Option* constant, the transport-specific names and junk strings.
var optNames = []string{
	mangos.OptionRaw, mangos.OptionRecvDeadline, mangos.OptionSendDeadline, mangos.OptionRetryTime,
	mangos.OptionSubscribe, mangos.OptionUnsubscribe, mangos.OptionSurveyTime, mangos.OptionTLSConfig,
	mangos.OptionWriteQLen, mangos.OptionReadQLen, mangos.OptionKeepAlive, mangos.OptionKeepAliveTime,
	mangos.OptionNoDelay, mangos.OptionLinger, mangos.OptionTTL, mangos.OptionMaxRecvSize,
	mangos.OptionReconnectTime, mangos.OptionMaxReconnectTime, mangos.OptionBestEffort,
	mangos.OptionLocalAddr, mangos.OptionRemoteAddr, mangos.OptionTLSConnState, mangos.OptionHTTPRequest,
	mangos.OptionDialAsynch, mangos.OptionPeerPID, mangos.OptionPeerUID, mangos.OptionPeerGID,
	mangos.OptionPeerZone, mangos.OptionFailNoPeers,
	ws.OptionWebSocketMux, ws.OptionWebSocketHandler, ws.OptionWebSocketCheckOrigin,
	ipc.OptionIpcSocketPermissions, ipc.OptionIpcSocketOwner, ipc.OptionIpcSocketGroup,
	ipc.OptionSecurityDescriptor, ipc.OptionInputBufferSize, ipc.OptionOutputBufferSize,
	// junk
	"", "x", "readq-len", "READQ-LEN ", " TTL", "\x00", "NO-SUCH-OPTION", "RECV-DEADLINE\n",
	"OPTION-" + strings.Repeat("Z", 300),
}

var junkNames = map[string]bool{"": true, "x": true, "readq-len": true, "READQ-LEN ": true, " TTL": true, "\x00": true,
	"NO-SUCH-OPTION": true, "RECV-DEADLINE\n": true, "OPTION-" + strings.Repeat("Z", 300): true}

func nameLabel(n string) string {
	switch {
	case n == "":
		return "<empty>"
	case len(n) > 40:
		return n[:8] + "...(long)"
	}
	return strings.NewReplacer(" ", "<sp>", "\x00", "<nul>", "\n", "<nl>").Replace(n)
}

type optVal struct {
	Label string
	V     interface{}
}

var sharedTLS = &tls.Config{MinVersion: tls.VersionTLS12}

// optValues: every value type and boundary value.  Queue lengths that would make the
// process really allocate (2^30 ..) are deliberately absent; maxint is in (it takes
// the deterministic "makechan: size out of range" path).
var optValues = []optVal{
	{"nil", nil},
	{"true", true}, {"false", false},
	{"minint", math.MinInt}, {"-1", -1}, {"0", 0}, {"1", 1}, {"2", 2}, {"255", 255}, {"256", 256}, {"65536", 65536}, {"maxint", math.MaxInt},
	{"-1ns", time.Duration(-1)}, {"0s", time.Duration(0)}, {"1ns", time.Duration(1)}, {"1s", time.Second}, {"maxdur", time.Duration(math.MaxInt64)}, {"mindur", time.Duration(math.MinInt64)},
	{`""`, ""}, {`"x"`, "x"}, {"[]byte{}", []byte{}}, {`[]byte("x")`, []byte("x")}, {"[]byte(nil)", []byte(nil)},
	{"uint32(0)", uint32(0)}, {"uint32(0600)", uint32(0o600)}, {"uint32(01777)", uint32(0o1777)}, {"uint32(max)", uint32(math.MaxUint32)},
	{"FileMode(0600)", os.FileMode(0o600)}, {"FileMode(dir|0700)", os.ModeDir | os.FileMode(0o700)},
	{"(*tls.Config)(nil)", (*tls.Config)(nil)}, {"&tls.Config{}", sharedTLS},
	{"float64(1.5)", float64(1.5)}, {"struct{}{}", struct{}{}},
	{"int64(1)", int64(1)}, {"int32(1)", int32(1)}, {"uint(1)", uint(1)}, {"int8(-1)", int8(-1)},
	{"(*int)(nil)", (*int)(nil)}, {"[]int{1}", []int{1}}, {"map", map[string]interface{}{"READQ-LEN": 1}},
	{"func", func() {}}, {"chan", make(chan int)},
}

// documented value types
var durOpts = map[string]bool{mangos.OptionRecvDeadline: true, mangos.OptionSendDeadline: true, mangos.OptionRetryTime: true,
	mangos.OptionSurveyTime: true, mangos.OptionKeepAliveTime: true, mangos.OptionLinger: true,
	mangos.OptionReconnectTime: true, mangos.OptionMaxReconnectTime: true}
var intOpts = map[string]bool{mangos.OptionWriteQLen: true, mangos.OptionReadQLen: true, mangos.OptionTTL: true,
	mangos.OptionMaxRecvSize: true, ipc.OptionIpcSocketOwner: true, ipc.OptionIpcSocketGroup: true}
var boolOpts = map[string]bool{mangos.OptionKeepAlive: true, mangos.OptionNoDelay: true, mangos.OptionBestEffort: true,
	mangos.OptionDialAsynch: true, mangos.OptionFailNoPeers: true, ws.OptionWebSocketCheckOrigin: true, mangos.OptionRaw: true}

// wrongType reports whether v has a type the documentation of option n does not allow
// (only for options whose documentation names the type).
func wrongType(n string, v interface{}) bool {
	switch {
	case durOpts[n]:
		_, ok := v.(time.Duration)
		return !ok
	case intOpts[n]:
		_, ok := v.(int)
		return !ok
	case boolOpts[n]:
		_, ok := v.(bool)
		return !ok
	case n == mangos.OptionTLSConfig:
		_, ok := v.(*tls.Config)
		return !ok
	case n == mangos.OptionSubscribe || n == mangos.OptionUnsubscribe:
		switch v.(type) {
		case []byte, string: // the code documents []byte and deliberately takes string too
			return false
		}
		return true
	case n == ipc.OptionIpcSocketPermissions:
		switch v.(type) {
		case uint32, os.FileMode:
			return false
		}
		return true
	}
	return false
}

// outOfRange: the documented ranges only — TTL 1..255, queue lengths non-negative,
// socket-level MaxRecvSize non-negative (endpoint-level negative = no limit is not flagged).
func outOfRange(kind, n string, v interface{}) bool {
	i, ok := v.(int)
	if !ok {
		return false
	}
	switch n {
	case mangos.OptionTTL:
		return i < 1 || i > 255
	case mangos.OptionReadQLen, mangos.OptionWriteQLen:
		return i < 0
	case mangos.OptionMaxRecvSize:
		return (kind == "sock") && i < 0
	}
	return false
}

// ---- objects -----------------------------------------------------------------

type setter interface {
	SetOption(string, interface{}) error
}
type getter interface {
	GetOption(string) (interface{}, error)
}

type gridObj struct {
	Kind  string // sock | ctx | dialer | listener | pipe
	Label string // signature label: "xsub", "sub.ctx", "dialer.tcp", "listener.ws", "pipe.ipc"
	Desc  string // witness description (protocol, transport, phase)
	G     getter
	S     setter // nil for pipes
}

type progress struct {
	mu   sync.Mutex
	what string
}

func (p *progress) set(f string, a ...interface{}) {
	s := fmt.Sprintf(f, a...)
	p.mu.Lock()
	p.what = s
	p.mu.Unlock()
}
func (p *progress) get() string { p.mu.Lock(); defer p.mu.Unlock(); return p.what }

func safeSet(s setter, n string, v interface{}) (err error, pan interface{}, stack string) {
	defer func() {
		if p := recover(); p != nil {
			pan = p
			stack = string(debug.Stack())
		}
	}()
	err = s.SetOption(n, v)
	return
}

func safeGet(g getter, n string) (v interface{}, err error, pan interface{}, stack string) {
	defer func() {
		if p := recover(); p != nil {
			pan = p
			stack = string(debug.Stack())
		}
	}()
	v, err = g.GetOption(n)
	return
}

// sameVal: DeepEqual, except that funcs, channels and maps (never equal under
// DeepEqual unless nil / deeply equal) are compared by identity.
func sameVal(a, b interface{}) bool {
	if a != nil && b != nil && reflect.TypeOf(a) == reflect.TypeOf(b) {
		switch reflect.TypeOf(a).Kind() {
		case reflect.Func, reflect.Chan, reflect.Map:
			return reflect.ValueOf(a).Pointer() == reflect.ValueOf(b).Pointer()
		}
	}
	return reflect.DeepEqual(a, b)
}

// libSite extracts the innermost library frame below the panic from a debug.Stack().
func libSite(stack string) string {
	lines := strings.Split(stack, "\n")
	seen := false
	for _, ln := range lines {
		if strings.HasPrefix(ln, "panic(") {
			seen = true
			continue
		}
		if !seen || strings.HasPrefix(ln, "\t") {
			continue
		}
		if strings.HasPrefix(ln, "go.nanomsg.org/mangos/v3") {
			if j := strings.LastIndex(ln, "("); j > 0 {
				ln = ln[:j]
			}
			return strings.TrimPrefix(ln, "go.nanomsg.org/mangos/v3/")
		}
	}
	return "?"
}

func trimStack(st string) string {
	lines := strings.Split(st, "\n")
	if len(lines) > 16 {
		lines = lines[:16]
	}
	return strings.Join(lines, "\n")
}

func errOK(kind string, err error) bool {
	if err == nil || err == mangos.ErrBadOption || err == mangos.ErrBadValue {
		return true
	}
	// reading (a) of DESIGN C19: for pipes the documented bad-option error of
	// stream pipes for unknown property names is ErrBadProperty
	return kind == "pipe" && err == mangos.ErrBadProperty
}

func isBadOpt(kind string, err error) bool {
	return err == mangos.ErrBadOption || (kind == "pipe" && err == mangos.ErrBadProperty)
}

// gridOne runs the whole name x value grid on one object and returns the
// outcome table (one row per name) used as the observable signature.
func gridOne(c *mon.Case, o gridObj, pg *progress) string {
	var rows []string
	calls, accepted, badval, badopt, roundtrips, setOnly := 0, 0, 0, 0, 0, 0
	for _, n := range optNames {
		nl := nameLabel(n)
		// Get before any Set of this name: never panics, never an odd error
		pg.set("%s Get(%s)", o.Desc, nl)
		_, gerr, gp, gst := safeGet(o.G, n)
		calls++
		if gp != nil {
			c.Violate(fmt.Sprintf("opt-panic:%s/get:%s", o.Label, nl), "%s: GetOption(%q) panicked: %v (in %s)\n%s", o.Desc, n, gp, libSite(gst), trimStack(gst))
		} else if !errOK(o.Kind, gerr) {
			c.Violate(fmt.Sprintf("opt-odd-error:%s/get:%s", o.Label, nl), "%s: GetOption(%q) returned %v; allowed: nil, ErrBadOption", o.Desc, n, gerr)
		}
		getClass := "g"
		if gerr != nil {
			getClass = "-"
		}
		if junkNames[n] && gp == nil && gerr == nil {
			c.Violate(fmt.Sprintf("opt-junk-supported:%s/get:%s", o.Label, nl), "%s: GetOption(%q) of an arbitrary string succeeded", o.Desc, n)
		}
		if o.S == nil {
			rows = append(rows, nl+":"+getClass)
			continue
		}
		row := make([]byte, 0, len(optValues))
		var accV, rejV, boV []string
		for _, ov := range optValues {
			pg.set("%s Set(%s, %s)", o.Desc, nl, ov.Label)
			err, pan, st := safeSet(o.S, n, ov.V)
			calls++
			cell := fmt.Sprintf("%s/%s=%s", o.Label, nl, ov.Label)
			switch {
			case pan != nil:
				row = append(row, 'P')
				c.Violate("opt-panic:"+cell, "%s: SetOption(%q, %s) panicked: %v (in %s)\n%s", o.Desc, n, ov.Label, pan, libSite(st), trimStack(st))
				continue
			case err == nil:
				row = append(row, 'A')
				accepted++
				accV = append(accV, ov.Label)
			case err == mangos.ErrBadValue:
				row = append(row, 'V')
				badval++
				rejV = append(rejV, ov.Label)
				// the documented range is accepted whole, boundaries included (TTL: 1..255 on every pattern that has it)
				if i, ok := ov.V.(int); ok && n == mangos.OptionTTL && i >= 1 && i <= 255 {
					c.Violate("opt-in-range-rejected:"+cell, "%s: SetOption(%q, %s) returned ErrBadValue for a value inside the documented range 1..255", o.Desc, n, ov.Label)
				}
				continue
			case isBadOpt(o.Kind, err):
				row = append(row, 'O')
				badopt++
				boV = append(boV, ov.Label)
				continue
			default:
				row = append(row, 'E')
				c.Violate("opt-odd-error:"+cell, "%s: SetOption(%q, %s) returned %v; allowed: nil, ErrBadOption, ErrBadValue", o.Desc, n, ov.Label, err)
				continue
			}
			// accepted
			if junkNames[n] {
				c.Violate("opt-junk-supported:"+cell, "%s: SetOption(%q, %s) of an arbitrary option name was accepted", o.Desc, n, ov.Label)
			}
			if wrongType(n, ov.V) {
				c.Violate("opt-wrong-type-accepted:"+cell, "%s: SetOption(%q, %s) accepted a value of type %T, documented type differs", o.Desc, n, ov.Label, ov.V)
			}
			if outOfRange(o.Kind, n, ov.V) {
				c.Violate("opt-out-of-range-accepted:"+cell, "%s: SetOption(%q, %s) accepted a value outside the documented range", o.Desc, n, ov.Label)
			}
			pg.set("%s Get(%s) after Set(%s)", o.Desc, nl, ov.Label)
			got, gerr, gp, gst := safeGet(o.G, n)
			calls++
			switch {
			case gp != nil:
				c.Violate("opt-panic:"+cell+"/get", "%s: GetOption(%q) after accepted SetOption(%s) panicked: %v (in %s)\n%s", o.Desc, n, ov.Label, gp, libSite(gst), trimStack(gst))
			case gerr == nil:
				roundtrips++
				if !sameVal(got, ov.V) {
					c.Violate("opt-roundtrip:"+cell, "%s: SetOption(%q, %s) was accepted but GetOption then returned %#v (%T)", o.Desc, n, ov.Label, got, got)
				}
			case isBadOpt(o.Kind, gerr):
				setOnly++ // settable but not gettable (reading (b) of DESIGN C19)
			default:
				c.Violate("opt-odd-error:"+cell+"/get", "%s: GetOption(%q) after accepted SetOption(%s) returned %v", o.Desc, n, ov.Label, gerr)
			}
		}
		if len(boV) > 0 && (len(accV) > 0 || len(rejV) > 0) {
			c.Violate(fmt.Sprintf("opt-inconsistent:%s/%s", o.Label, nl),
				"%s: option %q is answered as unsupported (ErrBadOption) for values %v but as supported for: accepted %v, ErrBadValue %v",
				o.Desc, n, boV, accV, rejV)
		}
		rows = append(rows, nl+":"+getClass+":"+string(row))
	}
	c.Count("option_calls", calls)
	c.Count("set_accepted", accepted)
	c.Count("set_badvalue", badval)
	c.Count("set_badoption", badopt)
	c.Count("get_after_set_compared", roundtrips)
	c.Count("set_only_options_seen", setOnly)
	c.Count("objects", 1)
	c.Count("objects_"+o.Kind, 1)
	sort.Strings(rows)
	return strings.Join(rows, "\n")
}

// gridRun runs the grid of every object in its own goroutine under the stuck
// detector: a wedged object (lock left held by a panicking setter, ...) is a
// violation naming the call that never returned, not a watchdog kill.
func gridRun(c *mon.Case, objs []gridObj) {
	for _, o := range objs {
		o := o
		pg := &progress{}
		call := mon.Go("grid", func() (interface{}, error) { return gridOne(c, o, pg), nil })
		r := call.Wait(mon.AwaitOpts{Watchdog: 5 * time.Minute})
		switch r.V {
		case mon.Done:
			v, _, _ := call.Result()
			c.Sig("%s|%s", o.Label, v.(string))
			c.Nontrivial()
		case mon.Stuck:
			at := pg.get()
			c.Violate("opt-stuck:"+o.Label+"/"+stuckCell(at), "option call never returned: %s — every goroutine parked, identical over 5 samples:\n%s", at, r.Dump)
			return
		default:
			c.Inconclusive("grid on %s not finished after %v (at %s)", o.Desc, r.Waited, pg.get())
			return
		}
	}
}

func stuckCell(at string) string {
	if i := strings.Index(at, " "); i >= 0 {
		// drop the description prefix up to the call
		for _, k := range []string{"Set(", "Get("} {
			if j := strings.Index(at, k); j >= 0 {
				return at[j:]
			}
		}
	}
	return at
}

// restoreQLens is cleanup, not oracle: leave sane queue lengths behind so a
// value accepted by the grid (maxint on lazily allocating setters) cannot blow
// up in a library goroutine when something attaches later.
func restoreQLens(s setter) {
	safeSet(s, mangos.OptionReadQLen, 16)
	safeSet(s, mangos.OptionWriteQLen, 16)
}

// ---- case bodies ---------------------------------------------------------------

func runGrid(c *mon.Case, sp spec) {
	proto, tr := sp.Proto, sp.Tran
	peer := hxPeer(proto)
	switch sp.Kind {
	case "grid-sock":
		if sp.Phase == "fresh" {
			s := newSock(c, proto)
			gridRun(c, []gridObj{{Kind: "sock", Label: proto, Desc: proto + " socket (fresh)", G: s, S: s}})
			restoreQLens(s)
			return
		}
		lk := connect(c, proto, peer, tr, false)
		if lk == nil {
			return
		}
		gridRun(c, []gridObj{{Kind: "sock", Label: proto, Desc: fmt.Sprintf("%s socket (listening, 1 %s peer over %s)", proto, peer, tr), G: lk.S, S: lk.S}})
		restoreQLens(lk.S)
		gridNoDetach(c, lk, proto)

	case "grid-ctx":
		var s mangos.Socket
		var lk *link
		if sp.Phase == "fresh" {
			s = newSock(c, proto)
		} else {
			if lk = connect(c, proto, peer, tr, false); lk == nil {
				return
			}
			s = lk.S
		}
		cx, err := s.OpenContext()
		if err != nil {
			c.Violate("ctx-open-failed:"+proto, "%s.OpenContext() returned %v", proto, err)
			return
		}
		c.Cleanup(func() { cx.Close() })
		gridRun(c, []gridObj{{Kind: "ctx", Label: proto + ".ctx", Desc: fmt.Sprintf("%s context (%s %s)", proto, sp.Phase, tr), G: cx, S: cx}})
		safeSet(cx, mangos.OptionReadQLen, 16)
		if lk != nil {
			gridNoDetach(c, lk, proto)
		}

	case "grid-dialer":
		if sp.Phase == "fresh" {
			s := newSock(c, proto)
			d, err := s.NewDialer(dialAddr(tr), tlsOpts(tr, false))
			if err != nil {
				c.Inconclusive("harness: NewDialer(%s): %v", tr, err)
				return
			}
			gridRun(c, []gridObj{{Kind: "dialer", Label: "dialer." + tr, Desc: fmt.Sprintf("%s dialer of a %s socket (not dialed)", tr, proto), G: d, S: d}})
			return
		}
		lk := connect(c, proto, peer, tr, true)
		if lk == nil {
			return
		}
		gridRun(c, []gridObj{{Kind: "dialer", Label: "dialer." + tr, Desc: fmt.Sprintf("%s dialer of a %s socket (connected)", tr, proto), G: lk.D, S: lk.D}})
		gridNoDetach(c, lk, proto)

	case "grid-listener":
		if sp.Phase == "fresh" {
			s := newSock(c, proto)
			l, err := s.NewListener(hxListenAddr(tr), tlsOpts(tr, true))
			if err != nil {
				c.Inconclusive("harness: NewListener(%s): %v", tr, err)
				return
			}
			gridRun(c, []gridObj{{Kind: "listener", Label: "listener." + tr, Desc: fmt.Sprintf("%s listener of a %s socket (not listening)", tr, proto), G: l, S: l}})
			return
		}
		lk := connect(c, proto, peer, tr, false)
		if lk == nil {
			return
		}
		gridRun(c, []gridObj{{Kind: "listener", Label: "listener." + tr, Desc: fmt.Sprintf("%s listener of a %s socket (1 pipe accepted)", tr, proto), G: lk.L, S: lk.L}})
		gridNoDetach(c, lk, proto)

	case "grid-pipe":
		lk := connect(c, proto, peer, tr, false)
		if lk == nil {
			return
		}
		sp1, pp1 := lk.SW.first(), lk.PW.first()
		objs := []gridObj{
			{Kind: "pipe", Label: "pipe." + tr, Desc: fmt.Sprintf("%s pipe (accepted side, %s socket)", tr, proto), G: sp1},
			{Kind: "pipe", Label: "pipe." + tr, Desc: fmt.Sprintf("%s pipe (dialed side, %s socket)", tr, peer), G: pp1},
		}
		gridRun(c, objs)
		if c.Failed() || c.Undecided() {
			return
		}
		gridNoDetach(c, lk, proto)
		// and once more after the pipe has been closed
		sp1.Close()
		awaitOrInconcl(c, "pipe Close leading to Detached", func() bool { return lk.SW.nDetached() >= 1 }, mon.AwaitOpts{})
		gridRun(c, []gridObj{{Kind: "pipe", Label: "pipe." + tr, Desc: fmt.Sprintf("%s pipe (accepted side, %s socket, after Close)", tr, proto), G: sp1}})
	}
}

// gridNoDetach: option calls alone (no traffic) must not have disconnected the peer.
func gridNoDetach(c *mon.Case, lk *link, proto string) {
	if n, m := lk.SW.nDetached(), lk.PW.nDetached(); n+m > 0 {
		c.Violate("opt-grid-disconnected:"+proto, "after running the option grid the pipe event hooks saw %d+%d Detached events although nothing was closed", n, m)
	}
}
