//go:build verif

package c19

import (
	"bytes"
	"fmt"
	"math"
	"reflect"
	"runtime/debug"
	"time"

	"go.nanomsg.org/mangos/v3"
	"go.nanomsg.org/mangos/v3/transport/ipc"
	"go.nanomsg.org/mangos/v3/transport/ws"

	"verifharness/hx"
	"verifharness/mon"
	"verifharness/vt"
)

// =============================================================================
// zero: an accepted zero duration means "no limit"
// =============================================================================

func zeroPlans(trans []string) []spec {
	var out []spec
	for _, p := range hx.AllProtos {
		for _, tr := range trans {
			out = append(out, spec{Kind: "zero", Proto: p, Opt: mangos.OptionRecvDeadline, Tran: tr})
			out = append(out, spec{Kind: "zero", Proto: p, Opt: mangos.OptionSendDeadline, Tran: tr})
		}
	}
	out = append(out, spec{Kind: "zero", Proto: "surveyor", Opt: mangos.OptionSurveyTime})
	out = append(out, spec{Kind: "zero", Proto: "req", Opt: mangos.OptionRetryTime})
	return out
}

// setZero sets opt to a short positive duration first (so that zero has a limit
// to remove) and then to zero.  Returns false when zero was not accepted.
func setZero(c *mon.Case, s mangos.Socket, proto, opt string) bool {
	err, pan, _ := safeSet(s, opt, 30*time.Millisecond)
	if pan != nil {
		return false // the grid reports panics
	}
	if err == mangos.ErrBadOption {
		c.Count("zero_option_unsupported", 1)
		return false
	}
	err, pan, _ = safeSet(s, opt, time.Duration(0))
	if pan != nil {
		return false
	}
	switch err {
	case nil:
		return true
	case mangos.ErrBadValue:
		// a documented value being rejected is outside what the statement fixes; recorded only
		c.Count("zero_duration_rejected", 1)
		c.Logf("%s: SetOption(%s, 0) rejected with ErrBadValue", proto, opt)
		c.Sig("zero|%s|%s|rejected", proto, opt)
	case mangos.ErrBadOption:
		c.Count("zero_option_unsupported", 1)
	default:
		c.Violate(fmt.Sprintf("opt-odd-error:%s/%s=0s", proto, nameLabel(opt)), "%s: SetOption(%s, 0) returned %v", proto, opt, err)
	}
	return false
}

// expectParked is the positive use of the stuck detector: the call must still be
// parked when the whole process has gone quiet (30 ms — the limit that zero
// replaced — has passed more than ten times over).
func expectParked(c *mon.Case, call *mon.Call, sigExpired, what string) bool {
	r := call.Wait(mon.AwaitOpts{MaxTimer: 30 * time.Millisecond})
	switch r.V {
	case mon.Stuck:
		c.Count("parked_confirmed_by_stuck_detector", 1)
		return true
	case mon.Done:
		v, err, _ := call.Result()
		c.Violate(sigExpired, "%s: returned (%v, %v) after %v although the accepted deadline is zero (no limit) and nothing could satisfy the call", what, brief(v), err, r.Waited)
	default:
		c.Inconclusive("%s: neither returned nor quiescent after %v", what, r.Waited)
	}
	return false
}

func brief(v interface{}) string {
	switch x := v.(type) {
	case *mangos.Message:
		if x == nil {
			return "<nil msg>"
		}
		return fmt.Sprintf("msg body=%q", x.Body)
	case []byte:
		return fmt.Sprintf("%q", x)
	}
	return fmt.Sprintf("%v", v)
}

func runZero(c *mon.Case, sp spec) {
	proto, opt := sp.Proto, sp.Opt
	label := proto + "/" + opt
	switch opt {
	case mangos.OptionRetryTime:
		zeroRetry(c)
		return
	case mangos.OptionSendDeadline:
		zeroSend(c, proto, trOr(sp.Tran))
		return
	}
	// RECV-DEADLINE (and SURVEY-TIME on surveyor): Recv stays parked, then completes when satisfied
	shape := shapeOf(proto)
	if shape == "out" {
		s := newSock(c, proto)
		if setZero(c, s, proto, opt) {
			c.Violate("opt-inconsistent-effect:"+label, "%s accepted %s although the pattern cannot receive", proto, opt)
		}
		return
	}
	pproto := hxPeer(proto)
	lk := connect(c, proto, pproto, trOr(sp.Tran), false)
	if lk == nil {
		return
	}
	prepPatience(lk.S)
	prepPatience(lk.P)
	if cookedOf(proto) == "sub" {
		lk.S.SetOption(mangos.OptionSubscribe, []byte{})
	}
	if !setZero(c, lk.S, proto, opt) {
		return
	}
	tag := []byte("zero-" + hx.Uniq("m"))
	if shape == "init" && !isRaw(proto) {
		// a request must be outstanding for Recv to wait for anything
		if _, err, ok := blk(c, "zero-setup-send-stuck:"+label, proto+" Send(request)", func() (interface{}, error) { return nil, lk.S.Send(tag) }); !ok || err != nil {
			if ok {
				c.Inconclusive("harness: %s Send returned %v", proto, err)
			}
			return
		}
	}
	call := mon.Go("Recv", func() (interface{}, error) { return lk.S.RecvMsg() })
	if !expectParked(c, call, "zero-deadline-expired:"+label, fmt.Sprintf("%s Recv with %s=0 and an idle %s peer", proto, opt, pproto)) {
		return
	}
	// satisfy it
	var err error
	switch shape {
	case "dgram", "in":
		err = sendData(lk.P, pproto, tag)
	case "resp":
		err = sendReq(lk.P, pproto, 1, tag)
	case "init":
		if isRaw(proto) {
			// raw initiators receive whatever a replier sends with a request id header: let S ask first
			if err = sendReq(lk.S, proto, 1, tag); err == nil {
				echoPeer(lk.P, pproto, 1)
			}
		} else {
			echoPeer(lk.P, pproto, 1)
		}
	}
	if err != nil {
		c.Inconclusive("harness: satisfying send failed: %v", err)
		return
	}
	if !c.AwaitOrViolate("zero-deadline-never-completes:"+label, fmt.Sprintf("%s Recv with %s=0 after the peer sent a message", proto, opt), call.Done, mon.AwaitOpts{}) {
		return
	}
	v, rerr, _ := call.Result()
	if rerr != nil {
		c.Violate("zero-deadline-error:"+label, "%s Recv with %s=0 returned %v once a message was available", proto, opt, rerr)
		return
	}
	if m := v.(*mangos.Message); !bytes.Equal(m.Body, tag) {
		c.Violate("zero-deadline-wrong-message:"+label, "%s Recv returned %q, want %q", proto, m.Body, tag)
		return
	}
	c.Count("zero_deadline_calls_completed", 1)
	c.Nontrivial()
	c.Sig("zero|%s|%s|%s|parked-then-completed", proto, opt, trOr(sp.Tran))
}

// zeroSend: SEND-DEADLINE=0 — a Send that cannot proceed (no peer, queue full)
// stays parked, and completes once a peer attaches.
func zeroSend(c *mon.Case, proto, tr string) {
	opt := mangos.OptionSendDeadline
	label := proto + "/" + opt
	if sh := shapeOf(proto); sh == "in" {
		s := newSock(c, proto)
		if setZero(c, s, proto, opt) {
			c.Violate("opt-inconsistent-effect:"+label, "%s accepted %s although the pattern cannot send", proto, opt)
		}
		return
	}
	s := newSock(c, proto)
	sw := watch(s)
	prepPatience(s)
	if !setZero(c, s, proto, opt) {
		return
	}
	switch proto {
	case "pair", "xpair", "pair1", "xpair1", "push", "xpush", "req", "xreq":
	default:
		// back-pressure of these patterns needs a connected, stalled peer; the
		// accepted zero is covered by the grid round trip only
		c.Count("zero_send_not_driven", 1)
		return
	}
	safeSet(s, mangos.OptionWriteQLen, 2)
	l, err := s.NewListener(hx.ListenAddr(tr), tlsOpts(tr, true))
	if err == nil {
		err = l.Listen()
	}
	if err != nil {
		c.Inconclusive("harness: listen: %v", err)
		return
	}
	// send until one Send parks (no peer: queue of 2 fills, or the pattern waits for a pipe)
	var parked *mon.Call
	var bodies [][]byte
	for i := 0; i < 140 && parked == nil; i++ {
		b := []byte(fmt.Sprintf("zs-%d", i))
		bodies = append(bodies, b)
		var call *mon.Call
		switch shapeOf(proto) {
		case "init":
			n := i + 1
			call = mon.Go("Send", func() (interface{}, error) { return nil, sendReq(s, proto, n, b) })
		default:
			call = mon.Go("Send", func() (interface{}, error) { return nil, sendData(s, proto, b) })
		}
		if call.ParkedIn("SendMsg") {
			parked = call
			break
		}
		if _, err, _ := call.Result(); err != nil {
			c.Violate("zero-deadline-expired:"+label, "%s Send #%d with %s=0 and no peer returned %v", proto, i, opt, err)
			return
		}
	}
	if parked == nil {
		c.Inconclusive("%s: 140 Sends without a peer and none blocked", proto)
		return
	}
	if !expectParked(c, parked, "zero-deadline-expired:"+label, fmt.Sprintf("%s Send with %s=0, no peer and a full queue", proto, opt)) {
		return
	}
	// satisfy: a peer attaches and reads
	pproto := hxPeer(proto)
	p := newSock(c, pproto)
	prepPatience(p)
	if shapeOf(proto) == "init" {
		echoPeer(p, pproto, 1)
	} else {
		go func() { // drain until closed (blocking reads)
			for {
				m, err := p.RecvMsg()
				if err != nil {
					return
				}
				m.Free()
			}
		}()
	}
	if err := p.DialOptions(l.Address(), tlsOpts(tr, false)); err != nil {
		c.Inconclusive("harness: dial: %v", err)
		return
	}
	if !c.AwaitOrViolate("zero-deadline-never-completes:"+label, fmt.Sprintf("%s Send with %s=0 after a %s peer attached and reads", proto, opt, pproto), parked.Done, mon.AwaitOpts{}) {
		return
	}
	if _, err, _ := parked.Result(); err != nil {
		c.Violate("zero-deadline-error:"+label, "%s Send with %s=0 returned %v once a peer was reading", proto, opt, err)
		return
	}
	_ = sw
	c.Count("zero_deadline_calls_completed", 1)
	c.Nontrivial()
	c.Sig("zero|%s|%s|%s|parked-then-completed|%d", proto, opt, tr, len(bodies))
}

// zeroRetry: REQ RETRY-TIME=0 means no automatic retry: exactly one
// transmission while the process goes quiet, and the reply is still accepted.
func zeroRetry(c *mon.Case) {
	label := "req/" + mangos.OptionRetryTime
	s := newSock(c, "req")
	w := watch(s)
	name := hx.Uniq("c19zr")
	L := vt.L(name)
	c.Cleanup(func() { vt.Forget(name) })
	if err := s.Listen(vt.Addr(name)); err != nil {
		c.Inconclusive("harness: listen vt: %v", err)
		return
	}
	if !setZero(c, s, "req", mangos.OptionRetryTime) {
		return
	}
	p := L.Connect()
	if !awaitOrInconcl(c, "vt pipe attach", func() bool { return w.nAttached() >= 1 }, mon.AwaitOpts{}) {
		return
	}
	if _, err, ok := blk(c, "zero-setup-send-stuck:"+label, "req Send", func() (interface{}, error) { return nil, s.Send([]byte("rq")) }); !ok || err != nil {
		if ok {
			c.Inconclusive("harness: req Send: %v", err)
		}
		return
	}
	r := mon.Await(func() bool { return p.SentCount() >= 2 }, mon.AwaitOpts{MaxTimer: 30 * time.Millisecond})
	switch r.V {
	case mon.Done:
		c.Violate("zero-retry-retransmitted:"+label, "REQ with RETRY-TIME=0 transmitted the request %d times (second after %v)", p.SentCount(), r.Waited)
		return
	case mon.Inconclusive:
		c.Inconclusive("req retry: process never quiescent")
		return
	}
	sent := p.SentLog()
	if len(sent) != 1 || len(sent[0].Wire()) < 4 {
		c.Violate("zero-retry-transmissions:"+label, "REQ with RETRY-TIME=0: %d transmissions, want exactly 1", len(sent))
		return
	}
	c.Count("parked_confirmed_by_stuck_detector", 1)
	p.Inject(hx.Cat(sent[0].Wire()[:4], []byte("answer")))
	v, err, ok := blk(c, "zero-deadline-never-completes:"+label, "req Recv of the reply", func() (interface{}, error) { return s.Recv() })
	if !ok {
		return
	}
	if err != nil || string(v.([]byte)) != "answer" {
		c.Violate("zero-deadline-error:"+label, "req Recv returned (%q, %v)", v, err)
		return
	}
	c.Nontrivial()
	c.Sig("zero|req|RETRY-TIME|one-transmission")
}

// =============================================================================
// retain: queue lengths are the number of messages retained (drop-on-overflow patterns)
// =============================================================================

func retainPlans(thorough bool) []spec {
	ks := []int{1, 5}
	if thorough {
		ks = []int{1, 2, 3, 5, 16, 64}
	}
	var out []spec
	for _, k := range ks {
		for _, p := range []string{"sub", "sub.ctx"} {
			for _, ph := range []string{"before", "after"} {
				out = append(out, spec{Kind: "retain", Proto: p, Opt: mangos.OptionReadQLen, K: k, Phase: ph})
			}
		}
		for _, p := range []string{"pub", "xpub", "bus", "xbus", "star", "xstar", "surveyor", "xsurveyor"} {
			out = append(out, spec{Kind: "retain", Proto: p, Opt: mangos.OptionWriteQLen, K: k, Phase: "before"})
		}
	}
	return out
}

func runRetain(c *mon.Case, sp spec) {
	if sp.Opt == mangos.OptionReadQLen {
		retainSub(c, sp)
	} else {
		retainSend(c, sp)
	}
}

// vtListen makes s listen on a fresh vt endpoint.
func vtListen(c *mon.Case, s mangos.Socket) *vt.ListenerCtl {
	name := hx.Uniq("c19")
	L := vt.L(name)
	c.Cleanup(func() { vt.Forget(name) })
	if err := s.Listen(vt.Addr(name)); err != nil {
		c.Inconclusive("harness: listen vt: %v", err)
		return nil
	}
	return L
}

func drained(p *vt.Pipe) func() bool {
	return func() bool {
		r, _ := p.Waiters()
		return p.Pending() == 0 && r >= 1
	}
}

// retainSub: SUB keeps the newest k.  n > k matching messages arrive, the last
// being the sentinel; everything is processed (receiver back in the transport's
// Recv with nothing pending); then exactly the newest k come out, in order, the
// sentinel last.
func retainSub(c *mon.Case, sp spec) {
	k := sp.K
	label := fmt.Sprintf("%s/READQ-LEN=%d", sp.Proto, k)
	s := newSock(c, "sub")
	w := watch(s)
	var rx interface {
		Recv() ([]byte, error)
		SetOption(string, interface{}) error
		GetOption(string) (interface{}, error)
	} = s
	if sp.Proto == "sub.ctx" {
		cx, err := s.OpenContext()
		if err != nil {
			c.Violate("ctx-open-failed:sub", "sub.OpenContext: %v", err)
			return
		}
		c.Cleanup(func() { cx.Close() })
		rx = cx
	}
	if err := rx.SetOption(mangos.OptionSubscribe, []byte("t")); err != nil {
		c.Inconclusive("harness: subscribe: %v", err)
		return
	}
	setQ := func() bool {
		if err := rx.SetOption(mangos.OptionReadQLen, k); err != nil {
			c.Violate("retain-set-rejected:"+label, "SetOption(READQ-LEN, %d) returned %v", k, err)
			return false
		}
		return true
	}
	if sp.Phase == "before" && !setQ() {
		return
	}
	L := vtListen(c, s)
	if L == nil {
		return
	}
	p := L.Connect()
	if !awaitOrInconcl(c, "vt pipe attach", func() bool { return w.nAttached() >= 1 }, mon.AwaitOpts{}) {
		return
	}
	if sp.Phase == "after" && !setQ() {
		return
	}
	n := k + 7
	var all []string
	for i := 1; i <= n; i++ {
		b := fmt.Sprintf("t%03d", i)
		if i == n {
			b = "t-sentinel"
		}
		all = append(all, b)
		p.Inject([]byte(b))
		if i%3 == 0 {
			p.Inject([]byte("unmatched")) // not subscribed: must not occupy a slot
		}
	}
	if !c.AwaitOrViolate("retain-receiver-stuck:"+label, "sub receiver taking the injected messages", drained(p), mon.AwaitOpts{}) {
		return
	}
	want := all[n-k:]
	var got []string
	for i := 0; i < n+2; i++ {
		v, err, ok := blk(c, "retain-fewer:"+label, fmt.Sprintf("sub Recv #%d of %d retained (got so far %v)", i+1, k, got), func() (interface{}, error) { return rx.Recv() })
		if !ok {
			return
		}
		if err != nil {
			c.Violate("retain-recv-error:"+label, "Recv returned %v", err)
			return
		}
		got = append(got, string(v.([]byte)))
		if got[len(got)-1] == "t-sentinel" {
			break
		}
	}
	c.Count("retained_messages_compared", len(got))
	if !reflect.DeepEqual(got, want) {
		sig := "retain-wrong:"
		if len(got) > len(want) {
			sig = "retain-more:"
		} else if len(got) < len(want) {
			sig = "retain-fewer:"
		}
		c.Violate(sig+label, "SUB with READQ-LEN=%d (%s connecting) after %d matching messages delivered %v, want the newest %d: %v", k, sp.Phase, n, got, k, want)
		return
	}
	if _, detached := w.nAttached(), w.nDetached(); detached > 0 {
		c.Violate("resize-disconnected:"+label, "Detached seen")
	}
	c.Nontrivial()
	c.Sig("retain|%s|%d|%s|%v", sp.Proto, k, sp.Phase, got)
}

// retainSend: PUB/BUS/STAR/SURVEYOR keep k per pipe and drop the newest beyond.
// The vt peer stalls; message 0 is in the sender goroutine's hands (known: it is
// parked inside the held transport Send), then k+6 more are sent; after release
// exactly 0..k come out, and a sentinel sent afterwards is the very next one.
func retainSend(c *mon.Case, sp spec) {
	k, proto := sp.K, sp.Proto
	label := fmt.Sprintf("%s/WRITEQ-LEN=%d", proto, k)
	s := newSock(c, proto)
	w := watch(s)
	prepPatience(s)
	if err := s.SetOption(mangos.OptionWriteQLen, k); err != nil {
		c.Violate("retain-set-rejected:"+label, "SetOption(WRITEQ-LEN, %d) returned %v", k, err)
		return
	}
	L := vtListen(c, s)
	if L == nil {
		return
	}
	p := L.Connect()
	if !awaitOrInconcl(c, "vt pipe attach", func() bool { return w.nAttached() >= 1 }, mon.AwaitOpts{}) {
		return
	}
	p.HoldSends()
	nreq := 0
	send := func(b string) error {
		nreq++
		if shapeOf(proto) == "init" {
			return sendReq(s, proto, nreq, []byte(b))
		}
		return sendData(s, proto, []byte(b))
	}
	if err := send("m000"); err != nil {
		c.Violate("retain-send-error:"+label, "Send returned %v", err)
		return
	}
	if !c.AwaitOrViolate("retain-sender-stuck:"+label, "pipe sender picking up the first message", func() bool { _, sw := p.Waiters(); return sw >= 1 }, mon.AwaitOpts{}) {
		return
	}
	n := k + 6
	for i := 1; i <= n; i++ {
		if err := send(fmt.Sprintf("m%03d", i)); err != nil {
			c.Violate("retain-send-error:"+label, "Send #%d returned %v (best-effort pattern)", i, err)
			return
		}
	}
	p.ReleaseSends()
	r := mon.Await(func() bool { return p.SentCount() >= 1+k }, mon.AwaitOpts{})
	if r.V == mon.Inconclusive {
		c.Inconclusive("retain: transmissions neither complete nor quiescent")
		return
	}
	if r.V == mon.Stuck {
		c.Violate("retain-fewer:"+label, "%s with WRITEQ-LEN=%d: a stalled peer was sent 1+%d messages; after it resumed only %d were transmitted (1 in flight + %d queued expected)\n%s", proto, k, n, p.SentCount(), k, r.Dump)
		return
	}
	if err := send("m-sentinel"); err != nil {
		c.Violate("retain-send-error:"+label, "Send(sentinel) returned %v", err)
		return
	}
	if !c.AwaitOrViolate("retain-sentinel-stuck:"+label, "sentinel transmission", func() bool {
		lg := p.SentLog()
		return len(lg) > 0 && bytes.HasSuffix(lg[len(lg)-1].Body, []byte("m-sentinel"))
	}, mon.AwaitOpts{}) {
		return
	}
	var got, want []string
	for _, st := range p.SentLog() {
		b := st.Body
		if i := bytes.Index(b, []byte("m")); i >= 0 {
			b = b[i:]
		}
		got = append(got, string(b))
	}
	for i := 0; i <= k; i++ {
		want = append(want, fmt.Sprintf("m%03d", i))
	}
	want = append(want, "m-sentinel")
	c.Count("retained_messages_compared", len(got))
	if !reflect.DeepEqual(got, want) {
		sig := "retain-wrong:"
		if len(got) > len(want) {
			sig = "retain-more:"
		} else if len(got) < len(want) {
			sig = "retain-fewer:"
		}
		c.Violate(sig+label, "%s with WRITEQ-LEN=%d: stalled peer, 1+%d sends; transmitted after release: %v, want %v", proto, k, n, got, want)
		return
	}
	c.Nontrivial()
	c.Sig("retain|%s|%d|%v", proto, k, got)
}

// =============================================================================
// qlen0: an accepted queue length of zero leaves the socket responsive and connected
// =============================================================================

func qlen0Plans(trans []string) []spec {
	var out []spec
	for _, p := range hx.AllProtos {
		for _, o := range []string{mangos.OptionReadQLen, mangos.OptionWriteQLen} {
			for _, tr := range trans {
				out = append(out, spec{Kind: "qlen0", Proto: p, Opt: o, Tran: tr})
			}
		}
	}
	return out
}

func runQLen0(c *mon.Case, sp spec) {
	proto, opt := sp.Proto, sp.Opt
	label := proto + "/" + opt + "=0"
	lk, pproto := linkFor(c, proto, trOr(sp.Tran), false, 1, false)
	if lk == nil {
		return
	}
	err, pan, _ := safeSet(lk.S, opt, 0)
	if pan != nil || err != nil {
		c.Count("qlen0_not_accepted", 1)
		return
	}
	// traffic in the direction the queue serves; fire and forget (a blocked call
	// is a parked harness goroutine, nothing waits for it)
	shape := shapeOf(proto)
	for i := 0; i < 3; i++ {
		n := 1000 + i
		b := []byte(fmt.Sprintf("q0-%d", i))
		switch {
		case opt == mangos.OptionReadQLen && (shape == "dgram" || shape == "in"):
			mon.Go("peer Send", func() (interface{}, error) { return nil, sendData(lk.P, pproto, b) })
		case opt == mangos.OptionReadQLen && shape == "resp":
			mon.Go("peer Send", func() (interface{}, error) { return nil, sendReq(lk.P, pproto, n, b) })
		case opt == mangos.OptionReadQLen && shape == "init":
			mon.Go("Send", func() (interface{}, error) { return nil, sendReq(lk.S, proto, n, b) }) // the echo flows back in
		case opt == mangos.OptionWriteQLen && (shape == "dgram" || shape == "out"):
			mon.Go("Send", func() (interface{}, error) { return nil, sendData(lk.S, proto, b) })
		case opt == mangos.OptionWriteQLen && shape == "init":
			mon.Go("Send", func() (interface{}, error) { return nil, sendReq(lk.S, proto, n, b) })
		}
	}
	// the messages must have reached the socket's receive path before responsiveness is probed:
	// wait until the process is quiet or traffic has settled (pacing only)
	mon.Await(func() bool { return false }, mon.AwaitOpts{Watchdog: 1200 * time.Millisecond, Samples: 2, Gap: 100 * time.Millisecond})
	v, gerr, ok := blk(c, "qlen0-wedged:"+label, fmt.Sprintf("%s GetOption(%s) after %s=0 was accepted and traffic flowed", proto, opt, opt), func() (interface{}, error) { return lk.S.GetOption(opt) })
	if !ok {
		return
	}
	if gerr != nil || !reflect.DeepEqual(v, 0) {
		c.Violate("opt-roundtrip:"+label, "GetOption returned (%v, %v) after accepted 0", v, gerr)
	}
	if _, serr, ok := blk(c, "qlen0-wedged:"+label, fmt.Sprintf("%s SetOption(%s, 8) after %s=0 and traffic", proto, opt, opt), func() (interface{}, error) { return nil, lk.S.SetOption(opt, 8) }); !ok {
		return
	} else if serr != nil {
		c.Violate("qlen0-restore-rejected:"+label, "SetOption(%s, 8) returned %v", opt, serr)
		return
	}
	if d1, d2 := lk.SW.nDetached(), lk.PW.nDetached(); d1+d2 > 0 {
		c.Violate("resize-disconnected:"+label, "%s: after %s=0, traffic, and %s=8 the hooks saw %d+%d Detached", proto, opt, opt, d1, d2)
		return
	}
	if !exchangeOrDetached(c, "qlen0-exchange", label, lk, proto, pproto) {
		return
	}
	c.Nontrivial()
	c.Sig("qlen0|%s|%s|%s", proto, opt, trOr(sp.Tran))
}

// exchangeOrDetached runs exchange(); a failure is reported as a disconnect when
// the hooks saw one by then (the more specific signature).
func exchangeOrDetached(c *mon.Case, sigp, label string, lk *link, proto, pproto string) bool {
	defer lk.watchDetach()()
	ok := exchange(c, sigp, label, lk, proto, pproto)
	if d1, d2 := lk.SW.nDetached(), lk.PW.nDetached(); d1+d2 > 0 {
		c.Violate("resize-disconnected:"+label, "%s: the pipe event hooks saw %d+%d Detached events although nothing was closed", proto, d1, d2)
		return false
	}
	return ok
}

// =============================================================================
// deferred: an accepted queue length must not blow up when it is first used
// =============================================================================

func deferredPlans() []spec {
	var out []spec
	for _, p := range hx.AllProtos {
		for _, o := range []string{mangos.OptionReadQLen, mangos.OptionWriteQLen} {
			out = append(out, spec{Kind: "deferred", Proto: p, Opt: o})
		}
	}
	return out
}

func runDeferred(c *mon.Case, sp spec) {
	proto, opt := sp.Proto, sp.Opt
	label := fmt.Sprintf("%s/%s=maxint", proto, opt)
	s, err := hx.SockCtors[proto]()
	if err != nil {
		panic(err)
	}
	healthy := true
	c.Cleanup(func() {
		if healthy {
			s.Close() // after a panic inside AddPipe the pipe lock is left held: Close would hang
		}
	})
	prepPatience(s)
	serr, pan, _ := safeSet(s, opt, math.MaxInt)
	if pan != nil || serr != nil {
		c.Count("deferred_not_accepted", 1) // rejected, or panicked at once (the grid reports that)
		return
	}
	c.Count("deferred_maxint_accepted", 1)
	name := hx.Uniq("c19df")
	D := vt.D(name)
	D.SetDefault(vt.Outcome{Kind: vt.Succeed})
	c.Cleanup(func() { vt.Forget(name) })
	s.SetOption(mangos.OptionReconnectTime, time.Hour)
	try := func(what string, f func() error) bool {
		var perr interface{}
		var st string
		call := mon.Go(what, func() (interface{}, error) {
			defer func() {
				if p := recover(); p != nil {
					perr, st = p, string(debug.Stack())
				}
			}()
			return nil, f()
		})
		r := call.Wait(mon.AwaitOpts{})
		if r.V != mon.Done {
			// a blocked Send (no reader) is fine here; only panics matter
			return true
		}
		if perr != nil {
			healthy = false
			site := libSite(st)
			c.Violate("opt-deferred-panic:"+label, "%s accepted SetOption(%s, maxint); the next %s panicked: %v (in %s)\n%s", proto, opt, what, perr, site, trimStack(st))
			return false
		}
		return true
	}
	if !try("Dial (AddPipe)", func() error { return s.Dial(vt.Addr(name)) }) {
		return
	}
	if shapeOf(proto) != "in" {
		if !try("Send", func() error {
			if shapeOf(proto) == "init" {
				return sendReq(s, proto, 1, []byte("d"))
			}
			if shapeOf(proto) == "resp" {
				return nil
			}
			return sendData(s, proto, []byte("d"))
		}) {
			return
		}
	}
	if p := D.LastPipe(); p != nil && shapeOf(proto) != "out" {
		// one inbound message through the receive path
		switch shapeOf(proto) {
		case "resp":
			p.Inject(hx.Cat(be32(reqID(5)), []byte("in")))
		case "init":
			p.Inject(hx.Cat(be32(reqID(1)), []byte("in")))
		default:
			p.Inject(hx.Cat([]byte{0, 0, 0, 0}, []byte("in")))
		}
		mon.Await(func() bool { return p.Pending() == 0 }, mon.AwaitOpts{Watchdog: 2 * time.Second})
	}
	c.Nontrivial()
	c.Sig("deferred|%s|%s|survived", proto, opt)
}

// =============================================================================
// inherit: options set on the socket are read back from objects created afterwards
// =============================================================================

type extraOpt struct {
	n string
	v interface{}
}

// inheritExtras lists, per transport, harmless creation-time options other than the inherited ones.
func inheritExtras(tr string, server bool) []extraOpt {
	switch tr {
	case "tcp", "tls+tcp":
		return []extraOpt{{mangos.OptionNoDelay, true}, {mangos.OptionKeepAlive, true}}
	case "ws", "wss":
		if server {
			return []extraOpt{{ws.OptionWebSocketCheckOrigin, false}}
		}
		return []extraOpt{{mangos.OptionNoDelay, true}}
	case "ipc":
		if server {
			return []extraOpt{{ipc.OptionIpcSocketPermissions, uint32(0600)}}
		}
	}
	return nil
}

func runInherit(c *mon.Case, sp spec) {
	proto, tr := sp.Proto, sp.Tran
	s := newSock(c, proto)
	type ov struct {
		n string
		v interface{}
	}
	sockLevel := []ov{
		{mangos.OptionReconnectTime, 7 * time.Second},
		{mangos.OptionMaxReconnectTime, 9 * time.Second},
		{mangos.OptionDialAsynch, true},
		{mangos.OptionMaxRecvSize, 4321},
	}
	var acc []ov
	for _, o := range sockLevel {
		if err := s.SetOption(o.n, o.v); err != nil {
			c.Violate(fmt.Sprintf("inherit-set-rejected:%s/%s", proto, o.n), "%s socket SetOption(%s, %v) returned %v", proto, o.n, o.v, err)
			continue
		}
		acc = append(acc, o)
	}
	compared := 0
	check := func(kind string, g getter) {
		for _, o := range acc {
			v, err, pan, st := safeGet(g, o.n)
			switch {
			case pan != nil:
				c.Violate(fmt.Sprintf("opt-panic:%s.%s/get:%s", kind, tr, o.n), "GetOption(%s) panicked: %v\n%s", o.n, pan, trimStack(st))
			case err == mangos.ErrBadOption:
				c.Count("inherit_not_provided", 1) // the endpoint kind/transport does not have the option
			case err != nil:
				c.Violate(fmt.Sprintf("opt-odd-error:%s.%s/get:%s", kind, tr, o.n), "GetOption(%s) returned %v", o.n, err)
			default:
				compared++
				if !reflect.DeepEqual(v, o.v) {
					c.Violate(fmt.Sprintf("inherit:%s.%s/%s", kind, tr, o.n), "%s socket: SetOption(%s, %v) accepted; a %s %s created afterwards returns %v from GetOption", proto, o.n, o.v, tr, kind, v)
				}
			}
		}
	}
	d, err := s.NewDialer(dialAddr(tr), tlsOpts(tr, false))
	if err != nil {
		c.Inconclusive("harness: NewDialer(%s): %v", tr, err)
	} else {
		check("dialer", d)
	}
	l, err := s.NewListener(hx.ListenAddr(tr), tlsOpts(tr, true))
	if err != nil {
		c.Inconclusive("harness: NewListener(%s): %v", tr, err)
	} else {
		check("listener", l)
	}
	// the same with endpoints configured at creation with some other option of their
	// transport: what the socket provides is inherited unless that very option is given
	for _, x := range inheritExtras(tr, false) {
		o := tlsOpts(tr, false)
		if o == nil {
			o = map[string]interface{}{}
		}
		o[x.n] = x.v
		if d, err := s.NewDialer(dialAddr(tr), o); err != nil {
			c.Inconclusive("harness: NewDialer(%s, %s): %v", tr, x.n, err)
		} else {
			check("dialer+"+x.n, d)
		}
	}
	for _, x := range inheritExtras(tr, true) {
		o := tlsOpts(tr, true)
		if o == nil {
			o = map[string]interface{}{}
		}
		o[x.n] = x.v
		if l, err := s.NewListener(hx.ListenAddr(tr), o); err != nil {
			c.Inconclusive("harness: NewListener(%s, %s): %v", tr, x.n, err)
		} else {
			check("listener+"+x.n, l)
		}
	}
	// and an explicit value given at creation wins over the socket's
	{
		o := tlsOpts(tr, false)
		if o == nil {
			o = map[string]interface{}{}
		}
		o[mangos.OptionMaxRecvSize] = 1234
		if d, err := s.NewDialer(dialAddr(tr), o); err == nil {
			if v, err := d.GetOption(mangos.OptionMaxRecvSize); err == nil {
				compared++
				if !reflect.DeepEqual(v, 1234) {
					c.Violate(fmt.Sprintf("inherit-explicit:dialer.%s/%s", tr, mangos.OptionMaxRecvSize), "%s socket (MAX-RCV-SIZE 4321): a %s dialer created with MAX-RCV-SIZE 1234 returns %v from GetOption", proto, tr, v)
				}
			}
		}
	}
	// contexts (transport independent: once, on inproc)
	if hasCtx(proto) && tr == "inproc" {
		type nv struct {
			n string
			v interface{}
		}
		var plan []nv
		for _, n := range optNames {
			switch {
			case durOpts[n]:
				// also the accepted zero ("no limit") must arrive in the new context as zero
				plan = append(plan, nv{n, 7 * time.Second}, nv{n, time.Duration(0)}, nv{n, 3 * time.Second})
			case intOpts[n]:
				plan = append(plan, nv{n, 7})
			case boolOpts[n]:
				plan = append(plan, nv{n, true}, nv{n, false})
			}
		}
		for _, e := range plan {
			n, v := e.n, e.v
			if err, pan, _ := safeSet(s, n, v); pan != nil || err != nil {
				continue
			}
			cx, err := s.OpenContext()
			if err != nil {
				c.Violate("ctx-open-failed:"+proto, "%s.OpenContext: %v", proto, err)
				return
			}
			got, gerr, pan, _ := safeGet(cx, n)
			cx.Close()
			if pan != nil || gerr != nil {
				c.Count("inherit_not_provided", 1) // contexts of this pattern do not have the option
				continue
			}
			compared++
			if !reflect.DeepEqual(got, v) {
				c.Violate(fmt.Sprintf("inherit:%s.ctx/%s", proto, n), "%s socket: SetOption(%s, %v) accepted; a context opened afterwards has the option but GetOption returns %v", proto, n, v, got)
			}
		}
	}
	c.Count("inherited_values_compared", compared)
	if compared > 0 {
		c.Nontrivial()
	}
	c.Sig("inherit|%s|%s|%d", proto, tr, compared)
}
