//go:build verif

package c19

import (
	"fmt"
	"math"
	"math/rand"
	"reflect"
	"time"

	"go.nanomsg.org/mangos/v3"

	"verifharness/hx"
	"verifharness/mon"
	"verifharness/vt"
)

// =============================================================================
// propagate: a socket-level endpoint option accepted by the socket reaches the
// dialers (and, for MAX-RCV-SIZE, the listeners) that exist already
// =============================================================================
//
// The unchanged core socket forwards RECONNECT-TIME, MAX-RECONNECT-TIME,
// DIAL-ASYNCH and MAX-RCV-SIZE to every dialer and listener it has.  Dialers
// keep the first three themselves and hand anything else to their transport
// (asking the socket when the transport has no such option), listeners keep
// nothing and ask their transport.  What is demanded is what is uniform there:
//
//	every existing dialer returns the accepted value of all four options,
//	every existing listener that has MAX-RCV-SIZE returns the accepted value,
//
// whatever state the endpoint is in (just created, created with explicit values
// of the same options, started, connected).  Only non-negative values are drawn:
// the socket takes any duration, a dialer only non-negative ones.
//
// Phase "effect" (vt transport, the harness holds the dialer's peer end):
// DIAL-ASYNCH and RECONNECT-TIME accepted by the socket after the dialer was
// created decide what that dialer's Dial does — returns at once / reports the
// refusal, and the second attempt starts no earlier than the accepted reconnect
// time after the first one failed (an exact lower bound on the harness clock).

var propTrans = append(append([]string{}, hx.Transports...), "vt")

var propDurs = []time.Duration{0, time.Millisecond, 250 * time.Millisecond, 7 * time.Second, time.Hour, math.MaxInt64}
var propSizes = []int{0, 1, 4321, 1 << 20, math.MaxInt32}

func propagatePlans(r *mon.Runner, rnd *rand.Rand) []spec {
	var out []spec
	for _, p := range hx.AllProtos {
		for _, tr := range propTrans {
			out = append(out, spec{Kind: "propagate", Proto: p, Tran: tr, Phase: "fresh", Seed: 1 + rnd.Int63n(1<<40)})
			if tr != "vt" && (r.Thorough() || tr == "inproc") {
				out = append(out, spec{Kind: "propagate", Proto: p, Tran: tr, Phase: "conn", Seed: 1 + rnd.Int63n(1<<40)})
			}
		}
	}
	for i, p := range hx.AllProtos {
		if r.Thorough() {
			for k := 0; k < 3; k++ {
				out = append(out, spec{Kind: "propagate", Proto: p, Tran: "vt", Phase: "effect", K: k})
			}
		} else {
			out = append(out, spec{Kind: "propagate", Proto: p, Tran: "vt", Phase: "effect", K: i % 3})
		}
	}
	return out
}

type propEP struct {
	label string
	g     getter
}

func propOpts(tr string, server bool, extra map[string]interface{}) map[string]interface{} {
	o := map[string]interface{}{}
	for k, v := range tlsOpts(tr, server) {
		o[k] = v
	}
	for k, v := range extra {
		o[k] = v
	}
	if len(o) == 0 {
		return nil
	}
	return o
}

func propDialAddr(c *mon.Case, tr string) string {
	if tr != "vt" {
		return dialAddr(tr)
	}
	name := hx.Uniq("c19pg")
	vt.D(name).SetDefault(vt.Outcome{Kind: vt.Refuse})
	c.Cleanup(func() { vt.Forget(name) })
	return vt.Addr(name)
}

func propListenAddr(c *mon.Case, tr string) string {
	if tr != "vt" {
		return hx.ListenAddr(tr)
	}
	name := hx.Uniq("c19pg")
	vt.L(name)
	c.Cleanup(func() { vt.Forget(name) })
	return vt.Addr(name)
}

func runPropagate(c *mon.Case, sp spec) {
	if sp.Phase == "effect" {
		runPropagateEffect(c, sp)
		return
	}
	proto, tr := sp.Proto, sp.Tran
	rnd := rand.New(rand.NewSource(sp.Seed))
	var s mangos.Socket
	var dialers, listeners []propEP
	if sp.Phase == "conn" {
		lk := connect(c, proto, hxPeer(proto), tr, true)
		if lk == nil {
			return
		}
		s = lk.S
		dialers = append(dialers, propEP{"connected", lk.D})
	} else {
		s = newSock(c, proto)
	}
	// anything started below must stay quiet for the rest of the case
	if err := s.SetOption(mangos.OptionReconnectTime, time.Hour); err != nil {
		c.Inconclusive("harness: %s SetOption(RECONNECT-TIME, 1h): %v", proto, err)
		return
	}
	if d, err := s.NewDialer(propDialAddr(c, tr), propOpts(tr, false, nil)); err != nil {
		c.Inconclusive("harness: NewDialer(%s): %v", tr, err)
	} else {
		dialers = append(dialers, propEP{"fresh", d})
	}
	explicit := map[string]interface{}{mangos.OptionReconnectTime: 5 * time.Second, mangos.OptionMaxReconnectTime: 6 * time.Second,
		mangos.OptionDialAsynch: rnd.Intn(2) == 0}
	if tr != "inproc" { // an inproc dialer has no MAX-RCV-SIZE of its own (Get falls through to the socket's)
		explicit[mangos.OptionMaxRecvSize] = 1234
	}
	if d, err := s.NewDialer(propDialAddr(c, tr), propOpts(tr, false, explicit)); err != nil {
		c.Inconclusive("harness: NewDialer(%s, explicit options): %v", tr, err)
	} else {
		dialers = append(dialers, propEP{"explicit", d})
	}
	if d, err := s.NewDialer(propDialAddr(c, tr), propOpts(tr, false, map[string]interface{}{mangos.OptionDialAsynch: true})); err != nil {
		c.Inconclusive("harness: NewDialer(%s, asynch): %v", tr, err)
	} else if _, derr, ok := blk(c, "propagate-setup-dial-stuck:"+tr, "asynchronous Dial with nothing listening", func() (interface{}, error) { return nil, d.Dial() }); !ok {
		return
	} else if derr != nil {
		c.Inconclusive("harness: asynchronous Dial(%s) returned %v", tr, derr)
	} else {
		dialers = append(dialers, propEP{"started", d})
	}
	if l, err := s.NewListener(propListenAddr(c, tr), propOpts(tr, true, nil)); err != nil {
		c.Inconclusive("harness: NewListener(%s): %v", tr, err)
	} else {
		listeners = append(listeners, propEP{"fresh", l})
	}
	if l, err := s.NewListener(propListenAddr(c, tr), propOpts(tr, true, nil)); err != nil {
		c.Inconclusive("harness: NewListener(%s): %v", tr, err)
	} else if err := l.Listen(); err != nil {
		c.Inconclusive("harness: Listen(%s): %v", tr, err)
	} else {
		listeners = append(listeners, propEP{"listening", l})
	}

	names := []string{mangos.OptionReconnectTime, mangos.OptionMaxReconnectTime, mangos.OptionDialAsynch, mangos.OptionMaxRecvSize}
	last := map[string]interface{}{}
	for _, n := range names {
		if v, err := s.GetOption(n); err == nil {
			last[n] = v
		}
	}
	draw := func(n string) interface{} {
		for {
			var v interface{}
			switch n {
			case mangos.OptionDialAsynch:
				v = !reflect.DeepEqual(last[n], true)
			case mangos.OptionMaxRecvSize:
				v = propSizes[rnd.Intn(len(propSizes))]
			default:
				v = propDurs[rnd.Intn(len(propDurs))]
			}
			if !reflect.DeepEqual(v, last[n]) { // every Set changes the value: a stale endpoint shows
				return v
			}
		}
	}
	compared, accepted := 0, 0
	trail := ""
	rounds := 2 + rnd.Intn(2)
	for round := 0; round < rounds; round++ {
		for _, i := range rnd.Perm(len(names)) {
			n := names[i]
			v := draw(n)
			err, pan, st := safeSet(s, n, v)
			if pan != nil {
				c.Violate(fmt.Sprintf("opt-panic:%s.%s/set:%s", proto, tr, n), "%s socket with %d dialers and %d listeners: SetOption(%s, %v) panicked: %v\n%s", proto, len(dialers), len(listeners), n, v, pan, trimStack(st))
				return
			}
			if err != nil {
				c.Violate(fmt.Sprintf("propagate-set-rejected:%s/%s", proto, n), "%s socket with %d dialers and %d listeners: SetOption(%s, %v) returned %v", proto, len(dialers), len(listeners), n, v, err)
				continue
			}
			accepted++
			last[n] = v
			trail += fmt.Sprintf("%s=%v;", n, v)
			look := func(kind string, ep propEP) {
				got, gerr, pan, st := safeGet(ep.g, n)
				switch {
				case pan != nil:
					c.Violate(fmt.Sprintf("opt-panic:%s.%s/get:%s", kind, tr, n), "GetOption(%s) panicked: %v\n%s", n, pan, trimStack(st))
				case gerr == mangos.ErrBadOption:
					c.Count("propagate_not_provided", 1) // this endpoint kind / transport does not have the option
				case gerr != nil:
					c.Violate(fmt.Sprintf("opt-odd-error:%s.%s/get:%s", kind, tr, n), "GetOption(%s) returned %v", n, gerr)
				default:
					compared++
					if !reflect.DeepEqual(got, v) {
						c.Violate(fmt.Sprintf("propagate:%s[%s].%s/%s", kind, ep.label, tr, n),
							"%s socket: SetOption(%s, %v) accepted (round %d; accepted so far: %s) while a %s %s (%s) existed; that %s returns %v from GetOption",
							proto, n, v, round, trail, tr, kind, ep.label, kind, got)
					}
				}
			}
			for _, d := range dialers {
				look("dialer", d)
			}
			if n == mangos.OptionMaxRecvSize {
				for _, l := range listeners {
					look("listener", l)
				}
			}
		}
	}
	c.Count("propagated_values_compared", compared)
	c.Count("propagate_socket_sets_accepted", accepted)
	if compared > 0 && len(dialers) > 0 {
		c.Nontrivial()
	}
	c.Sig("propagate|%s|%s|%s|%d/%d|%d", proto, tr, sp.Phase, len(dialers), len(listeners), compared)
}

// runPropagateEffect — variants (K):
//
//	0  dialer created while the socket had DIAL-ASYNCH false and RECONNECT-TIME 20ms; the socket then accepts
//	   DIAL-ASYNCH true and RECONNECT-TIME T: Dial with a refusing peer returns nil, second attempt >= T after the first
//	1  the same with DIAL-ASYNCH true given to the dialer at creation: only RECONNECT-TIME travels through the socket
//	2  dialer created while the socket had DIAL-ASYNCH true; the socket then accepts false: Dial reports the refusal
func runPropagateEffect(c *mon.Case, sp spec) {
	proto := sp.Proto
	const T0 = 20 * time.Millisecond
	T := 800 * time.Millisecond
	s := newSock(c, proto)
	name := hx.Uniq("c19pe")
	D := vt.D(name)
	D.SetDefault(vt.Outcome{Kind: vt.Refuse})
	c.Cleanup(func() { vt.Forget(name) })
	must := func(n string, v interface{}) bool {
		if err := s.SetOption(n, v); err != nil {
			c.Violate(fmt.Sprintf("propagate-set-rejected:%s/%s", proto, n), "%s socket SetOption(%s, %v) returned %v", proto, n, v, err)
			return false
		}
		return true
	}
	// MAX-RECONNECT-TIME 0: no back-off, every wait is the reconnect time itself
	if !must(mangos.OptionReconnectTime, T0) || !must(mangos.OptionMaxReconnectTime, time.Duration(0)) || !must(mangos.OptionDialAsynch, sp.K == 2) {
		return
	}
	var opts map[string]interface{}
	if sp.K == 1 {
		opts = map[string]interface{}{mangos.OptionDialAsynch: true}
	}
	d, err := s.NewDialer(vt.Addr(name), opts)
	if err != nil {
		c.Inconclusive("harness: NewDialer(vt): %v", err)
		return
	}
	c.Cleanup(func() { d.Close() })
	// the dialer exists: now the socket accepts new values
	if sp.K == 2 {
		if !must(mangos.OptionDialAsynch, false) {
			return
		}
	} else {
		if sp.K == 0 && !must(mangos.OptionDialAsynch, true) {
			return
		}
		if !must(mangos.OptionReconnectTime, T) {
			return
		}
	}
	_, derr, ok := blk(c, "propagate-effect-dial-stuck:"+proto, "Dial against a refusing vt peer", func() (interface{}, error) { return nil, d.Dial() })
	if !ok {
		return
	}
	c.Count("propagate_effect_dials", 1)
	if sp.K == 2 {
		if derr == nil {
			c.Violate("propagate-effect:dialer.vt/"+mangos.OptionDialAsynch+"=false", "%s socket accepted DIAL-ASYNCH false after the dialer was created (true before): Dial with a refusing peer returned nil instead of the refusal", proto)
			return
		}
		c.Nontrivial()
		c.Sig("propagate-effect|%s|%d|dial-reported-refusal", proto, sp.K)
		return
	}
	if derr != nil {
		if sp.K == 0 {
			c.Violate("propagate-effect:dialer.vt/"+mangos.OptionDialAsynch+"=true", "%s socket accepted DIAL-ASYNCH true after the dialer was created (false before): Dial with a refusing peer returned %v instead of connecting in the background", proto, derr)
		} else {
			c.Inconclusive("harness: Dial of a dialer created with DIAL-ASYNCH true returned %v", derr)
		}
		return
	}
	r := mon.Await(func() bool {
		lg := D.Log()
		return len(lg) >= 2 && lg[0].End != 0
	}, mon.AwaitOpts{MaxTimer: T})
	if r.V != mon.Done {
		// that an asynchronous dialer redials at all is not what this case is about
		c.Inconclusive("second dial attempt not seen after %v (%v)", r.Waited, r.V)
		return
	}
	lg := D.Log()
	gap := lg[1].Start - lg[0].End
	c.Count("propagate_effect_redial_gaps", 1)
	if gap < T {
		c.Violate("propagate-effect:dialer.vt/"+mangos.OptionReconnectTime, "%s socket accepted RECONNECT-TIME %v (MAX-RECONNECT-TIME 0) after the dialer was created (%v before) and before Dial: the first attempt failed at %v, the second started at %v — %v later, earlier than the accepted reconnect time", proto, T, T0, lg[0].End, lg[1].Start, gap)
		return
	}
	c.Nontrivial()
	c.Sig("propagate-effect|%s|%d|redial-not-before", proto, sp.K)
}

// =============================================================================
// ctxq: a READQ-LEN accepted by the socket takes effect in contexts opened afterwards
// =============================================================================
//
// Patterns whose contexts have a receive queue of their own: SUB (one queue per
// context, newest k kept — what retain demands of a directly configured context)
// and SURVEYOR (one queue per survey of a context, READQ-LEN responses held).
// Script: the socket accepts K1, context A is opened; ("two") the socket accepts
// K2, context B is opened; nobody receives while n > max(K) messages for every
// context arrive over one vt pipe and are known processed (pipe receiver back in
// the transport's Recv, nothing pending).  Then every context hands back
//
//	SUB       exactly the newest k of its own length, the last message (sentinel) last;
//	SURVEYOR  exactly k responses, then — injected only now — the sentinel response.
//
// Phase "direct" (SURVEYOR only; SUB has it in retain): the length is set on the context itself.

func ctxqPlans(r *mon.Runner, rnd *rand.Rand) []spec {
	ks := []int{1, 3, 5, 16}
	if r.Thorough() {
		ks = []int{1, 2, 3, 4, 5, 8, 16, 64, 127, 129, 200}
	}
	var out []spec
	for _, p := range []string{"sub", "surveyor"} {
		for i, k := range ks {
			k2 := ks[(i+1+rnd.Intn(len(ks)-1))%len(ks)]
			out = append(out, spec{Kind: "ctxq", Proto: p, Phase: "inherit", Seq: []int{k}})
			out = append(out, spec{Kind: "ctxq", Proto: p, Phase: "two", Seq: []int{k, k2}})
			if p == "surveyor" {
				out = append(out, spec{Kind: "ctxq", Proto: p, Phase: "direct", Seq: []int{k}})
			}
		}
	}
	return out
}

type cqCtx struct {
	cx   mangos.Context
	k    int
	tag  string
	id   []byte // surveyor: id of its survey
	want []string
}

func runCtxQ(c *mon.Case, sp spec) {
	proto := sp.Proto
	s := newSock(c, proto)
	w := watch(s)
	prepPatience(s)
	if proto == "surveyor" {
		if err := s.SetOption(mangos.OptionSurveyTime, time.Hour); err != nil {
			c.Inconclusive("harness: SURVEY-TIME: %v", err)
			return
		}
	}
	var ctxs []*cqCtx
	maxK := 0
	for i, k := range sp.Seq {
		label := fmt.Sprintf("%s.ctx/READQ-LEN=%d", proto, k)
		if sp.Phase != "direct" {
			if err := s.SetOption(mangos.OptionReadQLen, k); err != nil {
				c.Violate("retain-set-rejected:"+proto+fmt.Sprintf("/READQ-LEN=%d", k), "%s socket SetOption(READQ-LEN, %d) returned %v", proto, k, err)
				return
			}
		}
		cx, err := s.OpenContext()
		if err != nil {
			c.Violate("ctx-open-failed:"+proto, "%s.OpenContext: %v", proto, err)
			return
		}
		c.Cleanup(func() { cx.Close() })
		if sp.Phase == "direct" {
			if err := cx.SetOption(mangos.OptionReadQLen, k); err != nil {
				c.Violate("retain-set-rejected:"+label, "%s context SetOption(READQ-LEN, %d) returned %v", proto, k, err)
				return
			}
		}
		if v, err := cx.GetOption(mangos.OptionReadQLen); err != nil || !reflect.DeepEqual(v, k) {
			// inherit / the grid report this; the effect below is judged against what the context says it has
			c.Inconclusive("%s context reports READQ-LEN (%v, %v), expected %d", proto, v, err, k)
			return
		}
		if k > maxK {
			maxK = k
		}
		ctxs = append(ctxs, &cqCtx{cx: cx, k: k, tag: string(rune('A' + i))})
	}
	L := vtListen(c, s)
	if L == nil {
		return
	}
	p := L.Connect()
	if !awaitOrInconcl(c, "vt pipe attach", func() bool { return w.nAttached() >= 1 }, mon.AwaitOpts{}) {
		return
	}
	n := maxK + 7
	how := map[string]string{"inherit": "inherited from the socket", "two": "inherited from the socket", "direct": "set on the context"}[sp.Phase]

	if proto == "sub" {
		for _, x := range ctxs {
			if err := x.cx.SetOption(mangos.OptionSubscribe, []byte("t")); err != nil {
				c.Inconclusive("harness: subscribe: %v", err)
				return
			}
		}
		var all []string
		for i := 1; i <= n; i++ {
			b := fmt.Sprintf("t%03d", i)
			if i == n {
				b = "t-sentinel"
			}
			all = append(all, b)
			p.Inject([]byte(b))
			if i%3 == 0 {
				p.Inject([]byte("unmatched"))
			}
		}
		if !c.AwaitOrViolate("retain-receiver-stuck:sub.ctx", "sub receiver taking the injected messages", drained(p), mon.AwaitOpts{}) {
			return
		}
		for _, x := range ctxs {
			label := fmt.Sprintf("sub.ctx[inherited]/READQ-LEN=%d", x.k)
			want := all[n-x.k:]
			var got []string
			for i := 0; i < n+2; i++ {
				v, err, ok := blk(c, "retain-fewer:"+label, fmt.Sprintf("sub context %s Recv #%d of %d retained (got so far %v)", x.tag, i+1, x.k, got), func() (interface{}, error) { return x.cx.Recv() })
				if !ok {
					return
				}
				if err != nil {
					c.Violate("retain-recv-error:"+label, "Recv returned %v", err)
					return
				}
				got = append(got, string(v.([]byte)))
				if got[len(got)-1] == "t-sentinel" {
					break
				}
			}
			c.Count("retained_messages_compared", len(got))
			if !reflect.DeepEqual(got, want) {
				sig := "retain-wrong:"
				if len(got) > len(want) {
					sig = "retain-more:"
				} else if len(got) < len(want) {
					sig = "retain-fewer:"
				}
				c.Violate(sig+label, "SUB socket accepted READQ-LEN %v in turn, a context opened after each; context %s (GetOption: READQ-LEN %d, %s) delivered %d of %d matching messages that arrived while nobody received: %v, want the newest %d: %v",
					sp.Seq, x.tag, x.k, how, len(got), n, got, x.k, want)
				return
			}
		}
		if w.nDetached() > 0 {
			c.Violate("resize-disconnected:sub.ctx/READQ-LEN", "Detached seen")
			return
		}
		c.Nontrivial()
		c.Sig("ctxq|sub|%s|%v|held", sp.Phase, sp.Seq)
		return
	}

	// surveyor: every context asks; the vt peer answers each survey n times
	for i, x := range ctxs {
		body := "sv-" + x.tag
		if _, err, ok := blk(c, "ctxq-survey-send-stuck:surveyor", "surveyor context Send", func() (interface{}, error) { return nil, x.cx.Send([]byte(body)) }); !ok {
			return
		} else if err != nil {
			c.Inconclusive("harness: surveyor context Send: %v", err)
			return
		}
		if !awaitOrInconcl(c, "survey transmission", func() bool { return p.SentCount() >= i+1 }, mon.AwaitOpts{}) {
			return
		}
		wire := p.SentLog()[i].Wire()
		if len(wire) < 4 || string(wire[4:]) != body {
			c.Inconclusive("harness: transmission %d is %q, expected the survey %q", i, wire, body)
			return
		}
		x.id = append([]byte{}, wire[:4]...)
	}
	for i := 1; i <= n; i++ {
		for _, x := range ctxs {
			p.Inject(hx.Cat(x.id, []byte(fmt.Sprintf("r%s%03d", x.tag, i))))
		}
	}
	if !c.AwaitOrViolate("retain-receiver-stuck:surveyor.ctx", "surveyor receiver taking the injected responses", drained(p), mon.AwaitOpts{}) {
		return
	}
	for _, x := range ctxs {
		label := fmt.Sprintf("surveyor.ctx[%s]/READQ-LEN=%d", map[bool]string{true: "direct", false: "inherited"}[sp.Phase == "direct"], x.k)
		seen := map[string]bool{}
		var got []string
		for i := 0; i < x.k; i++ {
			v, err, ok := blk(c, "retain-fewer:"+label, fmt.Sprintf("surveyor context %s Recv #%d of %d responses held (got so far %v)", x.tag, i+1, x.k, got), func() (interface{}, error) { return x.cx.Recv() })
			if !ok {
				return
			}
			if err != nil {
				c.Violate("retain-recv-error:"+label, "Recv returned %v", err)
				return
			}
			b := string(v.([]byte))
			if len(b) < 2 || b[:2] != "r"+x.tag || seen[b] {
				c.Violate("retain-wrong:"+label, "surveyor context %s received %q (own responses are r%sNNN, each once); so far %v", x.tag, b, x.tag, got)
				return
			}
			seen[b] = true
			got = append(got, b)
		}
		// the queue is empty now: a response arriving from here on is held, and is the next one out
		sent := "r" + x.tag + "-sentinel"
		p.Inject(hx.Cat(x.id, []byte(sent)))
		if !c.AwaitOrViolate("retain-receiver-stuck:surveyor.ctx", "surveyor receiver taking the sentinel response", drained(p), mon.AwaitOpts{}) {
			return
		}
		v, err, ok := blk(c, "ctxq-sentinel-lost:"+label, fmt.Sprintf("surveyor context %s Recv of the sentinel response after %d were delivered", x.tag, x.k), func() (interface{}, error) { return x.cx.Recv() })
		if !ok {
			return
		}
		if err != nil {
			c.Violate("retain-recv-error:"+label, "Recv returned %v", err)
			return
		}
		c.Count("retained_messages_compared", len(got)+1)
		if b := string(v.([]byte)); b != sent {
			c.Violate("retain-more:"+label, "SURVEYOR READQ-LEN %v in turn, a context opened after each; context %s (GetOption: READQ-LEN %d, %s): %d responses to its survey arrived while nobody received; after %d were delivered (%v) Recv returned %q instead of the response sent afterwards — more than %d were held",
				sp.Seq, x.tag, x.k, how, n, x.k, got, b, x.k)
			return
		}
	}
	if w.nDetached() > 0 {
		c.Violate("resize-disconnected:surveyor.ctx/READQ-LEN", "Detached seen")
		return
	}
	c.Nontrivial()
	c.Sig("ctxq|surveyor|%s|%v|held", sp.Phase, sp.Seq)
}
