//go:build verif

package c19

import (
	"os"
	"strings"

	"go.nanomsg.org/mangos/v3/transport/ipc"

	"verifharness/hx"
	"verifharness/mon"
)

// runIPCPerm: an accepted IPC-SOCKET-PERMISSIONS value is what the socket file then has — for every
// value in range, the boundary value 0 included — and what Get returns.
func runIPCPerm(c *mon.Case, sp spec) {
	for _, mode := range []uint32{0, 0o600, 0o642, 0o777, 0o1, 0o400} {
		for _, asFileMode := range []bool{false, true} {
			s := newSock(c, "pull")
			addr := hx.ListenAddr("ipc")
			l, err := s.NewListener(addr, nil)
			if err != nil {
				c.Inconclusive("harness: NewListener: %v", err)
				return
			}
			var v interface{} = mode
			if asFileMode {
				v = os.FileMode(mode)
			}
			if err := l.SetOption(ipc.OptionIpcSocketPermissions, v); err != nil {
				c.Violate("opt-good-rejected:listener.ipc/IPC-SOCKET-PERMISSIONS", "SetOption(%#o as %T) returned %v", mode, v, err)
				return
			}
			if err := l.Listen(); err != nil {
				c.Inconclusive("harness: Listen: %v", err)
				return
			}
			path := strings.TrimPrefix(addr, "ipc://")
			st, err := os.Stat(path)
			if err != nil {
				c.Inconclusive("harness: stat %s: %v", path, err)
				return
			}
			if got := uint32(st.Mode().Perm()); got != mode {
				c.Violate("effect:listener.ipc/IPC-SOCKET-PERMISSIONS", "SetOption(IPC-SOCKET-PERMISSIONS, %#o) was accepted but after Listen the socket file has permissions %#o", mode, got)
				return
			}
			c.Count("ipc_permission_values_checked", 1)
			s.Close()
		}
	}
	c.Nontrivial()
	c.Sig("ipcperm")
}
