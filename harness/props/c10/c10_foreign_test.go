//go:build verif

package c10

import (
	"crypto/tls"
	"fmt"
	"io"
	"log"
	"net"
	"net/http"
	"strings"
	"sync"
	"time"

	"github.com/gorilla/websocket"

	"go.nanomsg.org/mangos/v3"

	"verifharness/hx"
	"verifharness/mon"
)

// foreign: the socket dials a server that completes everything below SP (TCP / unix connect, TLS,
// the HTTP upgrade of a websocket) but is not a peer of the socket's protocol, so every dial ends
// in the transport refusing the connection it has just established.  The server never closes a
// connection by itself and sets no deadline: it reads until the other side ends the connection.
//
//	Tran / Target (what the server answers):
//	  ws wss          nosub    — upgrades, confirms no subprotocol (a plain websocket endpoint)
//	                  othersub — upgrades, confirms a subprotocol the dialer did not offer
//	  tcp ipc tls+tcp badproto — a well-formed SP header carrying a protocol number nobody speaks
//	                  garbage  — eight bytes that are no SP header
//	Act: sync  — the application calls Dial 1-3 times (each fails, the dialer is idle again)
//	     async — OptionDialAsynch with a 5 ms reconnect time: the dialer keeps redialling; Close
//	             comes after the server has seen at least three connections
//
// Oracle (after Socket.Close has returned): every connection the server ever accepted from these
// dials has ended for the server (its read returned); nothing is demanded about the error Dial
// reports.  The common census (goroutines, descriptors, pipe ids) follows.
type foreignServer struct {
	tr, mode string
	addr     string
	nl       net.Listener
	hs       *http.Server
	accDone  chan struct{} // accept loop / http.Server.Serve returned
	wg       sync.WaitGroup
	mu       sync.Mutex
	conns    []*foreignConn
	down     bool // shutdown has begun: whatever still arrives is closed at once
}

type foreignConn struct {
	raw   net.Conn
	ended bool // the server's read on it returned
}

func (s *foreignServer) add(raw net.Conn) *foreignConn {
	fc := &foreignConn{raw: raw}
	s.mu.Lock()
	s.conns = append(s.conns, fc)
	if s.down {
		raw.Close()
	}
	s.mu.Unlock()
	return fc
}

func (s *foreignServer) end(fc *foreignConn) {
	s.mu.Lock()
	fc.ended = true
	s.mu.Unlock()
}

// counts: connections accepted so far, and how many of them are still open for the server.
func (s *foreignServer) counts() (accepted, open int) {
	s.mu.Lock()
	defer s.mu.Unlock()
	for _, fc := range s.conns {
		if !fc.ended {
			open++
		}
	}
	return len(s.conns), open
}

func newForeignServer(tr, mode, peerName string) (*foreignServer, error) {
	s := &foreignServer{tr: tr, mode: mode, accDone: make(chan struct{})}
	srvCfg, _ := hx.TLSConfigs()
	var err error
	switch tr {
	case "ipc":
		path := strings.TrimPrefix(hx.ListenAddr("ipc"), "ipc://")
		s.nl, err = net.Listen("unix", path)
		s.addr = "ipc://" + path
	default:
		s.nl, err = net.Listen("tcp", "127.0.0.1:0")
		if err == nil {
			s.addr = tr + "://" + s.nl.Addr().String()
			if tr == "ws" || tr == "wss" {
				s.addr += "/" + hx.Uniq("foreign")
			}
			if hx.NeedsTLS(tr) {
				s.nl = tls.NewListener(s.nl, srvCfg)
			}
		}
	}
	if err != nil {
		return nil, err
	}
	if tr == "ws" || tr == "wss" {
		s.hs = &http.Server{ErrorLog: log.New(io.Discard, "", 0), Handler: http.HandlerFunc(func(w http.ResponseWriter, r *http.Request) {
			s.wg.Add(1)
			defer s.wg.Done()
			ug := websocket.Upgrader{CheckOrigin: func(*http.Request) bool { return true }}
			var rh http.Header
			if mode == "othersub" {
				// (with Upgrader.Subprotocols unset the upgrader confirms what the response header names)
				rh = http.Header{"Sec-Websocket-Protocol": []string{"x" + peerName + ".sp.example.org"}}
			}
			wc, err := ug.Upgrade(w, r, rh)
			if err != nil {
				return
			}
			fc := s.add(kernelConn(wc.UnderlyingConn()))
			for {
				if _, _, err := wc.ReadMessage(); err != nil { // no deadline: ends when the dialer lets go
					break
				}
			}
			s.end(fc)
			wc.Close()
		})}
		go func() { defer close(s.accDone); s.hs.Serve(s.nl) }()
		return s, nil
	}
	go func() {
		defer close(s.accDone)
		for {
			cn, err := s.nl.Accept()
			if err != nil {
				return
			}
			fc := s.add(kernelConn(cn))
			s.wg.Add(1)
			go func() {
				defer s.wg.Done()
				hdr := spHeader(0xfff0) // nobody's protocol number
				if mode == "garbage" {
					hdr = []byte("HTTP/1.1")
				}
				cn.Write(hdr)           // (for tls+tcp this runs the TLS handshake first)
				io.Copy(io.Discard, cn) // no deadline: ends when the dialer lets go
				s.end(fc)
				cn.Close()
			}()
		}
	}()
	return s, nil
}

func (s *foreignServer) stopAccepting() {
	if s.hs != nil {
		s.hs.Close() // (hijacked connections are not the http.Server's any more: they stay)
	} else {
		s.nl.Close()
	}
}

// shutdown: the harness's own cleanup — every connection is closed from the server side.
func (s *foreignServer) shutdown(c *mon.Case) {
	s.stopAccepting()
	<-s.accDone
	s.mu.Lock()
	s.down = true
	for _, fc := range s.conns {
		fc.raw.Close()
	}
	s.mu.Unlock()
	k := mon.Go("foreign-server-handlers", func() (interface{}, error) { s.wg.Wait(); return nil, nil })
	c.AwaitOrViolate("harness:foreign-server-stuck", "the foreign server's handlers ending after their connections were closed", k.Done, mon.AwaitOpts{})
}

func runForeign(c *mon.Case, sp spec) {
	tr, mode := sp.Tran, sp.Target
	ctx := "foreign/" + tr + "/" + mode + "/" + sp.Act
	s := hx.MustSock(c, sp.Proto)
	srv, err := newForeignServer(tr, mode, s.Info().PeerName)
	if err != nil {
		c.Inconclusive("setup %s: %v", ctx, err)
		return
	}
	down := false
	shutdown := func() {
		if !down {
			down = true
			srv.shutdown(c)
		}
	}
	defer shutdown()

	const reconn = 5 * time.Millisecond
	d, err := s.NewDialer(srv.addr, dopts(tr))
	if err != nil {
		c.Inconclusive("setup %s: NewDialer: %v", ctx, err)
		return
	}
	d.SetOption(mangos.OptionReconnectTime, reconn)
	d.SetOption(mangos.OptionMaxReconnectTime, reconn)
	want := 1
	if sp.Act == "async" {
		d.SetOption(mangos.OptionDialAsynch, true)
		want = 3
	} else {
		want = 1 + c.Rand.Intn(3)
	}
	ndial := want
	if sp.Act == "async" {
		ndial = 1
	}
	refused := 0
	for i := 0; i < ndial; i++ {
		k := mon.Go("Dial", func() (interface{}, error) { return nil, d.Dial() })
		if !c.AwaitOrViolate("harness:dial-stuck:foreign", ctx+": Dial to a server that answers but is not an SP peer", k.Done, mon.AwaitOpts{MaxTimer: reconn}) {
			return
		}
		if _, e, _ := k.Result(); e != nil {
			refused++
			if sp.Act == "async" {
				c.Inconclusive("setup %s: asynchronous Dial: %v", ctx, e)
				return
			}
		}
	}
	c.Count("foreign_sync_dials_refused", refused)
	// the server has seen the connections of these dials
	if r := mon.Await(func() bool { a, _ := srv.counts(); return a >= want }, mon.AwaitOpts{MaxTimer: reconn}); r.V != mon.Done {
		a, _ := srv.counts()
		c.Inconclusive("setup %s: the server saw %d of %d connections (%v)", ctx, a, want, r.V)
		return
	}

	ck := mon.Go("Socket.Close", func() (interface{}, error) { return nil, s.Close() })
	if !waitReturn(c, "close-blocks:"+ctx, ctx+": Close of a socket whose dials reach a server that is not an SP peer", ck, reconn) {
		return
	}
	// the socket is closed: none of its connections may still be open.  (An attempt that was under
	// way at Close may still arrive; it is accepted and must end as well.)
	gone := func(when string) bool {
		return c.AwaitOrViolate("conn-open-after-close:"+ctx, fmt.Sprintf("%s: %s every connection made by the socket's dials ending for the server (the server only reads, with no deadline)", ctx, when),
			func() bool { _, o := srv.counts(); return o == 0 }, mon.AwaitOpts{MaxTimer: reconn})
	}
	if !gone("after Socket.Close returned,") {
		a, o := srv.counts()
		c.Logf("%s: %d of %d accepted connections still open", ctx, o, a)
		return
	}
	srv.stopAccepting()
	k := mon.Go("foreign-server-accept", func() (interface{}, error) { <-srv.accDone; return nil, nil })
	if !c.AwaitOrViolate("harness:foreign-server-stuck", "the foreign server's accept loop ending", k.Done, mon.AwaitOpts{}) {
		return
	}
	if !gone("after Socket.Close returned and the server stopped accepting,") {
		return
	}
	a, _ := srv.counts()
	c.Count("foreign_connections_accepted", a)
	c.Count("foreign_connections_found_ended_after_close", a)
	shutdown()
	c.Nontrivial()
}
