package c10

import (
	"crypto/tls"
	"fmt"
	"net"
	"runtime/debug"
	"strings"
	"sync"
	"syscall"
	"testing"
	"time"

	"go.nanomsg.org/mangos/v3"
	"go.nanomsg.org/mangos/v3/verifhooks"

	"verifharness/hx"
	"verifharness/mon"
	"verifharness/vt"
)

// C10 — Close unblocks everything, fails later calls and releases all resources.

func TestMain(m *testing.M) { hx.Main(m) }

type spec struct {
	Kind   string `json:"kind"` // blocked | dial | stall | sibling | race | acceptbusy | ... | peergone
	Proto  string `json:"proto,omitempty"`
	Tran   string `json:"tran,omitempty"`
	Peer   bool   `json:"peer,omitempty"`
	Act    string `json:"act,omitempty"`
	Target string `json:"target,omitempty"`
	Yield  bool   `json:"yield,omitempty"`
}

func TestC10(t *testing.T) {
	r := mon.NewRunner(t, "C10")
	rnd := r.Rand()
	var cases []mon.CaseSpec
	reps := r.Pick(3, 60)
	for rep := 0; rep < reps; rep++ {
		for _, p := range hx.AllProtos {
			for _, tr := range hx.Transports {
				if !(tr == "inproc" || tr == "tcp") && rnd.Intn(4) != 0 && !r.Thorough() {
					continue // other transports sampled in the quick tier
				}
				for _, peer := range []bool{true, false} {
					cases = append(cases, mon.CaseSpec{Name: fmt.Sprintf("blocked/%s/%s/peer=%v", p, tr, peer), Spec: spec{Kind: "blocked", Proto: p, Tran: tr, Peer: peer, Yield: rnd.Intn(2) == 0}})
				}
			}
		}
		for _, act := range []string{"vt-refuse-loop", "vt-hang", "vt-connected", "vt-timer-pending", "tcp-refuse-loop", "ipc-refuse-loop", "inproc-refuse-loop", "ws-refuse-loop"} {
			ps := []string{"pair", "req", "sub", "bus", "push", "surveyor"}
			if act == "vt-hang" {
				ps = hx.AllProtos // the connection that arrives after Close is refused by the protocol itself: every protocol's refusal path
			}
			for _, p := range ps {
				cases = append(cases, mon.CaseSpec{Name: "dial/" + act + "/" + p, Spec: spec{Kind: "dial", Act: act, Proto: p, Yield: rnd.Intn(2) == 0}})
			}
		}
		for _, tr := range []string{"tcp", "ipc", "tls+tcp", "ws"} {
			for _, side := range []string{"listener", "dialer"} {
				if tr == "ws" && side == "dialer" {
					continue
				}
				cases = append(cases, mon.CaseSpec{Name: "stall/" + tr + "/" + side, Spec: spec{Kind: "stall", Tran: tr, Act: side}})
			}
		}
		for i := 0; i < 6; i++ {
			cases = append(cases, mon.CaseSpec{Name: "race/listen-vs-close", Spec: spec{Kind: "race", Proto: []string{"pair", "rep", "sub"}[i%3], Act: "listen", Yield: rnd.Intn(2) == 0}})
		}
		for i := 0; i < 6; i++ {
			cases = append(cases, mon.CaseSpec{Name: "race/dial-vs-close", Spec: spec{Kind: "race", Proto: []string{"pair", "req", "sub"}[i%3], Act: "dial", Yield: rnd.Intn(2) == 0}})
		}
		for _, tr := range []string{"tcp", "ipc", "tls+tcp"} {
			cases = append(cases, mon.CaseSpec{Name: "acceptbusy/" + tr, Spec: spec{Kind: "acceptbusy", Tran: tr}})
		}
		for _, tr := range []string{"tcp", "tls+tcp", "ipc"} {
			cases = append(cases, mon.CaseSpec{Name: "writerstalled/" + tr, Spec: spec{Kind: "writerstalled", Tran: tr}})
		}
		for _, tr := range []string{"ipc", "tcp", "ipc"} {
			cases = append(cases, mon.CaseSpec{Name: "acceptflood/" + tr, Spec: spec{Kind: "acceptflood", Tran: tr}})
		}
		for _, tr := range []string{"inproc", "ipc", "tcp"} {
			for _, act := range []string{"socket", "listener"} {
				for _, asyn := range []bool{false, true} {
					cases = append(cases, mon.CaseSpec{Name: "dialwaiting/" + tr + "/" + act, Spec: spec{Kind: "dialwaiting", Tran: tr, Act: act, Peer: asyn}})
				}
			}
		}
		for _, tr := range hx.Transports {
			for _, act := range []string{"socket", "listener"} {
				cases = append(cases, mon.CaseSpec{Name: "loser/" + tr + "/" + act, Spec: spec{Kind: "loser", Tran: tr, Act: act}})
			}
		}
		for _, target := range []string{"context", "dialer", "listener", "pipe"} {
			for _, p := range []string{"req", "rep", "sub", "surveyor", "respondent", "pair", "bus"} {
				if target == "context" && (p == "pair" || p == "bus") {
					continue
				}
				for _, tr := range []string{"inproc", "tcp"} {
					cases = append(cases, mon.CaseSpec{Name: "sibling/" + target + "/" + p + "/" + tr, Spec: spec{Kind: "sibling", Target: target, Proto: p, Tran: tr}})
				}
			}
		}
		// peers that vanish abruptly (reset, plain close, reset in mid-message) before the socket is closed:
		// every real stream transport x side x way of going; protocol (and the rest) from the PRNG
		for n := 0; n < r.Pick(2, 4); n++ {
			for _, tr := range []string{"tcp", "ipc", "tls+tcp", "ws", "wss"} {
				for _, side := range []string{"listener", "dialer"} {
					for _, mode := range []string{"reset", "fin", "midmsg"} {
						p := hx.AllProtos[rnd.Intn(len(hx.AllProtos))]
						cases = append(cases, mon.CaseSpec{Name: "peergone/" + tr + "/" + side + "/" + mode + "/" + p, Spec: spec{Kind: "peergone", Tran: tr, Act: side, Target: mode, Proto: p, Yield: rnd.Intn(2) == 0}})
					}
				}
			}
		}
		// transports whose pipes report an error from Close (closeerr+<inner>): the blocked scenario for every
		// protocol, and the application closing one pipe of a connected pair
		for _, p := range hx.AllProtos {
			for n := 0; n < r.Pick(1, 2); n++ {
				tr := cePrefix + ceInner[rnd.Intn(len(ceInner))]
				cases = append(cases, mon.CaseSpec{Name: fmt.Sprintf("blocked/%s/%s/peer=true", p, tr), Spec: spec{Kind: "blocked", Proto: p, Tran: tr, Peer: true, Yield: rnd.Intn(2) == 0}})
			}
		}
		// ws / wss listeners whose handler the application mounts in its own http.Server (the transport
		// binds no port): state at Close x what is closed; protocol, second handler, yields from the PRNG
		for _, tr := range []string{"ws", "wss"} {
			for _, st := range []string{"idle", "accepted", "pending"} {
				for _, act := range []string{"socket", "listener"} {
					p := hx.AllProtos[rnd.Intn(len(hx.AllProtos))]
					cases = append(cases, mon.CaseSpec{Name: "exthandler/" + tr + "/" + act + "/" + st + "/" + p, Spec: spec{Kind: "exthandler", Tran: tr, Act: act, Target: st, Proto: p, Peer: rnd.Intn(3) == 0, Yield: rnd.Intn(2) == 0}})
				}
			}
		}
		// dials that reach a server which answers but is not an SP peer of the socket (every dial is refused
		// by the transport after the connection was made): transport x answer x synchronous / redialling
		for _, tr := range []string{"ws", "wss", "tcp", "ipc", "tls+tcp"} {
			modes := []string{"badproto", "garbage"}
			if tr == "ws" || tr == "wss" {
				modes = []string{"nosub", "othersub"}
			}
			for _, mode := range modes {
				for _, act := range []string{"sync", "async"} {
					p := hx.AllProtos[rnd.Intn(len(hx.AllProtos))]
					cases = append(cases, mon.CaseSpec{Name: "foreign/" + tr + "/" + mode + "/" + act + "/" + p, Spec: spec{Kind: "foreign", Tran: tr, Act: act, Target: mode, Proto: p, Yield: rnd.Intn(2) == 0}})
				}
			}
		}
		for _, p := range []string{"req", "rep", "sub", "surveyor", "respondent", "pair", "bus"} {
			tr := cePrefix + []string{"inproc", "tcp", "ipc"}[rnd.Intn(3)]
			cases = append(cases, mon.CaseSpec{Name: "sibling/pipe/" + p + "/" + tr, Spec: spec{Kind: "sibling", Target: "pipe", Proto: p, Tran: tr}})
		}
	}
	r.Run(cases, func(c *mon.Case) {
		sp := c.Spec.(spec)
		if sp.Yield {
			hx.SetYields(c.Rand.Int63(), &hx.YieldCfg{ProbGosched: 0.25, ProbSleep: 0.15, MaxSleep: 300 * time.Microsecond})
			defer hx.SetYields(0, nil)
		}
		base := mon.TakeBaseline()
		fds := mon.SocketFDs()
		ids0 := verifhooks.PipeIDsInUse() // (what an earlier case left behind is that case's finding)
		switch sp.Kind {
		case "blocked":
			runBlocked(c, sp)
		case "dial":
			runDial(c, sp)
		case "stall":
			runStall(c, sp)
		case "sibling":
			runSibling(c, sp)
		case "race":
			if sp.Act == "dial" {
				runRaceDial(c, sp)
			} else {
				runRaceListen(c, sp)
			}
		case "acceptbusy":
			runAcceptBusy(c, sp)
		case "dialwaiting":
			runDialWaiting(c, sp)
		case "acceptflood":
			runAcceptFlood(c, sp)
		case "writerstalled":
			runWriterStalled(c, sp)
		case "loser":
			runCloseLoser(c, sp)
		case "peergone":
			runPeerGone(c, sp)
		case "exthandler":
			runExtHandler(c, sp)
		case "foreign":
			runForeign(c, sp)
		}
		if n := ceCloses.Swap(0); n > 0 {
			c.Count("pipe_closes_reporting_an_error", int(n))
		}
		if !c.Failed() && !c.Undecided() { // (a case given up as inconclusive may have left its sockets open)
			census(c, sp, base, fds, ids0)
		}
		c.Sig("%s|%s|%s|%v|%s|%s", sp.Kind, sp.Proto, sp.Tran, sp.Peer, sp.Act, sp.Target)
	})
}

// census: after all sockets of the case are closed nothing of theirs may remain.
func census(c *mon.Case, sp spec, base mon.GoroutineBaseline, fds []string, ids0 []uint32) {
	ctx := sp.Kind + "/" + sp.Tran + sp.Act
	if sp.Kind == "peergone" || sp.Kind == "foreign" {
		ctx = sp.Kind + "/" + sp.Tran + "/" + sp.Act + "/" + sp.Target
	}
	r, left := base.AwaitNoLeak(mon.AwaitOpts{MaxTimer: 20 * time.Millisecond})
	switch r.V {
	case mon.Stuck:
		top := leakTop(left)
		c.Violate("leak:goroutine:"+ctx+":"+top, "after every socket was closed %d library goroutine(s) remain, parked and unchanged over the stuck detector's samples:\n%s", len(left), mon.RenderGs(left))
	case mon.Inconclusive:
		c.Inconclusive("goroutine census did not settle: %d left", len(left))
	}
	c.Count("census_goroutine_checks", 1)
	var extra []string
	fr := mon.Await(func() bool { extra = mon.DiffFDs(fds, mon.SocketFDs()); return len(extra) == 0 }, mon.AwaitOpts{MaxTimer: 20 * time.Millisecond})
	if fr.V == mon.Stuck {
		c.Violate("leak:fd:"+ctx, "after every socket was closed %d socket descriptor(s) remain open: %v", len(extra), extra)
	} else if fr.V == mon.Inconclusive {
		c.Inconclusive("fd census did not settle")
	}
	had := map[uint32]bool{}
	for _, id := range ids0 {
		had[id] = true
	}
	var ids []uint32
	ir := mon.Await(func() bool {
		ids = ids[:0]
		for _, id := range verifhooks.PipeIDsInUse() {
			if !had[id] {
				ids = append(ids, id)
			}
		}
		return len(ids) == 0
	}, mon.AwaitOpts{MaxTimer: 20 * time.Millisecond})
	if ir.V == mon.Stuck {
		c.Violate("leak:pipe-id:"+ctx, "after every socket was closed pipe ids remain allocated: %x", ids)
	}
	c.Count("census_fd_id_checks", 2)
}

func hasContexts(p string) bool {
	switch p {
	case "req", "rep", "sub", "surveyor", "respondent":
		return true
	}
	return false
}

func isClosedErr(err error) bool { return err == mangos.ErrClosed }

// waitReturn awaits a blocked call; the stuck verdict is the violation.
func waitReturn(c *mon.Case, sig, what string, k *mon.Call, maxT time.Duration) bool {
	return c.AwaitOrViolate(sig, what, k.Done, mon.AwaitOpts{MaxTimer: maxT})
}

func setLong(s interface {
	SetOption(string, interface{}) error
}) {
	s.SetOption(mangos.OptionRetryTime, time.Hour)
	s.SetOption(mangos.OptionSurveyTime, time.Hour)
}

// laterCalls: after Close every call must return at once with the closed error
// (or unsupported-operation, or an already queued message).
func laterCalls(c *mon.Case, ctx string, s mangos.Socket, cxs []mangos.Context, l mangos.Listener, d mangos.Dialer, tr string) {
	rawHdr := strings.HasSuffix(ctx, "/xpair1") || strings.HasSuffix(ctx, "/xstar")
	sendRaw := func() error {
		m := mangos.NewMessage(8)
		m.Header = append(m.Header, 0, 0, 0, 1) // a well-formed raw PAIR1/STAR header
		m.Body = append(m.Body, "late"...)
		e := s.SendMsg(m)
		if e != nil {
			m.Free()
		}
		return e
	}
	type lc struct {
		n  string
		f  func() error
		ok func(error) bool
	}
	closedOrOp := func(e error) bool { return e == mangos.ErrClosed || e == mangos.ErrProtoOp }
	recvOK := func(e error) bool { return e == nil || closedOrOp(e) }
	calls := []lc{
		{"Send", func() error {
			if rawHdr {
				return sendRaw()
			}
			return s.Send([]byte("late"))
		}, closedOrOp},
		{"Recv", func() error { _, e := s.Recv(); return e }, recvOK},
		{"SendMsg", func() error {
			if rawHdr {
				return sendRaw()
			}
			m := mangos.NewMessage(4)
			e := s.SendMsg(m)
			if e != nil {
				m.Free()
			}
			return e
		}, closedOrOp},
		{"RecvMsg", func() error {
			m, e := s.RecvMsg()
			if m != nil {
				m.Free()
			}
			return e
		}, recvOK},
		{"OpenContext", func() error { _, e := s.OpenContext(); return e }, closedOrOp},
		{"Close", s.Close, isClosedErr},
		{"NewDialer", func() error { _, e := s.NewDialer("inproc://"+hx.Uniq("late"), nil); return e }, isClosedErr},
		{"NewListener", func() error { _, e := s.NewListener("inproc://"+hx.Uniq("late"), nil); return e }, isClosedErr},
		{"Dial", func() error { return s.Dial("inproc://" + hx.Uniq("late")) }, isClosedErr},
		{"Listen", func() error { return s.Listen("inproc://" + hx.Uniq("late")) }, isClosedErr},
		{"GetOption", func() error { _, e := s.GetOption(mangos.OptionRecvDeadline); return e }, func(error) bool { return true }},
		{"SetOption", func() error { return s.SetOption(mangos.OptionRecvDeadline, time.Second) }, func(error) bool { return true }},
	}
	if l != nil {
		calls = append(calls, lc{"listener.Listen", l.Listen, func(e error) bool { return e != nil }},
			lc{"listener.Close", l.Close, isClosedErr})
	}
	if d != nil {
		calls = append(calls, lc{"dialer.Dial", d.Dial, func(e error) bool { return e != nil }},
			lc{"dialer.Close", d.Close, isClosedErr})
	}
	for i, cx := range cxs {
		cx := cx
		calls = append(calls,
			lc{fmt.Sprintf("ctx%d.Send", i), func() error { return cx.Send([]byte("late")) }, closedOrOp},
			lc{fmt.Sprintf("ctx%d.Recv", i), func() error { _, e := cx.Recv(); return e }, recvOK},
			lc{fmt.Sprintf("ctx%d.Close", i), cx.Close, isClosedErr})
	}
	for _, k := range calls {
		call := mon.Go(k.n, func() (interface{}, error) { return nil, k.f() })
		name := strings.TrimRight(k.n, "0123456789")
		if !waitReturn(c, "later-call-blocks:"+ctx+"/"+stripDigits(k.n), ctx+": "+k.n+" after Close returning", call, 0) {
			return
		}
		_, err, _ := call.Result()
		c.Count("later_calls", 1)
		if !k.ok(err) {
			c.Violate("later-call-result:"+ctx+"/"+stripDigits(k.n), "%s: %s after Close returned %v (want the closed error, the unsupported-operation error, or an already queued message)", ctx, k.n, err)
		}
		_ = name
	}
}

func stripDigits(s string) string {
	var b strings.Builder
	for _, r := range s {
		if r < '0' || r > '9' {
			b.WriteRune(r)
		}
	}
	return b.String()
}

// ---------------------------------------------------------------------------

func runBlocked(c *mon.Case, sp spec) {
	p := sp.Proto
	ctx := "blocked/" + p
	s := hx.MustSock(c, p)
	setLong(s)
	var peer mangos.Socket
	var l mangos.Listener
	var d mangos.Dialer
	ws := hx.WatchPipes(s)
	if sp.Peer {
		peer = hx.MustSock(c, hx.PeerOf[p])
		setLong(peer)
		var err error
		// half the time the socket under test is the dialing side
		if c.Rand.Intn(2) == 0 {
			l, _, err = connect(s, peer, sp.Tran)
		} else {
			_, d, err = connect(peer, s, sp.Tran)
		}
		if err != nil {
			c.Inconclusive("setup "+ctx+": connect over %s: %v", sp.Tran, err)
			return
		}
		if !hx.WaitAttached(c, ws, 1, "peer") {
			return
		}
	} else {
		var err error
		if l, err = s.NewListener(listenAddr(sp.Tran), lopts(sp.Tran)); err == nil {
			err = l.Listen()
		}
		if err != nil {
			c.Inconclusive("setup "+ctx+": listen over %s: %v", sp.Tran, err)
			return
		}
	}
	var cxs []mangos.Context
	if hasContexts(p) {
		for i := 0; i < 2; i++ {
			cx, err := s.OpenContext()
			if err != nil {
				c.Inconclusive("setup "+ctx+": OpenContext: %v", err)
				return
			}
			cxs = append(cxs, cx)
		}
	}
	// in-flight activity
	var blocked []*mon.Call
	start := func(name string, f func() error) {
		blocked = append(blocked, mon.Go(name, func() (interface{}, error) { return nil, f() }))
	}
	switch p {
	case "req":
		// requests outstanding: Send completes (peer connected) or blocks (no peer); Recv then waits for the reply
		start("Send", func() error { return s.Send([]byte("q")) })
		for i, cx := range cxs {
			cx := cx
			start(fmt.Sprintf("ctx%d.Send+Recv", i), func() error {
				if e := cx.Send([]byte("q")); e != nil {
					return e
				}
				_, e := cx.Recv()
				return e
			})
		}
		// and a second caller parked on each of the same contexts: a Recv that waits for the reply to
		// the request whose Send is still waiting for a connection (no peer), or next to the first
		// Recv (peer).  Close has to release every caller of a context, not just one.
		if c.Rand.Intn(2) == 0 {
			mon.Await(func() bool {
				for _, k := range blocked {
					if !k.Done() && !k.ParkedIn("") {
						return false
					}
				}
				return true
			}, mon.AwaitOpts{Watchdog: 3 * time.Second})
			start("Recv-2nd-caller", func() error { _, e := s.Recv(); return e })
			for i, cx := range cxs {
				cx := cx
				start(fmt.Sprintf("ctx%d.Recv-2nd-caller", i), func() error { _, e := cx.Recv(); return e })
			}
			c.Count("contexts_with_two_parked_callers", 1+len(cxs))
		}
	case "surveyor":
		start("Send+Recv", func() error {
			if e := s.Send([]byte("s")); e != nil {
				return e
			}
			for {
				if _, e := s.Recv(); e != nil {
					return e
				}
			}
		})
		for i, cx := range cxs {
			cx := cx
			start(fmt.Sprintf("ctx%d.Send+Recv", i), func() error {
				if e := cx.Send([]byte("s")); e != nil {
					return e
				}
				for {
					if _, e := cx.Recv(); e != nil {
						return e
					}
				}
			})
		}
	default:
		if p == "sub" {
			// an endpoint that has subscribed and then unsubscribed everything is still an endpoint of the
			// socket: a Recv parked on it is released by Close like any other
			s.SetOption(mangos.OptionSubscribe, "gone")
			s.SetOption(mangos.OptionUnsubscribe, "gone")
			for i, cx := range cxs {
				if i%2 == 0 {
					cx.SetOption(mangos.OptionSubscribe, "gone")
					cx.SetOption(mangos.OptionUnsubscribe, "gone")
				}
			}
		}
		start("Recv", func() error { _, e := s.Recv(); return e })
		for i, cx := range cxs {
			cx := cx
			start(fmt.Sprintf("ctx%d.Recv", i), func() error { _, e := cx.Recv(); return e })
		}
		// senders: keep sending until blocked or failed (a full queue or no peer blocks; best-effort patterns just return)
		fill := []byte("fill")
		nfill := 400
		if sp.Peer && sp.Tran != "inproc" && c.Rand.Intn(2) == 0 {
			// large messages towards a peer that reads nothing: the connection's writer ends up stalled
			// inside the transport with the kernel buffers full, which is where Close has to interrupt it
			fill = make([]byte, 96<<10)
			nfill = 160
		}
		start("Send-loop", func() error {
			for i := 0; i < nfill; i++ {
				if e := s.Send(fill); e != nil {
					return e
				}
			}
			return nil
		})
	}
	// let them park (or finish)
	mon.Await(func() bool {
		for _, k := range blocked {
			if !k.Done() && !k.ParkedIn("") {
				return false
			}
		}
		return true
	}, mon.AwaitOpts{Watchdog: 5 * time.Second})
	nparked := 0
	wasParked := map[*mon.Call]bool{}
	for _, k := range blocked {
		if !k.Done() {
			nparked++
			wasParked[k] = true
		}
	}
	c.Count("calls_blocked_at_close", nparked)
	// Close from two goroutines at once in half of the cases
	cl := mon.Go("Close", func() (interface{}, error) { return nil, s.Close() })
	var cl2 *mon.Call
	if c.Rand.Intn(2) == 0 {
		cl2 = mon.Go("Close2", func() (interface{}, error) { return nil, s.Close() })
	}
	if !waitReturn(c, "close-blocks:"+ctx, ctx+": Close returning", cl, 0) {
		return
	}
	if cl2 != nil && !waitReturn(c, "close-blocks:"+ctx, ctx+": concurrent second Close returning", cl2, 0) {
		return
	}
	for _, k := range blocked {
		if !waitReturn(c, "blocked-call-not-released:"+ctx+"/"+stripDigits(k.Name), ctx+": "+k.Name+" (blocked at Close time) returning", k, 0) {
			return
		}
		_, err, _ := k.Result()
		if !wasParked[k] {
			continue // had already returned before Close: not a call "blocked on it"
		}
		c.Count("blocked_calls_released", 1)
		ok := err == mangos.ErrClosed || err == mangos.ErrProtoOp
		if strings.HasPrefix(k.Name, "Send-loop") && err == nil {
			ok = true // never blocked
		}
		if p == "rep" || p == "respondent" || p == "xrep" || p == "xrespondent" {
			ok = ok || err == mangos.ErrProtoState && strings.Contains(k.Name, "Send")
		}
		if !ok {
			c.Violate("blocked-call-error:"+ctx+"/"+stripDigits(k.Name), "%s: %s was in progress when the socket was closed and returned %v, want the closed error", ctx, k.Name, err)
		}
	}
	laterCalls(c, ctx, s, cxs, l, d, sp.Tran)
	if peer != nil {
		peer.Close()
	}
	if nparked > 0 {
		c.Nontrivial()
	}
}

func lopts(tr string) map[string]interface{} {
	if hx.NeedsTLS(innerOf(tr)) {
		s, _ := hx.TLSConfigs()
		return map[string]interface{}{mangos.OptionTLSConfig: s}
	}
	return nil
}

// ---------------------------------------------------------------------------

// refusingTCPAddr returns a loopback TCP address at which connections are refused, and keeps it that
// way until release is called: the port stays bound, without listening, so that no other listener on
// the machine can be given it in the meantime (a stranger there might accept and then say nothing).
func refusingTCPAddr() (addr string, release func()) {
	fd, err := syscall.Socket(syscall.AF_INET, syscall.SOCK_STREAM|syscall.SOCK_CLOEXEC, 0)
	if err != nil {
		panic(err)
	}
	if err := syscall.Bind(fd, &syscall.SockaddrInet4{Addr: [4]byte{127, 0, 0, 1}}); err != nil {
		panic(err)
	}
	sa, err := syscall.Getsockname(fd)
	if err != nil {
		panic(err)
	}
	return fmt.Sprintf("127.0.0.1:%d", sa.(*syscall.SockaddrInet4).Port), func() { syscall.Close(fd) }
}

func runDial(c *mon.Case, sp spec) {
	ctx := "dial/" + sp.Act
	s := hx.MustSock(c, sp.Proto)
	setLong(s)
	rt := 4 * time.Millisecond
	s.SetOption(mangos.OptionReconnectTime, rt)
	s.SetOption(mangos.OptionMaxReconnectTime, rt)
	s.SetOption(mangos.OptionDialAsynch, true)
	ws := hx.WatchPipes(s)
	var vd *vt.DialerCtl
	var addr string
	switch sp.Act {
	case "tcp-refuse-loop", "ws-refuse-loop":
		a, release := refusingTCPAddr()
		defer release() // (before the caller's descriptor census)
		addr = "tcp://" + a
		if sp.Act == "ws-refuse-loop" {
			addr = "ws://" + a + "/x"
		}
	case "ipc-refuse-loop":
		addr = hx.ListenAddr("ipc")
	case "inproc-refuse-loop":
		addr = hx.ListenAddr("inproc")
	default:
		name := hx.Uniq("c10d")
		addr = vt.Addr(name)
		vd = vt.D(name)
		c.Cleanup(func() { vt.Forget(name) })
	}
	switch sp.Act {
	case "vt-hang":
		vd.SetDefault(vt.Outcome{Kind: vt.Hang})
	case "vt-connected":
		vd.SetDefault(vt.Outcome{Kind: vt.Succeed})
	case "vt-timer-pending":
		vd.Script(vt.Outcome{Kind: vt.Refuse})
		vd.SetDefault(vt.Outcome{Kind: vt.Refuse})
		s.SetOption(mangos.OptionReconnectTime, 300*time.Millisecond)
		s.SetOption(mangos.OptionMaxReconnectTime, 300*time.Millisecond)
		rt = 300 * time.Millisecond
	}
	d, err := s.NewDialer(addr, nil)
	if err != nil {
		c.Inconclusive("setup "+ctx+": NewDialer(%s): %v", addr, err)
		return
	}
	if err := d.Dial(); err != nil {
		c.Inconclusive("setup "+ctx+": asynchronous Dial returned %v", err)
		return
	}
	// a Recv parked on the socket as well
	rc := mon.Go("Recv", func() (interface{}, error) { _, e := s.Recv(); return nil, e })
	switch sp.Act {
	case "vt-refuse-loop":
		mon.Await(func() bool { return vd.Attempts() >= 3 }, mon.AwaitOpts{Watchdog: 5 * time.Second})
		mon.Sleep(time.Duration(c.Rand.Intn(4000)) * time.Microsecond)
	case "vt-hang":
		mon.Await(func() bool { return vd.Attempts() >= 1 }, mon.AwaitOpts{Watchdog: 5 * time.Second})
	case "vt-connected":
		hx.WaitAttached(c, ws, 1, "vt peer")
	case "vt-timer-pending":
		mon.Await(func() bool { l := vd.Log(); return len(l) >= 1 && l[0].End != 0 }, mon.AwaitOpts{Watchdog: 5 * time.Second})
	default:
		mon.Sleep(time.Duration(10+c.Rand.Intn(10)) * time.Millisecond)
	}
	// close either the dialer first or the whole socket
	closeDialerFirst := c.Rand.Intn(3) == 0
	var closedAt time.Duration
	if closeDialerFirst {
		k := mon.Go("dialer.Close", func() (interface{}, error) { return nil, d.Close() })
		if !waitReturn(c, "close-blocks:"+ctx+"/dialer", ctx+": Dialer.Close returning", k, rt) {
			return
		}
		closedAt = mon.Now()
	}
	k := mon.Go("Close", func() (interface{}, error) { return nil, s.Close() })
	if !waitReturn(c, "close-blocks:"+ctx, ctx+": Socket.Close returning while a dial cycle is in progress", k, rt) {
		return
	}
	if !closeDialerFirst {
		closedAt = mon.Now()
	}
	if !waitReturn(c, "blocked-call-not-released:"+ctx+"/Recv", ctx+": Recv parked at Close time returning", rc, rt) {
		return
	}
	if _, err, _ := rc.Result(); err != mangos.ErrClosed && err != mangos.ErrProtoOp && !(err == mangos.ErrProtoState && (sp.Proto == "req" || sp.Proto == "surveyor")) {
		c.Violate("blocked-call-error:"+ctx+"/Recv", "Recv in progress at Close returned %v", err)
	}
	if sp.Act == "vt-hang" {
		// the transport's Dial was still in progress at Close: let it complete now; the pipe it yields must be discarded
		vd.Release(vt.Outcome{Kind: vt.Succeed})
		var p *vt.Pipe
		if !c.AwaitOrViolate("harness:hang-release", "released Dial completing", func() bool { p = vd.LastPipe(); return p != nil }, mon.AwaitOpts{}) {
			return
		}
		if !c.AwaitOrViolate("conn-kept-after-close:"+ctx, ctx+": the connection produced by a Dial that completed after Close being closed by the library", p.LibClosed, mon.AwaitOpts{MaxTimer: rt}) {
			return
		}
		if ws.Attached() > 0 {
			c.Violate("attached-after-close:"+ctx, "a pipe was attached to the socket after Close had returned")
		}
	}
	// no new connection attempt after Close (one in-flight attempt may still reach the transport)
	if vd != nil {
		mon.Sleep(8*rt + 20*time.Millisecond)
		after := 0
		for _, a := range vd.Log() {
			if a.Start > closedAt {
				after++
			}
		}
		c.Count("dial_attempts_seen", len(vd.Log()))
		if after > 1 {
			c.Violate("dial-after-close:"+ctx, "%d connection attempts were started after Close had returned at %v (at most one in-flight attempt is tolerated): %s", after, closedAt, renderLog(vd.Log(), closedAt))
		}
		if sp.Act == "vt-connected" {
			if p := vd.LastPipe(); p != nil && !p.LibClosed() {
				c.Violate("conn-kept-after-close:"+ctx, "the established connection was not closed by Socket.Close")
			}
		}
	} else {
		mon.Sleep(6 * rt)
	}
	laterCalls(c, ctx+"/"+sp.Proto, s, nil, nil, d, "")
	c.Nontrivial()
}

func renderLog(l []vt.DialRec, closedAt time.Duration) string {
	s := ""
	for _, a := range l {
		if a.Start > closedAt-50*time.Millisecond {
			s += fmt.Sprintf("[#%d start=%v end=%v] ", a.Seq, a.Start, a.End)
		}
	}
	return s
}

// ---------------------------------------------------------------------------

// runStall: a raw TCP/IPC/TLS peer that connects (or accepts) but never sends its SP header.
func runStall(c *mon.Case, sp spec) {
	tr := sp.Tran
	ctx := "stall/" + tr + "/" + sp.Act
	base := mon.TakeBaseline()
	s := hx.MustSock(c, "pair")
	s.SetOption(mangos.OptionReconnectTime, 5*time.Millisecond)
	s.SetOption(mangos.OptionMaxReconnectTime, 5*time.Millisecond)
	var closers []func()
	defer func() {
		for _, f := range closers {
			f()
		}
	}()
	if sp.Act == "listener" {
		l, err := s.NewListener(hx.ListenAddr(tr), lopts(tr))
		if err == nil {
			err = l.Listen()
		}
		if err != nil {
			c.Inconclusive("setup "+ctx+": listen: %v", err)
			return
		}
		a := l.Address()
		for i := 0; i < 3; i++ {
			var cn net.Conn
			var err error
			switch tr {
			case "tcp", "tls+tcp":
				cn, err = net.Dial("tcp", a[strings.Index(a, "://")+3:]) // for tls: TCP connect only, TLS handshake never starts
			case "ws":
				h := a[strings.Index(a, "://")+3:]
				cn, err = net.Dial("tcp", h[:strings.Index(h, "/")]) // HTTP request never sent
			case "ipc":
				cn, err = net.Dial("unix", strings.TrimPrefix(a, "ipc://"))
			}
			if err != nil {
				c.Inconclusive("raw dial: %v", err)
				return
			}
			if i == 1 {
				cn.Write([]byte{0, 'S', 'P'}) // partial header
			}
			cc := cn
			closers = append(closers, func() { cc.Close() })
		}
		mon.Sleep(10 * time.Millisecond)
	} else {
		var nl net.Listener
		var err error
		var addr string
		switch tr {
		case "tcp", "tls+tcp":
			nl, err = net.Listen("tcp", "127.0.0.1:0")
			if err == nil {
				addr = tr + "://" + nl.Addr().String()
			}
		case "ipc":
			p := strings.TrimPrefix(hx.ListenAddr("ipc"), "ipc://")
			nl, err = net.Listen("unix", p)
			addr = "ipc://" + p
		}
		if err != nil {
			c.Inconclusive("raw listen: %v", err)
			return
		}
		var mu sync.Mutex
		var conns []net.Conn
		done := make(chan struct{})
		go func() {
			defer close(done)
			for {
				cn, err := nl.Accept()
				if err != nil {
					return
				}
				mu.Lock()
				conns = append(conns, cn) // accepted, nothing is ever sent
				mu.Unlock()
			}
		}()
		closers = append(closers, func() {
			nl.Close()
			<-done
			mu.Lock()
			for _, cn := range conns {
				cn.Close()
			}
			mu.Unlock()
		})
		s.SetOption(mangos.OptionDialAsynch, true)
		var do map[string]interface{}
		if hx.NeedsTLS(tr) {
			_, cc := hx.TLSConfigs()
			do = map[string]interface{}{mangos.OptionTLSConfig: cc}
		}
		d, err := s.NewDialer(addr, do)
		if err == nil {
			err = d.Dial()
		}
		if err != nil {
			c.Inconclusive("setup "+ctx+": dial: %v", err)
			return
		}
		mon.Await(func() bool { mu.Lock(); defer mu.Unlock(); return len(conns) >= 1 }, mon.AwaitOpts{Watchdog: 5 * time.Second})
		mon.Sleep(5 * time.Millisecond)
	}
	k := mon.Go("Close", func() (interface{}, error) { return nil, s.Close() })
	if !waitReturn(c, "close-blocks:"+ctx, ctx+": Close returning while a peer stalls in the handshake", k, 5*time.Millisecond) {
		return
	}
	// the library must let go of the stalled connections by itself: the census runs BEFORE the raw peers are closed
	c.Nontrivial()
	stallCensus(c, ctx, base)
}

// stallCensus looks for library goroutines still alive after Close although the raw peers are still open.
func stallCensus(c *mon.Case, ctx string, base mon.GoroutineBaseline) {
	var left []mon.G
	r := mon.Await(func() bool {
		left = base.NewMangos("verifharness/props")
		return len(left) == 0
	}, mon.AwaitOpts{MaxTimer: 20 * time.Millisecond})
	if r.V == mon.Stuck {
		top := leakTop(left)
		c.Violate("leak:goroutine:"+ctx+":"+top, "the socket is closed but %d library goroutine(s) remain parked on a peer that never completed its handshake:\n%s", len(left), mon.RenderGs(left))
	}
}

// ---------------------------------------------------------------------------

// runSibling: closing a context, dialer, listener or pipe affects only that object.
func runSibling(c *mon.Case, sp spec) {
	p := sp.Proto
	ctx := "sibling/" + sp.Target + "/" + p
	if isCE(sp.Tran) {
		ctx += "/" + sp.Tran
	}
	s := hx.MustSock(c, p)
	peer := hx.MustSock(c, hx.PeerOf[p])
	setLong(s)
	setLong(peer)
	for _, x := range []mangos.Socket{s, peer} {
		x.SetOption(mangos.OptionReconnectTime, 5*time.Millisecond)
		x.SetOption(mangos.OptionMaxReconnectTime, 5*time.Millisecond)
	}
	if p == "sub" {
		s.SetOption(mangos.OptionSubscribe, []byte{})
	}
	if hx.PeerOf[p] == "sub" {
		peer.SetOption(mangos.OptionSubscribe, []byte{})
	}
	ws := hx.WatchPipes(s)
	wp := hx.WatchPipes(peer)
	// s dials, peer listens — so s has a dialer and a pipe; a listener is added on s too
	pl, d, err := connect(peer, s, sp.Tran)
	if err != nil {
		c.Inconclusive("setup "+ctx+": connect: %v", err)
		return
	}
	_ = pl
	if !hx.WaitAttached(c, ws, 1, "peer") || !hx.WaitAttached(c, wp, 1, "peer side") {
		return
	}
	l, err := s.NewListener(listenAddr(sp.Tran), lopts(sp.Tran))
	if err == nil {
		err = l.Listen()
	}
	if err != nil {
		c.Inconclusive("setup "+ctx+": second listener: %v", err)
		return
	}
	maxT := 5 * time.Millisecond
	switch sp.Target {
	case "context":
		cx1, e1 := s.OpenContext()
		cx2, e2 := s.OpenContext()
		if e1 != nil || e2 != nil {
			c.Inconclusive("setup "+ctx+": OpenContext: %v %v", e1, e2)
			return
		}
		// both contexts park in Recv (req: needs a request first -> ErrProtoState otherwise, so send one)
		park := func(cx mangos.Context, name string) *mon.Call {
			return mon.Go(name, func() (interface{}, error) {
				if p == "req" || p == "surveyor" {
					if e := cx.Send([]byte("x")); e != nil {
						return nil, e
					}
				}
				for {
					if _, e := cx.Recv(); e != nil {
						return nil, e
					}
					if p == "rep" || p == "respondent" {
						continue
					}
				}
			})
		}
		k1 := park(cx1, "ctx1.Recv")
		k2 := park(cx2, "ctx2.Recv")
		mon.Await(func() bool { return k1.ParkedIn("") && k2.ParkedIn("") }, mon.AwaitOpts{Watchdog: 3 * time.Second})
		kc := mon.Go("ctx1.Close", func() (interface{}, error) { return nil, cx1.Close() })
		if !waitReturn(c, "close-blocks:"+ctx, ctx+": Context.Close returning", kc, maxT) {
			return
		}
		if !waitReturn(c, "blocked-call-not-released:"+ctx, ctx+": Recv parked on the closed context returning", k1, maxT) {
			return
		}
		if _, e, _ := k1.Result(); e != mangos.ErrClosed {
			c.Violate("blocked-call-error:"+ctx, "Recv in progress on a context that was closed returned %v, want the closed error", e)
		}
		// later calls on the closed context
		for n, f := range map[string]func() error{"Send": func() error { return cx1.Send([]byte("x")) }, "Recv": func() error { _, e := cx1.Recv(); return e }, "Close": cx1.Close} {
			k := mon.Go(n, func() (interface{}, error) { return nil, f() })
			if !waitReturn(c, "later-call-blocks:"+ctx+"/"+n, ctx+": "+n+" on the closed context returning", k, maxT) {
				return
			}
			if _, e, _ := k.Result(); e != mangos.ErrClosed && e != mangos.ErrProtoOp {
				c.Violate("later-call-result:"+ctx+"/"+n, "%s on a closed context returned %v, want the closed error", n, e)
			}
			c.Count("later_calls", 1)
		}
		// the sibling is untouched: still parked
		mon.Sleep(5 * time.Millisecond)
		if k2.Done() {
			_, e, _ := k2.Result()
			c.Violate("sibling-disturbed:"+ctx, "closing one context made Recv on another context return %v", e)
			return
		}
		// now close the sibling too, so that the closing exchange below runs on the socket's own context
		cx2.Close()
		if !waitReturn(c, "blocked-call-not-released:"+ctx, ctx+": Recv parked on the second context returning after its Close", k2, maxT) {
			return
		}
	case "dialer":
		k := mon.Go("dialer.Close", func() (interface{}, error) { return nil, d.Close() })
		if !waitReturn(c, "close-blocks:"+ctx, ctx+": Dialer.Close returning", k, maxT) {
			return
		}
		if e := d.Close(); e != mangos.ErrClosed {
			c.Violate("later-call-result:"+ctx+"/Close", "second Dialer.Close returned %v", e)
		}
		if e := d.Dial(); e != mangos.ErrClosed && e != mangos.ErrAddrInUse {
			c.Violate("later-call-result:"+ctx+"/Dial", "Dial on a closed dialer returned %v", e)
		}
	case "listener":
		k := mon.Go("listener.Close", func() (interface{}, error) { return nil, l.Close() })
		if !waitReturn(c, "close-blocks:"+ctx, ctx+": Listener.Close returning", k, maxT) {
			return
		}
		if e := l.Close(); e != mangos.ErrClosed {
			c.Violate("later-call-result:"+ctx+"/Close", "second Listener.Close returned %v", e)
		}
		// the address is free again
		x := hx.MustSock(c, p)
		nl, e := x.NewListener(l.Address(), lopts(sp.Tran))
		if e == nil {
			e = nl.Listen()
		}
		if e != nil {
			c.Violate("address-not-released:"+ctx, "after Listener.Close a new listener on %s failed: %v", l.Address(), e)
		}
		x.Close()
	case "pipe":
		var pp mangos.Pipe
		ws2 := ws
		_ = ws2
		// find the pipe through a message? use the hook record
		pp = lastPipe(ws)
		if pp == nil {
			c.Inconclusive("no pipe recorded")
			return
		}
		k := mon.Go("pipe.Close", func() (interface{}, error) { return nil, pp.Close() })
		if !waitReturn(c, "close-blocks:"+ctx, ctx+": Pipe.Close returning", k, maxT) {
			return
		}
		// the dialer reconnects by itself
		if !c.AwaitOrViolate("sibling-disturbed:"+ctx+"/no-reconnect", ctx+": the dialer reconnecting after one of its pipes was closed", func() bool { return ws.Attached() >= 2 && wp.Attached() >= 2 && ws.Live() == 1 && wp.Live() == 1 }, mon.AwaitOpts{MaxTimer: maxT, Ignore: []string{"internal/core.(*dialer)"}}) {
			return
		}
	}
	// the socket (and its remaining endpoints) still work
	if sp.Target != "pipe" || true {
		if !ping(c, ctx, s, peer, p) {
			return
		}
	}
	s.Close()
	peer.Close()
	c.Nontrivial()
}

func lastPipe(w *hx.PipeWatch) mangos.Pipe {
	ps := w.Pipes()
	if len(ps) == 0 {
		return nil
	}
	return ps[len(ps)-1]
}

// ping: one exchange in the natural direction of the pattern proves the socket still works.
// The receiving side is started first (REQ/REP rendezvous over inproc needs a reader), and
// both calls run under the stuck detector; connections are up on both sides, so nothing is lossy.
func ping(c *mon.Case, ctx string, s, peer mangos.Socket, p string) bool {
	msg := []byte("ping-" + hx.Uniq("m"))
	from, to := peer, s
	switch p {
	case "req", "surveyor", "pair", "bus":
		from, to = s, peer
	}
	rk := mon.Go("recv-side", func() (interface{}, error) {
		for {
			b, err := to.Recv()
			if err != nil || string(b) == string(msg) {
				return nil, err
			}
		}
	})
	sk := mon.Go("send-side", func() (interface{}, error) { return nil, from.Send(msg) })
	opts := mon.AwaitOpts{MaxTimer: 5 * time.Millisecond, Ignore: []string{"internal/core.(*dialer)"}}
	if !c.AwaitOrViolate("sibling-disturbed:"+ctx+"/send-stuck", ctx+": Send of the closing exchange", sk.Done, opts) {
		return false
	}
	if _, e, _ := sk.Result(); e != nil {
		c.Violate("sibling-disturbed:"+ctx+"/exchange", "%s: after closing only the %s, Send failed: %v", ctx, strings.Split(ctx, "/")[1], e)
		return false
	}
	if !c.AwaitOrViolate("sibling-disturbed:"+ctx+"/recv-stuck", ctx+": Recv of the closing exchange", rk.Done, opts) {
		return false
	}
	if _, e, _ := rk.Result(); e != nil {
		c.Violate("sibling-disturbed:"+ctx+"/exchange", "%s: after closing only the %s, Recv failed: %v", ctx, strings.Split(ctx, "/")[1], e)
		return false
	}
	c.Count("sibling_pings", 1)
	return true
}

// leakTop names a leak by the lexicographically smallest innermost library function among
// the leaked goroutines, so the signature does not depend on goroutine order.
func leakTop(left []mon.G) string {
	top := ""
	for _, g := range left {
		for _, f := range g.Frames {
			if strings.HasPrefix(f, "go.nanomsg.org/mangos/v3") {
				t := strings.Fields(strings.TrimPrefix(f, "go.nanomsg.org/mangos/v3/"))[0]
				if top == "" || t < top {
					top = t
				}
				break
			}
		}
	}
	if top == "" {
		top = "?"
	}
	return top
}

// runRaceListen: Listen racing Close.  Whatever Listen returns, once both calls have returned the
// address must not stay bound: a closed socket has no listening address.
// runRaceDial: Socket.Dial (an asynchronous dialer towards a refusing endpoint, redialling every 2 ms)
// racing Socket.Close through a slow transport constructor.  Whoever wins, once both have returned
// the socket is closed: no connection attempt may be started any more (one in flight is tolerated).
func runRaceDial(c *mon.Case, sp spec) {
	ctx := "race/dial-vs-close"
	for round := 0; round < 10 && !c.Failed(); round++ {
		s := hx.MustSock(c, sp.Proto)
		s.SetOption(mangos.OptionReconnectTime, 2*time.Millisecond)
		s.SetOption(mangos.OptionMaxReconnectTime, 2*time.Millisecond)
		s.SetOption(mangos.OptionDialAsynch, true)
		name := hx.Uniq("c10rd")
		D := vt.D(name)
		D.SetDefault(vt.Outcome{Kind: vt.Refuse})
		D.SetNewDelay(time.Duration(200+c.Rand.Intn(1500)) * time.Microsecond)
		dk := mon.Go("Dial", func() (interface{}, error) { return nil, s.Dial(vt.Addr(name)) })
		mon.Sleep(time.Duration(c.Rand.Intn(1400)) * time.Microsecond)
		ck := mon.Go("Close", func() (interface{}, error) { return nil, s.Close() })
		if !c.AwaitOrViolate("close-blocks:"+ctx, "Close racing Dial returning", ck.Done, mon.AwaitOpts{MaxTimer: 2 * time.Millisecond}) {
			return
		}
		if !c.AwaitOrViolate("later-call-blocks:"+ctx+"/Dial", "Dial racing Close returning", dk.Done, mon.AwaitOpts{MaxTimer: 2 * time.Millisecond}) {
			return
		}
		closedAt := mon.Now()
		_, derr, _ := dk.Result()
		if derr != nil && derr != mangos.ErrClosed {
			c.Violate("later-call-result:"+ctx+"/Dial", "Dial racing Close returned %v (want nil or the closed error)", derr)
		}
		mon.Sleep(25 * time.Millisecond) // a dozen reconnect intervals
		after := 0
		for _, a := range D.Log() {
			if a.Start > closedAt {
				after++
			}
		}
		if after > 1 {
			c.Violate("dial-after-close:"+ctx, "%d connection attempts were started after both Dial (returned %v) and Close had returned: %s", after, derr, renderLog(D.Log(), closedAt))
		}
		c.Count("dial_close_races", 1)
		if derr == nil {
			c.Count("dial_won_race", 1)
		}
		vt.Forget(name)
	}
	c.Nontrivial()
}

func runRaceListen(c *mon.Case, sp spec) {
	ctx := "race/listen-vs-close"
	for round := 0; round < 12 && !c.Failed(); round++ {
		s := hx.MustSock(c, sp.Proto)
		name := hx.Uniq("c10r")
		L := vt.L(name)
		L.SetNewDelay(time.Duration(200+c.Rand.Intn(1500)) * time.Microsecond)
		lk := mon.Go("Listen", func() (interface{}, error) { return nil, s.Listen(vt.Addr(name)) })
		mon.Sleep(time.Duration(c.Rand.Intn(1400)) * time.Microsecond)
		ck := mon.Go("Close", func() (interface{}, error) { return nil, s.Close() })
		if !c.AwaitOrViolate("close-blocks:"+ctx, "Close racing Listen returning", ck.Done, mon.AwaitOpts{MaxTimer: 2 * time.Millisecond}) {
			return
		}
		if !c.AwaitOrViolate("later-call-blocks:"+ctx+"/Listen", "Listen racing Close returning", lk.Done, mon.AwaitOpts{MaxTimer: 2 * time.Millisecond}) {
			return
		}
		_, lerr, _ := lk.Result()
		// settle: an accept loop that was started must wind down
		var listening, closed bool
		c.AwaitOrViolate("address-stays-bound-after-close:"+ctx, fmt.Sprintf("the endpoint of a Listen (returned %v) that raced with Close being released", lerr), func() bool {
			listening, closed, _ = L.State()
			return !listening || closed
		}, mon.AwaitOpts{MaxTimer: 2 * time.Millisecond})
		if lerr != nil && lerr != mangos.ErrClosed {
			c.Violate("later-call-result:"+ctx+"/Listen", "Listen racing Close returned %v (want nil or the closed error)", lerr)
		}
		c.Count("listen_close_races", 1)
		if lerr == nil {
			c.Count("listen_won_race", 1)
		}
		vt.Forget(name)
	}
	c.Nontrivial()
}

// runAcceptBusy: connections that finished the SP handshake but have not been accepted yet (the
// accept loop is busy in the application's Attaching hook) must be closed by Socket.Close too.
func runAcceptBusy(c *mon.Case, sp spec) {
	tr := sp.Tran
	ctx := "acceptbusy/" + tr
	// A connection the library merely forgets is eventually closed by the garbage collector's
	// finalizer; the property wants it closed by Close.  Keep the collector out of the picture.
	oldGC := debug.SetGCPercent(-1)
	defer debug.SetGCPercent(oldGC)
	s := hx.MustSock(c, "pull")
	gate := make(chan struct{})
	entered := make(chan struct{}, 8)
	s.SetPipeEventHook(func(ev mangos.PipeEvent, p mangos.Pipe) {
		if ev == mangos.PipeEventAttaching {
			entered <- struct{}{}
			<-gate // the accept loop is held here
		}
	})
	l, err := s.NewListener(hx.ListenAddr(tr), lopts(tr))
	if err == nil {
		err = l.Listen()
	}
	if err != nil {
		c.Inconclusive("setup %s: %v", ctx, err)
		return
	}
	a := l.Address()
	host := a[strings.Index(a, "://")+3:]
	dial := func() (net.Conn, error) {
		switch tr {
		case "tcp":
			return net.Dial("tcp", host)
		case "tls+tcp":
			_, cc := hx.TLSConfigs()
			return tls.Dial("tcp", host, cc)
		}
		return net.Dial("unix", host)
	}
	type peer struct {
		cn     net.Conn
		closed chan struct{}
	}
	var peers []*peer
	defer func() {
		for _, p := range peers {
			p.cn.Close()
		}
	}()
	for i := 0; i < 3; i++ {
		var cn net.Conn
		dk := mon.Go("raw-dial", func() (interface{}, error) { var e error; cn, e = dial(); return nil, e })
		if !c.AwaitOrViolate("harness:raw-dial-stuck", "raw peer connecting", dk.Done, mon.AwaitOpts{}) {
			return
		}
		if _, e, _ := dk.Result(); e != nil {
			c.Inconclusive("setup %s: raw dial: %v", ctx, e)
			return
		}
		p := &peer{cn: cn, closed: make(chan struct{})}
		peers = append(peers, p)
		// a PUSH peer: send our header, read the socket's header, then block reading until the library closes
		cn.Write([]byte{0, 'S', 'P', 0, 0, 0x50, 0, 0})
		go func() {
			buf := make([]byte, 64)
			for {
				if _, err := cn.Read(buf); err != nil {
					close(p.closed)
					return
				}
			}
		}()
		if i == 0 {
			// wait until the accept loop is inside the hook with the first connection
			k := mon.Go("hook-entered", func() (interface{}, error) { <-entered; return nil, nil })
			if !c.AwaitOrViolate("harness:hook-not-entered", "accept loop reaching the Attaching hook", k.Done, mon.AwaitOpts{}) {
				return
			}
		}
	}
	mon.Sleep(20 * time.Millisecond) // let the 2nd and 3rd handshakes complete and queue up
	ck := mon.Go("Close", func() (interface{}, error) { return nil, s.Close() })
	if !c.AwaitOrViolate("close-blocks:"+ctx, ctx+": Close while the accept loop is busy in the hook", ck.Done, mon.AwaitOpts{}) {
		close(gate)
		return
	}
	close(gate)
	for i, p := range peers {
		i, p := i, p
		k := mon.Go("peer-closed", func() (interface{}, error) { <-p.closed; return nil, nil })
		if !c.AwaitOrViolate("conn-kept-after-close:"+ctx, fmt.Sprintf("%s: connection %d (handshake complete, %s) being closed by Socket.Close", ctx, i, map[bool]string{true: "in the Attaching hook", false: "not yet accepted"}[i == 0]), k.Done, mon.AwaitOpts{}) {
			return
		}
	}
	c.Count("unaccepted_connections_closed", len(peers)-1)
	c.Nontrivial()
}
