//go:build verif

package c10

import (
	"crypto/tls"
	"errors"
	"fmt"
	"io"
	"net"
	"net/http"
	"strings"
	"sync"
	"sync/atomic"
	"time"

	"github.com/gorilla/websocket"

	"go.nanomsg.org/mangos/v3"
	"go.nanomsg.org/mangos/v3/transport"

	"verifharness/hx"
	"verifharness/mon"
)

// ---------------------------------------------------------------------------
// "closeerr+<inner>": a transport whose pipes report an error from Close.
//
// The transport interface lets Pipe.Close return an error, and real transports do: a TLS
// connection whose peer is gone cannot deliver its close-notify any more and says so, although the
// connection is closed all the same.  The wrapper gives every inner transport that behaviour: its
// pipes close the inner pipe and then report a failure.  Everything else is the inner transport.
// Whatever a transport's Close reports, the property's demands are the same.

const cePrefix = "closeerr+"

var errCloseReported = errors.New("closeerr: the connection was closed, but not cleanly")

// ceCloses counts the pipe closes that reported an error (evidence counter).
var ceCloses atomic.Int64

func isCE(tr string) bool      { return strings.HasPrefix(tr, cePrefix) }
func innerOf(tr string) string { return strings.TrimPrefix(tr, cePrefix) }

var ceInner = []string{"inproc", "ipc", "tcp", "tls+tcp", "ws"}

func init() {
	for _, in := range ceInner {
		transport.RegisterTransport(ceTran{inner: in})
	}
}

type ceTran struct{ inner string }

func (t ceTran) Scheme() string { return cePrefix + t.inner }

func (t ceTran) NewDialer(addr string, sock mangos.Socket) (transport.Dialer, error) {
	in := transport.GetTransport(t.inner)
	if in == nil || !strings.HasPrefix(addr, cePrefix) {
		return nil, mangos.ErrBadTran
	}
	d, err := in.NewDialer(strings.TrimPrefix(addr, cePrefix), sock)
	if err != nil {
		return nil, err
	}
	return &ceDialer{d}, nil
}

func (t ceTran) NewListener(addr string, sock mangos.Socket) (transport.Listener, error) {
	in := transport.GetTransport(t.inner)
	if in == nil || !strings.HasPrefix(addr, cePrefix) {
		return nil, mangos.ErrBadTran
	}
	l, err := in.NewListener(strings.TrimPrefix(addr, cePrefix), sock)
	if err != nil {
		return nil, err
	}
	return &ceListener{l}, nil
}

type ceDialer struct{ transport.Dialer }

func (d *ceDialer) Dial() (transport.Pipe, error) {
	p, err := d.Dialer.Dial()
	if err != nil {
		return nil, err
	}
	return &cePipe{Pipe: p}, nil
}

type ceListener struct{ transport.Listener }

func (l *ceListener) Accept() (transport.Pipe, error) {
	p, err := l.Listener.Accept()
	if err != nil {
		return nil, err
	}
	return &cePipe{Pipe: p}, nil
}

func (l *ceListener) Address() string { return cePrefix + l.Listener.Address() }

type cePipe struct{ transport.Pipe }

func (p *cePipe) Close() error {
	if err := p.Pipe.Close(); err != nil {
		return err
	}
	ceCloses.Add(1)
	return errCloseReported
}

// listenAddr / connect: hx.ListenAddr / hx.Connect, also for the closeerr+ transports.
func listenAddr(tr string) string {
	if isCE(tr) {
		return cePrefix + hx.ListenAddr(innerOf(tr))
	}
	return hx.ListenAddr(tr)
}

func connect(srv, cli mangos.Socket, tr string) (mangos.Listener, mangos.Dialer, error) {
	if !isCE(tr) {
		return hx.Connect(srv, cli, tr)
	}
	l, err := srv.NewListener(listenAddr(tr), lopts(tr))
	if err != nil {
		return nil, nil, fmt.Errorf("NewListener: %w", err)
	}
	if err := l.Listen(); err != nil {
		return nil, nil, fmt.Errorf("Listen: %w", err)
	}
	d, err := cli.NewDialer(l.Address(), dopts(tr))
	if err != nil {
		return l, nil, fmt.Errorf("NewDialer(%s): %w", l.Address(), err)
	}
	if err := d.Dial(); err != nil {
		return l, d, fmt.Errorf("Dial(%s): %w", l.Address(), err)
	}
	return l, d, nil
}

// ---------------------------------------------------------------------------
// peergone: the peers of a socket vanish abruptly, then the socket is closed.
//
// The socket's peers are raw connections held by the harness (tcp, ipc, tls+tcp, ws, wss; the socket
// listens or dials).  After a complete handshake they go away the hard way — connection reset, a
// plain close without any goodbye of the layer above, or a reset in the middle of a message — so the
// library finds out through failing reads and writes, and closing what is left of the connection may
// itself fail (a TLS close-notify cannot be written to a reset connection).  However the loss was
// taken, Close of the socket must release every blocked call and return, and afterwards nothing of
// the socket may remain: no goroutine (checked while the surviving peers are still connected), no
// descriptor, no pipe id.

type rawPeer struct {
	tr  string
	cn  net.Conn // what the peer talks through (TLS or plain)
	raw net.Conn // the kernel connection underneath
	ws  *websocket.Conn
}

func kernelConn(cn net.Conn) net.Conn {
	if t, ok := cn.(*tls.Conn); ok {
		return t.NetConn()
	}
	return cn
}

func spHeader(proto uint16) []byte {
	return []byte{0, 'S', 'P', 0, byte(proto >> 8), byte(proto), 0, 0}
}

// spHandshake: the peer's half of the SP handshake over a stream connection.
func spHandshake(cn net.Conn, self uint16) error {
	cn.SetDeadline(time.Now().Add(30 * time.Second)) // hang protection only: an error here is a setup failure
	defer cn.SetDeadline(time.Time{})
	if _, err := cn.Write(spHeader(self)); err != nil {
		return err
	}
	hb := make([]byte, 8)
	_, err := io.ReadFull(cn, hb)
	return err
}

// rawConnect: a raw peer dials the listening socket and completes the handshake.
func rawConnect(tr, addr string, info mangos.ProtocolInfo) (*rawPeer, error) {
	host := addr[strings.Index(addr, "://")+3:]
	_, cliCfg := hx.TLSConfigs()
	p := &rawPeer{tr: tr}
	switch tr {
	case "ws", "wss":
		d := &websocket.Dialer{Subprotocols: []string{info.SelfName + ".sp.nanomsg.org"}, TLSClientConfig: cliCfg, HandshakeTimeout: 30 * time.Second}
		wc, _, err := d.Dial(addr, nil)
		if err != nil {
			return nil, err
		}
		p.ws, p.cn = wc, wc.UnderlyingConn()
		p.raw = kernelConn(p.cn)
		return p, nil
	case "ipc":
		cn, err := net.Dial("unix", host)
		if err != nil {
			return nil, err
		}
		p.cn, p.raw = cn, cn
	case "tcp":
		cn, err := net.Dial("tcp", host)
		if err != nil {
			return nil, err
		}
		p.cn, p.raw = cn, cn
	case "tls+tcp":
		cn, err := net.Dial("tcp", host)
		if err != nil {
			return nil, err
		}
		p.cn, p.raw = tls.Client(cn, cliCfg), cn
	}
	if err := spHandshake(p.cn, info.Peer); err != nil {
		p.raw.Close()
		return nil, err
	}
	return p, nil
}

// vanish: the peer goes away.  reset: the kernel connection is reset (unix sockets have no reset of
// their own: closed); fin: closed without a goodbye of the layer above; midmsg: the beginning of a
// message, then reset.
func (p *rawPeer) vanish(mode string) {
	if mode == "midmsg" {
		var part []byte
		switch p.tr {
		case "ws", "wss":
			part = []byte{0x82, 0xfe, 0x01} // a masked binary frame with a 16 bit length, cut inside the length
		case "ipc":
			part = []byte{1, 0, 0, 0, 0, 0, 0, 0, 64, 'p', 'a', 'r', 't'}
		default:
			part = []byte{0, 0, 0, 0, 0, 0, 0, 64, 'p', 'a', 'r', 't'}
		}
		p.cn.SetWriteDeadline(time.Now().Add(30 * time.Second))
		p.cn.Write(part)
	}
	if mode != "fin" {
		if tc, ok := p.raw.(*net.TCPConn); ok {
			tc.SetLinger(0)
		}
	}
	p.raw.Close()
}

// rawServer: the raw peers of a dialing socket.  Every accepted connection gets its handshake
// answered at once and is then held.
type rawServer struct {
	tr   string
	info mangos.ProtocolInfo
	addr string
	nl   net.Listener
	hs   *http.Server
	wg   sync.WaitGroup
	mu   sync.Mutex
	all  []net.Conn // every accepted connection, for the cleanup
	ok   []*rawPeer // handshake complete
}

func newRawServer(tr string, info mangos.ProtocolInfo) (*rawServer, error) {
	s := &rawServer{tr: tr, info: info}
	srvCfg, _ := hx.TLSConfigs()
	var err error
	switch tr {
	case "ipc":
		path := strings.TrimPrefix(hx.ListenAddr("ipc"), "ipc://")
		s.nl, err = net.Listen("unix", path)
		s.addr = "ipc://" + path
	default:
		s.nl, err = net.Listen("tcp", "127.0.0.1:0")
		if err == nil {
			s.addr = tr + "://" + s.nl.Addr().String()
			if tr == "ws" || tr == "wss" {
				s.addr += "/" + hx.Uniq("gone")
			}
			if hx.NeedsTLS(tr) {
				s.nl = tls.NewListener(s.nl, srvCfg)
			}
		}
	}
	if err != nil {
		return nil, err
	}
	if tr == "ws" || tr == "wss" {
		s.hs = &http.Server{Handler: http.HandlerFunc(func(w http.ResponseWriter, r *http.Request) {
			ug := websocket.Upgrader{CheckOrigin: func(*http.Request) bool { return true }, Subprotocols: websocket.Subprotocols(r)}
			wc, err := ug.Upgrade(w, r, nil)
			if err != nil {
				return
			}
			p := &rawPeer{tr: tr, ws: wc, cn: wc.UnderlyingConn()}
			p.raw = kernelConn(p.cn)
			s.mu.Lock()
			s.all = append(s.all, p.raw)
			s.ok = append(s.ok, p)
			s.mu.Unlock()
		})}
		s.wg.Add(1)
		go func() { defer s.wg.Done(); s.hs.Serve(s.nl) }()
		return s, nil
	}
	s.wg.Add(1)
	go func() {
		defer s.wg.Done()
		for {
			cn, err := s.nl.Accept()
			if err != nil {
				return
			}
			p := &rawPeer{tr: tr, cn: cn, raw: kernelConn(cn)}
			s.mu.Lock()
			s.all = append(s.all, p.raw)
			s.mu.Unlock()
			s.wg.Add(1)
			go func() {
				defer s.wg.Done()
				if spHandshake(cn, info.Peer) != nil {
					cn.Close()
					return
				}
				s.mu.Lock()
				s.ok = append(s.ok, p)
				s.mu.Unlock()
			}()
		}
	}()
	return s, nil
}

func (s *rawServer) peers() []*rawPeer {
	s.mu.Lock()
	defer s.mu.Unlock()
	return append([]*rawPeer{}, s.ok...)
}

// stopAccepting: from now on the socket's connection attempts are refused.
func (s *rawServer) stopAccepting() {
	if s.hs != nil {
		s.hs.Close()
	} else {
		s.nl.Close()
	}
}

func (s *rawServer) shutdown() {
	s.stopAccepting()
	s.mu.Lock()
	for _, cn := range s.all {
		cn.Close()
	}
	s.mu.Unlock()
	s.wg.Wait()
	s.mu.Lock()
	for _, cn := range s.all { // whatever was accepted in the meantime
		cn.Close()
	}
	s.mu.Unlock()
}

// canSendUnprompted: cooked patterns whose Send needs nothing received before.
func canSendUnprompted(p string) bool {
	switch p {
	case "pair", "pair1", "pub", "push", "bus", "star", "req", "surveyor":
		return true
	}
	return false
}

func runPeerGone(c *mon.Case, sp spec) {
	tr, side, mode, p := sp.Tran, sp.Act, sp.Target, sp.Proto
	ctx := "peergone/" + tr + "/" + side + "/" + mode
	base := mon.TakeBaseline()
	s := hx.MustSock(c, p)
	setLong(s)
	rt := 4 * time.Millisecond
	s.SetOption(mangos.OptionReconnectTime, rt)
	s.SetOption(mangos.OptionMaxReconnectTime, rt)
	w := hx.WatchPipes(s)
	info := s.Info()
	bg := mon.AwaitOpts{MaxTimer: rt, Ignore: []string{"internal/core.(*dialer)"}}

	var l mangos.Listener
	var d mangos.Dialer
	var peers []*rawPeer // in the order they connected
	var srv *rawServer
	closeRaw := func() {
		for _, rp := range peers {
			rp.raw.Close()
		}
		if srv != nil {
			srv.shutdown()
		}
	}
	defer closeRaw() // before the descriptor census of the caller

	npeers := 1
	if side == "listener" {
		if !strings.Contains(p, "pair") { // PAIR keeps one peer and turns further connections away
			npeers = 1 + c.Rand.Intn(3)
		}
		var err error
		if l, err = s.NewListener(hx.ListenAddr(tr), lopts(tr)); err == nil {
			err = l.Listen()
		}
		if err != nil {
			c.Inconclusive("setup %s: listen: %v", ctx, err)
			return
		}
		for i := 0; i < npeers; i++ {
			var rp *rawPeer
			k := mon.Go("raw-dial", func() (interface{}, error) { var e error; rp, e = rawConnect(tr, l.Address(), info); return nil, e })
			if !c.AwaitOrViolate("harness:raw-dial-stuck", "raw peer connecting", k.Done, mon.AwaitOpts{}) {
				return
			}
			if _, e, _ := k.Result(); e != nil {
				c.Inconclusive("setup %s: raw peer: %v", ctx, e)
				return
			}
			peers = append(peers, rp)
		}
	} else {
		var err error
		if srv, err = newRawServer(tr, info); err != nil {
			c.Inconclusive("setup %s: raw server: %v", ctx, err)
			return
		}
		if d, err = s.NewDialer(srv.addr, dopts(tr)); err != nil {
			c.Inconclusive("setup %s: NewDialer(%s): %v", ctx, srv.addr, err)
			return
		}
		k := mon.Go("Dial", func() (interface{}, error) { return nil, d.Dial() })
		if !c.AwaitOrViolate("harness:dial-stuck", "dialing the raw peer", k.Done, bg) {
			return
		}
		if _, e, _ := k.Result(); e != nil {
			c.Inconclusive("setup %s: Dial(%s): %v", ctx, srv.addr, e)
			return
		}
	}
	if !hx.WaitAttached(c, w, npeers, "raw peer") {
		return
	}
	if srv != nil {
		// (the library may have its half of the handshake behind it a moment before the raw side has)
		if !c.AwaitOrViolate("harness:raw-accept-stuck", "raw peer finishing its handshake", func() bool { peers = srv.peers(); return len(peers) >= 1 }, bg) {
			return
		}
	}

	// activity in progress when the peers go
	var blocked []*mon.Call
	start := func(name string, f func() error) {
		blocked = append(blocked, mon.Go(name, func() (interface{}, error) { return nil, f() }))
	}
	nsend := c.Rand.Intn(6)
	switch {
	case p == "req" || p == "surveyor":
		start("Send+Recv", func() error {
			if e := s.Send([]byte("q")); e != nil {
				return e
			}
			for {
				if _, e := s.Recv(); e != nil {
					return e
				}
			}
		})
	default:
		start("Recv", func() error { _, e := s.Recv(); return e })
		if canSendUnprompted(p) && nsend > 0 {
			// towards peers that read nothing; with no peer left a Send may block (push, pair) until Close
			start("Send-loop", func() error {
				for i := 0; i < nsend; i++ {
					if e := s.Send([]byte("to-the-void")); e != nil {
						return e
					}
				}
				return nil
			})
		}
	}
	allSettled := func() bool {
		for _, k := range blocked {
			if !k.Done() && !k.ParkedIn("") {
				return false
			}
		}
		return true
	}
	if c.Rand.Intn(2) == 0 {
		mon.Await(allSettled, mon.AwaitOpts{Watchdog: 3 * time.Second})
	}

	// the peers go
	ngone := 1 + c.Rand.Intn(len(peers))
	refuseRedial := srv != nil && c.Rand.Intn(2) == 0
	if refuseRedial {
		srv.stopAccepting()
	}
	for _, rp := range peers[:ngone] {
		rp.vanish(mode)
	}
	c.Count("peers_vanished_"+mode, ngone)
	if c.Rand.Intn(3) != 0 {
		// usually the library gets the time to take the loss in before Close (no verdict here)
		r := mon.Await(func() bool { return w.Detached() >= ngone }, bg)
		if r.V == mon.Done {
			c.Count("peer_losses_noticed_before_close", ngone)
		} else {
			c.Logf("%s: %d peer(s) gone, %d detached when the wait ended (%v)", ctx, ngone, w.Detached(), r.V)
		}
		if srv != nil && !refuseRedial && r.V == mon.Done {
			if mon.Await(func() bool { return w.Attached() >= 2 }, bg).V == mon.Done {
				c.Count("redials_after_peer_loss", 1)
			}
		}
	}
	mon.Await(allSettled, mon.AwaitOpts{Watchdog: 3 * time.Second})
	wasParked := map[*mon.Call]bool{}
	nparked := 0
	for _, k := range blocked {
		if !k.Done() {
			wasParked[k] = true
			nparked++
		}
	}
	c.Count("calls_blocked_at_close", nparked)

	ck := mon.Go("Close", func() (interface{}, error) { return nil, s.Close() })
	if !waitReturn(c, "close-blocks:"+ctx, ctx+": Close after "+fmt.Sprint(ngone)+" peer(s) vanished returning", ck, rt) {
		return
	}
	for _, k := range blocked {
		if !waitReturn(c, "blocked-call-not-released:"+ctx+"/"+p+"/"+k.Name, ctx+": "+k.Name+" (in progress at Close time) returning", k, rt) {
			return
		}
		_, err, _ := k.Result()
		if !wasParked[k] {
			continue
		}
		c.Count("blocked_calls_released", 1)
		ok := err == mangos.ErrClosed || err == mangos.ErrProtoOp || (k.Name == "Send-loop" && err == nil)
		if !ok {
			c.Violate("blocked-call-error:"+ctx+"/"+p+"/"+k.Name, "%s: %s was in progress when the socket was closed and returned %v, want the closed error", ctx, k.Name, err)
		}
	}
	// nothing of the socket keeps running, although the peers that stayed are still connected
	var left []mon.G
	r := mon.Await(func() bool { left = base.NewMangos("verifharness/props"); return len(left) == 0 }, mon.AwaitOpts{MaxTimer: rt})
	switch r.V {
	case mon.Stuck:
		c.Violate("leak:goroutine:"+ctx+":"+leakTop(left), "%s socket: %d of its %d peer(s) vanished (%s), then it was closed; %d library goroutine(s) remain, parked and unchanged over the stuck detector's samples:\n%s", p, ngone, len(peers), mode, len(left), mon.RenderGs(left))
		return
	case mon.Inconclusive:
		c.Inconclusive("%s: library goroutines did not settle: %s", ctx, mon.RenderGs(left))
		return
	}
	c.Count("peergone_goroutine_checks", 1)
	laterCalls(c, ctx+"/"+p, s, nil, l, d, tr)
	c.Nontrivial()
}
