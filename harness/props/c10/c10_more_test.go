//go:build verif

package c10

import (
	"crypto/tls"
	"fmt"
	"io"
	"net"
	"runtime/debug"
	"strings"
	"sync"
	"sync/atomic"
	"time"

	"go.nanomsg.org/mangos/v3"

	"verifharness/hx"
	"verifharness/mon"
)

func dopts(tr string) map[string]interface{} {
	if hx.NeedsTLS(innerOf(tr)) {
		_, cc := hx.TLSConfigs()
		return map[string]interface{}{mangos.OptionTLSConfig: cc}
	}
	return nil
}

// runDialWaiting: dialers that are waiting to be accepted (the listening socket's accept loop is
// busy in the application's Attaching hook) when the listening side is closed.  Every blocked Dial
// must return, and after all sockets are closed nothing may remain (census).
func runDialWaiting(c *mon.Case, sp spec) {
	tr := sp.Tran
	ctx := "dialwaiting/" + tr + "/" + sp.Act
	s := hx.MustSock(c, "pull")
	gate := make(chan struct{})
	entered := make(chan struct{}, 8)
	s.SetPipeEventHook(func(ev mangos.PipeEvent, p mangos.Pipe) {
		if ev == mangos.PipeEventAttaching {
			entered <- struct{}{}
			<-gate // the accept loop is held here
		}
	})
	l, err := s.NewListener(hx.ListenAddr(tr), lopts(tr))
	if err == nil {
		err = l.Listen()
	}
	if err != nil {
		c.Inconclusive("setup %s: %v", ctx, err)
		return
	}
	addr := l.Address()
	var calls []*mon.Call
	var socks []mangos.Socket
	for i := 0; i < 3; i++ {
		p := hx.MustSock(c, "push")
		socks = append(socks, p)
		d, err := p.NewDialer(addr, dopts(tr))
		if err != nil {
			c.Inconclusive("setup %s: NewDialer: %v", ctx, err)
			close(gate)
			return
		}
		d.SetOption(mangos.OptionDialAsynch, sp.Peer) // Peer=true: asynchronous dialing
		d.SetOption(mangos.OptionReconnectTime, time.Hour)
		calls = append(calls, mon.Go(fmt.Sprintf("Dial-%d", i), func() (interface{}, error) { return nil, d.Dial() }))
		if i == 0 {
			k := mon.Go("hook-entered", func() (interface{}, error) { <-entered; return nil, nil })
			if !c.AwaitOrViolate("harness:hook-not-entered", "accept loop reaching the Attaching hook", k.Done, mon.AwaitOpts{}) {
				close(gate)
				return
			}
		}
	}
	mon.Sleep(10 * time.Millisecond) // the 2nd and 3rd dialers reach their wait
	waiting := 0
	for _, k := range calls {
		if !k.Done() {
			waiting++
		}
	}
	c.Count("dials_waiting_at_close", waiting)
	var ck *mon.Call
	if sp.Act == "listener" {
		ck = mon.Go("Listener.Close", func() (interface{}, error) { return nil, l.Close() })
	} else {
		ck = mon.Go("Socket.Close", func() (interface{}, error) { return nil, s.Close() })
	}
	if !c.AwaitOrViolate("close-blocks:"+ctx, ctx+": Close of the listening side while its accept loop is busy in the hook", ck.Done, mon.AwaitOpts{}) {
		close(gate)
		return
	}
	close(gate)
	for i, k := range calls {
		if !c.AwaitOrViolate("dial-stuck-after-listener-closed:"+ctx, fmt.Sprintf("%s: Dial %d (waiting to be accepted when the listening side was closed) returning", ctx, i), k.Done, mon.AwaitOpts{}) {
			return
		}
	}
	s.Close()
	for _, p := range socks {
		p.Close()
	}
	c.Nontrivial()
}

// runCloseLoser: a second socket's Listen on an address that is in use fails; closing that second
// socket (or just its listener) must not take the address away from the socket that owns it.
func runCloseLoser(c *mon.Case, sp spec) {
	tr := sp.Tran
	ctx := "loser/" + tr + "/" + sp.Act
	owner := hx.MustSock(c, "rep")
	l1, err := owner.NewListener(hx.ListenAddr(tr), lopts(tr))
	if err == nil {
		err = l1.Listen()
	}
	if err != nil {
		c.Inconclusive("setup %s: %v", ctx, err)
		return
	}
	addr := l1.Address()
	loser := hx.MustSock(c, "rep")
	l2, err := loser.NewListener(addr, lopts(tr))
	if err != nil {
		c.Inconclusive("setup %s: second NewListener: %v", ctx, err)
		return
	}
	if e := l2.Listen(); e == nil {
		c.Violate("second-listen-accepted:"+ctx, "a second socket's Listen on %s, which is in use, returned nil", addr)
		return
	}
	var ck *mon.Call
	if sp.Act == "listener" {
		ck = mon.Go("Listener.Close", func() (interface{}, error) { return nil, l2.Close() })
	} else {
		ck = mon.Go("Socket.Close", func() (interface{}, error) { return nil, loser.Close() })
	}
	if !c.AwaitOrViolate("close-blocks:"+ctx, ctx+": Close of the socket whose Listen failed", ck.Done, mon.AwaitOpts{}) {
		return
	}
	// the owner still owns the address: nobody else can take it, and a dialer reaches the owner
	third := hx.MustSock(c, "rep")
	if l3, e := third.NewListener(addr, lopts(tr)); e == nil {
		if e := l3.Listen(); e == nil {
			c.Violate("sibling-disturbed:"+ctx+"/address-taken", "after closing a socket whose Listen on %s had failed, a third socket could listen there although the first is still open", addr)
			return
		}
	}
	cli := hx.MustSock(c, "req")
	wo := hx.WatchPipes(owner)
	d, err := cli.NewDialer(addr, dopts(tr))
	if err != nil {
		c.Inconclusive("setup %s: NewDialer: %v", ctx, err)
		return
	}
	dk := mon.Go("Dial", func() (interface{}, error) { return nil, d.Dial() })
	if !c.AwaitOrViolate("sibling-disturbed:"+ctx+"/dial-stuck", ctx+": dialing the still-open owner", dk.Done, mon.AwaitOpts{}) {
		return
	}
	if _, e, _ := dk.Result(); e != nil {
		c.Violate("sibling-disturbed:"+ctx+"/dial", "after closing only the socket whose Listen had failed, dialing the still-open owner of %s returned %v", addr, e)
		return
	}
	if !hx.WaitAttached(c, wo, 1, "owner accepting") {
		return
	}
	if !ping(c, ctx, cli, owner, "req") {
		return
	}
	for _, x := range []mangos.Socket{cli, third, loser, owner} {
		x.Close()
	}
	c.Nontrivial()
}

// runAcceptFlood: Close lands while connections are pouring in, each of which completes its SP
// handshake at once.  Wherever a connection is at that moment — in the kernel's backlog, just
// accepted, being handed to the handshake stage, handshaking, waiting to be attached — it must be
// closed: after Close none of the peers' connections may stay open (and the census finds nothing).
func runAcceptFlood(c *mon.Case, sp spec) {
	tr := sp.Tran
	ctx := "acceptflood/" + tr
	network := map[string]string{"tcp": "tcp", "ipc": "unix"}[tr]
	oldGC := debug.SetGCPercent(-1) // a merely forgotten connection must not be rescued by a finalizer
	defer debug.SetGCPercent(oldGC)
	rounds := 25
	kept := 0
	for round := 0; round < rounds && !c.Failed(); round++ {
		s := hx.MustSock(c, "pull")
		l, err := s.NewListener(hx.ListenAddr(tr), nil)
		if err == nil {
			err = l.Listen()
		}
		if err != nil {
			c.Inconclusive("setup %s: %v", ctx, err)
			return
		}
		a := l.Address()
		host := a[strings.Index(a, "://")+3:]
		var mu sync.Mutex
		var conns []net.Conn
		stop := make(chan struct{})
		var wg sync.WaitGroup
		for d := 0; d < 6; d++ {
			wg.Add(1)
			go func() {
				defer wg.Done()
				for n := 0; n < 30; n++ {
					select {
					case <-stop:
						return
					default:
					}
					cn, err := net.Dial(network, host)
					if err != nil {
						return // the listener is gone
					}
					cn.Write([]byte{0, 'S', 'P', 0, 0, 0x50, 0, 0}) // a PUSH peer: the handshake can complete at once
					mu.Lock()
					conns = append(conns, cn)
					mu.Unlock()
				}
			}()
		}
		mon.Sleep(time.Duration(300+c.Rand.Intn(2500)) * time.Microsecond)
		ck := mon.Go("Close", func() (interface{}, error) { return nil, s.Close() })
		if !c.AwaitOrViolate("close-blocks:"+ctx, ctx+": Close during a flood of incoming connections", ck.Done, mon.AwaitOpts{}) {
			close(stop)
			return
		}
		close(stop)
		wk := mon.Go("dialers", func() (interface{}, error) { wg.Wait(); return nil, nil })
		if !c.AwaitOrViolate("harness:dialers-stuck", "flood dialers stopping", wk.Done, mon.AwaitOpts{}) {
			return
		}
		mu.Lock()
		cs := conns
		mu.Unlock()
		var open atomic.Int32
		open.Store(int32(len(cs)))
		for _, cn := range cs {
			cn := cn
			go func() {
				buf := make([]byte, 64)
				for {
					if _, err := cn.Read(buf); err != nil {
						open.Add(-1)
						return
					}
				}
			}()
		}
		ok := c.AwaitOrViolate("conn-kept-after-close:"+ctx, fmt.Sprintf("%s round %d: all %d connections that were made before Close being closed by it", ctx, round, len(cs)), func() bool { return open.Load() == 0 }, mon.AwaitOpts{})
		for _, cn := range cs {
			cn.Close()
		}
		if !ok {
			return
		}
		kept += len(cs)
	}
	c.Count("flood_connections_closed_by_close", kept)
	c.Nontrivial()
}

// runWriterStalled: a peer that completed the handshake and then reads nothing; the socket has sent
// so much that its connection's writer is stalled inside the transport (kernel buffers full).
// Close must interrupt that write: it returns, and with the peer still connected and still not
// reading nothing of the socket remains (census) — closing the connection is the only thing that
// can end such a write.
func runWriterStalled(c *mon.Case, sp spec) {
	tr := sp.Tran
	ctx := "writerstalled/" + tr
	base0 := mon.TakeBaseline() // (what an earlier case left running is that case's finding)
	oldGC := debug.SetGCPercent(-1)
	defer debug.SetGCPercent(oldGC)
	s := hx.MustSock(c, "push")
	l, err := s.NewListener(hx.ListenAddr(tr), lopts(tr))
	if err == nil {
		err = l.Listen()
	}
	if err != nil {
		c.Inconclusive("setup %s: %v", ctx, err)
		return
	}
	w := hx.WatchPipes(s)
	a := l.Address()
	host := a[strings.Index(a, "://")+3:]
	var cn net.Conn
	dk := mon.Go("raw-dial", func() (interface{}, error) {
		var e error
		switch tr {
		case "tcp":
			cn, e = net.Dial("tcp", host)
		case "tls+tcp":
			_, cc := hx.TLSConfigs()
			cn, e = tls.Dial("tcp", host, cc)
		default:
			cn, e = net.Dial("unix", host)
		}
		if e != nil {
			return nil, e
		}
		cn.Write([]byte{0, 'S', 'P', 0, 0, 0x51, 0, 0}) // a PULL peer
		hb := make([]byte, 8)
		_, e = io.ReadFull(cn, hb)
		return nil, e
	})
	if !c.AwaitOrViolate("harness:raw-dial-stuck", "raw peer connecting", dk.Done, mon.AwaitOpts{}) {
		return
	}
	if _, e, _ := dk.Result(); e != nil {
		c.Inconclusive("setup %s: raw peer: %v", ctx, e)
		return
	}
	defer cn.Close() // (after the census below)
	if !hx.WaitAttached(c, w, 1, "raw peer") {
		return
	}
	s.SetOption(mangos.OptionSendDeadline, 20*time.Millisecond)
	big := make([]byte, 512<<10)
	timeouts := 0
	sk := mon.Go("fill", func() (interface{}, error) {
		for i := 0; i < 400 && timeouts < 2; i++ {
			switch err := s.Send(big); err {
			case nil:
				timeouts = 0
			case mangos.ErrSendTimeout:
				timeouts++
			default:
				return nil, err
			}
		}
		return nil, nil
	})
	if !c.AwaitOrViolate("harness:fill-stuck", "filling the connection towards a peer that reads nothing", sk.Done, mon.AwaitOpts{MaxTimer: 20 * time.Millisecond}) {
		return
	}
	if _, e, _ := sk.Result(); e != nil || timeouts < 2 {
		c.Inconclusive("setup %s: the writer did not stall (err %v, consecutive timeouts %d)", ctx, e, timeouts)
		return
	}
	base := base0 // everything the library has started since the case began belongs to this socket
	fds := mon.SocketFDs()
	_ = fds
	ck := mon.Go("Close", func() (interface{}, error) { return nil, s.Close() })
	if !c.AwaitOrViolate("close-blocks:"+ctx, ctx+": Close while the connection's writer is stalled", ck.Done, mon.AwaitOpts{}) {
		return
	}
	var left []mon.G
	settled := func() bool { left = base.NewMangos(); return len(left) == 0 }
	if r := mon.Await(settled, mon.AwaitOpts{}); r.V != mon.Done {
		if r.V == mon.Stuck {
			c.Violate("leak:goroutine:"+ctx+":"+leakTop(left), "after Close returned, with the peer still connected and not reading, %d library goroutine(s) of the closed socket remain, parked and unchanged:\n%s", len(left), mon.RenderGs(left))
		} else {
			c.Inconclusive("%s: library goroutines did not settle: %s", ctx, mon.RenderGs(left))
		}
		return
	}
	c.Count("stalled_writers_interrupted_by_close", 1)
	c.Nontrivial()
}
