//go:build verif

package c10

import (
	"crypto/tls"
	"fmt"
	"io"
	"log"
	"net"
	"net/http"
	"time"

	"go.nanomsg.org/mangos/v3"
	"go.nanomsg.org/mangos/v3/transport/ws"

	"verifharness/hx"
	"verifharness/mon"
)

// exthandler: a ws / wss listener used in external-handler mode.  The application fetches
// OptionWebSocketHandler from the listener and mounts it in an http.Server of its own, so the
// transport never binds a port; everything the listener holds (the core accept goroutine parked in
// the transport's Accept, upgraded connections that were not accepted yet, the HTTP handler
// goroutines that stay behind each connection) can only be released by the listener's own Close.
//
//	Target (state at Close): idle     — nobody ever connected
//	                         accepted — 1-2 peers connected and attached
//	                         pending  — the accept loop is held in the application's Attaching hook
//	                                    on the first connection, 1-2 more are upgraded and wait
//	Act: socket | listener (the listener is closed first, the socket afterwards)
//	Peer: a second socket's handler is mounted in the same application server and must keep working
//
// Oracles: Close returns; every peer loses its connection once the socket is closed; with all
// sockets closed and the application's server STILL RUNNING no library goroutine remains; then
// the server is shut down and the common census (goroutines, descriptors, pipe ids) follows.
func runExtHandler(c *mon.Case, sp spec) {
	tr := sp.Tran
	ctx := "exthandler/" + tr + "/" + sp.Act + "/" + sp.Target
	base0 := mon.TakeBaseline()

	var ln net.Listener
	ln, err := net.Listen("tcp", hx.OwnIP()+":0")
	if err != nil {
		c.Inconclusive("setup %s: %v", ctx, err)
		return
	}
	host := ln.Addr().String()
	if tr == "wss" {
		sc, _ := hx.TLSConfigs()
		ln = tls.NewListener(ln, sc)
	}
	mux := http.NewServeMux()
	srv := &http.Server{Handler: mux, ErrorLog: log.New(io.Discard, "", 0)}
	mount := func(s mangos.Socket) (mangos.Listener, string, error) {
		path := "/" + hx.Uniq("x")
		addr := tr + "://" + host + path
		l, err := s.NewListener(addr, lopts(tr))
		if err != nil {
			return nil, "", err
		}
		hv, err := l.GetOption(ws.OptionWebSocketHandler)
		if err != nil {
			return nil, "", err
		}
		h, ok := hv.(http.Handler)
		if !ok {
			return nil, "", fmt.Errorf("OptionWebSocketHandler is a %T", hv)
		}
		mux.Handle(path, h)
		return l, addr, l.Listen()
	}

	s := hx.MustSock(c, sp.Proto)
	sw := &hx.PipeWatch{}
	count := hx.WatchPipesFunc(sw)
	gate := make(chan struct{})
	gateOpen := false
	openGate := func() {
		if !gateOpen {
			gateOpen = true
			close(gate)
		}
	}
	defer openGate()
	entered := make(chan struct{}, 1)
	hold := sp.Target == "pending"
	s.SetPipeEventHook(func(ev mangos.PipeEvent, p mangos.Pipe) {
		count(ev, p)
		if hold && ev == mangos.PipeEventAttaching {
			select {
			case entered <- struct{}{}:
			default:
			}
			<-gate // the accept loop is held here
		}
	})
	l, addr, err := mount(s)
	if err != nil {
		ln.Close()
		c.Inconclusive("setup %s: %v", ctx, err)
		return
	}
	var other, otherCli mangos.Socket
	otherAddr := ""
	if sp.Peer {
		other = hx.MustSock(c, "pair")
		if _, otherAddr, err = mount(other); err != nil {
			ln.Close()
			c.Inconclusive("setup %s: second handler: %v", ctx, err)
			return
		}
	}
	serve := mon.Go("app-http-server", func() (interface{}, error) { return nil, srv.Serve(ln) })
	srvDown := false
	shutdown := func() bool {
		if srvDown {
			return true
		}
		srvDown = true
		srv.Close()
		return c.AwaitOrViolate("harness:app-server-stuck", "the application's http.Server stopping", serve.Done, mon.AwaitOpts{})
	}
	defer shutdown()

	dial := func(sock mangos.Socket, a, what string) bool {
		d, err := sock.NewDialer(a, dopts(tr))
		if err != nil {
			c.Inconclusive("setup %s: NewDialer: %v", ctx, err)
			return false
		}
		d.SetOption(mangos.OptionReconnectTime, time.Hour) // no redial within the case
		d.SetOption(mangos.OptionMaxReconnectTime, time.Duration(0))
		k := mon.Go("Dial", func() (interface{}, error) { return nil, d.Dial() })
		if !c.AwaitOrViolate("harness:dial-stuck:exthandler", what+" dialing the handler in the application's server", k.Done, mon.AwaitOpts{}) {
			return false
		}
		if _, e, _ := k.Result(); e != nil {
			c.Inconclusive("setup %s: %s: Dial: %v", ctx, what, e)
			return false
		}
		return true
	}

	// peers of the socket under test
	npeers := 0
	switch sp.Target {
	case "accepted":
		npeers = 1
		switch sp.Proto {
		case "pair", "xpair", "pair1", "xpair1": // (a second peer is turned away by the protocol)
		default:
			npeers += c.Rand.Intn(2)
		}
	case "pending":
		npeers = 2 + c.Rand.Intn(2)
	}
	var peers []mangos.Socket
	var pws []*hx.PipeWatch
	inHandler := func() int { // connections behind which the listener's HTTP handler goroutine sits
		n := 0
		for _, g := range mon.Dump() {
			if !base0[g.ID] && g.HasFrame("transport/ws.(*listener).handler") {
				n++
			}
		}
		return n
	}
	for i := 0; i < npeers; i++ {
		p := hx.MustSock(c, hx.PeerOf[sp.Proto])
		peers = append(peers, p)
		pws = append(pws, hx.WatchPipes(p))
		if !dial(p, addr, fmt.Sprintf("peer %d", i)) {
			return
		}
		if hold && i == 0 {
			k := mon.Go("hook-entered", func() (interface{}, error) { <-entered; return nil, nil })
			if !c.AwaitOrViolate("harness:hook-not-entered", "accept loop reaching the Attaching hook", k.Done, mon.AwaitOpts{}) {
				entered <- struct{}{} // (lets the helper go)
				return
			}
		}
	}
	switch sp.Target {
	case "accepted":
		if !hx.WaitAttached(c, sw, npeers, "peers of the external-handler listener") {
			return
		}
	case "pending":
		// all connections are upgraded and handed to the listener: one is held in the hook, the
		// others wait to be accepted
		if r := mon.Await(func() bool { return inHandler() >= npeers }, mon.AwaitOpts{}); r.V != mon.Done {
			c.Inconclusive("setup %s: %d of %d connections reached the listener (%v)", ctx, inHandler(), npeers, r.V)
			return
		}
		c.Count("exthandler_connections_pending_at_close", npeers-1)
	}
	if sp.Peer {
		otherCli = hx.MustSock(c, "pair")
		ow := hx.WatchPipes(other)
		if !dial(otherCli, otherAddr, "peer of the second handler") {
			return
		}
		if !hx.WaitAttached(c, ow, 1, "peer of the second handler") {
			return
		}
	}
	c.Count("exthandler_connections_at_close", npeers)
	if !hold {
		// the accept loop is back in the transport's Accept, waiting for the next connection (no
		// verdict here: Close must cope wherever the loop is, this only makes the usual place likely)
		r := mon.Await(func() bool {
			for _, g := range mon.Dump() {
				if !base0[g.ID] && g.HasFrame("transport/ws.(*listener).Accept") {
					return true
				}
			}
			return false
		}, mon.AwaitOpts{})
		if r.V == mon.Done {
			c.Count("exthandler_accept_loop_parked_at_close", 1)
		}
	}

	// ---- Close
	var ck *mon.Call
	if sp.Act == "listener" {
		ck = mon.Go("Listener.Close", func() (interface{}, error) { return nil, l.Close() })
	} else {
		ck = mon.Go("Socket.Close", func() (interface{}, error) { return nil, s.Close() })
	}
	if !c.AwaitOrViolate("close-blocks:"+ctx, ctx+": Close of the "+sp.Act+" whose handler is mounted in the application's server", ck.Done, mon.AwaitOpts{}) {
		return
	}
	openGate()
	if sp.Peer { // the other socket served by the same application server is not affected
		if !ping(c, ctx, otherCli, other, "pair") {
			return
		}
	}
	if sp.Act == "listener" {
		sk := mon.Go("Socket.Close", func() (interface{}, error) { return nil, s.Close() })
		if !c.AwaitOrViolate("close-blocks:"+ctx+"/socket", ctx+": Close of the socket after its listener was closed", sk.Done, mon.AwaitOpts{}) {
			return
		}
	}
	// the socket is closed: every connection that reached its listener is gone for the peer
	for i, pw := range pws {
		pw := pw
		if !c.AwaitOrViolate("conn-kept-after-close:"+ctx, fmt.Sprintf("%s: peer %d of %d losing its connection after the socket was closed", ctx, i, npeers),
			func() bool { return pw.Attached() >= 1 && pw.Live() == 0 }, mon.AwaitOpts{}) {
			return
		}
	}
	c.Count("exthandler_connections_released_by_close", npeers)
	for _, p := range peers {
		p.Close()
	}
	if sp.Peer {
		otherCli.Close()
		other.Close()
	}
	// all sockets are closed; the application's server is still up and would happily keep whatever
	// the listener left in it
	r, left := base0.AwaitNoLeak(mon.AwaitOpts{MaxTimer: 20 * time.Millisecond})
	switch r.V {
	case mon.Stuck:
		c.Violate("leak:goroutine:"+ctx+":"+leakTop(left), "%s: after every socket was closed, with the application's http.Server still running, %d library goroutine(s) remain, parked and unchanged over the stuck detector's samples:\n%s", ctx, len(left), mon.RenderGs(left))
		return
	case mon.Inconclusive:
		c.Inconclusive("%s: goroutine census did not settle: %d left", ctx, len(left))
		return
	}
	c.Count("exthandler_census_with_server_running", 1)
	if !shutdown() {
		return
	}
	c.Nontrivial()
}
