//go:build verif

package c04

import (
	"bytes"
	"sync"
	"time"

	"go.nanomsg.org/mangos/v3"

	"verifharness/hx"
	"verifharness/mon"
	"verifharness/vt"
)

// replyWire is what a peer puts on the wire to answer request id: the id followed by the reply body,
// which may be EMPTY (a bare acknowledgement: just the four id bytes).  An empty reply answers the
// request like any other.
func replyWire(id uint32, serial int, empty bool) []byte {
	if empty {
		return hx.Be32(id)
	}
	return hx.ReplyWire(id, serial)
}

// hookGate is an application pipe-event hook that, for ONE connection (the next one after arm), either
// closes the pipe itself from inside the callback or stays inside the callback until the harness lets it
// go.  Every event is passed on to the rig's counting hook first.
type hookGate struct {
	watch func(mangos.PipeEvent, mangos.Pipe)
	mu    sync.Mutex
	cv    *sync.Cond
	armed bool
	mode  string // hookclose | peerdrop | attaching
	in    bool   // the gated callback has been entered
	left  bool   // ... and has returned
	open  bool   // the harness lets a blocked callback go
}

func newHookGate(watch func(mangos.PipeEvent, mangos.Pipe)) *hookGate {
	g := &hookGate{watch: watch}
	g.cv = sync.NewCond(&g.mu)
	return g
}

func (g *hookGate) arm(mode string) { g.mu.Lock(); g.armed, g.mode = true, mode; g.mu.Unlock() }
func (g *hookGate) release()        { g.mu.Lock(); g.open = true; g.cv.Broadcast(); g.mu.Unlock() }
func (g *hookGate) entered() bool   { g.mu.Lock(); defer g.mu.Unlock(); return g.in }
func (g *hookGate) returned() bool  { g.mu.Lock(); defer g.mu.Unlock(); return g.left }

func (g *hookGate) hook(ev mangos.PipeEvent, p mangos.Pipe) {
	g.watch(ev, p)
	g.mu.Lock()
	var want mangos.PipeEvent = mangos.PipeEventAttached
	if g.mode == "attaching" {
		want = mangos.PipeEventAttaching
	}
	hit := g.armed && ev == want
	if hit {
		g.armed = false
		g.in = true
	}
	mode := g.mode
	g.mu.Unlock()
	if !hit {
		return
	}
	switch mode {
	case "hookclose", "attaching":
		_ = p.Close()
	case "peerdrop":
		g.mu.Lock()
		for !g.open {
			g.cv.Wait() // parked (not polling) until the harness has dropped the connection
		}
		g.mu.Unlock()
	}
	g.mu.Lock()
	g.left = true
	g.mu.Unlock()
}

// runHookLoss: the application has a pipe-event hook installed and a connection is lost while the hook is
// still handling that connection's event.
//
//	hookclose: the Attached callback closes the pipe itself
//	peerdrop:  the Attached callback is still running (it blocks) when the peer closes the connection and
//	           the library notices
//	attaching: the Attaching callback closes the pipe (the connection never reaches the protocol)
//
// A request is waiting for a peer at that moment (never transmitted yet, or re-queued because its previous
// carrier was lost with no other peer there), so for hookclose/peerdrop the protocol hands it to the new
// connection before the Attached callback runs.  That connection is the request's carrier and it closes:
// with a retry time of 30 s / 1 h the request must be transmitted again, byte-identical and exactly once, on the
// next connection as soon as that one is there, and complete when it is answered there; with retries
// disabled the loss cancels it (Recv fails, nothing is transmitted on the next connection - a follow-up
// request on that connection is the FIFO sentinel).  For attaching the request was never handed over: it is
// transmitted once on the next connection whatever the retry setting.
func runHookLoss(c *mon.Case, sp spec) {
	R := time.Duration(sp.RetryMs) * time.Millisecond
	rig := hx.NewReqRig(c, "req", sp.NCtx, 0)
	if c.Failed() {
		return
	}
	rig.SetAll(mangos.OptionRetryTime, R)
	g := newHookGate(hx.WatchPipesFunc(rig.Watch))
	rig.Sock.SetPipeEventHook(g.hook)
	c.Cleanup(g.release)
	fi := c.Rand.Intn(sp.NCtx)
	ctx := rig.Ctxs[fi]
	what := "during-" + sp.Mode + "-hook"

	detached := 0
	awaitDetached := func() bool {
		return c.AwaitOrViolate("harness:detach-stuck", "dropped vt pipe being detached", func() bool { return rig.Watch.Detached() >= detached }, mon.AwaitOpts{})
	}
	// connections that came and went before the request existed
	for i := 0; i < sp.NPipes; i++ {
		rig.AddPipe().Drop()
		detached++
		if c.Failed() || !awaitDetached() {
			return
		}
	}
	sendCall := mon.Go("Send", func() (interface{}, error) { return nil, ctx.Send(rig.ReqBody(fi, 1)) })
	sendOK := func() bool {
		if !c.AwaitOrViolate("req/send-stuck", "Send once a peer has connected", sendCall.Done, mon.AwaitOpts{}) {
			return false
		}
		if _, err, _ := sendCall.Result(); err != nil {
			c.Violate("req/send-error", "Send returned %v", err)
			return false
		}
		return true
	}
	var recvCall *mon.Call
	startRecv := func(needParked bool) bool {
		recvCall = mon.Go("Recv", func() (interface{}, error) { b, err := ctx.Recv(); return b, err })
		if needParked && !recvCall.ParkedIn("RecvMsg") {
			if recvCall.Done() {
				_, err, _ := recvCall.Result()
				c.Violate("req/recv-returned-unanswered", "Recv on an outstanding, unanswered request returned %v before any fault or reply", err)
			} else {
				c.Inconclusive("Recv neither parked nor done")
			}
			return false
		}
		return true
	}
	if sp.Via == "requeued" {
		// first carrier P0 takes the request and is lost with no other peer there: the request waits again
		p0 := rig.AddPipe()
		if c.Failed() || !sendOK() {
			return
		}
		if _, ok := rig.AwaitTx(fi, 1, 1, 0, "req/request-not-transmitted"); !ok {
			return
		}
		if !startRecv(true) {
			return
		}
		p0.Drop()
		detached++
		if !awaitDetached() {
			return
		}
	} else if !sendCall.ParkedIn("SendMsg") {
		if sendCall.Done() {
			_, err, _ := sendCall.Result()
			c.Violate("req/send-returned-without-peer", "Send returned %v although no peer is connected and no deadline/best-effort is set", err)
		} else {
			c.Inconclusive("Send neither parked nor done")
		}
		return
	}
	n0 := len(rig.TxsOf(fi, 1))

	// ---- connection A: lost while the hook handles it ----
	g.arm(sp.Mode)
	var A *vt.Pipe
	if sp.Mode == "attaching" {
		A = rig.L.Connect()
		if !c.AwaitOrViolate("core/close-in-attaching-hook-stuck", "the Attaching callback closing its pipe", g.returned, mon.AwaitOpts{}) {
			return
		}
	} else {
		A = rig.AddPipe() // returns once the Attached event has been counted; the callback may still be running
		if c.Failed() {
			return
		}
		if !c.AwaitOrViolate("harness:hook-not-entered", "the gated Attached callback being entered", g.entered, mon.AwaitOpts{}) {
			return
		}
		if sp.Via != "requeued" {
			if !sendOK() {
				return
			}
			if !startRecv(sp.Mode == "peerdrop") {
				return
			}
		}
	}
	txOnA := 0
	switch sp.Mode {
	case "peerdrop":
		if c.Rand.Intn(2) == 0 {
			// the request is seen on A first
			if _, ok := rig.AwaitTx(fi, 1, n0+1, 0, "req/request-not-transmitted"); !ok {
				return
			}
		}
		t := A.Drop()
		c.Logf("peer closed connection A at %v while its Attached callback is running", t)
		// give the library the time to notice the loss while the callback is still running: on the unchanged
		// library the Detached event follows at once.  No verdict here - whatever happens, the request's
		// carrier is gone and the oracle below applies.
		want := rig.Watch.Detached() + 1
		if r := mon.Await(func() bool { return rig.Watch.Detached() >= want }, mon.AwaitOpts{}); r.V != mon.Done {
			c.Logf("no Detached event for A while its Attached callback is running (%v)", r.V)
		}
		g.release()
		fallthrough
	case "hookclose":
		if !c.AwaitOrViolate("core/close-in-attached-hook-stuck", "the Attached callback returning", g.returned, mon.AwaitOpts{}) {
			return
		}
		c.Count("carrier_lost_during_attached_hook", 1)
	case "attaching":
		c.Count("connection_closed_in_attaching_hook", 1)
	}

	// ---- connection B ----
	B := rig.AddPipe()
	if c.Failed() {
		return
	}
	onPipe := func(p *vt.Pipe, k int) []hx.WireTx {
		var out []hx.WireTx
		for _, tx := range rig.TxsOf(fi, k) {
			if tx.Pipe == p {
				out = append(out, tx)
			}
		}
		return out
	}
	probe := func() bool {
		// follow-up request on the same context: B is the only live connection, its send log is FIFO
		s := mon.Go("ProbeSend", func() (interface{}, error) { return nil, ctx.Send(rig.ReqBody(fi, 2)) })
		if !c.AwaitOrViolate("req/probe-send-stuck", "follow-up Send", s.Done, mon.AwaitOpts{}) {
			return false
		}
		if _, err, _ := s.Result(); err != nil {
			c.Violate("req/probe-failed", "follow-up Send returned %v", err)
			return false
		}
		ptx, ok := rig.AwaitTx(fi, 2, 1, 0, "req/probe-not-transmitted")
		if !ok {
			return false
		}
		B.Inject(replyWire(ptx[0].ID, 2, !sp.Empty))
		rc := mon.Go("ProbeRecv", func() (interface{}, error) { b, err := ctx.Recv(); return b, err })
		if !c.AwaitOrViolate("req/probe-recv-stuck", "follow-up Recv", rc.Done, mon.AwaitOpts{}) {
			return false
		}
		if v, err, _ := rc.Result(); err != nil || !bytes.Equal(v.([]byte), replyWire(ptx[0].ID, 2, !sp.Empty)[4:]) {
			c.Violate("req/probe-failed", "after the script a plain request/reply failed: %q, %v", v, err)
			return false
		}
		return true
	}
	txOnA = len(onPipe(A, 1))
	if R == 0 && sp.Mode != "attaching" {
		// retries disabled: losing the carrier cancels the request
		if !c.AwaitOrViolate("req/recv-stuck-at-loss-"+what+":r0", "Recv after the carrying connection was lost with RetryTime=0", recvCall.Done, mon.AwaitOpts{}) {
			return
		}
		_, err, _ := recvCall.Result()
		if err != mangos.ErrCanceled && !(sp.Mode == "hookclose" && err == mangos.ErrProtoState) {
			c.Violate("req/retry0-loss-not-canceled:"+what, "RetryTime=0 and the carrying connection was lost %s: Recv returned %v", what, err)
			return
		}
		if !probe() {
			return
		}
		if n := len(onPipe(B, 1)); n > 0 {
			c.Violate("req/resent-with-retries-disabled:"+what, "RetryTime=0 but the request was transmitted %d time(s) on the next connection after its carrier was lost %s", n, what)
			return
		}
		c.Count("cancelled_by_loss", 1)
		c.Nontrivial()
		c.Sig("hookloss|%s|%s|r0|txA%d", sp.Mode, sp.Via, txOnA)
		return
	}
	if !c.AwaitOrViolate("req/no-resend-after-connection-loss:"+what, "the request being transmitted on the connection that came after the lost one", func() bool { return len(onPipe(B, 1)) > 0 }, mon.AwaitOpts{}) {
		return
	}
	if sp.Mode == "attaching" {
		if sp.Via != "requeued" && (!sendOK() || !startRecv(false)) {
			return
		}
		if n := A.SentCount(); n > 0 {
			c.Violate("req/transmitted-on-connection-closed-while-attaching", "%d message(s) were sent on a connection the Attaching callback had closed", n)
			return
		}
	}
	all := rig.TxsOf(fi, 1)
	for j, tx := range all {
		if !bytes.Equal(tx.Wire, all[0].Wire) {
			c.Violate("req/retransmission-differs", "retransmission %d differs from the first transmission:\n first %x\n this  %x", j, all[0].Wire, tx.Wire)
			return
		}
	}
	id := all[0].ID
	B.Inject(replyWire(id, 1, sp.Empty))
	if !c.AwaitOrViolate("req/recv-stuck-at-answer", "Recv returning after the peer on the new connection answered", recvCall.Done, mon.AwaitOpts{}) {
		return
	}
	if v, err, _ := recvCall.Result(); err != nil || !bytes.Equal(v.([]byte), replyWire(id, 1, sp.Empty)[4:]) {
		c.Violate("req/answered-recv-failed", "the peer on the new connection answered request %08x but Recv returned %q, %v", id, v, err)
		return
	}
	if !probe() {
		return
	}
	if n := len(onPipe(B, 1)); n != 1 {
		c.Violate("req/resend-too-soon:"+what, "%d transmissions on the next connection for one connection loss (retry time %v): %s", n, R, renderTx(rig.TxsOf(fi, 1)))
		return
	}
	if n := len(onPipe(A, 1)); n > 1 {
		c.Violate("req/resend-too-soon:"+what, "%d transmissions on the connection that was lost (retry time %v): %s", n, R, renderTx(rig.TxsOf(fi, 1)))
		return
	}
	for _, b := range rig.Bad {
		c.Violate("req/malformed-transmission", "%s", b)
	}
	if sp.Mode != "attaching" {
		c.Count("retransmissions_close", 1)
	}
	c.Count("transmissions", len(rig.TxsOf(fi, 1)))
	c.Nontrivial()
	c.Sig("hookloss|%s|%s|r%d|txA%d|e%v", sp.Mode, sp.Via, sp.RetryMs, txOnA, sp.Empty)
}
