//go:build verif

package c04

import (
	"bytes"
	"encoding/binary"
	"fmt"
	"math"
	"strings"
	"sync"
	"time"

	"go.nanomsg.org/mangos/v3"
	"go.nanomsg.org/mangos/v3/transport"

	"verifharness/hx"
	"verifharness/mon"
	"verifharness/vt"
)

// ---------------------------------------------------------------------------------------------
// wire kind: REQ over the REAL transports against a transport-level peer
// ---------------------------------------------------------------------------------------------

// wirePeer is a peer below the protocol layer: the harness listens with the transport's own
// listener (inproc ipc tcp tls+tcp ws wss), accepts the REQ socket's connections and reads every
// message the transport delivers — the payload of one frame, byte for byte (SP header and body in one
// piece, as every transport delivers them).  All of its goroutines block (Accept / Recv).
type wirePeer struct {
	mu    sync.Mutex
	l     transport.Listener
	conns []*wireConn
	log   []wireRec
}

type wireConn struct {
	n       int
	p       transport.Pipe
	dropped bool
	dropT   time.Duration // taken just before the harness closed it
	ended   bool          // its reader has returned
}

type wireRec struct {
	conn *wireConn
	T    time.Duration // taken after the frame was read: an UPPER bound of the time it was transmitted
	wire []byte
}

func newWirePeer(c *mon.Case, tr string) (*wirePeer, string) {
	t := transport.GetTransport(tr)
	if t == nil {
		panic("no transport " + tr)
	}
	info := hx.MustSock(c, "xrep") // only tells the transport which protocol the peer claims to speak
	l, err := t.NewListener(hx.ListenAddr(tr), info)
	if err != nil {
		panic(fmt.Sprintf("transport NewListener(%s): %v", tr, err))
	}
	if hx.NeedsTLS(tr) {
		srv, _ := hx.TLSConfigs()
		if err := l.SetOption(mangos.OptionTLSConfig, srv); err != nil {
			panic(err)
		}
	}
	if err := l.Listen(); err != nil {
		panic(fmt.Sprintf("transport Listen(%s): %v", tr, err))
	}
	w := &wirePeer{l: l}
	c.Cleanup(func() {
		l.Close()
		w.mu.Lock()
		cs := append([]*wireConn{}, w.conns...)
		w.mu.Unlock()
		for _, k := range cs {
			k.p.Close()
		}
	})
	go func() {
		for {
			p, err := l.Accept()
			if err != nil {
				return
			}
			w.mu.Lock()
			k := &wireConn{n: len(w.conns), p: p}
			w.conns = append(w.conns, k)
			w.mu.Unlock()
			go w.reader(k)
		}
	}()
	return w, l.Address()
}

func (w *wirePeer) reader(k *wireConn) {
	for {
		m, err := k.p.Recv()
		if err != nil {
			w.mu.Lock()
			k.ended = true
			w.mu.Unlock()
			k.p.Close()
			return
		}
		b := append(append([]byte{}, m.Header...), m.Body...)
		m.Free()
		w.mu.Lock()
		w.log = append(w.log, wireRec{conn: k, T: mon.Now(), wire: b})
		w.mu.Unlock()
	}
}

func (w *wirePeer) nconns() int { w.mu.Lock(); defer w.mu.Unlock(); return len(w.conns) }

func (w *wirePeer) snapshot() []wireRec {
	w.mu.Lock()
	defer w.mu.Unlock()
	return append([]wireRec{}, w.log...)
}

// drop closes the peer's end of a connection (a failing peer) and returns the time just before.
func (w *wirePeer) drop(k *wireConn) time.Duration {
	w.mu.Lock()
	t := mon.Now()
	k.dropped, k.dropT = true, t
	w.mu.Unlock()
	k.p.Close()
	return t
}

func (w *wirePeer) isLive(k *wireConn) bool {
	w.mu.Lock()
	defer w.mu.Unlock()
	return !k.dropped && !k.ended
}

// reply sends id+body on k, as a REP peer's transport would.
func (w *wirePeer) reply(c *mon.Case, k *wireConn, wire []byte) bool {
	call := mon.Go("PeerReply", func() (interface{}, error) {
		m := mangos.NewMessage(len(wire))
		m.Body = append(m.Body, wire...)
		err := k.p.Send(m)
		m.Free()
		return nil, err
	})
	r := mon.Await(call.Done, mon.AwaitOpts{})
	if r.V != mon.Done {
		c.Inconclusive("harness: the peer's reply was not taken by the connection (%v)", r.V)
		return false
	}
	if _, err, _ := call.Result(); err != nil {
		c.Inconclusive("harness: the peer could not send its reply: %v", err)
		return false
	}
	return true
}

var wireSizes = []int{0, 1, 24, 300, 5000, 70000}

// runWire: one request of a REQ socket (or context) that dials a transport-level peer over a real
// transport with 1-2 connections, and a script of: retry interval elapses ("T"), the peer that got the
// latest transmission fails and the dialer reconnects ("D"), the peer is silent for longer than a
// configured send deadline ("P"); then the peer answers.  Demanded:
//   - every transmission the peer reads is the same bytes: the first one is request id (high bit
//     set) + exactly the body given to Send (the application overwrites its buffer once Send has
//     returned), the others are identical to it;
//   - after each "T" / "D" the peer reads a further transmission (stuck detector; nothing is timed);
//   - while nobody has answered, Recv stays pending — a send deadline that elapsed after Send
//     returned nil has nothing left to say;
//   - every retransmission has a cause: the sound lower bound is min(previous bound + retry time,
//     harness closed the previous carrier), compared with the time the frame was READ;
//   - the answer of a connected peer completes the request; with one connection a follow-up request
//     on the same connection then serves as the FIFO sentinel for "never transmitted again".
func runWire(c *mon.Case, sp spec) {
	R, D := ms(sp.RetryMs), ms(sp.DeadMs)
	const reconnect = 5 * time.Millisecond
	mt := stuckTimer(R, D, reconnect)
	over := "over-" + sp.Tr
	peer, addr := newWirePeer(c, sp.Tr)
	sock := hx.MustSock(c, "req")
	watch := hx.WatchPipes(sock)
	must := func(err error) {
		if err != nil {
			panic(err)
		}
	}
	must(sock.SetOption(mangos.OptionReconnectTime, reconnect))
	must(sock.SetOption(mangos.OptionMaxReconnectTime, time.Duration(0)))
	var dopts map[string]interface{}
	if hx.NeedsTLS(sp.Tr) {
		_, cli := hx.TLSConfigs()
		dopts = map[string]interface{}{mangos.OptionTLSConfig: cli}
	}
	for i := 0; i < sp.NConn; i++ {
		d, err := sock.NewDialer(addr, dopts)
		if err != nil {
			panic(fmt.Sprintf("NewDialer(%s): %v", addr, err))
		}
		if err := d.Dial(); err != nil {
			c.Inconclusive("harness set-up: Dial(%s): %v", addr, err)
			return
		}
	}
	if !c.AwaitOrViolate("harness:attach-stuck:"+over, "the REQ socket's connections to the transport-level peer", func() bool {
		return watch.Attached() >= sp.NConn && peer.nconns() >= sp.NConn
	}, mon.AwaitOpts{MaxTimer: 200 * time.Millisecond}) {
		return
	}
	// the socket itself (default context) or a context opened on it
	var ctx hx.CtxLike = sock
	if sp.NCtx > 1 {
		cx, err := sock.OpenContext()
		must(err)
		ctx = cx
	}
	must(ctx.SetOption(mangos.OptionRetryTime, R))
	if D > 0 {
		must(ctx.SetOption(mangos.OptionSendDeadline, D))
	}

	size := wireSizes[c.Rand.Intn(len(wireSizes))]
	mkBody := func(k int) []byte {
		b := []byte(fmt.Sprintf("W|%d|%s|", k, hx.Uniq("w")))
		if size == 0 && k == 1 {
			return []byte{}
		}
		for len(b) < size {
			b = append(b, byte('a'+len(b)%23))
		}
		return b
	}
	want := mkBody(1)
	buf := append([]byte{}, want...)
	sendCall := mon.Go("Send", func() (interface{}, error) {
		err := ctx.Send(buf)
		for i := range buf {
			buf[i] = 0xEE // the application reuses its buffer
		}
		return nil, err
	})
	if !c.AwaitOrViolate("req/send-stuck:"+over, "Send with a connected peer", sendCall.Done, mon.AwaitOpts{MaxTimer: mt}) {
		return
	}
	if _, err, _ := sendCall.Result(); err != nil {
		c.Violate("req/send-error:"+over, "Send with a connected, idle peer returned %v (send deadline %v)", err, D)
		return
	}
	recvCall := mon.Go("Recv", func() (interface{}, error) { b, err := ctx.Recv(); return b, err })

	// txs: what the peer read so far that belongs to request 1 (everything, until a second request exists)
	txs := func() []wireRec { return peer.snapshot() }
	unanswered := func(when string) {
		_, err, _ := recvCall.Result()
		c.Violate("req/recv-returned-unanswered:"+slug(when)+":"+over, "Send returned nil (request handed to a peer), nobody answered, superseded or closed it, yet %s Recv returned %v (send deadline %v, retry time %v, %d transmissions read by the peer)", when, err, D, R, len(txs()))
	}
	// awaitTx waits for the n-th transmission; a Recv that returns meanwhile ends the wait at once
	awaitTx := func(n int, sig, when string) bool {
		if !c.AwaitOrViolate(sig+":"+over, fmt.Sprintf("transmission #%d of the request reaching the peer (%s)", n, when), func() bool {
			return len(txs()) >= n || recvCall.Done()
		}, mon.AwaitOpts{MaxTimer: mt}) {
			return false
		}
		if len(txs()) < n {
			unanswered(when)
			return false
		}
		return true
	}
	if !awaitTx(1, "req/request-not-transmitted", "after Send returned") {
		return
	}
	first := txs()[0]
	if len(first.wire) < 4 || first.wire[0]&0x80 == 0 || !bytes.Equal(first.wire[4:], want) {
		c.Violate("req/malformed-transmission:"+over, "first transmission is not <request id with the high bit><the %d body bytes given to Send>: %s", len(want), clip(first.wire))
		return
	}
	id := binary.BigEndian.Uint32(first.wire)
	if !recvCall.ParkedIn("RecvMsg") {
		if recvCall.Done() {
			unanswered("before any fault or reply")
		} else {
			c.Inconclusive("Recv neither parked nor done")
		}
		return
	}

	events := ""
	for _, st := range sp.Steps {
		n := len(txs())
		switch st {
		case 'P': // the peer stays silent for longer than the send deadline
			mon.Sleep(2*D + time.Duration(8+c.Rand.Intn(10))*time.Millisecond)
			if recvCall.Done() {
				unanswered("after the send deadline elapsed")
				return
			}
			if D > 0 {
				c.Count("unanswered_beyond_send_deadline", 1)
			}
		case 'T':
			if !awaitTx(n+1, "req/no-resend-after-retry-interval", "after a retry interval") {
				return
			}
		case 'D':
			all := txs()
			k := all[len(all)-1].conn
			if !peer.isLive(k) {
				continue
			}
			t := peer.drop(k)
			c.Logf("peer closed connection %d (carrier of transmission %d) at %v", k.n, len(all)-1, t)
			if !awaitTx(n+1, "req/no-resend-after-connection-loss", "after the carrying connection closed") {
				return
			}
		}
		events += string(st)
	}

	// ---- a connected peer answers ----
	all := txs()
	var live *wireConn
	for j := len(all) - 1; j >= 0 && live == nil; j-- {
		if peer.isLive(all[j].conn) {
			live = all[j].conn
		}
	}
	if live == nil {
		c.Inconclusive("harness: no live connection to answer on")
		return
	}
	rep := hx.Cat(hx.Be32(id), []byte("R|wire|"))
	if sp.Empty {
		rep = hx.Be32(id) // a bare acknowledgement: the reply body is empty
	}
	if !peer.reply(c, live, rep) {
		return
	}
	if !c.AwaitOrViolate("req/recv-stuck-at-answer:"+over, "Recv returning after a connected peer answered", recvCall.Done, mon.AwaitOpts{MaxTimer: mt}) {
		return
	}
	if v, err, _ := recvCall.Result(); err != nil || !bytes.Equal(v.([]byte), rep[4:]) {
		c.Violate("req/answered-recv-failed:"+over, "a connected peer answered request %08x after %q but Recv returned %q, %v (send deadline %v, retry time %v)", id, events, v, err, D, R)
		return
	}

	// ---- never again: FIFO sentinel on the one connection ----
	sentinelAt := -1
	if sp.NConn == 1 {
		want2 := mkBody(2)
		s2 := mon.Go("Send2", func() (interface{}, error) { return nil, ctx.Send(append([]byte{}, want2...)) })
		if !c.AwaitOrViolate("req/send-stuck:"+over, "Send of a follow-up request", s2.Done, mon.AwaitOpts{MaxTimer: mt}) {
			return
		}
		if _, err, _ := s2.Result(); err != nil {
			c.Violate("req/send-error:"+over, "follow-up Send returned %v", err)
			return
		}
		var id2 uint32
		if !c.AwaitOrViolate("req/request-not-transmitted:"+over, "the follow-up request reaching the peer", func() bool {
			for j, r := range txs() {
				if len(r.wire) >= 4 && bytes.Equal(r.wire[4:], want2) {
					sentinelAt, id2 = j, binary.BigEndian.Uint32(r.wire)
					return true
				}
			}
			return false
		}, mon.AwaitOpts{MaxTimer: mt}) {
			return
		}
		sc := txs()[sentinelAt].conn
		rep2 := hx.Cat(hx.Be32(id2), []byte("R|wire2|"))
		if !peer.reply(c, sc, rep2) {
			return
		}
		r2 := mon.Go("Recv2", func() (interface{}, error) { b, err := ctx.Recv(); return b, err })
		if !c.AwaitOrViolate("req/recv-stuck-at-answer:"+over, "Recv of the follow-up request's reply", r2.Done, mon.AwaitOpts{MaxTimer: mt}) {
			return
		}
		if v, err, _ := r2.Result(); err != nil || !bytes.Equal(v.([]byte), rep2[4:]) {
			c.Violate("req/probe-failed:"+over, "after the script a plain request/reply failed: %q, %v", v, err)
			return
		}
	}

	// ---- monitor over what the peer read ----
	all = txs()
	E := sendCall.Started // sound lower bound of the time the latest transmission was made
	ntx := 0
	var prev wireRec
	for j, r := range all {
		if sentinelAt >= 0 && j >= sentinelAt {
			if j == sentinelAt || (len(r.wire) >= 4 && binary.BigEndian.Uint32(r.wire) != id) {
				continue
			}
			if r.conn == all[sentinelAt].conn {
				c.Violate("req/transmitted-after-answered:"+over, "request %08x was read again on connection %d AFTER the follow-up request made once its reply had been received (same connection, FIFO)", id, r.conn.n)
				return
			}
			continue
		}
		if !bytes.Equal(r.wire, first.wire) {
			c.Violate("req/retransmission-differs:"+over, "transmission %d read by the peer differs from the first one (%d vs %d bytes; script %q, retry time %v):\n first %s\n this  %s", j, len(r.wire), len(first.wire), events, R, clip(first.wire), clip(r.wire))
			return
		}
		ntx++
		if j > 0 {
			e := time.Duration(math.MaxInt64)
			if R > 0 {
				e = E + R
			}
			cause := "timer"
			peer.mu.Lock()
			if prev.conn.dropped && prev.conn.dropT <= r.T && prev.conn.dropT < e {
				e, cause = prev.conn.dropT, "close"
			}
			peer.mu.Unlock()
			if r.T < e {
				c.Violate("req/resend-too-soon:"+over, "transmission %d was read at %v: its previous carrier (connection %d) had not been closed and no retry interval (%v) can have elapsed before %v", j, r.T, prev.conn.n, R, e)
				return
			}
			E = e
			c.Count("wire_retransmissions_"+cause, 1)
		}
		prev = r
	}
	c.Count("wire_transmissions", ntx)
	c.Count("wire_transmissions_"+sp.Tr, ntx)
	if ntx > 1 {
		c.Nontrivial()
	}
	c.Sig("wire|%s|%s|r%d|d%d|c%d|x%d|s%d|tx%d", sp.Tr, events, sp.RetryMs, sp.DeadMs, sp.NConn, sp.NCtx, size, ntx)
}

// slug turns the description of a moment into one signature token.
func slug(s string) string { return strings.ReplaceAll(s, " ", "-") }

func clip(b []byte) string {
	if len(b) <= 96 {
		return fmt.Sprintf("%x", b)
	}
	return fmt.Sprintf("%x…(%d bytes)", b[:96], len(b))
}

// ---------------------------------------------------------------------------------------------
// senddeadline kind (vt): a send deadline that elapses AFTER the request was handed over
// ---------------------------------------------------------------------------------------------

// runSendDeadline: OptionSendDeadline bounds how long Send may wait for a peer to take the request.
// Here a peer is ready, so Send returns nil well within it ("ready"), or the request is accepted by a
// connection whose peer is slow to take the bytes ("held": Send has returned nil, the transmission
// completes only after the deadline).  The request is then an outstanding request like any other,
// and the peer is silent for longer than the send deadline.  Demanded: Recv stays pending; the
// request is transmitted again when the retry interval elapses ("timer") and when its connection
// closes ("drop"; with retries disabled Recv fails with ErrCanceled instead), byte-identical and
// never sooner than its cause; and a reply that comes later than the send deadline completes it.
func runSendDeadline(c *mon.Case, sp spec) {
	R, D := ms(sp.RetryMs), ms(sp.DeadMs)
	mt := stuckTimer(R, D)
	rig := hx.NewReqRig(c, "req", sp.NCtx, sp.NPipes)
	if c.Failed() {
		return
	}
	rig.SetAll(mangos.OptionRetryTime, R)
	fi := c.Rand.Intn(sp.NCtx)
	ctx := rig.Ctxs[fi]
	if sp.Via == "self" {
		// only the context under test has the deadline
		if err := ctx.SetOption(mangos.OptionSendDeadline, D); err != nil {
			panic(err)
		}
	} else {
		rig.SetAll(mangos.OptionSendDeadline, D)
	}
	kind := fmt.Sprintf("send-deadline-elapsed-%s", sp.Mode)
	if sp.Mode == "held" {
		for _, p := range rig.Pipes {
			p.HoldSends()
		}
	}
	sendCall := mon.Go("Send", func() (interface{}, error) { return nil, ctx.Send(rig.ReqBody(fi, 1)) })
	if !c.AwaitOrViolate("req/send-stuck", "Send with a connected peer", sendCall.Done, mon.AwaitOpts{MaxTimer: mt}) {
		return
	}
	if _, err, _ := sendCall.Result(); err != nil {
		c.Violate("req/send-error:with-send-deadline", "Send with a ready peer and a %v send deadline returned %v", D, err)
		return
	}
	recvCall := mon.Go("Recv", func() (interface{}, error) { b, err := ctx.Recv(); return b, err })
	unanswered := func(when string) {
		_, err, _ := recvCall.Result()
		c.Violate("req/recv-returned-unanswered:"+slug(when)+":"+kind, "Send returned nil (request handed to a peer), nobody answered, superseded or closed it, yet %s Recv returned %v (send deadline %v, retry time %v, transmissions: %s)", when, err, D, R, renderTx(rig.TxsOf(fi, 1)))
	}
	if !recvCall.ParkedIn("RecvMsg") {
		if recvCall.Done() {
			unanswered("before any fault or reply")
		} else {
			c.Inconclusive("Recv neither parked nor done")
		}
		return
	}
	if sp.Mode == "held" {
		if !c.AwaitOrViolate("req/request-not-handed-to-transport", "request being handed to a (slow) peer", func() bool {
			for _, p := range rig.Pipes {
				if _, sw := p.Waiters(); sw > 0 {
					return true
				}
			}
			return false
		}, mon.AwaitOpts{MaxTimer: mt}) {
			return
		}
	}
	// the peer is silent (or slow to take the request) for longer than the send deadline
	mon.Sleep(2*D + time.Duration(8+c.Rand.Intn(10))*time.Millisecond)
	if recvCall.Done() {
		unanswered("after the send deadline elapsed")
		return
	}
	c.Count("unanswered_beyond_send_deadline", 1)
	if sp.Mode == "held" {
		for _, p := range rig.Pipes {
			p.ReleaseSends()
		}
	}
	awaitTx := func(n int, sig, when string) bool {
		if !c.AwaitOrViolate(sig+":"+kind, fmt.Sprintf("transmission #%d of the request (%s)", n, when), func() bool {
			return len(rig.TxsOf(fi, 1)) >= n || recvCall.Done()
		}, mon.AwaitOpts{MaxTimer: mt}) {
			return false
		}
		if len(rig.TxsOf(fi, 1)) < n {
			unanswered(when)
			return false
		}
		return true
	}
	if !awaitTx(1, "req/request-not-transmitted", "once the peer takes it") {
		return
	}
	id := rig.TxsOf(fi, 1)[0].ID

	var dropped *vt.Pipe
	dropT := time.Duration(-1)
	canceled := false
	for _, st := range sp.Steps {
		n := len(rig.TxsOf(fi, 1))
		switch st {
		case 'T':
			if R == 0 || R >= time.Hour {
				continue
			}
			if !awaitTx(n+1, "req/no-resend-after-retry-interval", "after a retry interval") {
				return
			}
			c.Count("retransmissions_timer", 1)
		case 'D':
			if dropped != nil {
				continue
			}
			all := rig.TxsOf(fi, 1)
			lt := all[len(all)-1]
			if len(rig.LivePipes()) < 2 {
				rig.AddPipe()
			}
			before := rig.Watch.Detached()
			dropped, dropT = lt.Pipe, lt.Pipe.Drop()
			c.Logf("dropped carrier pipe %d at %v", lt.PipeN, dropT)
			if !c.AwaitOrViolate("harness:detach-stuck", "dropped vt pipe being detached", func() bool { return rig.Watch.Detached() > before }, mon.AwaitOpts{}) {
				return
			}
			if R == 0 {
				if !c.AwaitOrViolate("req/recv-stuck-at-connection-loss:"+kind, "Recv returning after the carrying connection was lost with retries disabled", recvCall.Done, mon.AwaitOpts{MaxTimer: mt}) {
					return
				}
				if _, err, _ := recvCall.Result(); err != mangos.ErrCanceled {
					c.Violate("req/retry0-loss-not-canceled:"+kind, "RetryTime=0 and the carrying connection was lost: Recv returned %v, want ErrCanceled", err)
					return
				}
				canceled = true
				c.Count("cancelled_by_loss", 1)
			} else {
				if !awaitTx(n+1, "req/no-resend-after-connection-loss", "after the carrying connection closed") {
					return
				}
				c.Count("retransmissions_close", 1)
			}
		}
		if canceled {
			break
		}
	}
	endT := mon.Now()
	if !canceled {
		live := rig.LivePipes()
		live[c.Rand.Intn(len(live))].Inject(hx.ReplyWire(id, 1))
		if !c.AwaitOrViolate("req/recv-stuck-at-answer:"+kind, "Recv returning after a connected peer answered", recvCall.Done, mon.AwaitOpts{MaxTimer: mt}) {
			return
		}
		if v, err, _ := recvCall.Result(); err != nil || !bytes.Equal(v.([]byte), hx.ReplyWire(id, 1)[4:]) {
			c.Violate("req/answered-recv-failed:"+kind, "a connected peer answered request %08x later than the send deadline (%v) but Recv returned %q, %v (retry time %v, script %q)", id, D, v, err, R, sp.Steps)
			return
		}
		endT = mon.Now()
		c.Count("answered_later_than_send_deadline", 1)
	}
	w := 2 * R
	if R == 0 || R >= time.Hour {
		w = 20 * time.Millisecond
	}
	if w > 250*time.Millisecond {
		w = 250 * time.Millisecond
	}
	mon.Sleep(w)
	all := rig.TxsOf(fi, 1)
	E := sendCall.Started
	for j, tx := range all {
		if !bytes.Equal(tx.Wire, all[0].Wire) {
			c.Violate("req/retransmission-differs", "retransmission %d differs from the first transmission:\n first %x\n this  %x", j, all[0].Wire, tx.Wire)
			return
		}
		if tx.T > endT {
			c.Violate("req/transmitted-after-end:"+kind, "request %08x was transmitted on pipe %d at %v, after its life had ended at %v", tx.ID, tx.PipeN, tx.T, endT)
			return
		}
		if j > 0 {
			e := time.Duration(math.MaxInt64)
			if R > 0 {
				e = E + R
			}
			if dropped != nil && all[j-1].Pipe == dropped && dropT <= tx.T && dropT < e {
				e = dropT
			}
			if tx.T < e {
				c.Violate("req/resend-too-soon:"+kind, "transmission %d of request %08x at %v has no cause: its previous carrier (pipe %d) was not closed, and no retry interval (%v) can have elapsed before %v. transmissions: %s", j, tx.ID, tx.T, all[j-1].PipeN, R, e, renderTx(all))
				return
			}
			E = e
		}
	}
	for _, b := range rig.Bad {
		c.Violate("req/malformed-transmission", "%s", b)
	}
	c.Count("transmissions", len(all))
	c.Nontrivial() // the request outlived its send deadline unanswered, and what follows was checked
	c.Sig("senddeadline|%s|%s|%s|d%d|r%d|%d|%d|tx%d|%v", sp.Mode, sp.Via, sp.Steps, sp.DeadMs, sp.RetryMs, sp.NCtx, sp.NPipes, len(all), canceled)
}
