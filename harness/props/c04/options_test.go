//go:build verif

package c04

import (
	"bytes"
	"fmt"
	"time"

	"go.nanomsg.org/mangos/v3"

	"verifharness/hx"
	"verifharness/mon"
	"verifharness/vt"
)

func ms(n int) time.Duration { return time.Duration(n) * time.Millisecond }

// stuckTimer is the MaxTimer to give the stuck detector for a retry setting: a one-hour timer
// cannot legitimately end any wait in a case.
func stuckTimer(ds ...time.Duration) time.Duration {
	var m time.Duration
	for _, d := range ds {
		if d < time.Hour && d > m {
			m = d
		}
	}
	return m
}

// runRetryChange: the application changes OptionRetryTime while a request is outstanding on a live
// connection — on the context (or socket) that owns the request ("self"), or on a different
// context / the socket of which the owner is not the default context ("other").
//
// What the property demands here, and no more:
//   - changing the option is not a cause for a transmission: the j-th retransmission made without a
//     connection loss is never observed before j times the SHORTEST positive interval the owner ever
//     had, counted from the invocation of Send (or from the connection loss that caused the previous
//     retransmission); if the owner never had a positive interval there is none at all;
//   - the request still completes when a peer answers it;
//   - when the carrying connection is then lost, the setting in force at that moment decides:
//     disabled -> the waiting Recv fails with ErrCanceled and nothing is transmitted any more;
//     enabled -> the request is re-sent, byte-identical, to another ready peer;
//   - a change made on some other context makes no difference to this one (its retry interval still
//     produces a retransmission).
//
// Whether a timer that was pending at the change still fires with its old interval is left open.
func runRetryChange(c *mon.Case, sp spec) {
	R1, R2 := ms(sp.RetryMs), ms(sp.Retry2Ms)
	mt := stuckTimer(R1, R2)
	rig := hx.NewReqRig(c, "req", sp.NCtx, sp.NPipes)
	if c.Failed() {
		return
	}
	rig.SetAll(mangos.OptionRetryTime, R1)
	fi := c.Rand.Intn(sp.NCtx)
	if sp.Via == "other" && sp.NCtx < 2 {
		sp.Via = "self"
	}
	ctx := rig.Ctxs[fi]
	target := ctx
	if sp.Via == "other" {
		target = rig.Ctxs[(fi+1+c.Rand.Intn(sp.NCtx-1))%sp.NCtx]
	}
	// m: the shortest positive interval the owner has at any time in this case; now: in force after the change
	m, now := R1, R1
	if sp.Via == "self" {
		now = R2
		if R2 > 0 && (m == 0 || R2 < m) {
			m = R2
		}
	}
	kind := fmt.Sprintf("retry-time-changed-on-%s-from-%s-to-%s", sp.Via, rname(R1), rname(R2))

	sendCall := mon.Go("Send", func() (interface{}, error) { return nil, ctx.Send(rig.ReqBody(fi, 1)) })
	if !c.AwaitOrViolate("req/send-stuck", "Send with a connected peer", sendCall.Done, mon.AwaitOpts{MaxTimer: mt}) {
		return
	}
	if _, err, _ := sendCall.Result(); err != nil {
		c.Violate("req/send-error", "Send returned %v", err)
		return
	}
	txs, ok := rig.AwaitTx(fi, 1, 1, mt, "req/request-not-transmitted")
	if !ok {
		return
	}
	id := txs[0].ID
	recvCall := mon.Go("Recv", func() (interface{}, error) { b, err := ctx.Recv(); return b, err })
	if !recvCall.ParkedIn("RecvMsg") {
		if recvCall.Done() {
			_, err, _ := recvCall.Result()
			c.Violate("req/recv-returned-unanswered", "Recv on an outstanding, unanswered request returned %v before any fault or reply", err)
		} else {
			c.Inconclusive("Recv neither parked nor done")
		}
		return
	}

	// ---- monitor: lower bounds on every retransmission ----
	var dropped *vt.Pipe
	dropT := time.Duration(-1)
	check := func() bool {
		all := rig.TxsOf(fi, 1)
		base, cnt, used := sendCall.Started, 0, false
		for j := 1; j < len(all); j++ {
			tx := all[j]
			if !bytes.Equal(tx.Wire, all[0].Wire) {
				c.Violate("req/retransmission-differs", "retransmission %d differs from the first transmission:\n first %x\n this  %x", j, all[0].Wire, tx.Wire)
				return false
			}
			if dropped != nil && !used && all[j-1].Pipe == dropped && tx.T >= dropT {
				used, base, cnt = true, dropT, 0
				continue
			}
			cnt++
			if m == 0 || tx.T < base+time.Duration(cnt)*m {
				c.Violate("req/resend-too-soon:"+kind, "transmission %d of request %08x at %v has no cause: its previous carrier (pipe %d) was not closed, and the shortest retry interval its context ever had is %v (earliest possible expiry %v; the option was changed from %v to %v on %s). transmissions: %s",
					j, tx.ID, tx.T, all[j-1].PipeN, m, base+time.Duration(cnt)*m, R1, R2, sp.Via, renderTx(all))
				return false
			}
		}
		return true
	}

	if d := c.Rand.Intn(12); d > 0 {
		mon.Sleep(time.Duration(d) * time.Millisecond)
	}
	setCall := mon.Go("SetOption", func() (interface{}, error) { return nil, target.SetOption(mangos.OptionRetryTime, R2) })
	if !c.AwaitOrViolate("req/setoption-stuck", "SetOption(RetryTime) while a request is outstanding", setCall.Done, mon.AwaitOpts{MaxTimer: mt}) {
		return
	}
	if _, err, _ := setCall.Result(); err != nil {
		c.Violate("req/setoption-error", "SetOption(RetryTime, %v) returned %v", R2, err)
		return
	}
	c.Count("retry_time_changes_on_outstanding_request", 1)
	if sp.Via == "self" && R2 == 0 {
		c.Count("retries_disabled_on_outstanding_request", 1)
	}
	mon.Sleep(time.Duration(20+c.Rand.Intn(15)) * time.Millisecond)
	if !check() {
		return
	}
	if recvCall.Done() {
		_, err, _ := recvCall.Result()
		c.Violate("req/recv-returned-unanswered:"+kind, "Recv on an outstanding, unanswered request returned %v after the retry time was changed", err)
		return
	}

	answer := func() bool {
		live := rig.LivePipes()
		live[c.Rand.Intn(len(live))].Inject(hx.ReplyWire(id, 1))
		if !c.AwaitOrViolate("req/recv-stuck-at-answer:"+kind, "Recv returning after a connected peer answered", recvCall.Done, mon.AwaitOpts{MaxTimer: mt}) {
			return false
		}
		if v, err, _ := recvCall.Result(); err != nil || !bytes.Equal(v.([]byte), hx.ReplyWire(id, 1)[4:]) {
			c.Violate("req/answered-recv-failed", "a connected peer answered request %08x but Recv returned %q, %v (%s)", id, v, err, kind)
			return false
		}
		return true
	}
	endT := time.Duration(-1)
	switch sp.Then {
	case "timer":
		// (only generated for a change made elsewhere, with a short interval on the owner)
		if now > 0 && now < time.Hour {
			if _, ok := rig.AwaitTx(fi, 1, 2, now, "req/no-resend-after-retry-interval:"+kind); !ok {
				return
			}
			c.Count("retransmissions_timer", 1)
		}
		if !answer() {
			return
		}
		endT = mon.Now()
	case "drop":
		all := rig.TxsOf(fi, 1)
		lt := all[len(all)-1]
		if len(rig.LivePipes()) < 2 {
			rig.AddPipe()
		}
		before := rig.Watch.Detached()
		n := len(all)
		dropped, dropT = lt.Pipe, lt.Pipe.Drop()
		if !c.AwaitOrViolate("harness:detach-stuck", "dropped vt pipe being detached", func() bool { return rig.Watch.Detached() > before }, mon.AwaitOpts{}) {
			return
		}
		if now == 0 {
			if !c.AwaitOrViolate("req/recv-stuck-at-connection-loss:"+kind, "Recv returning after the carrying connection was lost with retries disabled", recvCall.Done, mon.AwaitOpts{MaxTimer: mt}) {
				return
			}
			if _, err, _ := recvCall.Result(); err != mangos.ErrCanceled {
				c.Violate("req/retry0-loss-not-canceled:"+kind, "RetryTime is 0 now and the carrying connection was lost: Recv returned %v, want ErrCanceled", err)
				return
			}
			endT = mon.Now()
			mon.Sleep(25 * time.Millisecond)
			if k := len(rig.TxsOf(fi, 1)); k > n {
				c.Violate("req/resent-with-retries-disabled:"+kind, "RetryTime is 0 now but the request was transmitted %d more time(s) after its connection closed", k-n)
				return
			}
			c.Count("cancelled_by_loss_after_retries_disabled", 1)
		} else {
			if _, ok := rig.AwaitTx(fi, 1, n+1, mt, "req/no-resend-after-connection-loss:"+kind); !ok {
				return
			}
			c.Count("retransmissions_close", 1)
			if !answer() {
				return
			}
			endT = mon.Now()
		}
	default:
		if !answer() {
			return
		}
		endT = mon.Now()
	}
	mon.Sleep(15 * time.Millisecond)
	if !check() {
		return
	}
	all := rig.TxsOf(fi, 1)
	for _, tx := range all {
		if tx.T > endT {
			c.Violate("req/transmitted-after-end:"+kind, "request %08x was transmitted on pipe %d at %v, after its life had ended at %v", tx.ID, tx.PipeN, tx.T, endT)
			return
		}
	}
	for _, b := range rig.Bad {
		c.Violate("req/malformed-transmission", "%s", b)
	}
	c.Count("transmissions", len(all))
	c.Nontrivial()
	c.Sig("retrychange|%s|%s|%d|%d|tx%d", kind, sp.Then, sp.NCtx, sp.NPipes, len(all))
}

func rname(d time.Duration) string {
	if d >= time.Hour {
		return "1h"
	}
	return fmt.Sprintf("%dms", d/time.Millisecond)
}

// runBestEffort: OptionBestEffort makes Send accept a request although no peer is READY for it —
// none connected yet ("nopipe"), the outage between a failed peer and its replacement ("outage"),
// or every connection still busy handing another context's request to a slow peer ("busy").  An
// accepted request is an outstanding request: however long it takes until a peer is ready (in
// particular longer than a send deadline that is configured as well, which in best-effort mode has
// nothing to wait for), it is transmitted then, once, and completes when that peer answers.
func runBestEffort(c *mon.Case, sp spec) {
	R, D := ms(sp.RetryMs), ms(sp.DeadMs)
	mt := stuckTimer(R, D)
	npipes := sp.NPipes
	if sp.Mode == "nopipe" {
		npipes = 0
	}
	rig := hx.NewReqRig(c, "req", sp.NCtx, npipes)
	if c.Failed() {
		return
	}
	rig.SetAll(mangos.OptionRetryTime, R)
	rig.SetAll(mangos.OptionBestEffort, true)
	if D > 0 {
		rig.SetAll(mangos.OptionSendDeadline, D)
	}
	fi := c.Rand.Intn(sp.NCtx)
	ctx := rig.Ctxs[fi]
	kind := sp.Mode
	exchange := func(k int) bool {
		s := mon.Go("Send", func() (interface{}, error) { return nil, ctx.Send(rig.ReqBody(fi, k)) })
		if !c.AwaitOrViolate("req/send-stuck", "best-effort Send with a ready peer", s.Done, mon.AwaitOpts{MaxTimer: mt}) {
			return false
		}
		if _, err, _ := s.Result(); err != nil {
			c.Violate("req/send-error", "Send returned %v", err)
			return false
		}
		tx, ok := rig.AwaitTx(fi, k, 1, mt, "req/request-not-transmitted")
		if !ok {
			return false
		}
		tx[0].Pipe.Inject(hx.ReplyWire(tx[0].ID, k))
		r := mon.Go("Recv", func() (interface{}, error) { b, e := ctx.Recv(); return b, e })
		if !c.AwaitOrViolate("req/recv-stuck-at-answer", "Recv of the reply", r.Done, mon.AwaitOpts{MaxTimer: mt}) {
			return false
		}
		if v, err, _ := r.Result(); err != nil || !bytes.Equal(v.([]byte), hx.ReplyWire(tx[0].ID, k)[4:]) {
			c.Violate("req/answered-recv-failed", "Recv returned (%q, %v)", v, err)
			return false
		}
		return true
	}
	switch sp.Mode {
	case "outage":
		if !exchange(7) {
			return
		}
		n := 0
		for _, p := range rig.LivePipes() {
			p.Drop()
			n++
		}
		if !c.AwaitOrViolate("harness:detach-stuck", "dropped vt pipes being detached", func() bool { return rig.Watch.Detached() >= n }, mon.AwaitOpts{}) {
			return
		}
	case "busy":
		// every connection is handed another context's request and the peer is slow to take it
		for _, p := range rig.Pipes {
			p.HoldSends()
		}
		o := 0
		for i := 0; i < sp.NCtx && o < len(rig.Pipes); i++ {
			if i == fi {
				continue
			}
			i := i
			o++
			s := mon.Go("OtherSend", func() (interface{}, error) { return nil, rig.Ctxs[i].Send(rig.ReqBody(i, 1)) })
			if !c.AwaitOrViolate("req/send-stuck", "best-effort Send with a ready peer", s.Done, mon.AwaitOpts{MaxTimer: mt}) {
				return
			}
		}
		if !c.AwaitOrViolate("req/request-not-handed-to-transport", "each connection being handed one request", func() bool {
			for _, p := range rig.Pipes {
				if _, sw := p.Waiters(); sw == 0 {
					return false
				}
			}
			return true
		}, mon.AwaitOpts{MaxTimer: mt}) {
			return
		}
	}

	sendCall := mon.Go("Send", func() (interface{}, error) { return nil, ctx.Send(rig.ReqBody(fi, 1)) })
	if !c.AwaitOrViolate("req/best-effort-send-stuck:"+kind, "best-effort Send while no peer is ready", sendCall.Done, mon.AwaitOpts{MaxTimer: mt}) {
		return
	}
	if _, err, _ := sendCall.Result(); err != nil {
		c.Violate("req/best-effort-send-error:"+kind, "best-effort Send while no peer is ready returned %v", err)
		return
	}
	recvCall := mon.Go("Recv", func() (interface{}, error) { b, err := ctx.Recv(); return b, err })
	unanswered := func(when string) {
		_, err, _ := recvCall.Result()
		c.Violate("req/accepted-request-dropped-while-no-peer-ready:"+kind, "best-effort Send accepted the request (nil) while no peer was ready; %s Recv returned %v although nothing answered, superseded or closed it (send deadline %v, retry time %v)", when, err, D, R)
	}
	if !recvCall.ParkedIn("RecvMsg") {
		if recvCall.Done() {
			unanswered("before any peer was ready")
		} else {
			c.Inconclusive("Recv neither parked nor done")
		}
		return
	}
	// nobody is ready for longer than the send deadline
	mon.Sleep(3*D + time.Duration(15+c.Rand.Intn(15))*time.Millisecond)
	if recvCall.Done() {
		unanswered("before any peer was ready")
		return
	}
	if n := len(rig.TxsOf(fi, 1)); n > 0 {
		c.Violate("harness:transmitted-without-ready-peer", "%d transmissions while no peer should have been ready", n)
		return
	}
	c.Count("accepted_while_no_peer_ready", 1)
	if D > 0 {
		c.Count("no_peer_ready_beyond_send_deadline", 1)
	}
	tReady := mon.Now()
	if sp.Mode == "busy" {
		for _, p := range rig.Pipes {
			p.ReleaseSends()
		}
	} else {
		for i := 0; i < sp.NPipes; i++ {
			rig.AddPipe()
		}
	}
	txs, ok := rig.AwaitTx(fi, 1, 1, mt, "req/accepted-request-not-transmitted-when-peer-ready:"+kind)
	if !ok {
		if recvCall.Done() {
			_, err, _ := recvCall.Result()
			c.Logf("Recv had returned %v", err)
		}
		return
	}
	txs[0].Pipe.Inject(hx.ReplyWire(txs[0].ID, 1))
	if !c.AwaitOrViolate("req/recv-stuck-at-answer:"+kind, "Recv returning after a connected peer answered", recvCall.Done, mon.AwaitOpts{MaxTimer: mt}) {
		return
	}
	if v, err, _ := recvCall.Result(); err != nil || !bytes.Equal(v.([]byte), hx.ReplyWire(txs[0].ID, 1)[4:]) {
		c.Violate("req/answered-recv-failed:"+kind, "a peer answered request %08x (accepted by best-effort Send while no peer was ready) but Recv returned %q, %v", txs[0].ID, v, err)
		return
	}
	endT := mon.Now()
	mon.Sleep(15 * time.Millisecond)
	all := rig.TxsOf(fi, 1)
	for j, tx := range all {
		if !bytes.Equal(tx.Wire, all[0].Wire) {
			c.Violate("req/retransmission-differs", "retransmission %d differs from the first transmission", j)
			return
		}
		if tx.T > endT {
			c.Violate("req/transmitted-after-answered", "request %08x was transmitted at %v, after it had been answered at %v", tx.ID, tx.T, endT)
			return
		}
		// the retry timer is armed when the request is handed to a ready peer: not before one was ready
		if j > 0 && (R == 0 || tx.T < tReady+time.Duration(j)*R) {
			c.Violate("req/resend-too-soon:best-effort-"+kind, "transmission %d at %v: no connection was lost and no retry interval (%v) had elapsed since a peer became ready at %v. transmissions: %s", j, tx.T, R, tReady, renderTx(all))
			return
		}
	}
	for _, b := range rig.Bad {
		c.Violate("req/malformed-transmission", "%s", b)
	}
	c.Count("transmissions", len(all))
	c.Nontrivial()
	c.Sig("besteffort|%s|d%d|r%d|%d|%d|tx%d", sp.Mode, sp.DeadMs, sp.RetryMs, sp.NCtx, sp.NPipes, len(all))
}
