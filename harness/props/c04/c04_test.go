package c04

import (
	"bytes"
	"fmt"
	"testing"
	"time"

	"go.nanomsg.org/mangos/v3"

	"verifharness/hx"
	"verifharness/mon"
	"verifharness/vt"
)

// C04 — REQ re-sends an unanswered request until a peer answers.

func TestMain(m *testing.M) { hx.Main(m) }

type spec struct {
	NCtx    int    `json:"nctx"`
	NPipes  int    `json:"npipes"`
	RetryMs int    `json:"retry_ms"` // 0 = retries disabled, 3600000 = effectively only close-caused resends
	Start   string `json:"start"`    // ready | nopipe | held
	Faults  int    `json:"faults"`
	End     string `json:"end"` // answer | supersede | ctxclose | sockclose | recvtimeout
	// FNP: fail-no-peers is set as well; the script then never lets the number of connected peers
	// reach zero, so the option must make no difference to re-sending
	FNP bool `json:"fnp,omitempty"`
	// Mixed: the socket itself has the opposite kind of retry setting (disabled vs enabled) from the
	// context under test: each context's own setting decides
	Mixed bool `json:"mixed,omitempty"`
	// retrychange: OptionRetryTime is changed from RetryMs to Retry2Ms while the request is outstanding, on
	// its own context/socket (Via "self") or on another one ("other"); Then: answer | drop | timer
	Retry2Ms int    `json:"retry2_ms,omitempty"`
	Via      string `json:"via,omitempty"`
	Then     string `json:"then,omitempty"`
	// besteffort: Mode nopipe | outage | busy; DeadMs = OptionSendDeadline (0: not set)
	Mode   string `json:"mode,omitempty"`
	DeadMs int    `json:"dead_ms,omitempty"`
	// wire: REQ dials a transport-level peer over the real transport Tr with NConn connections; Steps is a
	// script of T (retry interval elapses) D (the carrying connection is closed by the peer) P (peer silent
	// beyond the send deadline DeadMs).  senddeadline (vt): Mode ready | held, Via self | all, Steps of T D
	// Empty: the reply that answers the request has an EMPTY body (on the wire just the 4-byte request id)
	Empty bool   `json:"empty,omitempty"`
	Tr    string `json:"tr,omitempty"`
	NConn int    `json:"nconn,omitempty"`
	Steps string `json:"steps,omitempty"`
}

func TestC04(t *testing.T) {
	r := mon.NewRunner(t, "C04")
	rnd := r.Rand()
	var cases []mon.CaseSpec
	starts := []string{"ready", "ready", "nopipe", "held"}
	ends := []string{"answer", "answer", "supersede", "ctxclose", "sockclose", "recvtimeout"}
	retries := []int{0, 40, 60, 90, 120, 3600000}
	n := r.Pick(600, 24000)
	for i := 0; i < n; i++ {
		// enumerate (start x end x retry) cells cyclically, randomise the rest
		sp := spec{NCtx: 1 + rnd.Intn(3), NPipes: 1 + rnd.Intn(4), RetryMs: retries[i%len(retries)],
			Start: starts[(i/len(retries))%len(starts)], End: ends[(i/(len(retries)*len(starts)))%len(ends)], Faults: rnd.Intn(5)}
		if rnd.Intn(3) == 0 && sp.RetryMs < 3600000 {
			sp.Mixed = true
			if sp.NCtx < 2 {
				sp.NCtx = 2 + rnd.Intn(2)
			}
		}
		if sp.Start != "nopipe" && rnd.Intn(3) == 0 {
			sp.FNP = true
			if sp.NPipes < 2 {
				sp.NPipes = 2 + rnd.Intn(3)
			}
			if sp.Faults == 0 {
				sp.Faults = 1 + rnd.Intn(4)
			}
		}
		// the answering reply has an empty body in 2 of 7 cases (7 is coprime to the cell enumeration)
		sp.Empty = i%7 == 1 || i%7 == 4
		cases = append(cases, mon.CaseSpec{Name: fmt.Sprintf("%s/%s/r%d%s", sp.Start, sp.End, sp.RetryMs, map[bool]string{true: "/empty"}[sp.Empty]), Spec: sp})
	}
	for i := 0; i < n/6; i++ {
		cases = append(cases, mon.CaseSpec{Name: "multictx", Spec: spec{NCtx: 2 + rnd.Intn(4), NPipes: 1 + rnd.Intn(3), RetryMs: 3600000, Start: "multictx", Empty: i%3 == 1}})
	}
	for i := 0; i < n/12; i++ {
		cases = append(cases, mon.CaseSpec{Name: "supersede-race", Spec: spec{NCtx: 1 + rnd.Intn(3), NPipes: 2, RetryMs: 10000, Start: "supersede-race"}})
	}
	for i := 0; i < n/12; i++ {
		cases = append(cases, mon.CaseSpec{Name: "answered", Spec: spec{NCtx: 1 + rnd.Intn(3), NPipes: 1 + rnd.Intn(3), RetryMs: []int{0, 30, 60, 3600000}[i%4], Start: "answered", Empty: i%3 == 1}})
	}
	// the application changes the retry time while a request is outstanding on a live connection
	for i := 0; i < n/10; i++ {
		sp := spec{NCtx: 1 + rnd.Intn(3), NPipes: 1 + rnd.Intn(3), Start: "retrychange",
			RetryMs: []int{3600000, 250, 0, 3600000}[i%4], Retry2Ms: []int{0, 0, 60, 3600000, 0}[i%5],
			Via: []string{"self", "self", "other"}[rnd.Intn(3)], Then: []string{"answer", "drop", "answer", "drop", "timer"}[rnd.Intn(5)]}
		if sp.RetryMs == sp.Retry2Ms {
			sp.Retry2Ms = 60
		}
		if sp.Via == "other" && sp.NCtx < 2 {
			sp.NCtx = 2 + rnd.Intn(2)
		}
		if sp.Then == "timer" && !(sp.Via == "other" && sp.RetryMs == 250) {
			sp.Then = "answer"
		}
		if sp.Then == "drop" && sp.RetryMs == 250 {
			// (a short timer pending at the moment of the loss would race with it)
			sp.RetryMs = 3600000
		}
		cases = append(cases, mon.CaseSpec{Name: fmt.Sprintf("retrychange/%s/%s/r%d-r%d", sp.Via, sp.Then, sp.RetryMs, sp.Retry2Ms), Spec: sp})
	}
	// best-effort Send accepts a request while no peer is ready, with or without a send deadline
	for i := 0; i < n/12; i++ {
		sp := spec{NCtx: 1 + rnd.Intn(3), NPipes: 1 + rnd.Intn(2), Start: "besteffort",
			Mode: []string{"nopipe", "outage", "busy"}[i%3], DeadMs: []int{20, 0, 10, 35}[(i/3)%4], RetryMs: []int{3600000, 0, 150}[rnd.Intn(3)]}
		if sp.Mode == "busy" && sp.NCtx < sp.NPipes+1 {
			sp.NCtx = sp.NPipes + 1 + rnd.Intn(2)
		}
		cases = append(cases, mon.CaseSpec{Name: fmt.Sprintf("besteffort/%s/d%d/r%d", sp.Mode, sp.DeadMs, sp.RetryMs), Spec: sp})
	}
	// the request travels over the real transports to a transport-level peer that reads every frame
	for i := 0; i < n/10; i++ {
		sp := spec{Start: "wire", Tr: hx.Transports[i%len(hx.Transports)], RetryMs: []int{60, 3600000, 90, 0}[(i/len(hx.Transports))%4],
			DeadMs: []int{0, 15, 30}[rnd.Intn(3)], NConn: 1 + rnd.Intn(2), NCtx: 1 + rnd.Intn(2)}
		switch {
		case sp.RetryMs == 0:
			sp.Steps = "P"
			if sp.DeadMs == 0 {
				sp.DeadMs = 15
			}
		case sp.RetryMs >= 3600000:
			sp.Steps = []string{"D", "DD", "PD", "PDD", "DPD"}[rnd.Intn(5)]
		default:
			sp.Steps = []string{"T", "TD", "DT", "TT", "PTD", "DTD", "PDT"}[rnd.Intn(7)]
		}
		sp.Empty = i%5 == 2
		cases = append(cases, mon.CaseSpec{Name: fmt.Sprintf("wire/%s/%s/r%d/d%d%s", sp.Tr, sp.Steps, sp.RetryMs, sp.DeadMs, map[bool]string{true: "/empty"}[sp.Empty]), Spec: sp})
	}
	// a send deadline (no best effort) elapses after the request was handed to a peer that stays silent
	for i := 0; i < n/10; i++ {
		sp := spec{Start: "senddeadline", Mode: []string{"ready", "ready", "held"}[i%3], DeadMs: []int{8, 15, 25, 40}[(i/3)%4],
			RetryMs: []int{3600000, 100, 0, 150}[(i/12)%4], Via: []string{"self", "all"}[rnd.Intn(2)], NCtx: 1 + rnd.Intn(3), NPipes: 1 + rnd.Intn(3)}
		if sp.RetryMs == 0 || sp.RetryMs >= 3600000 {
			sp.Steps = []string{"", "D", "D"}[rnd.Intn(3)]
		} else {
			sp.Steps = []string{"", "T", "TD", "DT", "TT", "D"}[rnd.Intn(6)]
		}
		cases = append(cases, mon.CaseSpec{Name: fmt.Sprintf("senddeadline/%s/%s/d%d/r%d", sp.Mode, sp.Steps, sp.DeadMs, sp.RetryMs), Spec: sp})
	}
	// a connection is lost while the application's pipe-event hook is still handling its Attaching/Attached event
	for i := 0; i < n/10; i++ {
		sp := spec{Start: "hookloss", Mode: []string{"hookclose", "peerdrop", "peerdrop", "hookclose", "attaching"}[i%5],
			RetryMs: []int{3600000, 0, 30000}[(i/5+i)%3], Via: []string{"fresh", "requeued"}[rnd.Intn(2)],
			NCtx: 1 + rnd.Intn(3), NPipes: rnd.Intn(3), Empty: i%4 == 3}
		if sp.RetryMs == 0 {
			sp.Via = "fresh" // (losing the first carrier would already cancel the request)
		}
		cases = append(cases, mon.CaseSpec{Name: fmt.Sprintf("hookloss/%s/%s/r%d", sp.Mode, sp.Via, sp.RetryMs), Spec: sp})
	}
	r.Run(cases, func(c *mon.Case) {
		sp := c.Spec.(spec)
		if sp.Start == "hookloss" {
			runHookLoss(c, sp)
			return
		}
		if sp.Start == "wire" {
			runWire(c, sp)
			return
		}
		if sp.Start == "senddeadline" {
			runSendDeadline(c, sp)
			return
		}
		if sp.Start == "retrychange" {
			runRetryChange(c, sp)
			return
		}
		if sp.Start == "besteffort" {
			runBestEffort(c, sp)
			return
		}
		if sp.Start == "multictx" {
			runMultiCtx(c, sp)
			return
		}
		if sp.Start == "answered" {
			runAnswered(c, sp)
			return
		}
		if sp.Start == "supersede-race" {
			runSupersedeRace(c, sp)
			return
		}
		runScript(c, sp)
	})
}

type dropEv struct {
	pipe *vt.Pipe
	t    time.Duration
	used bool
}

type token struct {
	L     time.Duration // lower bound of the time the retry timer was armed
	U     time.Duration // upper bound of it (the transmission that armed it was observed at U)
	valid bool
}

// window is a period during which the request sat queued because no peer was connected.
type window struct{ start, end time.Duration }

func runScript(c *mon.Case, sp spec) {
	R := time.Duration(sp.RetryMs) * time.Millisecond
	maxTimer := R
	if R >= time.Hour {
		maxTimer = 0 // a 1 h timer cannot legitimately end any wait in this case
	}
	npipes := sp.NPipes
	if sp.Start == "nopipe" {
		npipes = 0
	}
	rig := hx.NewReqRig(c, "req", sp.NCtx, npipes)
	if c.Failed() {
		return
	}
	rig.SetAll(mangos.OptionRetryTime, R)
	if sp.FNP {
		rig.SetAll(mangos.OptionFailNoPeers, true)
	}
	fi := c.Rand.Intn(sp.NCtx) // focus context
	if sp.Mixed {
		if fi == 0 {
			fi = 1
		}
		other := time.Duration(0)
		if R == 0 {
			other = 60 * time.Millisecond
		}
		rig.Sock.SetOption(mangos.OptionRetryTime, other) // the socket's own (default) context only
	}
	if sp.End == "ctxclose" && fi == 0 {
		if sp.NCtx == 1 {
			sp.End = "answer"
		} else {
			fi = 1
		}
	}
	ctx := rig.Ctxs[fi]
	var drops []*dropEv
	events := ""
	ev := func(f string, a ...interface{}) { s := fmt.Sprintf(f, a...); c.Logf("%s", s) }

	ndropped := 0
	// settle: with retries disabled a request handed to a connection that is being torn down is
	// legitimately cancelled, so when R == 0 the script waits until the library has detached a
	// dropped pipe before it goes on (with R > 0 the race is left in: the request must be re-sent).
	awaitDetached := func() {
		n := ndropped
		c.AwaitOrViolate("harness:detach-stuck", "dropped vt pipe being detached", func() bool { return rig.Watch.Detached() >= n }, mon.AwaitOpts{})
	}
	settle := func() {
		ndropped++
		if R == 0 {
			awaitDetached()
		}
	}
	var windows []window
	if sp.Start == "held" {
		for _, p := range rig.Pipes {
			p.HoldSends()
		}
	}
	sendCall := mon.Go("Send", func() (interface{}, error) { return nil, ctx.Send(rig.ReqBody(fi, 1)) })
	L0 := sendCall.Started
	if sp.Start == "nopipe" {
		if !sendCall.ParkedIn("SendMsg") {
			if sendCall.Done() {
				_, err, _ := sendCall.Result()
				c.Violate("req/send-returned-without-peer", "Send returned %v although no peer is connected and no deadline/best-effort is set", err)
			} else {
				c.Inconclusive("Send neither parked nor done")
			}
			return
		}
		events += "N"
		for i := 0; i < sp.NPipes; i++ {
			rig.AddPipe()
		}
	}
	if !c.AwaitOrViolate("req/send-stuck", "Send with a connected peer", sendCall.Done, mon.AwaitOpts{MaxTimer: maxTimer}) {
		return
	}
	if _, err, _ := sendCall.Result(); err != nil {
		c.Violate("req/send-error", "Send returned %v", err)
		return
	}
	if sp.Start == "held" {
		events += "H"
		// the transmission is in flight inside a slow peer: wait until the library is parked in the transport Send
		var carrier *vt.Pipe
		if !c.AwaitOrViolate("req/request-not-handed-to-transport", "request being handed to a (slow) peer", func() bool {
			for _, p := range rig.Pipes {
				if _, sw := p.Waiters(); sw > 0 {
					carrier = p
					return true
				}
			}
			return false
		}, mon.AwaitOpts{MaxTimer: maxTimer}) {
			return
		}
		// sometimes the connection dies in that state (the transmission then never completes and is not logged)
		if c.Rand.Intn(2) == 0 {
			t := carrier.Drop()
			events += "d"
			for _, p := range rig.Pipes {
				if p != carrier {
					p.ReleaseSends()
				}
			}
			settle()
			ev("drop in-flight carrier at %v", t)
			if R == 0 {
				// retries disabled: the request is cancelled
				for _, p := range rig.Pipes {
					p.ReleaseSends()
				}
				rc := mon.Go("Recv", func() (interface{}, error) { b, err := ctx.Recv(); return b, err })
				if !c.AwaitOrViolate("req/recv-stuck-at-inflight-loss", "Recv after the in-flight connection was lost with RetryTime=0", rc.Done, mon.AwaitOpts{}) {
					return
				}
				if _, err, _ := rc.Result(); err != mangos.ErrCanceled && err != mangos.ErrProtoState {
					c.Violate("req/retry0-loss-not-canceled", "RetryTime=0 and the carrying connection was lost in flight: Recv returned %v", err)
				}
				mon.Sleep(30 * time.Millisecond)
				if n := len(rig.TxsOf(fi, 1)); n > 0 {
					c.Violate("req/resent-with-retries-disabled", "RetryTime=0 but the request was transmitted %d time(s) after its in-flight connection closed", n)
				}
				c.Nontrivial()
				c.Sig("held|d|r0")
				return
			}
			if len(rig.LivePipes()) == 0 {
				rig.AddPipe()
				events += "A"
			}
		}
		for _, p := range rig.Pipes {
			p.ReleaseSends()
		}
	}
	txs, ok := rig.AwaitTx(fi, 1, 1, maxTimer, "req/request-not-transmitted")
	if !ok {
		return
	}
	ev("tx0 on pipe %d at %v", txs[0].PipeN, txs[0].T)
	recvCall := mon.Go("Recv", func() (interface{}, error) { b, err := ctx.Recv(); return b, err })
	// The verdicts below ("Recv fails with the cancellation error") are about a Recv that is waiting when the
	// fault happens; a Recv that enters only after the request was cancelled legitimately reports "no request
	// outstanding" instead.  So the script goes on only once Recv is really parked inside the library.
	if !recvCall.ParkedIn("RecvMsg") {
		if recvCall.Done() {
			_, err, _ := recvCall.Result()
			c.Violate("req/recv-returned-unanswered", "Recv on an outstanding, unanswered request returned %v before any fault or reply", err)
		} else {
			c.Inconclusive("Recv neither parked nor done")
		}
		return
	}

	lastTx := func() hx.WireTx { t := rig.TxsOf(fi, 1); return t[len(t)-1] }
	expectResend := func(why string, prevN int) bool {
		// a live, idle pipe exists?
		if len(rig.LivePipes()) == 0 {
			return true
		}
		_, ok := rig.AwaitTx(fi, 1, prevN+1, maxTimer, "req/no-resend-after-"+why)
		return ok
	}
	canceled := false // R == 0 and the carrier was lost: request is cancelled
	for f := 0; f < sp.Faults && !c.Failed() && !canceled; f++ {
		n := len(rig.TxsOf(fi, 1))
		live := rig.LivePipes()
		switch x := c.Rand.Intn(10); {
		case x < 4 && len(live) > 0 && (!sp.FNP || len(live) > 1): // drop the carrier of the latest transmission
			lt := lastTx()
			if cl, _, _ := lt.Pipe.Closed(); cl {
				continue
			}
			t := lt.Pipe.Drop()
			drops = append(drops, &dropEv{pipe: lt.Pipe, t: t})
			settle()
			events += "D"
			ev("drop carrier pipe %d at %v", lt.PipeN, t)
			if R == 0 {
				canceled = true
				break
			}
			if len(rig.LivePipes()) == 0 {
				rig.AddPipe()
				events += "A"
			}
			if !expectResend("connection-loss", n) {
				return
			}
		case x < 6 && len(live) > 1: // drop a pipe that does not carry the request
			lt := lastTx()
			for _, p := range live {
				if p != lt.Pipe {
					t := p.Drop()
					drops = append(drops, &dropEv{pipe: p, t: t})
					settle()
					events += "o"
					ev("drop other pipe at %v", t)
					break
				}
			}
		case x < 7 && c.Rand.Intn(2) == 0 && R > 0 && R < time.Hour && !sp.FNP:
			// no peer at all for several retry intervals: the request waits in the queue, retry timers
			// expire meanwhile, and when a peer finally connects it is transmitted ONCE
			for _, p := range live {
				t := p.Drop()
				drops = append(drops, &dropEv{pipe: p, t: t})
				ndropped++
			}
			awaitDetached()
			w := window{start: mon.Now()}
			mon.Sleep(5*R/2 + 60*time.Millisecond)
			w.end = mon.Now()
			windows = append(windows, w)
			events += "W"
			ev("no peer from %v to %v", w.start, w.end)
			rig.AddPipe()
			if !expectResend("connection-loss", n) {
				return
			}
		case x < 7:
			rig.AddPipe()
			events += "A"
		case x < 9 && R > 0 && R < time.Hour: // wait for a timer-caused retransmission
			if len(live) == 0 {
				rig.AddPipe()
			}
			events += "T"
			if _, ok := rig.AwaitTx(fi, 1, n+1, R, "req/no-resend-after-retry-interval"); !ok {
				return
			}
		default:
			events += "s"
			mon.Sleep(time.Duration(c.Rand.Intn(20)) * time.Millisecond)
		}
	}
	if c.Failed() {
		return
	}
	if len(rig.LivePipes()) == 0 {
		rig.AddPipe()
		events += "A"
		if !canceled && R > 0 {
			if !expectResend("connection-loss", len(rig.TxsOf(fi, 1))) {
				return
			}
		}
	}

	// loseCarrier drops the connection that carried the latest transmission of request k while another
	// connection stays (one is added first if need be), and waits until the socket has detached it.
	loseCarrier := func(k int) {
		txs := rig.TxsOf(fi, k)
		if len(txs) == 0 || c.Failed() {
			return
		}
		lt := txs[len(txs)-1]
		if cl, _, _ := lt.Pipe.Closed(); cl {
			return
		}
		if len(rig.LivePipes()) < 2 {
			rig.AddPipe()
		}
		t := lt.Pipe.Drop()
		ndropped++
		awaitDetached()
		events += "L"
		ev("drop carrier of request %d after its end at %v", k, t)
		c.Count("carrier_lost_after_end", 1)
	}

	// ---- end of the request's life ----
	var endT time.Duration
	id := txs[0].ID
	waitRecv := func() (interface{}, error, bool) {
		if !c.AwaitOrViolate("req/recv-stuck-at-"+sp.End, "Recv returning after "+sp.End, recvCall.Done, mon.AwaitOpts{MaxTimer: maxTimer}) {
			return nil, nil, false
		}
		v, err, _ := recvCall.Result()
		return v, err, true
	}
	if canceled {
		// retries disabled + connection lost: Recv must fail with the cancellation error, and nothing may be re-sent
		_, err, ok := waitRecv()
		if !ok {
			return
		}
		if err != mangos.ErrCanceled {
			c.Violate("req/retry0-loss-not-canceled", "RetryTime=0 and the carrying connection was lost: Recv returned %v, want ErrCanceled", err)
		}
		endT = mon.Now()
		events += "|cancel"
	} else {
		switch sp.End {
		case "answer":
			live := rig.LivePipes()
			p := live[c.Rand.Intn(len(live))]
			p.Inject(replyWire(id, 1, sp.Empty))
			v, err, ok := waitRecv()
			if !ok {
				return
			}
			if err != nil || !bytes.Equal(v.([]byte), replyWire(id, 1, sp.Empty)[4:]) {
				c.Violate("req/answered-recv-failed", "a connected peer answered request %08x but Recv returned %q, %v", id, v, err)
				return
			}
			endT = mon.Now()
		case "supersede":
			sc := mon.Go("Send2", func() (interface{}, error) { return nil, ctx.Send(rig.ReqBody(fi, 2)) })
			if !c.AwaitOrViolate("req/send-stuck", "superseding Send", sc.Done, mon.AwaitOpts{MaxTimer: maxTimer}) {
				return
			}
			endT = mon.Now()
			_, err, ok := waitRecv()
			if !ok {
				return
			}
			if err != mangos.ErrCanceled {
				c.Violate("req/superseded-recv-error", "Recv pending while a new Send superseded its request returned %v, want ErrCanceled", err)
			}
			// the new request must complete as soon as a peer answers it
			tx2, ok := rig.AwaitTx(fi, 2, 1, maxTimer, "req/request-not-transmitted")
			if !ok {
				return
			}
			if R > 0 && R < time.Hour && c.Rand.Intn(2) == 0 {
				// the request that took a cancelled one's place is a request like any other: left unanswered
				// with its connection up, it is transmitted again when the retry interval has elapsed
				again, ok := rig.AwaitTx(fi, 2, 2, R, "req/no-resend-after-retry-interval:request-after-a-cancelled-one")
				if !ok {
					return
				}
				if !bytes.Equal(again[1].Wire, again[0].Wire) {
					c.Violate("req/retransmission-differs", "retransmission of the superseding request differs:\n first %x\n this  %x", again[0].Wire, again[1].Wire)
					return
				}
				c.Count("retransmissions_of_request_after_cancelled_one", 1)
				events += "T2"
			}
			live := rig.LivePipes()
			live[c.Rand.Intn(len(live))].Inject(replyWire(tx2[0].ID, 2, sp.Empty))
			rc2 := mon.Go("Recv2", func() (interface{}, error) { b, err := ctx.Recv(); return b, err })
			if !c.AwaitOrViolate("req/recv-stuck-after-supersede", "Recv of the superseding request", rc2.Done, mon.AwaitOpts{MaxTimer: maxTimer}) {
				return
			}
			if v, err, _ := rc2.Result(); err != nil || !bytes.Equal(v.([]byte), replyWire(tx2[0].ID, 2, sp.Empty)[4:]) {
				c.Violate("req/superseding-request-not-completed", "the request that superseded a pending one was answered by a peer but Recv returned %q, %v", v, err)
			}
		case "ctxclose":
			if err := ctx.Close(); err != nil {
				c.Violate("req/ctx-close-error", "context Close returned %v", err)
			}
			endT = mon.Now()
			_, err, ok := waitRecv()
			if !ok {
				return
			}
			if err != mangos.ErrClosed {
				c.Violate("req/ctxclose-recv-error", "Recv pending at context Close returned %v, want ErrClosed", err)
			}
		case "sockclose":
			if err := rig.Sock.Close(); err != nil {
				c.Violate("req/sock-close-error", "socket Close returned %v", err)
			}
			endT = mon.Now()
			_, err, ok := waitRecv()
			if !ok {
				return
			}
			if err != mangos.ErrClosed {
				c.Violate("req/sockclose-recv-error", "Recv pending at socket Close returned %v, want ErrClosed", err)
			}
		case "recvtimeout":
			// the first Recv is still parked; a second context-level deadline cannot be set on it, so supersede via
			// deadline on a fresh request instead: close out the pending one by a deadline Recv on a new request.
			ctx.SetOption(mangos.OptionRecvDeadline, 25*time.Millisecond)
			sc := mon.Go("Send2", func() (interface{}, error) { return nil, ctx.Send(rig.ReqBody(fi, 2)) })
			if !c.AwaitOrViolate("req/send-stuck", "second Send", sc.Done, mon.AwaitOpts{MaxTimer: maxTimer}) {
				return
			}
			endT = mon.Now()
			if _, _, ok := waitRecv(); !ok {
				return
			}
			rc2 := mon.Go("Recv2", func() (interface{}, error) { b, err := ctx.Recv(); return b, err })
			if !c.AwaitOrViolate("req/recv-deadline-stuck", "Recv with 25ms deadline", rc2.Done, mon.AwaitOpts{MaxTimer: 25*time.Millisecond + maxTimer}) {
				return
			}
			if _, err, _ := rc2.Result(); err != mangos.ErrRecvTimeout {
				c.Violate("req/recv-deadline-error", "unanswered request with 25ms receive deadline: Recv returned %v", err)
			}
			end2 := mon.Now()
			// the timed-out request (k=2) must never be transmitted again either — not by a retry timer and
			// not because the connection that carried it is lost afterwards while another peer is there
			loseCarrier(2)
			w := 3 * R
			if w > 300*time.Millisecond || w == 0 {
				w = 60 * time.Millisecond
			}
			mon.Sleep(w)
			for _, tx := range rig.TxsOf(fi, 2) {
				if tx.T > end2 {
					c.Violate("req/transmitted-after-recv-timeout", "request %08x was transmitted at %v, after its Recv had timed out at %v", tx.ID, tx.T, end2)
				}
			}
		}
		events += "|" + sp.End
	}

	// ---- never again ----
	// (a connection loss after the request's life has ended must not bring it back either)
	if sp.End != "sockclose" && c.Rand.Intn(2) == 0 {
		loseCarrier(1)
	}
	w := 4 * R
	if R == 0 || R >= time.Hour {
		w = 50 * time.Millisecond
	}
	if w > 500*time.Millisecond {
		w = 500 * time.Millisecond
	}
	mon.Sleep(w)
	all := rig.TxsOf(fi, 1)
	for _, tx := range all {
		if tx.T > endT {
			c.Violate("req/transmitted-after-"+endKind(sp.End, canceled), "request %08x was transmitted on pipe %d at %v, after it had been %s at %v", tx.ID, tx.PipeN, tx.T, endKind(sp.End, canceled), endT)
		}
	}

	// ---- monitor over the transmission log ----
	c.Count("transmissions", len(all))
	for j, tx := range all {
		if !bytes.Equal(tx.Wire, all[0].Wire) {
			c.Violate("req/retransmission-differs", "retransmission %d differs from the first transmission:\n first %x\n this  %x", j, all[0].Wire, tx.Wire)
		}
	}
	tokens := []*token{}
	if R > 0 && len(all) > 0 {
		tokens = append(tokens, &token{L: L0, U: all[0].T, valid: true})
	}
	slack := 50*time.Millisecond + 20*mon.CanaryWorst()
	for j := 1; j < len(all); j++ {
		tx := all[j]
		prev := all[j-1]
		// a timer that certainly expired while the request was waiting in the queue with no peer
		// connected is covered by the one transmission made when a peer arrives
		for _, tk := range tokens {
			for _, w := range windows {
				if tk.valid && w.end <= tx.T && tk.U+R+slack <= w.end {
					tk.valid = false
				}
			}
		}
		cause := ""
		var L time.Duration
		for _, d := range drops {
			if !d.used && d.pipe == prev.Pipe && d.t <= tx.T {
				d.used = true
				cause = "close"
				L = d.t
				break
			}
		}
		if cause == "close" && R == 0 {
			c.Violate("req/resent-with-retries-disabled", "RetryTime=0 but the request was re-sent on pipe %d after its connection closed", tx.PipeN)
		}
		if cause == "" {
			// needs an expired timer: a token with L+R <= t_obs
			for _, tk := range tokens {
				if tk.valid && tk.L+R <= tx.T {
					tk.valid = false
					cause = "timer"
					L = tk.L + R
					break
				}
			}
			if cause == "" {
				lb := time.Duration(-1)
				for _, tk := range tokens {
					if tk.valid {
						lb = tk.L + R
					}
				}
				c.Violate("req/resend-too-soon", "transmission %d of request %08x at %v has no cause: its previous carrier (pipe %d) was not closed, and no retry interval (%v) had elapsed (earliest possible expiry: %v). transmissions: %s", j, tx.ID, tx.T, prev.PipeN, R, lb, renderTx(all))
				break
			}
		}
		c.Count("retransmissions_"+cause, 1)
		// every timer still pending at this retransmission is superseded by it
		for _, tk := range tokens {
			if tk.valid && tk.L+R > tx.T {
				tk.valid = false
			}
		}
		if R > 0 {
			// the timer is armed when the request is handed to a ready pipe: not before that pipe existed
			rig.Mu.Lock()
			if ct := rig.ConnT[tx.Pipe]; ct > L {
				L = ct
			}
			rig.Mu.Unlock()
			tokens = append(tokens, &token{L: L, U: tx.T, valid: true})
		}
	}
	for _, b := range rig.Bad {
		c.Violate("req/malformed-transmission", "%s", b)
	}

	// ---- the socket still works ----
	if sp.End != "sockclose" && !c.Failed() {
		pi := (fi + 1) % sp.NCtx
		if sp.End == "ctxclose" && pi == fi {
			return
		}
		pc := rig.Ctxs[pi]
		pc.SetOption(mangos.OptionRecvDeadline, time.Duration(0))
		k := 9
		s := mon.Go("ProbeSend", func() (interface{}, error) { return nil, pc.Send(rig.ReqBody(pi, k)) })
		if !c.AwaitOrViolate("req/probe-send-stuck", "probe Send after the script", s.Done, mon.AwaitOpts{MaxTimer: maxTimer}) {
			return
		}
		ptx, ok := rig.AwaitTx(pi, k, 1, maxTimer, "req/probe-not-transmitted")
		if !ok {
			return
		}
		live := rig.LivePipes()
		live[0].Inject(replyWire(ptx[0].ID, 99, sp.Empty && sp.End != "answer"))
		rc := mon.Go("ProbeRecv", func() (interface{}, error) { b, err := pc.Recv(); return b, err })
		if !c.AwaitOrViolate("req/probe-recv-stuck", "probe Recv after the script", rc.Done, mon.AwaitOpts{MaxTimer: maxTimer}) {
			return
		}
		if _, err, _ := rc.Result(); err != nil {
			c.Violate("req/probe-failed", "after the script a plain request/reply on ctx %d failed: %v", pi, err)
		}
	}
	if len(all) > 1 || canceled {
		c.Nontrivial()
	}
	c.Sig("%s|%s|%s|r%d|tx%d|fnp%v", sp.Start, events, sp.End, sp.RetryMs, len(all), sp.FNP || sp.Mixed)
}

func endKind(end string, canceled bool) string {
	if canceled {
		return "cancelled-by-connection-loss"
	}
	switch end {
	case "answer":
		return "answered"
	case "supersede", "recvtimeout":
		return "superseded"
	case "ctxclose", "sockclose":
		return "closed"
	}
	return end
}

func renderTx(all []hx.WireTx) string {
	s := ""
	for j, tx := range all {
		s += fmt.Sprintf("[#%d pipe %d t=%v] ", j, tx.PipeN, tx.T)
	}
	return s
}

// runMultiCtx: several contexts have a request outstanding on the SAME connection when it closes;
// every one of them must be re-sent to a ready peer at once (RetryTime is one hour, so only the
// connection loss can cause it).
func runMultiCtx(c *mon.Case, sp spec) {
	rig := hx.NewReqRig(c, "req", sp.NCtx, 1)
	if c.Failed() {
		return
	}
	rig.SetAll(mangos.OptionRetryTime, time.Hour)
	for i := 0; i < sp.NCtx; i++ {
		i := i
		k := mon.Go("Send", func() (interface{}, error) { return nil, rig.Ctxs[i].Send(rig.ReqBody(i, 1)) })
		if !c.AwaitOrViolate("req/send-stuck", fmt.Sprintf("ctx %d Send", i), k.Done, mon.AwaitOpts{}) {
			return
		}
		if _, ok := rig.AwaitTx(i, 1, 1, 0, "req/request-not-transmitted"); !ok {
			return
		}
	}
	first := rig.Pipes[0]
	for i := 0; i < sp.NPipes; i++ {
		rig.AddPipe()
	}
	t := first.Drop()
	c.Logf("dropped the connection carrying %d outstanding requests at %v", sp.NCtx, t)
	for i := 0; i < sp.NCtx; i++ {
		txs, ok := rig.AwaitTx(i, 1, 2, 0, "req/no-resend-after-connection-loss:several-contexts")
		if !ok {
			return
		}
		if !bytes.Equal(txs[1].Wire, txs[0].Wire) {
			c.Violate("req/retransmission-differs", "ctx %d: retransmission differs from the first transmission", i)
		}
		if txs[1].T < t {
			c.Violate("req/resend-too-soon", "ctx %d: re-sent at %v, before its connection was dropped at %v, with a one hour retry time", i, txs[1].T, t)
		}
		if len(txs) > 2 {
			c.Violate("req/resend-too-soon", "ctx %d: %d transmissions for one connection loss: %s", i, len(txs), renderTx(txs))
		}
		c.Count("retransmissions_close", 1)
	}
	// all complete once answered
	for i := 0; i < sp.NCtx; i++ {
		i := i
		txs := rig.TxsOf(i, 1)
		live := rig.LivePipes()
		live[i%len(live)].Inject(replyWire(txs[0].ID, 100+i, sp.Empty && i%2 == 0))
		k := mon.Go("Recv", func() (interface{}, error) { b, e := rig.Ctxs[i].Recv(); return b, e })
		if !c.AwaitOrViolate("req/recv-stuck-at-answer", fmt.Sprintf("ctx %d Recv of its reply", i), k.Done, mon.AwaitOpts{}) {
			return
		}
		if v, e, _ := k.Result(); e != nil || !bytes.Equal(v.([]byte), replyWire(txs[0].ID, 100+i, sp.Empty && i%2 == 0)[4:]) {
			c.Violate("req/answered-recv-failed", "ctx %d: Recv returned %q, %v", i, v, e)
		}
	}
	c.Nontrivial()
	c.Sig("multictx|%d|%d", sp.NCtx, sp.NPipes)
}
