//go:build verif

package c04

import (
	"bytes"
	"time"

	"go.nanomsg.org/mangos/v3"

	"verifharness/hx"
	"verifharness/mon"
)

// runAnswered: the reply has arrived but the application has not collected it yet when the
// connection that carried the request closes.  The request is answered: "it is never transmitted
// again after it was answered" — neither at once on another connection nor when retry intervals go
// by — and the Recv that follows returns that reply (with retries disabled too: an answered
// request is not cancelled by the loss of its connection).
func runAnswered(c *mon.Case, sp spec) {
	R := time.Duration(sp.RetryMs) * time.Millisecond
	rig := hx.NewReqRig(c, "req", sp.NCtx, sp.NPipes)
	if c.Failed() {
		return
	}
	rig.SetAll(mangos.OptionRetryTime, R)
	fi := c.Rand.Intn(sp.NCtx)
	ctx := rig.Ctxs[fi]
	k := mon.Go("Send", func() (interface{}, error) { return nil, ctx.Send(rig.ReqBody(fi, 1)) })
	if !c.AwaitOrViolate("req/send-stuck", "Send with a connected peer", k.Done, mon.AwaitOpts{MaxTimer: R % time.Hour}) {
		return
	}
	if _, err, _ := k.Result(); err != nil {
		c.Violate("req/send-error", "Send returned %v", err)
		return
	}
	txs, ok := rig.AwaitTx(fi, 1, 1, R%time.Hour, "req/request-not-transmitted")
	if !ok {
		return
	}
	carrier := txs[0].Pipe
	carrier.Inject(hx.ReplyWire(txs[0].ID, 1))
	if !rig.Drained(carrier) {
		return
	}
	n0 := len(rig.TxsOf(fi, 1))
	// the carrier goes (and, in half the cases, a retry interval or two goes by as well)
	before := rig.Watch.Detached()
	carrier.Drop()
	if !c.AwaitOrViolate("harness:detach-stuck", "dropped carrier being detached", func() bool { return rig.Watch.Detached() > before }, mon.AwaitOpts{}) {
		return
	}
	if len(rig.LivePipes()) == 0 {
		rig.AddPipe()
	}
	wait := 20 * time.Millisecond
	if R > 0 && R < time.Hour && c.Rand.Intn(2) == 0 {
		wait = 5*R/2 + 20*time.Millisecond
	}
	mon.Sleep(wait)
	if n := len(rig.TxsOf(fi, 1)); n > n0 {
		c.Violate("req/resent-after-answer", "the request was transmitted %d more time(s) after its reply had arrived (the carrying connection closed before the application called Recv; RetryTime %v)", n-n0, R)
		return
	}
	rk := mon.Go("Recv", func() (interface{}, error) { b, e := ctx.Recv(); return b, e })
	if !c.AwaitOrViolate("req/recv-stuck-at-answer", "Recv of a reply that arrived before the carrying connection closed", rk.Done, mon.AwaitOpts{MaxTimer: R % time.Hour}) {
		return
	}
	if v, err, _ := rk.Result(); err != nil || !bytes.Equal(v.([]byte), hx.ReplyWire(txs[0].ID, 1)[4:]) {
		c.Violate("req/answered-recv-failed", "the reply to request %08x had arrived when its connection closed, but Recv returned (%q, %v) (RetryTime %v)", txs[0].ID, v, err, R)
		return
	}
	mon.Sleep(10 * time.Millisecond)
	if n := len(rig.TxsOf(fi, 1)); n > n0 {
		c.Violate("req/resent-after-answer", "the request was transmitted %d more time(s) after it was answered", n-n0)
		return
	}
	c.Nontrivial()
	c.Sig("answered|r%d|%d|%d", sp.RetryMs, sp.NCtx, sp.NPipes)
}
