//go:build verif

package c04

import (
	"bytes"
	"time"

	"go.nanomsg.org/mangos/v3"

	"verifharness/hx"
	"verifharness/mon"
)

// runAnswered: the reply has arrived but the application has not collected it yet when the
// connection that carried the request closes.  The request is answered: "it is never transmitted
// again after it was answered" — neither at once on another connection nor when retry intervals go
// by — and the Recv that follows returns that reply (with retries disabled too: an answered
// request is not cancelled by the loss of its connection).
func runAnswered(c *mon.Case, sp spec) {
	R := time.Duration(sp.RetryMs) * time.Millisecond
	rig := hx.NewReqRig(c, "req", sp.NCtx, sp.NPipes)
	if c.Failed() {
		return
	}
	rig.SetAll(mangos.OptionRetryTime, R)
	fi := c.Rand.Intn(sp.NCtx)
	ctx := rig.Ctxs[fi]
	k := mon.Go("Send", func() (interface{}, error) { return nil, ctx.Send(rig.ReqBody(fi, 1)) })
	if !c.AwaitOrViolate("req/send-stuck", "Send with a connected peer", k.Done, mon.AwaitOpts{MaxTimer: R % time.Hour}) {
		return
	}
	if _, err, _ := k.Result(); err != nil {
		c.Violate("req/send-error", "Send returned %v", err)
		return
	}
	txs, ok := rig.AwaitTx(fi, 1, 1, R%time.Hour, "req/request-not-transmitted")
	if !ok {
		return
	}
	carrier := txs[0].Pipe
	carrier.Inject(replyWire(txs[0].ID, 1, sp.Empty))
	if !rig.Drained(carrier) {
		return
	}
	n0 := len(rig.TxsOf(fi, 1))
	// the carrier goes (and, in half the cases, a retry interval or two goes by as well)
	before := rig.Watch.Detached()
	carrier.Drop()
	if !c.AwaitOrViolate("harness:detach-stuck", "dropped carrier being detached", func() bool { return rig.Watch.Detached() > before }, mon.AwaitOpts{}) {
		return
	}
	if len(rig.LivePipes()) == 0 {
		rig.AddPipe()
	}
	wait := 20 * time.Millisecond
	if R > 0 && R < time.Hour && c.Rand.Intn(2) == 0 {
		wait = 5*R/2 + 20*time.Millisecond
	}
	mon.Sleep(wait)
	if n := len(rig.TxsOf(fi, 1)); n > n0 {
		c.Violate("req/resent-after-answer", "the request was transmitted %d more time(s) after its reply had arrived (the carrying connection closed before the application called Recv; RetryTime %v)", n-n0, R)
		return
	}
	rk := mon.Go("Recv", func() (interface{}, error) { b, e := ctx.Recv(); return b, e })
	if !c.AwaitOrViolate("req/recv-stuck-at-answer", "Recv of a reply that arrived before the carrying connection closed", rk.Done, mon.AwaitOpts{MaxTimer: R % time.Hour}) {
		return
	}
	if v, err, _ := rk.Result(); err != nil || !bytes.Equal(v.([]byte), replyWire(txs[0].ID, 1, sp.Empty)[4:]) {
		c.Violate("req/answered-recv-failed", "the reply to request %08x had arrived when its connection closed, but Recv returned (%q, %v) (RetryTime %v)", txs[0].ID, v, err, R)
		return
	}
	mon.Sleep(10 * time.Millisecond)
	if n := len(rig.TxsOf(fi, 1)); n > n0 {
		c.Violate("req/resent-after-answer", "the request was transmitted %d more time(s) after it was answered", n-n0)
		return
	}
	c.Nontrivial()
	c.Sig("answered|r%d|%d|%d", sp.RetryMs, sp.NCtx, sp.NPipes)
}

// runSupersedeRace: the carrying connection closes (which schedules an immediate re-send of the
// request) and at the same moment the application supersedes the request with a new Send.  The
// schedule is perturbed at the point where the scheduled re-send starts, so that it often runs only
// after the new request has taken the old one's place.  The re-send is for the old request: it must
// not transmit anything now — in particular not the new request a second time (the retry interval
// is 10 s; every transmission of the new request beyond the first is too soon).
func runSupersedeRace(c *mon.Case, sp spec) {
	rig := hx.NewReqRig(c, "req", sp.NCtx, 2)
	if c.Failed() {
		return
	}
	const R = 10 * time.Second
	rig.SetAll(mangos.OptionRetryTime, R)
	fi := c.Rand.Intn(sp.NCtx)
	ctx := rig.Ctxs[fi]
	hx.SetYields(c.Rand.Int63(), &hx.YieldCfg{ProbSleep: 0.8, ProbGosched: 0.2, MaxSleep: 600 * time.Microsecond})
	defer hx.SetYields(0, nil)
	send := func(k int) bool {
		call := mon.Go("Send", func() (interface{}, error) { return nil, ctx.Send(rig.ReqBody(fi, k)) })
		if !c.AwaitOrViolate("req/send-stuck", "Send with a connected peer", call.Done, mon.AwaitOpts{}) {
			return false
		}
		if _, err, _ := call.Result(); err != nil {
			c.Violate("req/send-error", "Send returned %v", err)
			return false
		}
		return true
	}
	k := 0
	for round := 0; round < 6 && !c.Failed(); round++ {
		k++
		if !send(k) {
			return
		}
		txs, ok := rig.AwaitTx(fi, k, 1, 0, "req/request-not-transmitted")
		if !ok {
			return
		}
		// the carrier goes, and at once the request is superseded
		txs[0].Pipe.Drop()
		if d := c.Rand.Intn(300); d > 0 {
			mon.Sleep(time.Duration(d) * time.Microsecond)
		}
		k++
		if !send(k) {
			return
		}
		if _, ok := rig.AwaitTx(fi, k, 1, 0, "req/request-not-transmitted"); !ok {
			return
		}
		mon.Sleep(4 * time.Millisecond)
		if all := rig.TxsOf(fi, k); len(all) > 1 {
			c.Violate("req/resend-too-soon", "a request that superseded one whose connection had just closed was transmitted %d times within %v (retry interval %v): the re-send scheduled for the superseded request transmitted the new one", len(all), all[len(all)-1].T-all[0].T, R)
			return
		}
		if n := len(rig.TxsOf(fi, k-1)); n > 2 {
			c.Violate("req/resent-after-supersede", "the superseded request was transmitted %d times", n)
			return
		}
		// answer it, and make sure two connections are there for the next round
		tx := rig.TxsOf(fi, k)[0]
		tx.Pipe.Inject(hx.ReplyWire(tx.ID, k))
		rk := mon.Go("Recv", func() (interface{}, error) { b, e := ctx.Recv(); return b, e })
		if !c.AwaitOrViolate("req/recv-stuck-at-answer", "Recv of the superseding request's reply", rk.Done, mon.AwaitOpts{}) {
			return
		}
		if v, err, _ := rk.Result(); err != nil {
			c.Violate("req/answered-recv-failed", "Recv returned (%q, %v)", v, err)
			return
		}
		for len(rig.LivePipes()) < 2 {
			rig.AddPipe()
		}
	}
	c.Count("supersede_races", 6)
	c.Nontrivial()
	c.Sig("supersede-race|%d", sp.NCtx)
}
