package c09

import (
	"bytes"
	"encoding/binary"
	"fmt"
	"math/rand"

	"go.nanomsg.org/mangos/v3"

	"verifharness/hx"
	"verifharness/mon"
	"verifharness/vt"
)

// Forwarding loops always die out.
//
//	reqrep / survey / pair1:   two devices wired in a cycle
//	      A.front|A.back --> B.front|B.back --> (tap) --> A.front
//	star:                      one STAR socket whose two peers are joined by the tap
//
// The tap is the only way round the cycle, the cycle is a single path and every
// stage of it is FIFO, so a sentinel injected at the tap behind a message comes
// back to the tap behind every later lap of that message.  The harness relays
// each lap it sees; the reference model says how many laps the statement allows.
// Only an EXCESS lap (a message over the limit was forwarded) refutes "loops die
// out"; fewer laps are the business of the boundary grid.

func c09LoopCases(r *mon.Runner, rnd *rand.Rand) []mon.CaseSpec {
	var out []mon.CaseSpec
	ttls := []int{0, 1, 2, 3, 5, 8, 13}
	if r.Thorough() {
		ttls = []int{0, 1, 2, 3, 4, 5, 6, 7, 8, 9, 13, 21, 40}
	}
	for rep := 0; rep < r.Pick(2, 6); rep++ {
		for _, fam := range []string{"reqrep", "survey", "pair1", "star"} {
			for _, a := range ttls {
				bs := []int{a}
				if fam != "star" {
					bs = ttls
					if !r.Thorough() {
						bs = []int{a, ttls[rnd.Intn(len(ttls))]}
					}
				}
				for _, b := range bs {
					out = append(out, mon.CaseSpec{Name: "loop-" + fam, Spec: c09Spec{Kind: "loop", Fam: fam, TTL: a, TTL2: b, N: 1 + rnd.Intn(3),
						Tr: []string{"inproc", "ipc", "ipc", "tcp"}[rnd.Intn(4)]}})
				}
			}
		}
	}
	return out
}

// lap identifies a message as seen at the tap: which injected message, and how far it has travelled.
type c09Lap struct {
	id int // injected message index; -1 = sentinel
	k  int // connections crossed so far (reqrep/survey: routing words; pair1/star: hop field + 1)
}

func c09Loop(c *mon.Case, sp c09Spec) {
	fam := sp.Fam
	wf := "rr"
	if fam == "pair1" {
		wf = "p1"
	} else if fam == "star" {
		wf = "star"
	}
	eff := func(t int) int {
		if t == 0 {
			return 8
		}
		return t
	}
	ttlA, ttlB := eff(sp.TTL), eff(sp.TTL2)
	rig := newC09Rig(c, sp)
	var tapIn, tapOut *vt.Pipe // tapIn: what comes round the loop; tapOut: where the harness puts it back
	var drain []*c09Sock       // sockets whose application side must be read (STAR delivers a copy upward)
	ok := true
	if fam == "star" {
		s := rig.sock([]string{"star", "xstar"}[c.Rand.Intn(2)], "loop star")
		if sp.TTL != 0 {
			rig.setTTL(s, sp.TTL)
		}
		ln := hx.Uniq("c09s")
		c.Cleanup(func() { vt.Forget(ln) })
		if err := s.s.Listen(vt.Addr(ln)); err != nil {
			c.Inconclusive("listen: %v", err)
			return
		}
		tapOut = vt.L(ln).Connect()
		tapIn = vt.L(ln).Connect()
		s.want = 2
		drain = append(drain, s)
	} else {
		fd := c09Fams[fam]
		af, ab := rig.sock(fd.front, "A."+fd.front), rig.sock(fd.back, "A."+fd.back)
		bf, bb := rig.sock(fd.front, "B."+fd.front), rig.sock(fd.back, "B."+fd.back)
		if sp.TTL != 0 {
			rig.setTTL(af, sp.TTL)
		}
		if sp.TTL2 != 0 {
			rig.setTTL(bf, sp.TTL2)
		}
		ok = rig.connect(bf, ab)
		if ok {
			tapIn, tapOut, ok = rig.tap(af, bb)
		}
		if ok && rig.waitAttached() {
			for _, d := range [][2]*c09Sock{{af, ab}, {bf, bb}} {
				if err := mangos.Device(d[0].s, d[1].s); err != nil {
					c.Violate("loop:"+fam+"/device-refused", "mangos.Device = %v", err)
					return
				}
			}
		} else {
			ok = false
		}
	}
	if !ok || c.Failed() || !rig.waitAttached() {
		return
	}
	for _, s := range drain {
		s := s
		rig.goHelper(func() {
			for {
				m, err := s.s.RecvMsg()
				if err != nil {
					return
				}
				m.Free()
			}
		})
	}

	// reference model: after being put in at the tap having crossed k connections, does the message come round again?
	// receivers on the way: A (ttlA), then B (ttlB) — STAR has only A.
	pass := func(k, ttl int) bool { return c09Deliver(wf, k, ttl) }
	comesRound := func(k int) (bool, int) { // k = connections crossed when it arrives at A
		if !pass(k, ttlA) {
			return false, 0
		}
		if fam == "star" {
			return true, k + 1
		}
		if !pass(k+1, ttlB) {
			return false, 0
		}
		return true, k + 2
	}

	nonce := fmt.Sprintf("%x", c.Rand.Uint64())
	body := func(id int) []byte { return []byte(fmt.Sprintf("L|%d|%s|", id, nonce)) }
	parse := func(w []byte) (c09Lap, []byte, bool) {
		var k int
		var rest []byte
		if wf == "rr" {
			k = routingWords(w)
			if k < 1 {
				return c09Lap{}, nil, false
			}
			rest = w[4*k:]
		} else {
			if len(w) < 4 {
				return c09Lap{}, nil, false
			}
			k = int(binary.BigEndian.Uint32(w)) + 1
			rest = w[4:]
		}
		var id int
		var n string
		if _, err := fmt.Sscanf(string(bytes.ReplaceAll(rest, []byte("|"), []byte(" "))), "L %d %s", &id, &n); err != nil || n != nonce {
			return c09Lap{}, nil, false
		}
		return c09Lap{id: id, k: k}, rest, true
	}

	// inject N messages (k=1: as if a client sat at the tap), relay every lap, then the sentinel (id -1)
	cursor := 0
	laps := map[int]int{}     // id -> laps seen at the tap
	allowed := map[int]int{}  // id -> laps the statement allows
	expected := map[int]int{} // id -> k of the next lap the model expects (0 = none)
	inject := func(id int) {
		w, _ := c09Wire(wf, 1, body(id), c.Rand)
		tapOut.Inject(w)
		// how many times may it come round?
		k := 1
		for n := 0; ; n++ {
			okc, nk := comesRound(k)
			if !okc {
				allowed[id] = n
				break
			}
			k = nk
		}
		if okc, nk := comesRound(1); okc {
			expected[id] = nk
		}
	}
	total := 0
	for id := 0; id < sp.N; id++ {
		inject(id)
		total += allowed[id]
	}
	sentinelIn := false
	sentinelBack := false
	excess := false
	// process the tap until the sentinel has come back (or, if the model says it never comes round, until quiescence)
	step := func() bool { // returns true when finished
		for _, e := range tapIn.SentFrom(cursor) {
			cursor = e.Seq + 1
			lp, rest, okp := parse(e.Wire())
			if !okp {
				c.Violate("loop:"+fam+"/unknown-at-tap", "tap saw %x", e.Wire())
				return true
			}
			c.Count("loop_laps_seen", 1)
			if !bytes.Equal(rest, body(lp.id)) {
				c.Violate("loop:"+fam+"/modified", "lap k=%d of message %d carries %q", lp.k, lp.id, rest)
			}
			laps[lp.id]++
			if laps[lp.id] > allowed[lp.id] {
				excess = true
				c.Violate(fmt.Sprintf("loop:%s/forwarded-over-limit", fam), "TTLs A=%d B=%d: message %d came round the loop a %d-th time having crossed %d connections; the statement allows %d laps (a receiver must have dropped it)", ttlA, ttlB, lp.id, laps[lp.id], lp.k, allowed[lp.id])
				return true
			}
			if lp.id == -1 {
				sentinelBack = true
				return true
			}
			tapOut.Inject(e.Wire()) // relay: next lap
		}
		done := true
		for id := 0; id < sp.N; id++ {
			if laps[id] < allowed[id] {
				done = false
			}
		}
		if done && !sentinelIn {
			// every allowed lap has been seen and relayed; anything further would be an excess lap.
			// The sentinel goes in behind the last relayed lap on the same pipe.
			sentinelIn = true
			inject(-1)
		}
		return false
	}
	res := mon.Await(func() bool { return step() }, mon.AwaitOpts{})
	switch {
	case c.Failed():
	case res.V == mon.Done:
	case res.V == mon.Stuck:
		// quiescent without the sentinel coming back.  Legitimate iff the model says the sentinel (k=1) does
		// not come round at all (TTL too small), or fewer laps than allowed were made (not a loop-dies-out matter).
		if sentinelIn && allowed[-1] > 0 {
			c.Count("loop_sentinel_lost", 1) // under-forwarding: the boundary grid's business; the loop is silent all the same
		}
		c.Count("loop_silence_by_quiescence", 1)
	default:
		c.Inconclusive("loop not finished after %v", res.Waited)
		return
	}
	if excess {
		return
	}
	seen := 0
	for id := 0; id < sp.N; id++ {
		seen += laps[id]
	}
	c.Count("loop_laps_allowed", total)
	c.Count("loop_messages", sp.N)
	c.Count("loop_cases_"+fam, 1)
	if total > 0 && seen > 0 {
		c.Nontrivial()
	}
	c.Sig("loop|%s|A=%d|B=%d|n=%d|seen=%d|allowed=%d|sentinel=%v|%s", fam, ttlA, ttlB, sp.N, seen, total, sentinelBack, rig.trSig())
}
