package c09

import (
	"fmt"
	"runtime"
	"sort"
	"testing"

	"verifharness/hx"
	"verifharness/mon"
)

// C09 — devices forward transparently and the hop limit is exact.
//
// Part A (c09_grid_test.go): TTL x hop-count boundary grid on the eight
// receivers over a vt pipe, plus the OptionTTL value contract.
// Part B (c09_chain_test.go, c09_loop_test.go, c09_held_test.go,
// c09_replace_test.go): real mangos.Device chains with concurrent clients,
// forwarding loops that must die out, chains whose cooked server holds several
// requests at once, chains in which connections go away and are replaced, and
// (c09_fan_test.go) SURVEY chains with several respondents behind them whose
// responses the application collects in its own time.

type c09Spec struct {
	Kind string `json:"kind"` // grid | opt | chain (also the deep chains of c09_deep_test.go) | loop | slow | held | replace | fan | wire | burst

	// grid / opt
	Recv string `json:"recv,omitempty"` // rep xrep respondent xrespondent xpair1 pair1 xstar star
	TTL  int    `json:"ttl,omitempty"`  // 0 = leave the default (must behave as 8)

	// chain
	Fam     string `json:"fam,omitempty"`     // reqrep survey pair1 star pipeline pubsub bus
	L       int    `json:"l,omitempty"`       // number of devices between client(s) and server
	RawSrv  bool   `json:"rawsrv,omitempty"`  // server is the raw socket type
	Mode    string `json:"mode,omitempty"`    // default (every TTL left at 8) | set (devices 255, server TTL as given)
	Clients int    `json:"clients,omitempty"` // concurrent clients
	Tr      string `json:"tr,omitempty"`      // inproc | ipc | tcp | tls+tcp | ws | wss | mix | stream | any; wire: the transport of the one connection
	Rounds  int    `json:"rounds,omitempty"`
	Procs   int    `json:"procs,omitempty"`

	// held (chain whose cooked server works on several requests at once)
	Ctx    int `json:"ctx,omitempty"`    // contexts (askers) per client socket
	SrvCtx int `json:"srvctx,omitempty"` // contexts of the server socket

	// loop
	TTL2 int `json:"ttl2,omitempty"` // TTL of the second receiver in the cycle
	N    int `json:"n,omitempty"`    // burst: messages sent back to back per direction (How: one | both directions; Ctx: queue lengths, 0 = defaults; Clients: receivers); messages sent round the loop; replace: connections replaced one after the other; fan: respondents behind the chain

	// replace (chain in which a connection goes away and is replaced by a new one)
	// fan: how the surveyor application collects the responses (eager | late | each)
	How string `json:"how,omitempty"` // pipe (one end closes the connection, the dialler re-establishes it) | restart (a node is closed and a new one takes its place) | make-first (the new server is attached before the old one is closed)
}

func TestMain(m *testing.M) { hx.Main(m) }

var c09Receivers = []string{"rep", "xrep", "respondent", "xrespondent", "xpair1", "pair1", "xstar", "star"}

func TestC09(t *testing.T) {
	r := mon.NewRunner(t, "C09")
	rnd := r.Rand()
	var cases []mon.CaseSpec

	// ---- Part A: grid ----
	var ttls []int
	if r.Thorough() {
		for v := 1; v <= 255; v++ {
			ttls = append(ttls, v)
		}
	} else {
		seen := map[int]bool{}
		for _, v := range []int{1, 2, 3, 8, 127, 254, 255} {
			seen[v] = true
			ttls = append(ttls, v)
		}
		for len(ttls) < 32 {
			v := 1 + rnd.Intn(255)
			if !seen[v] {
				seen[v] = true
				ttls = append(ttls, v)
			}
		}
		sort.Ints(ttls)
	}
	ttls = append(ttls, 0) // default TTL
	for _, rc := range c09Receivers {
		for rep := 0; rep < r.Pick(1, 2); rep++ { // the second pass differs in routing words, payloads and cell order
			for _, v := range ttls {
				cases = append(cases, mon.CaseSpec{Name: "grid-" + rc, Spec: c09Spec{Kind: "grid", Recv: rc, TTL: v}})
			}
		}
		cases = append(cases, mon.CaseSpec{Name: "opt-" + rc, Spec: c09Spec{Kind: "opt", Recv: rc}})
	}

	// ---- Part B: chains and loops ----
	cases = append(cases, c09ChainCases(r, rnd)...)
	cases = append(cases, c09LoopCases(r, rnd)...)
	cases = append(cases, c09HeldCases(r, rnd)...)
	cases = append(cases, c09ReplaceCases(r, rnd)...)
	cases = append(cases, c09FanCases(r, rnd)...)
	cases = append(cases, c09DeepCases(r, rnd)...)
	cases = append(cases, c09WireCases(r, rnd)...)
	cases = append(cases, c09BurstCases(r, rnd)...)

	for i := 0; i < r.Pick(3, 30); i++ {
		cases = append(cases, mon.CaseSpec{Name: "slow-receiver", Spec: c09Spec{Kind: "slow", TTL: i % 3}})
	}
	// interleave the cheap and the expensive cases across shards (deterministic shuffle)
	rnd.Shuffle(len(cases), func(i, j int) { cases[i], cases[j] = cases[j], cases[i] })

	cases = append(cases, c09IDWrapCases(r, rnd)...) // id counters across their boundaries (c09_idwrap_test.go)
	r.Run(cases, func(c *mon.Case) {
		sp := c.Spec.(c09Spec)
		if sp.Procs > 0 {
			old := runtime.GOMAXPROCS(sp.Procs)
			c.Cleanup(func() { runtime.GOMAXPROCS(old) })
		}
		switch sp.Kind {
		case "grid":
			c09Grid(c, sp)
		case "opt":
			c09Opt(c, sp)
		case "chain":
			c09Chain(c, sp)
		case "loop":
			c09Loop(c, sp)
		case "slow":
			c09Slow(c, sp)
		case "held":
			c09Held(c, sp)
		case "replace":
			c09Replace(c, sp)
		case "fan":
			c09Fan(c, sp)
		case "wire":
			c09WireCase(c, sp)
		case "idwrap":
			c09IDWrapCase(c, sp)
		case "burst":
			c09Burst(c, sp)
		default:
			panic(fmt.Sprintf("c09: kind %q", sp.Kind))
		}
	})
}

// kclass names where k sits relative to the TTL (used in violation signatures).
func kclass(k, ttl int) string {
	switch {
	case k == 0:
		return "k=0"
	case k < ttl:
		return "k<TTL"
	case k == ttl:
		return "k=TTL"
	case k == ttl+1:
		return "k=TTL+1"
	case k == ttl+2:
		return "k=TTL+2"
	}
	return "k>TTL+2"
}
