package c09

import (
	"bytes"
	"fmt"
	"math/rand"
	"sort"
	"strconv"
	"sync"
	"sync/atomic"
	"time"

	"go.nanomsg.org/mangos/v3"

	"verifharness/mon"
)

// Part B, "fan" cases — several respondents behind the chain, and a surveyor
// application that collects the responses in its own time.
//
//	asker, asker, ... (SURVEYOR sockets, each with 1-2 contexts)
//	      -- dev1 -- ... -- devL --+-- RESPONDENT 0
//	                               +-- RESPONDENT 1 (cooked or raw)
//	                               +-- ...
//
// Directly connected (L = 0) the surveyor has one connection per respondent and
// every respondent's response comes in on its own connection.  Behind a device
// the very same responses all come in over the surveyor's single connection to
// dev1.  "Interoperate as if directly connected ... every response returns to
// the client that asked" therefore means: each asker gets one response from
// every respondent, 'A|<respondent>|'+its own survey, whatever the number of
// connections the surveyor itself has and whenever the application gets round
// to collecting them.  The plain chain cases have one respondent and a client
// parked in Recv when the response comes; here there are 2-6 respondents and
// the application collects in one of three ways:
//
//	eager  it starts collecting as soon as the survey is out
//	late   it starts after every respondent has answered and the process has gone
//	       quiet (the responses have travelled back and wait in the socket)
//	each   like late, and it also lets the process go quiet before every further
//	       response it takes (an application that works on each response)
//
// The burst that waits in a socket is respondents x askers <= 24 messages, far
// below every queue involved (128, or the OptionReadQLen >= 32 the case set), so
// the configuration is lossless.  Survey time is one hour: nothing but a response
// ends a Recv, and a response that never comes is decided by the stuck detector.
// The quiet periods only shape the workload (no verdict depends on them).

var c09FanHows = []string{"late", "each", "eager"}

func c09FanCases(r *mon.Runner, rnd *rand.Rand) []mon.CaseSpec {
	var out []mon.CaseSpec
	reps := r.Pick(2, 60)
	lmax := r.Pick(4, 9)
	procs := []int{0, 0, 1, 2, 4}
	trs := []string{"stream", "stream", "any", "any", "mix", "ipc", "inproc", "inproc"}
	for rep := 0; rep < reps; rep++ {
		for L := 0; L <= lmax; L++ {
			for _, how := range c09FanHows {
				sp := c09Spec{Kind: "fan", Fam: "survey", L: L, How: how, Mode: "default"}
				if L+1 > 8 || rnd.Intn(2) == 0 {
					b := L + 1 // smallest respondent TTL that delivers
					sp.Mode, sp.TTL = "set", []int{b, b, b + 1, 255}[rnd.Intn(4)]
				}
				sp.Tr = trs[rnd.Intn(len(trs))]
				sp.Procs = procs[rnd.Intn(len(procs))]
				sp.Rounds = 2 + rnd.Intn(r.Pick(2, 4))
				sp.Clients = 1 + rnd.Intn(2)
				sp.Ctx = 1 + rnd.Intn(2)
				sp.N = 2 + rnd.Intn(5)     // respondents
				sp.RawSrv = rnd.Intn(3) == 0 // some of them raw
				out = append(out, mon.CaseSpec{Name: "fan-survey-" + how, Spec: sp})
			}
		}
	}
	return out
}

// c09Quiet waits for a stop-the-world sample in which every goroutine of the process is
// parked.  Workload shaping only: the caller goes on either way.
func c09Quiet(c *mon.Case) {
	d := 50 * time.Microsecond
	for start := mon.Now(); mon.Now()-start < 5*time.Second; {
		if c09Parked() {
			c.Count("fan_quiet_periods", 1)
			return
		}
		mon.Sleep(d)
		if d < 2*time.Millisecond {
			d *= 2
		}
	}
	c.Count("fan_quiet_periods_missed", 1)
}

func c09Fan(c *mon.Case, sp c09Spec) {
	fd := c09Fams["survey"]
	rig := newC09Rig(c, sp)
	L, R := sp.L, sp.N
	srvTTL := 8
	if sp.Mode == "set" {
		srvTTL = sp.TTL
	}
	path := "device"
	if L == 0 {
		path = "direct"
	}
	pre := "fan:survey/" + path + "/" + sp.How

	// ---- build: R respondents, L devices, surveyor sockets; all links real ----
	raw := make([]bool, R)
	nraw := 0
	resp := make([]*c09Sock, R)
	for j := range resp {
		proto := fd.server
		if sp.RawSrv && c.Rand.Intn(2) == 0 {
			raw[j], proto = true, fd.rawServer
			nraw++
		}
		resp[j] = rig.sock(proto, fmt.Sprintf("respondent%d %s", j, proto))
		if sp.Mode == "set" {
			rig.setTTL(resp[j], srvTTL)
		}
	}
	type dev struct{ front, back *c09Sock }
	devs := make([]dev, L+1)
	for i := 1; i <= L; i++ {
		devs[i] = dev{rig.sock(fd.front, fmt.Sprintf("dev%d.%s", i, fd.front)), rig.sock(fd.back, fmt.Sprintf("dev%d.%s", i, fd.back))}
		if sp.Mode == "set" {
			rig.setTTL(devs[i].front, 255)
		}
	}
	qlen := []int{0, 0, 32, 64}[c.Rand.Intn(4)]
	clients := make([]*c09Sock, sp.Clients)
	for j := range clients {
		clients[j] = rig.sock(fd.client, fmt.Sprintf("client%d %s", j, fd.client))
		// set before the contexts are opened (they take the socket's values over)
		clients[j].s.SetOption(mangos.OptionSurveyTime, time.Hour)
		if qlen > 0 {
			if err := clients[j].s.SetOption(mangos.OptionReadQLen, qlen); err != nil {
				c.Violate("fan:survey/read-qlen-rejected", "SetOption(ReadQLen,%d) on a surveyor: %v", qlen, err)
			}
		}
	}
	if c.Failed() {
		return
	}
	if L > 0 {
		for _, rs := range resp {
			if !rig.connect(rs, devs[L].back) {
				return
			}
		}
		for i := L - 1; i >= 1; i-- {
			if !rig.connect(devs[i+1].front, devs[i].back) {
				return
			}
		}
		for _, cl := range clients {
			if !rig.connect(devs[1].front, cl) {
				return
			}
		}
	} else {
		for _, rs := range resp {
			for _, cl := range clients {
				if !rig.connect(rs, cl) {
					return
				}
			}
		}
	}
	if !rig.waitAttached() {
		return
	}
	for i := 1; i <= L; i++ {
		if err := mangos.Device(devs[i].front.s, devs[i].back.s); err != nil {
			c.Violate("chain:survey/device-refused", "mangos.Device(%s,%s) = %v", fd.front, fd.back, err)
			return
		}
	}

	// ---- askers: the socket itself (its built-in context) and opened contexts ----
	type asker struct {
		h      c09Handle
		cl, cx int
	}
	var askers []*asker
	for j, cl := range clients {
		var hs []c09Handle
		if c.Rand.Intn(2) == 0 {
			hs = append(hs, cl.s)
		}
		for len(hs) < sp.Ctx {
			cx, err := cl.s.OpenContext()
			if err != nil {
				c.Violate("fan:survey/open-context-refused", "OpenContext on %s: %v", cl.what, err)
				return
			}
			hs = append(hs, cx)
		}
		for x, h := range hs {
			askers = append(askers, &asker{h: h, cl: j, cx: x})
		}
	}
	N := len(askers)
	rounds := sp.Rounds
	c.Count("chain_devices", L)
	c.Count("chain_clients", sp.Clients)
	c.Count("fan_askers", N)
	c.Count("fan_respondents", R)
	c.Count("fan_respondents_raw", nraw)

	// all payloads up front (the case PRNG is not goroutine safe)
	nonce := fmt.Sprintf("%x", c.Rand.Uint64())
	q := make([][][]byte, N)
	for a := range q {
		for i := 0; i < rounds; i++ {
			fl := make([]byte, c.Rand.Intn(40))
			c.Rand.Read(fl)
			q[a] = append(q[a], append([]byte(fmt.Sprintf("Q|%d|%d|%s|", a, i, nonce)), fl...))
		}
	}

	// ---- the respondents: answer every survey at once with 'A|<respondent>|'+survey ----
	var answered atomic.Int64
	for j := range resp {
		j := j
		tag := []byte(fmt.Sprintf("A|%d|", j))
		rig.goHelper(func() {
			for {
				m, err := resp[j].s.RecvMsg()
				if err != nil {
					return
				}
				if raw[j] { // raw: the routing header goes back as it came
					m.Body = append(append([]byte{}, tag...), m.Body...)
					err = resp[j].s.SendMsg(m)
				} else {
					b := append(append([]byte{}, tag...), m.Body...)
					m.Free()
					err = resp[j].s.Send(b)
				}
				if err != nil {
					return
				}
				answered.Add(1)
			}
		})
	}

	// ---- the surveyor application ----
	var mu sync.Mutex
	got := make([]map[int]bool, N) // this round: respondents heard, per asker
	collected := 0
	describe := func() string {
		mu.Lock()
		defer mu.Unlock()
		s := ""
		for a, g := range got {
			var js []int
			for j := range g {
				js = append(js, j)
			}
			sort.Ints(js)
			s += fmt.Sprintf("\n  asker %d (client %d, context %d): %d of %d responses, from respondents %v", a, askers[a].cl, askers[a].cx, len(js), R, js)
		}
		return s
	}
	where := fmt.Sprintf("L=%d devices (%d connections crossed, respondent TTL %d, mode %s), %d respondents (%d raw), %d surveyor sockets / %d askers, ReadQLen %d (0 = default 128), collecting %q", L, L+1, srvTTL, sp.Mode, R, nraw, sp.Clients, N, qlen, sp.How)

	// collect: every asker takes n further responses of round i
	collect := func(i, n int) bool {
		var wg sync.WaitGroup
		for a := range askers {
			a := a
			wg.Add(1)
			rig.goHelper(func() {
				defer wg.Done()
				for k := 0; k < n; k++ {
					b, err := askers[a].h.Recv()
					if err != nil {
						if !c.Failed() {
							c.Inconclusive("asker %d Recv: %v", a, err)
						}
						return
					}
					// 'A|<j>|' + the survey of this asker and this round
					f := bytes.SplitN(b, []byte("|"), 3)
					j := -1
					if len(f) == 3 && string(f[0]) == "A" {
						if v, e := strconv.Atoi(string(f[1])); e == nil && v >= 0 && v < R {
							j = v
						}
					}
					if j < 0 || !bytes.Equal(f[2], q[a][i]) {
						c.Violate("fan:survey/"+path+"/wrong-response", "asker %d round %d asked %q and received %q — not a respondent's answer to that survey (%s)", a, i, q[a][i][:min(len(q[a][i]), 24)], b[:min(len(b), 30)], where)
						return
					}
					mu.Lock()
					dup := got[a][j]
					got[a][j] = true
					collected++
					mu.Unlock()
					if dup {
						c.Violate("fan:survey/"+path+"/duplicate-response", "asker %d round %d received the response of respondent %d twice (%s)", a, i, j, where)
						return
					}
				}
			})
		}
		all := mon.Go("collect", func() (interface{}, error) { wg.Wait(); return nil, nil })
		res := all.Wait(mon.AwaitOpts{})
		if c.Failed() || c.Undecided() {
			return false
		}
		switch res.V {
		case mon.Done:
			return true
		case mon.Stuck:
			c.Violate(pre+"/response-lost", "round %d: every respondent answers every survey, so each asker is owed %d responses, but every goroutine is parked and the askers hold:%s\n%s\n%s", i, R, describe(), where, res.Dump)
		default:
			c.Inconclusive("round %d: responses not collected after %v:%s", i, res.Waited, describe())
		}
		return false
	}

	for i := 0; i < rounds; i++ {
		mu.Lock()
		for a := range got {
			got[a] = map[int]bool{}
		}
		mu.Unlock()
		i := i
		send := mon.Go("survey", func() (interface{}, error) {
			for a := range askers {
				if err := askers[a].h.Send(q[a][i]); err != nil {
					return a, err
				}
			}
			return nil, nil
		})
		if !c.AwaitOrViolate("fan:survey/"+path+"/send-blocked", fmt.Sprintf("round %d: Send of a survey (%s)", i, where), send.Done, mon.AwaitOpts{}) {
			return
		}
		if a, err, _ := send.Result(); err != nil {
			c.Inconclusive("asker %v Send: %v", a, err)
			return
		}
		if sp.How == "eager" {
			if !collect(i, R) {
				return
			}
			continue
		}
		// every respondent has answered every survey of this round
		want := int64((i + 1) * N * R)
		res := mon.Await(func() bool { return answered.Load() >= want }, mon.AwaitOpts{})
		if res.V == mon.Stuck {
			c.Violate("fan:survey/"+path+"/survey-lost", "round %d: %d askers surveyed %d respondents, but only %d of %d answers (all rounds) were given and every goroutine is parked: a survey did not reach a respondent (%s)\n%s", i, N, R, answered.Load(), want, where, res.Dump)
			return
		} else if res.V != mon.Done {
			c.Inconclusive("round %d: %d of %d answers given after %v", i, answered.Load(), want, res.Waited)
			return
		}
		c09Quiet(c)
		if sp.How == "late" {
			if !collect(i, R) {
				return
			}
			continue
		}
		for k := 0; k < R; k++ {
			if k > 0 {
				c09Quiet(c)
			}
			if !collect(i, 1) {
				return
			}
		}
	}
	mu.Lock()
	c.Count("fan_responses_collected", collected)
	c.Count("chain_messages_compared", collected)
	mu.Unlock()
	c.Count("fan_cases_"+sp.How, 1)
	if L > 0 && !c.Failed() {
		c.Nontrivial()
	}
	c.Sig("fan|survey|L=%d|ttl=%d|%s|%s|cl=%d|askers=%d|R=%d|raw=%d|q=%d|%s|p%d", L, srvTTL, sp.Mode, sp.How, sp.Clients, N, R, nraw, qlen, rig.trSig(), sp.Procs)
}
