package c09

import (
	"bytes"
	"fmt"
	"math/rand"
	"strconv"
	"sync"
	"sync/atomic"
	"time"

	"go.nanomsg.org/mangos/v3"

	"verifharness/mon"
)

// Burst — a chain of mangos.Device forwarders under a sender that never waits.
//
//	sender -- dev1.in|dev1.out -- ... -- devL.in|devL.out -- receiver(s)
//
// Two endpoints of a pattern that delivers one connection's messages in the sender's
// order (PAIR, PAIR1, PUSH/PULL, one publisher's publications, one BUS member's
// messages) interoperate through devices "as if directly connected": what the
// receiving application is handed is, in order, what the one sender sent.  The sender
// sends thousands of numbered messages back to back while the receiver reads, so that
// many messages are inside the chain at once (the lock-step conversations of the other
// kinds never have two messages of one sender between the same two sockets).
//
// Oracle: the sequence numbers handed to a receiving application are strictly
// increasing (a repeated or an earlier number is a violation).  PAIR, PAIR1 and
// PUSH/PULL push back on the sender instead of dropping, exactly as a direct
// connection does, so there every message must arrive (counted when the final message
// has arrived behind them on the same path); PUB/SUB and BUS are best effort and only
// order is demanded of what does arrive.  L = 0 is the direct control.

type c09BurstFam struct {
	sender, in, out, receiver string
	lossless                  bool
	bidir                     bool // the far end may burst in the other direction at the same time
	multi                     bool // several receivers make sense
}

var c09BurstFams = map[string]c09BurstFam{
	"pair":     {"pair", "xpair", "xpair", "pair", true, true, false},
	"pair1":    {"pair1", "xpair1", "xpair1", "pair1", true, true, false},
	"pipeline": {"push", "xpull", "xpush", "pull", true, false, false},
	"pubsub":   {"pub", "xsub", "xpub", "sub", false, false, true},
	"bus":      {"bus", "xbus", "xbus", "bus", false, false, false},
}

var c09BurstFamNames = []string{"pair", "pair1", "pipeline", "pubsub", "bus"}

func c09BurstCases(r *mon.Runner, rnd *rand.Rand) []mon.CaseSpec {
	var out []mon.CaseSpec
	procs := []int{0, 0, 0, 2, 4, 1}
	trs := []string{"inproc", "inproc", "inproc", "ipc", "tcp", "mix", "any"}
	lmax := r.Pick(3, 6)
	for rep := 0; rep < r.Pick(1, 15); rep++ {
		for _, fam := range c09BurstFamNames {
			fd := c09BurstFams[fam]
			for L := 0; L <= lmax; L++ {
				n := 1
				switch L { // short chains are where a device's own behaviour is least masked
				case 1:
					n = 4
				case 2:
					n = 2
				}
				for k := 0; k < n; k++ {
					sp := c09Spec{Kind: "burst", Fam: fam, L: L, Clients: 1}
					sp.N = 2000 + rnd.Intn(4001)
					sp.Tr = trs[rnd.Intn(len(trs))]
					sp.Procs = procs[rnd.Intn(len(procs))]
					if fd.multi {
						sp.Clients = 1 + rnd.Intn(3)
					}
					if fd.bidir && rnd.Intn(2) == 0 {
						sp.How = "both"
					} else {
						sp.How = "one"
					}
					if !fd.lossless && rnd.Intn(2) == 0 {
						sp.Ctx = 8192 // queue lengths of every socket (0 = defaults)
					}
					out = append(out, mon.CaseSpec{Name: "burst-" + fam, Spec: sp})
				}
			}
		}
	}
	return out
}

// c09BurstQuiet waits for a stop-the-world sample in which every other goroutine is parked
// (workload shaping only: the final message of a best-effort pattern is sent into an idle chain).
func c09BurstQuiet(c *mon.Case) {
	d := 50 * time.Microsecond
	for start := mon.Now(); mon.Now()-start < 5*time.Second; {
		if c09Parked() {
			c.Count("burst_quiet_periods", 1)
			return
		}
		mon.Sleep(d)
		if d < 2*time.Millisecond {
			d *= 2
		}
	}
	c.Count("burst_quiet_periods_missed", 1)
}

func c09Burst(c *mon.Case, sp c09Spec) {
	fd := c09BurstFams[sp.Fam]
	rig := newC09Rig(c, sp)
	L, N := sp.L, sp.N
	how := "device"
	if L == 0 {
		how = "direct"
	}
	pre := fmt.Sprintf("burst:%s/%s", sp.Fam, how)

	// ---- build ----
	mk := func(proto, what string) *c09Sock {
		s := rig.sock(proto, what)
		if sp.Ctx > 0 { // before any connection exists; sockets without the option say so
			s.s.SetOption(mangos.OptionWriteQLen, sp.Ctx)
			s.s.SetOption(mangos.OptionReadQLen, sp.Ctx)
		}
		return s
	}
	sender := mk(fd.sender, "sender "+fd.sender)
	type dev struct{ in, out *c09Sock }
	devs := make([]dev, L+1)
	for i := 1; i <= L; i++ {
		devs[i] = dev{mk(fd.in, fmt.Sprintf("dev%d.%s", i, fd.in)), mk(fd.out, fmt.Sprintf("dev%d.%s", i, fd.out))}
	}
	recvs := make([]*c09Sock, sp.Clients)
	for j := range recvs {
		recvs[j] = mk(fd.receiver, fmt.Sprintf("receiver%d %s", j, fd.receiver))
		if sp.Fam == "pubsub" {
			if err := recvs[j].s.SetOption(mangos.OptionSubscribe, []byte("")); err != nil {
				c.Inconclusive("subscribe: %v", err)
				return
			}
		}
	}
	if c.Failed() {
		return
	}
	last := sender // what the receivers connect to
	if L > 0 {
		last = devs[L].out
		if !rig.connect(devs[1].in, sender) {
			return
		}
		for i := 1; i < L; i++ {
			if !rig.connect(devs[i+1].in, devs[i].out) {
				return
			}
		}
	}
	for _, rc := range recvs {
		if !rig.connect(last, rc) {
			return
		}
	}
	if !rig.waitAttached() {
		return
	}
	for i := 1; i <= L; i++ {
		if err := mangos.Device(devs[i].in.s, devs[i].out.s); err != nil {
			c.Violate("burst:"+sp.Fam+"/device-refused", "mangos.Device(%s,%s) = %v", fd.in, fd.out, err)
			return
		}
	}
	c.Count("burst_devices", L)

	nonce := fmt.Sprintf("%x", c.Rand.Uint64())
	msg := func(dir string, i int, fin bool) []byte {
		tag := "M"
		if fin {
			tag = "F"
		}
		b := []byte(fmt.Sprintf("%s|%s|%s|%d|", tag, dir, nonce, i))
		for k := 0; k < (i*7)%23; k++ {
			b = append(b, byte('a'+(i+k)%26))
		}
		return b
	}
	// parse returns the sequence number of a message of this case in direction dir.
	parse := func(dir string, b []byte) (seq int, fin, ok bool) {
		f := bytes.SplitN(b, []byte("|"), 5)
		if len(f) != 5 || string(f[1]) != dir || string(f[2]) != nonce || (string(f[0]) != "M" && string(f[0]) != "F") {
			return 0, false, false
		}
		seq, err := strconv.Atoi(string(f[3]))
		if err != nil || seq < 0 || seq > N {
			return 0, false, false
		}
		fin = string(f[0]) == "F"
		if !bytes.Equal(b, msg(dir, seq, fin)) {
			return 0, false, false
		}
		return seq, fin, true
	}

	type flow struct {
		dir  string
		from *c09Sock
		to   []*c09Sock
		sent atomic.Int64
	}
	flows := []*flow{{dir: "f", from: sender, to: recvs}}
	if sp.How == "both" {
		flows = append(flows, &flow{dir: "r", from: recvs[0], to: []*c09Sock{sender}})
	}
	var mu sync.Mutex
	delivered, maxInflight, finSeen := 0, 0, 0
	var sendWG, recvWG sync.WaitGroup
	abort := make(chan struct{}) // closed by the first receiver that reports: nothing more to wait for
	var abortOnce sync.Once
	violate := func(sig, format string, a ...interface{}) {
		c.Violate(sig, format, a...)
		abortOnce.Do(func() { close(abort) })
	}
	for _, fl := range flows {
		fl := fl
		for j, rc := range fl.to {
			j, rc := j, rc
			recvWG.Add(1)
			rig.goHelper(func() {
				defer recvWG.Done()
				n, lastSeq, inflight := 0, -1, 0
				defer func() {
					mu.Lock()
					delivered += n
					if inflight > maxInflight {
						maxInflight = inflight
					}
					mu.Unlock()
				}()
				for {
					got, err := rc.s.Recv()
					if err != nil {
						if !c.Failed() {
							c.Inconclusive("%s Recv (direction %s, receiver %d) after %d messages: %v", fd.receiver, fl.dir, j, n, err)
						}
						return
					}
					// completed Sends not yet handed to this application: a lower bound on what is inside the chain
					if d := int(fl.sent.Load()) - n; d > inflight {
						inflight = d
					}
					seq, fin, ok := parse(fl.dir, got)
					if !ok {
						violate(pre+"/modified", "%s behind %d devices was handed %q as delivery %d of direction %s: not a message the sender sent", rc.what, L, got[:min(len(got), 40)], n, fl.dir)
						return
					}
					if fin {
						mu.Lock()
						finSeen++
						mu.Unlock()
						if fd.lossless && n != N {
							violate(pre+"/lost", "%s behind %d devices holds the final message of direction %s but only %d of the %d messages sent before it (%s pushes back, it does not drop)", rc.what, L, fl.dir, n, N, sp.Fam)
						}
						return
					}
					if seq <= lastSeq {
						kind := "out-of-order"
						if seq == lastSeq {
							kind = "duplicated"
						}
						violate(pre+"/"+kind, "%s behind %d devices (direction %s, %d messages sent back to back, transports %s): delivery %d is message %d, handed over after message %d — one sender's messages on one path must arrive in the order sent, as over a direct connection", rc.what, L, fl.dir, N, rig.trSig(), n, seq, lastSeq)
						return
					}
					lastSeq = seq
					n++
				}
			})
		}
		sendWG.Add(1)
		rig.goHelper(func() {
			defer sendWG.Done()
			for i := 0; i < N; i++ {
				if err := fl.from.s.Send(msg(fl.dir, i, false)); err != nil {
					if !c.Failed() {
						c.Inconclusive("%s Send %d (direction %s): %v", fd.sender, i, fl.dir, err)
					}
					return
				}
				fl.sent.Store(int64(i + 1))
			}
			if fd.lossless {
				if err := fl.from.s.Send(msg(fl.dir, N, true)); err != nil && !c.Failed() {
					c.Inconclusive("%s Send final (direction %s): %v", fd.sender, fl.dir, err)
				}
			}
		})
	}

	stalled := func(res mon.AwaitResult, what string) bool {
		if res.V == mon.Done {
			return false
		}
		if c.Failed() {
			return true
		}
		if res.V == mon.Stuck && fd.lossless {
			c.Violate(pre+"/stalled", "%s behind %d devices: %s never finished and every goroutine is parked (%d messages per direction, %s):\n%s", sp.Fam, L, what, N, sp.How, res.Dump)
		} else {
			c.Inconclusive("%s not finished after %v (%v)", what, res.Waited, res.V)
		}
		return true
	}
	waitFor := func(name string, wg *sync.WaitGroup) mon.AwaitResult {
		fin := make(chan struct{})
		rig.goHelper(func() { wg.Wait(); close(fin) })
		return mon.Go(name, func() (interface{}, error) {
			select {
			case <-fin:
			case <-abort:
			}
			return nil, nil
		}).Wait(mon.AwaitOpts{})
	}
	if stalled(waitFor("burst senders", &sendWG), "the senders") || c.Failed() {
		return
	}
	if !fd.lossless && !c.Failed() {
		// best effort: the final message goes into an idle chain (and again, should the sample have been early)
		for k := 0; k < 3; k++ {
			c09BurstQuiet(c)
			for _, fl := range flows {
				if err := fl.from.s.Send(msg(fl.dir, N, true)); err != nil {
					c.Inconclusive("%s Send final: %v", fd.sender, err)
					return
				}
			}
		}
	}
	if stalled(waitFor("burst receivers", &recvWG), "the receivers") || c.Failed() {
		return
	}
	mu.Lock()
	defer mu.Unlock()
	c.Count("burst_messages_sent", N*len(flows))
	c.Count("burst_messages_delivered_in_order", delivered)
	c.Count("burst_most_in_flight", maxInflight)
	c.Count("burst_cases_"+sp.Fam, 1)
	want := 0
	for _, fl := range flows {
		want += len(fl.to)
	}
	if L > 0 && !c.Failed() && finSeen == want && maxInflight >= 2 && delivered >= 100 {
		c.Nontrivial()
		c.Count("burst_chains_with_messages_in_flight", 1)
	}
	c.Sig("burst|%s|L=%d|%s|rc=%d|q=%d|%s|p%d", sp.Fam, L, sp.How, sp.Clients, sp.Ctx, rig.trSig(), sp.Procs)
}
