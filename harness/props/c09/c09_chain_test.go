package c09

import (
	"bytes"
	"fmt"
	"math/rand"
	"sort"
	"strings"
	"sync"
	"sync/atomic"
	"time"

	"go.nanomsg.org/mangos/v3"

	"verifharness/hx"
	"verifharness/mon"
	"verifharness/vt"
)

// Part B — real mangos.Device chains.
//
//	client(s) -- dev1.front|dev1.back -- dev2.front|dev2.back -- ... -- server
//
// Every '--' is a connection over inproc/ipc/tcp; a message from a client has
// crossed L+1 connections when it reaches the server behind L devices.  Where
// the statement says the server must DROP (L+1 > TTL; PAIR1: L > TTL) the last
// connection is a vt tap held by the harness, so that an in-limit sentinel can be
// put on the very same connection behind the over-limit messages.

type c09Fam struct {
	client, front, back, server, rawServer string
	ttl                                    bool // the family counts hops
	multi                                  bool // several clients make sense
}

var c09Fams = map[string]c09Fam{
	"reqrep":   {"req", "xrep", "xreq", "rep", "xrep", true, true},
	"survey":   {"surveyor", "xrespondent", "xsurveyor", "respondent", "xrespondent", true, true},
	"pair1":    {"pair1", "xpair1", "xpair1", "pair1", "xpair1", true, false},
	"star":     {"star", "star", "star", "star", "xstar", true, false}, // no devices: L forwarding STAR members
	"pipeline": {"push", "xpull", "xpush", "pull", "xpull", false, true},
	"pubsub":   {"sub", "xpub", "xsub", "pub", "xpub", false, true},
	"bus":      {"bus", "xbus", "xbus", "bus", "xbus", false, true},
}

// c09ChainDeliver: must a client message reach the server application?
// ttls[i] is the TTL of the i-th receiver on the path (i = 1..L devices/forwarders, L+1 = server).
func c09ChainDeliver(fam string, L int, ttlAt func(i int) int) (deliver bool, dropAt int) {
	for i := 1; i <= L+1; i++ {
		k := i // connections crossed when arriving at receiver i
		ok := k <= ttlAt(i)
		if fam == "pair1" {
			ok = k-1 <= ttlAt(i)
		}
		if !ok {
			return false, i
		}
	}
	return true, 0
}

func c09ChainCases(r *mon.Runner, rnd *rand.Rand) []mon.CaseSpec {
	var out []mon.CaseSpec
	lmax := r.Pick(4, 9)
	reps := r.Pick(12, 200)
	procs := []int{0, 0, 1, 2, 4}
	// tcp sparingly in the long tier (TIME_WAIT / ephemeral ports are shared machine-wide); ipc is the same stream code
	pTCP, pIPC := r.Pick(20, 2), r.Pick(20, 43)
	tr := func() string {
		switch x := rnd.Intn(100); {
		case x < 45:
			return "inproc"
		case x < 45+pIPC:
			return "ipc"
		case x < 45+pIPC+pTCP:
			return "tcp"
		}
		return "mix"
	}
	add := func(sp c09Spec) {
		sp.Kind = "chain"
		sp.Tr = tr()
		sp.Procs = procs[rnd.Intn(len(procs))]
		sp.Rounds = r.Pick(3, 8)
		if c09Fams[sp.Fam].multi {
			sp.Clients = 1 + rnd.Intn(6)
		} else {
			sp.Clients = 1
		}
		srv := "cooked"
		if sp.RawSrv {
			srv = "raw"
		}
		out = append(out, mon.CaseSpec{Name: fmt.Sprintf("chain-%s-%s", sp.Fam, srv), Spec: sp})
	}
	for rep := 0; rep < reps; rep++ {
		for _, fam := range []string{"reqrep", "survey", "pair1", "star"} {
			for L := 0; L <= lmax; L++ {
				for _, raw := range []bool{false, true} {
					// every TTL left at its default 8
					if dl, at := c09ChainDeliver(fam, L, func(int) int { return 8 }); dl || at == L+1 {
						add(c09Spec{Fam: fam, L: L, RawSrv: raw, Mode: "default"})
					}
					// devices at 255, server TTL on and around the boundary
					b := L + 1 // smallest TTL that still delivers
					if fam == "pair1" {
						b = L
					}
					for _, t := range []int{b - 1, b, b + 1, 255} {
						if t >= 1 {
							add(c09Spec{Fam: fam, L: L, RawSrv: raw, Mode: "set", TTL: t})
						}
					}
				}
			}
		}
		for _, fam := range []string{"pipeline", "pubsub", "bus"} {
			for L := 0; L <= lmax; L++ {
				add(c09Spec{Fam: fam, L: L, RawSrv: false, Mode: "default"})
			}
		}
	}
	return out
}

// ---- rig ---------------------------------------------------------------------------

type c09Sock struct {
	s    mangos.Socket
	w    *hx.PipeWatch
	want int
	what string

	// replace cases (c09_replace_test.go)
	det  int             // detach events expected so far
	live int             // connections expected to be up
	l    mangos.Listener // the socket's one listener (made when first dialled)
	ltr  string          // its transport
	gone atomic.Bool     // closed by the harness
}

type c09Rig struct {
	c       *mon.Case
	sp      c09Spec
	socks   []*c09Sock
	helpers sync.WaitGroup
	trs     []string
}

func newC09Rig(c *mon.Case, sp c09Spec) *c09Rig {
	r := &c09Rig{c: c, sp: sp}
	// registered before any socket so that it runs after they are all closed
	c.Cleanup(func() {
		w := mon.Go("helpers", func() (interface{}, error) { r.helpers.Wait(); return nil, nil })
		if res := w.Wait(mon.AwaitOpts{}); res.V != mon.Done {
			c.Inconclusive("helper goroutines did not exit after Close (%v)", res.V)
		}
	})
	return r
}

func (r *c09Rig) sock(proto, what string) *c09Sock {
	s := &c09Sock{s: hx.MustSock(r.c, proto), what: what}
	s.w = hx.WatchPipes(s.s)
	r.socks = append(r.socks, s)
	return s
}

func (r *c09Rig) setTTL(s *c09Sock, v int) {
	if err := s.s.SetOption(mangos.OptionTTL, v); err != nil {
		r.c.Violate("ttl-option:"+s.what+"/in-range-rejected", "SetOption(TTL,%d) on %s: %v", v, s.what, err)
	}
}

func (r *c09Rig) connect(lst, dl *c09Sock) bool {
	tr := r.pickTr()
	r.trs = append(r.trs, tr[1:2])
	if _, _, err := hx.Connect(lst.s, dl.s, tr); err != nil {
		r.c.Inconclusive("connect %s -> %s over %s: %v", dl.what, lst.what, tr, err)
		return false
	}
	lst.want++
	dl.want++
	return true
}

// pickTr: the transport of the next connection, according to the case's transport policy.
func (r *c09Rig) pickTr() string {
	tr := r.sp.Tr
	switch tr {
	case "mix", "":
		tr = []string{"inproc", "inproc", "inproc", "ipc", "ipc", "tcp"}[r.c.Rand.Intn(6)]
	case "stream", "any": // stream transports only / all six; sockets on 127.0.0.1 sparingly in the long tier
		x, ip := r.c.Rand.Intn(100), 40
		if r.c.R.Thorough() {
			ip = 84
		}
		if tr == "any" {
			ip /= 2
		}
		rest := (100 - ip) / 4
		if tr == "any" {
			rest = (100 - 2*ip) / 4
		}
		switch {
		case x < ip:
			tr = "ipc"
		case x < ip+rest:
			tr = "tcp"
		case x < ip+2*rest:
			tr = "ws"
		case x < ip+3*rest:
			tr = "tls+tcp"
		case x < ip+4*rest:
			tr = "wss"
		default:
			tr = "inproc"
		}
	}
	return tr
}

// tap joins dl -> lst through the harness: dl dials a vt endpoint, lst listens on another.
func (r *c09Rig) tap(lst, dl *c09Sock) (fromDialer, toListener *vt.Pipe, ok bool) {
	dn, ln := hx.Uniq("c09d"), hx.Uniq("c09l")
	r.c.Cleanup(func() { vt.Forget(dn, ln) })
	vt.D(dn).SetDefault(vt.Outcome{Kind: vt.Succeed})
	if err := dl.s.Dial(vt.Addr(dn)); err != nil {
		r.c.Inconclusive("vt dial: %v", err)
		return nil, nil, false
	}
	if err := lst.s.Listen(vt.Addr(ln)); err != nil {
		r.c.Inconclusive("vt listen: %v", err)
		return nil, nil, false
	}
	toListener = vt.L(ln).Connect()
	lst.want++
	dl.want++
	r.trs = append(r.trs, "v")
	return vt.D(dn).LastPipe(), toListener, true
}

func (r *c09Rig) waitAttached() bool {
	for _, s := range r.socks {
		if !hx.WaitAttached(r.c, s.w, s.want, s.what) {
			return false
		}
	}
	return true
}

func (r *c09Rig) goHelper(f func()) {
	r.helpers.Add(1)
	go func() { defer r.helpers.Done(); f() }()
}

func (r *c09Rig) trSig() string {
	s := append([]string{}, r.trs...)
	sort.Strings(s)
	return strings.Join(s, "")
}

// routingWords counts the 32-bit routing words in front of a REQ/SURVEY body (up to and including the one with the top bit).
func routingWords(w []byte) int {
	for i := 0; i+4 <= len(w); i += 4 {
		if w[i]&0x80 != 0 {
			return i/4 + 1
		}
	}
	return -1
}

func c09Chain(c *mon.Case, sp c09Spec) {
	fd := c09Fams[sp.Fam]
	rig := newC09Rig(c, sp)
	L := sp.L
	srvProto := fd.server
	if sp.RawSrv {
		srvProto = fd.rawServer
	}
	srvTTL := 8
	if sp.Mode == "set" && fd.ttl {
		srvTTL = sp.TTL
	}
	ttlAt := func(i int) int {
		if i == L+1 {
			return srvTTL
		}
		if sp.Mode == "set" {
			return 255
		}
		return 8
	}
	deliver := true
	if fd.ttl {
		deliver, _ = c09ChainDeliver(sp.Fam, L, ttlAt)
	}
	kc := "no-ttl"
	if fd.ttl {
		kc = kclass(L+1, srvTTL)
	}
	pre := fmt.Sprintf("chain:%s-%s/%s", sp.Fam, srvProto, kc)

	// ---- build ----
	server := rig.sock(srvProto, "server "+srvProto)
	if fd.ttl && sp.Mode == "set" {
		rig.setTTL(server, srvTTL)
	}
	type dev struct{ front, back *c09Sock }
	devs := make([]dev, L+1) // 1..L
	var mids []*c09Sock      // star: forwarding members
	for i := 1; i <= L; i++ {
		if sp.Fam == "star" {
			m := rig.sock("star", fmt.Sprintf("star forwarder %d", i))
			if sp.Mode == "set" {
				rig.setTTL(m, 255)
			}
			mids = append(mids, m)
			devs[i] = dev{m, m}
			continue
		}
		d := dev{rig.sock(fd.front, fmt.Sprintf("dev%d.%s", i, fd.front)), rig.sock(fd.back, fmt.Sprintf("dev%d.%s", i, fd.back))}
		if fd.ttl && sp.Mode == "set" {
			rig.setTTL(d.front, 255)
			if sp.Fam == "pair1" {
				rig.setTTL(d.back, 255) // the reply direction counts hops too
			}
		}
		devs[i] = d
	}
	clients := make([]*c09Sock, sp.Clients)
	for j := range clients {
		clients[j] = rig.sock(fd.client, fmt.Sprintf("client%d %s", j, fd.client))
		if fd.ttl && sp.Mode == "set" && (sp.Fam == "pair1" || sp.Fam == "star") {
			rig.setTTL(clients[j], 255) // replies come back over the same L+1 connections
		}
	}
	if c.Failed() {
		return
	}
	// links, far end first
	var tapIn, tapOut *vt.Pipe
	first := server // what the clients connect to
	if L > 0 {
		first = devs[1].front
		ok := true
		if deliver {
			ok = rig.connect(server, devs[L].back)
		} else {
			tapIn, tapOut, ok = rig.tap(server, devs[L].back)
		}
		if !ok {
			return
		}
		for i := L - 1; i >= 1; i-- {
			if !rig.connect(devs[i+1].front, devs[i].back) {
				return
			}
		}
	} else if !deliver {
		panic("c09: drop expected with no forwarder")
	}
	for _, cl := range clients {
		if !rig.connect(first, cl) {
			return
		}
	}
	if !rig.waitAttached() {
		return
	}
	if sp.Fam != "star" {
		for i := 1; i <= L; i++ {
			if err := mangos.Device(devs[i].front.s, devs[i].back.s); err != nil {
				c.Violate("chain:"+sp.Fam+"/device-refused", "mangos.Device(%s,%s) = %v", fd.front, fd.back, err)
				return
			}
		}
	}
	c.Count("chain_devices", L)
	c.Count("chain_clients", sp.Clients)
	if L >= 5 {
		c.Count("chain_deep_chains", 1) // the last connections carry routing headers of 6 and more words
	}

	nonce := fmt.Sprintf("%x", c.Rand.Uint64())
	payload := func(tag string, cl, i int) []byte {
		fl := make([]byte, c.Rand.Intn(40))
		c.Rand.Read(fl)
		return hx.Cat([]byte(fmt.Sprintf("%s|%d|%d|%s|", tag, cl, i, nonce)), fl)
	}
	// all payloads are generated up front (the case PRNG is not goroutine safe)
	q := make([][][]byte, sp.Clients)
	for j := range q {
		for i := 0; i < sp.Rounds; i++ {
			q[j] = append(q[j], payload("Q", j, i))
		}
	}
	if (sp.Fam == "reqrep" || sp.Fam == "survey") && sp.Rounds > 1 {
		// a request with no payload at all is a request like any other, across devices too
		for j := range q {
			q[j][1+c.Rand.Intn(sp.Rounds-1)] = []byte{}
		}
	}
	reply := func(b []byte) []byte { return hx.Cat([]byte("A|"), b) }
	if sp.Fam == "reqrep" {
		for _, cl := range clients {
			cl.s.SetOption(mangos.OptionRetryTime, time.Hour) // one transmission per request; resending is C04
		}
	}
	if sp.Fam == "survey" {
		for _, cl := range clients {
			cl.s.SetOption(mangos.OptionSurveyTime, time.Hour) // Recv waits for the response, never for the clock
		}
	}
	rawSend := func(s mangos.Socket, b []byte) error { // originate on a raw PAIR1/STAR socket: hop field 0
		m := mangos.NewMessage(len(b))
		m.Header = append(m.Header, 0, 0, 0, 0)
		m.Body = append(m.Body, b...)
		return s.SendMsg(m)
	}
	var cmpMu sync.Mutex
	compared := 0
	cmp := func(n int) { cmpMu.Lock(); compared += n; cmpMu.Unlock() }

	if !deliver {
		c09ChainDrop(c, sp, rig, pre, srvProto, clients, server, tapIn, tapOut, q, srvTTL)
		c.Sig("chain|%s|%s|L=%d|ttl=%d|%s|drop|cl=%d|%s|p%d", sp.Fam, srvProto, L, srvTTL, sp.Mode, sp.Clients, rig.trSig(), sp.Procs)
		return
	}

	// ---- deliver: everything the clients do must complete, with the right answers ----
	var done sync.WaitGroup // client conversations (and the server reader for one-way families)
	switch sp.Fam {
	case "reqrep", "survey":
		rig.goHelper(func() { // echo server
			for {
				m, err := server.s.RecvMsg()
				if err != nil {
					return
				}
				m.Body = append([]byte("A|"), m.Body...)
				if err := server.s.SendMsg(m); err != nil {
					return
				}
			}
		})
		for j := range clients {
			j := j
			done.Add(1)
			rig.goHelper(func() {
				defer done.Done()
				for i, b := range q[j] {
					if err := clients[j].s.Send(b); err != nil {
						c.Inconclusive("client %d Send: %v", j, err)
						return
					}
					got, err := clients[j].s.Recv()
					if err != nil {
						c.Inconclusive("client %d Recv: %v", j, err)
						return
					}
					cmp(1)
					if !bytes.Equal(got, reply(b)) {
						c.Violate("chain:"+sp.Fam+"/wrong-reply", "client %d round %d asked %q and received %q (L=%d devices, %d concurrent clients)", j, i, b[:min(len(b), 24)], got[:min(len(got), 26)], L, sp.Clients)
						return
					}
				}
			})
		}
	case "pair1", "star":
		// client -> server, then server -> client, each in order over the single path
		srvSend := func(b []byte) error {
			if sp.RawSrv {
				return rawSend(server.s, b)
			}
			return server.s.Send(b)
		}
		done.Add(2)
		rig.goHelper(func() {
			defer done.Done()
			for i := range q[0] {
				got, err := server.s.Recv()
				if err != nil {
					c.Inconclusive("server Recv: %v", err)
					return
				}
				cmp(1)
				if !bytes.Equal(got, q[0][i]) {
					c.Violate("chain:"+sp.Fam+"/modified-or-reordered", "server expected message %d %q, received %q (L=%d)", i, q[0][i][:min(len(q[0][i]), 24)], got[:min(len(got), 24)], L)
					return
				}
				if err := srvSend(reply(got)); err != nil {
					c.Inconclusive("server Send: %v", err)
					return
				}
			}
		})
		rig.goHelper(func() {
			defer done.Done()
			for i, b := range q[0] {
				if err := clients[0].s.Send(b); err != nil {
					c.Inconclusive("client Send: %v", err)
					return
				}
				got, err := clients[0].s.Recv()
				if err != nil {
					c.Inconclusive("client Recv: %v", err)
					return
				}
				cmp(1)
				if !bytes.Equal(got, reply(b)) {
					c.Violate("chain:"+sp.Fam+"/wrong-reply", "client sent %q (round %d) and received %q (L=%d)", b[:min(len(b), 24)], i, got[:min(len(got), 26)], L)
					return
				}
			}
		})
	case "pipeline":
		want := map[string]int{}
		for j := range q {
			for _, b := range q[j] {
				want[string(b)]++
			}
		}
		total := sp.Clients * sp.Rounds
		done.Add(1)
		rig.goHelper(func() {
			defer done.Done()
			for n := 0; n < total; n++ {
				got, err := server.s.Recv()
				if err != nil {
					c.Inconclusive("pull Recv: %v", err)
					return
				}
				cmp(1)
				if want[string(got)] == 0 {
					c.Violate("chain:pipeline/modified-or-duplicated", "PULL behind %d devices received %q, not an outstanding pushed message", L, got[:min(len(got), 24)])
					return
				}
				want[string(got)]--
			}
		})
		for j := range clients {
			j := j
			done.Add(1)
			rig.goHelper(func() {
				defer done.Done()
				for _, b := range q[j] {
					if err := clients[j].s.Send(b); err != nil {
						c.Inconclusive("push Send: %v", err)
						return
					}
				}
			})
		}
	case "pubsub":
		// the server publishes; client j subscribes to its own topic and to the broadcast topic
		rounds := sp.Rounds
		if lim := 100 / (sp.Clients + 2); rounds > lim {
			rounds = lim // PUB is best effort with queues of 128: keep the whole burst below that
		}
		var pubs [][]byte
		wantBy := make([][][]byte, sp.Clients)
		for i := 0; i < rounds; i++ {
			for j := 0; j < sp.Clients; j++ {
				b := hx.Cat([]byte(fmt.Sprintf("T%d.", j)), payload("P", j, i))
				pubs = append(pubs, b)
				wantBy[j] = append(wantBy[j], b)
			}
			b := hx.Cat([]byte("ALL."), payload("P", -1, i))
			pubs = append(pubs, b)
			for j := range wantBy {
				wantBy[j] = append(wantBy[j], b)
			}
		}
		fin := hx.Cat([]byte("ALL."), payload("S", -1, rounds))
		pubs = append(pubs, fin)
		for j := range clients {
			j := j
			clients[j].s.SetOption(mangos.OptionSubscribe, []byte(fmt.Sprintf("T%d.", j)))
			clients[j].s.SetOption(mangos.OptionSubscribe, []byte("ALL."))
			done.Add(1)
			rig.goHelper(func() {
				defer done.Done()
				n := 0
				for {
					got, err := clients[j].s.Recv()
					if err != nil {
						c.Inconclusive("sub Recv: %v", err)
						return
					}
					cmp(1)
					if bytes.Equal(got, fin) {
						if n != len(wantBy[j]) {
							c.Violate("chain:pubsub/missing", "subscriber %d behind %d devices holds the final message but only %d of %d matching publications (burst %d < queue 128)", j, L, n, len(wantBy[j]), len(pubs))
						}
						return
					}
					if n >= len(wantBy[j]) || !bytes.Equal(got, wantBy[j][n]) {
						c.Violate("chain:pubsub/modified-or-misrouted", "subscriber %d behind %d devices received %q as delivery %d; expected its next matching publication", j, L, got[:min(len(got), 28)], n)
						return
					}
					n++
				}
			})
		}
		done.Add(1)
		rig.goHelper(func() {
			defer done.Done()
			for _, b := range pubs {
				if err := server.s.Send(b); err != nil {
					c.Inconclusive("pub Send: %v", err)
					return
				}
			}
		})
	case "bus":
		// clients and server are cooked BUS members joined by L two-socket raw bridges:
		// the server hears every client, every client hears the server (and, with L=0, nothing else)
		rounds := sp.Rounds
		if lim := 100/(sp.Clients+1) - 1; rounds > lim {
			rounds = lim
		}
		var sq [][]byte
		for i := 0; i < rounds; i++ {
			sq = append(sq, payload("B", -1, i))
		}
		sfin := payload("S", -1, rounds)
		cfin := make([][]byte, sp.Clients)
		for j := range cfin {
			cfin[j] = payload("S", j, rounds)
		}
		done.Add(1)
		rig.goHelper(func() { // server: per client, its messages in order up to its final one
			defer done.Done()
			next := make([]int, sp.Clients)
			fins := 0
			for fins < sp.Clients {
				got, err := server.s.Recv()
				if err != nil {
					c.Inconclusive("bus server Recv: %v", err)
					return
				}
				cmp(1)
				ok := false
				for j := range clients {
					if bytes.Equal(got, cfin[j]) {
						if next[j] != rounds {
							c.Violate("chain:bus/missing", "server holds the final message of client %d but only %d of %d of its messages (L=%d)", j, next[j], rounds, L)
						}
						next[j] = -1
						fins++
						ok = true
					} else if next[j] >= 0 && next[j] < rounds && bytes.Equal(got, q[j][next[j]]) {
						next[j]++
						ok = true
					}
					if ok {
						break
					}
				}
				if !ok {
					c.Violate("chain:bus/modified-or-duplicated", "server behind %d bridges received %q, which is not the next message of any client", L, got[:min(len(got), 24)])
					return
				}
			}
		})
		for j := range clients {
			j := j
			done.Add(1)
			rig.goHelper(func() {
				defer done.Done()
				for _, b := range append(append([][]byte{}, q[j][:rounds]...), cfin[j]) {
					if err := clients[j].s.Send(b); err != nil {
						c.Inconclusive("bus client Send: %v", err)
						return
					}
				}
				n := 0
				for {
					got, err := clients[j].s.Recv()
					if err != nil {
						c.Inconclusive("bus client Recv: %v", err)
						return
					}
					cmp(1)
					if bytes.Equal(got, sfin) {
						if n != rounds {
							c.Violate("chain:bus/missing", "client %d holds the server's final message but only %d of %d (L=%d)", j, n, rounds, L)
						}
						return
					}
					if n >= rounds || !bytes.Equal(got, sq[n]) {
						c.Violate("chain:bus/modified-or-misrouted", "client %d behind %d bridges received %q as delivery %d (another client's message, or a modified one)", j, L, got[:min(len(got), 24)], n)
						return
					}
					n++
				}
			})
		}
		done.Add(1)
		rig.goHelper(func() {
			defer done.Done()
			for _, b := range append(append([][]byte{}, sq...), sfin) {
				if err := server.s.Send(b); err != nil {
					c.Inconclusive("bus server Send: %v", err)
					return
				}
			}
		})
	}
	all := mon.Go("conversations", func() (interface{}, error) { done.Wait(); return nil, nil })
	res := all.Wait(mon.AwaitOpts{})
	if res.V == mon.Stuck && !c.Failed() {
		what := "a request or its reply was lost"
		if !fd.ttl {
			what = "a message was lost"
		}
		c.Violate(pre+"/no-reply", "%s behind L=%d devices (%d connections crossed, server TTL %d, mode %s, %d clients): the statement delivers it, but every goroutine is parked and the conversations never finished:\n%s", what, L, L+1, srvTTL, sp.Mode, sp.Clients, res.Dump)
	} else if res.V != mon.Done && !c.Failed() {
		c.Inconclusive("conversations not finished after %v", res.Waited)
	}
	cmpMu.Lock()
	c.Count("chain_messages_compared", compared)
	if compared > 0 && L > 0 && !c.Failed() {
		c.Nontrivial()
	}
	cmpMu.Unlock()
	c.Count("chain_cases_"+sp.Fam, 1)
	c.Sig("chain|%s|%s|L=%d|ttl=%d|%s|deliver|cl=%d|%s|p%d", sp.Fam, srvProto, L, srvTTL, sp.Mode, sp.Clients, rig.trSig(), sp.Procs)
}

// c09ChainDrop: the statement says the server must drop what the clients send.
// The harness sits on the last connection: it waits for the clients' messages to
// come out of the last device, hands them to the server followed by an in-limit
// sentinel on the same pipe, and reads the server application up to the sentinel.
func c09ChainDrop(c *mon.Case, sp c09Spec, rig *c09Rig, pre, srvProto string, clients []*c09Sock, server *c09Sock, tapIn, tapOut *vt.Pipe, q [][][]byte, srvTTL int) {
	L := sp.L
	want := map[string]bool{}
	n := 0
	for j := range clients {
		j := j
		msgs := q[j][:1] // REQ/SURVEYOR: one outstanding request per client
		if sp.Fam == "pair1" || sp.Fam == "star" {
			msgs = q[j]
		}
		for _, b := range msgs {
			want[string(b)] = true
			n++
		}
		rig.goHelper(func() {
			for _, b := range msgs {
				if err := clients[j].s.Send(b); err != nil {
					return
				}
			}
		})
	}
	res := mon.Await(func() bool { return tapIn.SentCount() >= n }, mon.AwaitOpts{})
	if res.V == mon.Stuck {
		c.Violate(fmt.Sprintf("chain:%s/%s/L=%d/lost-before-over-limit-hop", sp.Fam, sp.Mode, L), "only %d of %d client messages came out of device %d (every receiver before it is within its TTL, so the statement forwards them); every goroutine is parked:\n%s", tapIn.SentCount(), n, L, res.Dump)
		return
	} else if res.V != mon.Done {
		c.Inconclusive("%d of %d messages at the tap after %v", tapIn.SentCount(), n, res.Waited)
		return
	}
	for _, e := range tapIn.SentLog() {
		w := e.Wire()
		// transparency of the forwarders: exactly one routing word / one hop count per connection crossed
		switch sp.Fam {
		case "reqrep", "survey":
			if rw := routingWords(w); rw != L+1 {
				c.Violate("chain:"+sp.Fam+"/routing-words-not-one-per-connection", "after %d devices the message carries %d routing words, expected %d: %x", L, rw, L+1, w[:min(len(w), 48)])
			} else if !want[string(w[4*(L+1):])] {
				c.Violate("chain:"+sp.Fam+"/modified-in-chain", "after %d devices the payload is %q", L, w[4*(L+1):])
			}
		default:
			if len(w) < 4 || w[0] != 0 || w[1] != 0 || w[2] != 0 || int(w[3]) != L {
				c.Violate("chain:"+sp.Fam+"/hop-field-not-one-per-forwarder", "after %d forwarders the message starts with %x, expected hop field %d", L, w[:min(len(w), 4)], L)
			} else if !want[string(w[4:])] {
				c.Violate("chain:"+sp.Fam+"/modified-in-chain", "after %d forwarders the payload is %q", L, w[4:])
			}
		}
		tapOut.Inject(w)
		c.Count("chain_over_limit_injected", 1)
	}
	if c.Failed() {
		return
	}
	sentinel := []byte("S|" + hx.Uniq("fin"))
	fam := "rr"
	if sp.Fam == "pair1" {
		fam = "p1"
	} else if sp.Fam == "star" {
		fam = "star"
	}
	sw, _ := c09Wire(fam, 1, sentinel, c.Rand)
	tapOut.Inject(sw)
	var mu sync.Mutex
	var got [][]byte
	reader := mon.Go("server", func() (interface{}, error) {
		for {
			b, err := server.s.Recv()
			if err != nil {
				return nil, err
			}
			mu.Lock()
			got = append(got, b)
			mu.Unlock()
			if bytes.Equal(b, sentinel) {
				return nil, nil
			}
		}
	})
	rres := reader.Wait(mon.AwaitOpts{})
	mu.Lock()
	defer mu.Unlock()
	for _, b := range got {
		if bytes.Equal(b, sentinel) {
			continue
		}
		c.Violate(pre+"/delivered", "server TTL %d, %d devices: a client message that crossed %d connections was delivered to the server application (%q) ahead of the in-limit sentinel injected behind it on the same connection; the statement drops it", srvTTL, L, L+1, b[:min(len(b), 24)])
	}
	switch rres.V {
	case mon.Done:
		if _, err, _ := reader.Result(); err != nil {
			c.Inconclusive("server Recv: %v", err)
			return
		}
	case mon.Stuck:
		c.Violate(fmt.Sprintf("chain:%s-%s/%s/dropped", sp.Fam, srvProto, kclass(1, srvTTL)), "server TTL %d: the in-limit sentinel (k=1) injected at the tap was never delivered:\n%s", srvTTL, rres.Dump)
		return
	default:
		c.Inconclusive("server did not reach the sentinel after %v", rres.Waited)
		return
	}
	c.Count("chain_messages_compared", len(got)+n)
	c.Count("chain_cases_"+sp.Fam, 1)
	c.Nontrivial()
}
