package c09

import (
	"bytes"
	"encoding/binary"
	"fmt"
	"strings"
	"sync"

	"go.nanomsg.org/mangos/v3"

	"verifharness/hx"
	"verifharness/mon"
	"verifharness/vt"
)

// receiver families: how "has crossed k connections" is written on the wire.
//
//	rr   (REQ/REP and SURVEY): k routing words; the first k-1 have the top bit
//	     clear (pipe ids added by forwarders), the k-th has it set (request id).
//	p1   (PAIR1): a 32-bit hop field holding the number of forwarders, k-1.
//	star (STAR): 0,0,0,hop with hop = k-1.
func c09Family(recv string) string {
	switch strings.TrimPrefix(recv, "x") {
	case "rep", "respondent":
		return "rr"
	case "pair1":
		return "p1"
	case "star":
		return "star"
	}
	panic("c09: receiver " + recv)
}

// c09Deliver is the reference model of the statement: a message that crossed k
// connections is delivered iff 1 <= k <= TTL (PAIR1 counts forwarders: k-1 <= TTL).
func c09Deliver(fam string, k, ttl int) bool {
	if k < 1 {
		return false
	}
	if fam == "p1" {
		return k-1 <= ttl
	}
	return k <= ttl
}

// c09Wire builds the transport message of a payload that crossed k connections.
// It returns the wire bytes and the routing prefix (what precedes the payload).
func c09Wire(fam string, k int, payload []byte, rnd interface{ Uint32() uint32 }) (wire, prefix []byte) {
	if k == 0 {
		// nothing can have crossed zero connections: a message without a complete routing word / hop field
		n := int(rnd.Uint32() % 4)
		b := make([]byte, n)
		for i := range b {
			b[i] = byte(rnd.Uint32())
		}
		return b, b
	}
	switch fam {
	case "rr":
		for i := 0; i < k-1; i++ {
			prefix = append(prefix, hx.Be32(rnd.Uint32()&0x7fffffff)...)
		}
		prefix = append(prefix, hx.Be32(rnd.Uint32()|0x80000000)...)
	default:
		prefix = hx.Be32(uint32(k - 1))
	}
	return hx.Cat(prefix, payload), prefix
}

type c09Cell struct {
	k        int
	probe    []byte // payload
	sentinel []byte
	prefix   []byte
	deliver  bool
	// observed
	wire, swire           []byte
	gotProbe, gotSentinel int
	fwdProbe, fwdSentinel int
}

type c09Got struct{ hdr, body []byte }

func c09Grid(c *mon.Case, sp c09Spec) {
	recv := sp.Recv
	fam := c09Family(recv)
	raw := recv[0] == 'x'
	s := hx.MustSock(c, recv)
	w := hx.WatchPipes(s)
	ttl := sp.TTL
	if ttl == 0 {
		v, err := s.GetOption(mangos.OptionTTL)
		if err != nil || v != 8 {
			c.Violate("ttl-option:"+recv+"/default-not-8", "GetOption(TTL) on a fresh %s socket = %v, %v; the default is 8", recv, v, err)
		}
		ttl = 8
	} else {
		if err := s.SetOption(mangos.OptionTTL, ttl); err != nil {
			c.Violate("ttl-option:"+recv+"/in-range-rejected", "SetOption(TTL, %d) = %v", ttl, err)
			return
		}
	}
	name := hx.Uniq("c09g")
	L := vt.L(name)
	c.Cleanup(func() { vt.Forget(name) })
	if err := s.Listen(vt.Addr(name)); err != nil {
		c.Inconclusive("listen: %v", err)
		return
	}
	in := L.Connect()
	if !hx.WaitAttached(c, w, 1, "vt pipe") {
		return
	}
	var out *vt.Pipe // STAR: a second peer that must see exactly the forwarded copies
	if fam == "star" {
		out = L.Connect()
		if !hx.WaitAttached(c, w, 2, "second vt pipe") {
			return
		}
	}

	nonce := fmt.Sprintf("%x", c.Rand.Uint64())
	ks := c.Rand.Perm(ttl + 3)
	cells := make([]*c09Cell, len(ks))
	byTag := map[string]*c09Cell{}
	for i, k := range ks {
		fl := make([]byte, c.Rand.Intn(24))
		c.Rand.Read(fl)
		cl := &c09Cell{k: k, deliver: c09Deliver(fam, k, ttl)}
		cl.probe = hx.Cat([]byte(fmt.Sprintf("P|%d|%s|", k, nonce)), fl)
		cl.sentinel = []byte(fmt.Sprintf("S|%d|%s|", k, nonce))
		var wire []byte
		wire, cl.prefix = c09Wire(fam, k, cl.probe, c.Rand)
		cl.wire = wire
		cl.swire, _ = c09Wire(fam, 1, cl.sentinel, c.Rand) // in-limit for every TTL >= 1: arrived directly
		cells[i] = cl
		byTag[fmt.Sprintf("%d", k)] = cl
		c.Count("injected_"+kclass(k, ttl), 1)
	}
	last := cells[len(cells)-1]
	fwdSeen := func(cl *c09Cell) bool { // the forwarded copy of cl's sentinel is on the second pipe
		for _, e := range out.SentLog() {
			if wv := e.Wire(); len(wv) >= 4 && bytes.Equal(wv[4:], cl.sentinel) {
				return true
			}
		}
		return false
	}

	// application side: read up to the last sentinel
	var mu sync.Mutex
	var got []c09Got
	reader := mon.Go("reader", func() (interface{}, error) {
		for {
			m, err := s.RecvMsg()
			if err != nil {
				return nil, err
			}
			g := c09Got{hdr: append([]byte{}, m.Header...), body: append([]byte{}, m.Body...)}
			m.Free()
			mu.Lock()
			got = append(got, g)
			mu.Unlock()
			if bytes.Equal(g.body, last.sentinel) {
				return nil, nil
			}
		}
	})
	// STAR forwards best-effort through a send queue of 128: feed it in bursts of 24 cells (<= 48 forwards)
	// and let the second peer see the end of each burst before the next one.  The other receivers
	// only ever block (back-pressure), so everything can be queued at once.
	for i, cl := range cells {
		in.Inject(cl.wire)
		in.Inject(cl.swire)
		if fam == "star" && (i%24 == 23 || i == len(cells)-1) {
			cl := cl
			fres := mon.Await(func() bool { return fwdSeen(cl) }, mon.AwaitOpts{})
			if fres.V == mon.Stuck {
				c.Violate("star-forward:"+recv+"/sentinel-not-forwarded", "TTL=%d: an in-limit message (hop 0, sentinel of cell k=%d) was never forwarded to the other peer although at most 48 forwards were outstanding:\n%s", ttl, cl.k, fres.Dump)
				return
			} else if fres.V != mon.Done {
				c.Inconclusive("forwarded sentinel not seen after %v", fres.Waited)
				return
			}
		}
	}
	res := reader.Wait(mon.AwaitOpts{})
	if res.V == mon.Done {
		if _, err, _ := reader.Result(); err != nil {
			c.Inconclusive("RecvMsg: %v", err)
			return
		}
	}
	mu.Lock()
	seq := append([]c09Got{}, got...)
	mu.Unlock()

	parse := func(b []byte) (kind byte, cl *c09Cell) {
		f := bytes.SplitN(b, []byte("|"), 4)
		if len(f) < 4 || string(f[2]) != nonce || len(f[0]) != 1 {
			return 0, nil
		}
		return f[0][0], byTag[string(f[1])]
	}
	for _, g := range seq {
		kind, cl := parse(g.body)
		if cl == nil {
			c.Violate("ttl-boundary:"+recv+"/unknown-delivery", "TTL=%d: application received %x, which matches no injected payload (modified in the receiver?)", ttl, g.body)
			continue
		}
		kc := kclass(cl.k, ttl)
		switch kind {
		case 'S':
			if !bytes.Equal(g.body, cl.sentinel) {
				c.Violate("ttl-boundary:"+recv+"/k=1/modified", "TTL=%d: sentinel of cell k=%d delivered as %x", ttl, cl.k, g.body)
			}
			cl.gotSentinel++
		case 'P':
			if cl.gotSentinel > 0 {
				c.Violate("ttl-boundary:"+recv+"/"+kc+"/overtaken", "TTL=%d k=%d: probe delivered after the sentinel injected behind it on the same pipe", ttl, cl.k)
			}
			cl.gotProbe++
			if !bytes.Equal(g.body, cl.probe) {
				c.Violate("ttl-boundary:"+recv+"/"+kc+"/modified", "TTL=%d k=%d: payload delivered as %x, injected %x", ttl, cl.k, g.body, cl.probe)
			}
			if raw {
				switch fam {
				case "rr": // backtrace: receiving pipe id, then the routing words exactly as they arrived
					if len(g.hdr) != 4+len(cl.prefix) || !bytes.Equal(g.hdr[4:], cl.prefix) {
						c.Violate("backtrace:"+recv+"/mangled", "TTL=%d k=%d: raw header %x does not end with the %d routing words %x", ttl, cl.k, g.hdr, cl.k, cl.prefix)
					}
				default: // hop counter incremented for the connection just crossed
					if len(g.hdr) != 4 || binary.BigEndian.Uint32(g.hdr) != uint32(cl.k) {
						c.Violate("hop-count:"+recv+"/not-incremented", "TTL=%d k=%d: raw header %x, expected hop field %d (arrived with %d)", ttl, cl.k, g.hdr, cl.k, cl.k-1)
					}
				}
			}
		default:
			c.Violate("ttl-boundary:"+recv+"/unknown-delivery", "TTL=%d: application received %x", ttl, g.body)
		}
	}
	// verdict per cell, in injection order, up to the first sentinel that did not arrive
	delivered, dropped := 0, 0
	firstDrop := -1
	for _, cl := range cells {
		kc := kclass(cl.k, ttl)
		if cl.gotSentinel == 0 {
			// everything delivered so far is final; the in-limit sentinel itself is missing
			if res.V == mon.Stuck {
				c.Violate("ttl-boundary:"+recv+"/"+kclass(1, ttl)+"/dropped", "TTL=%d: a message that arrived directly (k=1 <= TTL; sentinel of cell k=%d) was never delivered — every goroutine is parked:\n%s", ttl, cl.k, res.Dump)
			} else if res.V != mon.Done {
				c.Inconclusive("reader not done after %v", res.Waited)
			} else {
				c.Violate("ttl-boundary:"+recv+"/"+kclass(1, ttl)+"/dropped", "TTL=%d: sentinel of cell k=%d (k=1) missing although a later sentinel on the same pipe arrived", ttl, cl.k)
			}
			break
		}
		c.Count("cells_decided", 1)
		hop := ""
		if fam == "p1" && cl.k-1 >= 255 {
			hop = "@hopfield>=255"
		}
		switch {
		case cl.gotSentinel > 1:
			c.Violate("ttl-boundary:"+recv+"/k=1/duplicated", "TTL=%d: sentinel of cell k=%d delivered %d times", ttl, cl.k, cl.gotSentinel)
		case cl.gotProbe > 1:
			c.Violate("ttl-boundary:"+recv+"/"+kc+"/duplicated", "TTL=%d k=%d delivered %d times", ttl, cl.k, cl.gotProbe)
		case cl.deliver && cl.gotProbe == 0:
			c.Violate("ttl-boundary:"+recv+"/"+kc+"/dropped"+hop, "TTL=%d: a message that crossed k=%d connections (routing prefix %s) was dropped; the sentinel injected behind it on the same pipe was delivered. The statement delivers it (k <= TTL; PAIR1: k-1 <= TTL).", ttl, cl.k, c09Pfx(cl.prefix))
		case !cl.deliver && cl.gotProbe == 1:
			c.Violate("ttl-boundary:"+recv+"/"+kc+"/delivered"+hop, "TTL=%d: a message that crossed k=%d connections (routing prefix %s) was delivered; the statement drops it", ttl, cl.k, c09Pfx(cl.prefix))
		}
		if cl.gotProbe > 0 {
			delivered++
		} else {
			dropped++
			if cl.k > 0 && (firstDrop < 0 || cl.k < firstDrop) {
				firstDrop = cl.k
			}
		}
	}
	c.Count("cells_delivered", delivered)
	c.Count("cells_dropped", dropped)
	c.Count("injections", 2*len(cells))

	// STAR: the second peer must see a forwarded copy of exactly the delivered messages, hop + 1
	if fam == "star" && res.V == mon.Done && !c.Failed() {
		{
			for _, e := range out.SentLog() {
				wv := e.Wire()
				if len(wv) < 4 {
					c.Violate("star-forward:"+recv+"/malformed", "forwarded transmission %x", wv)
					continue
				}
				kind, cl := parse(wv[4:])
				if cl == nil {
					c.Violate("star-forward:"+recv+"/unknown", "TTL=%d: other peer got %x", ttl, wv)
					continue
				}
				kc := kclass(cl.k, ttl)
				c.Count("star_forwarded_compared", 1)
				if kind == 'S' {
					cl.fwdSentinel++
					if binary.BigEndian.Uint32(wv) != 1 || !bytes.Equal(wv[4:], cl.sentinel) {
						c.Violate("hop-count:"+recv+"/forwarded-not-incremented", "TTL=%d: sentinel (arrived with hop 0) forwarded as %x", ttl, wv)
					}
					continue
				}
				cl.fwdProbe++
				if cl.fwdSentinel > 0 {
					c.Violate("star-forward:"+recv+"/"+kc+"/overtaken", "TTL=%d k=%d forwarded after its sentinel", ttl, cl.k)
				}
				if !cl.deliver {
					c.Violate("ttl-boundary:"+recv+"/"+kc+"/forwarded", "TTL=%d: a message that crossed k=%d connections was forwarded to the other peer as %x; it is over the limit and must die here", ttl, cl.k, wv[:4])
				} else if binary.BigEndian.Uint32(wv) != uint32(cl.k) || !bytes.Equal(wv[4:], cl.probe) {
					c.Violate("hop-count:"+recv+"/forwarded-not-incremented", "TTL=%d k=%d (arrived with hop %d) forwarded with header %x / payload equal=%v", ttl, cl.k, cl.k-1, wv[:4], bytes.Equal(wv[4:], cl.probe))
				}
			}
			for _, cl := range cells {
				if cl.deliver && cl.fwdProbe != 1 {
					c.Violate("star-forward:"+recv+"/"+kclass(cl.k, ttl)+"/forwarded-count", "TTL=%d k=%d forwarded %d times to the other peer, expected once", ttl, cl.k, cl.fwdProbe)
				}
				if cl.fwdSentinel != 1 {
					c.Violate("star-forward:"+recv+"/k=1/forwarded-count", "TTL=%d sentinel of cell k=%d forwarded %d times", ttl, cl.k, cl.fwdSentinel)
				}
			}
		}
	}
	if delivered > 0 && dropped > 0 {
		c.Nontrivial() // both sides of the boundary were exercised
	}
	c.Sig("grid|%s|ttl=%d|default=%v|deliv=%d|drop=%d|firstdrop=%d", recv, ttl, sp.TTL == 0, delivered, dropped, firstDrop)
}

// c09Opt: OptionTTL accepts exactly the ints 1..255 and reports them back; default 8.
func c09Opt(c *mon.Case, sp c09Spec) {
	recv := sp.Recv
	s := hx.MustSock(c, recv)
	get := func() interface{} { v, _ := s.GetOption(mangos.OptionTTL); return v }
	if v, err := s.GetOption(mangos.OptionTTL); err != nil || v != 8 {
		c.Violate("ttl-option:"+recv+"/default-not-8", "GetOption(TTL) on a fresh socket = %v, %v", v, err)
	}
	n := 0
	for v := 1; v <= 255; v++ {
		if err := s.SetOption(mangos.OptionTTL, v); err != nil {
			c.Violate("ttl-option:"+recv+"/in-range-rejected", "SetOption(TTL, %d) = %v", v, err)
			continue
		}
		if g := get(); g != v {
			c.Violate("ttl-option:"+recv+"/not-stored", "after SetOption(TTL, %d) GetOption returns %v", v, g)
		}
		n++
	}
	if err := s.SetOption(mangos.OptionTTL, 5); err != nil {
		return
	}
	bad := []interface{}{0, 256, -1, -255, 1 << 20, "8", int64(8), int32(8), uint8(8), 8.0, true, nil, []int{8}}
	for _, b := range bad {
		err := s.SetOption(mangos.OptionTTL, b)
		if err == nil {
			c.Violate(fmt.Sprintf("ttl-option:%s/out-of-range-accepted:%T(%v)", recv, b, b), "SetOption(TTL, %T %v) succeeded; GetOption now %v", b, b, get())
			s.SetOption(mangos.OptionTTL, 5)
			continue
		}
		if g := get(); g != 5 {
			c.Violate(fmt.Sprintf("ttl-option:%s/rejected-value-stored:%T(%v)", recv, b, b), "SetOption(TTL, %T %v) returned %v but GetOption now returns %v", b, b, err, g)
			s.SetOption(mangos.OptionTTL, 5)
		}
		n++
	}
	c.Count("ttl_option_values_checked", n)
	c.Nontrivial()
	c.Sig("opt|%s", recv)
}

func c09Pfx(p []byte) string {
	if len(p) <= 16 {
		return fmt.Sprintf("%x", p)
	}
	return fmt.Sprintf("%x…%x (%d bytes)", p[:8], p[len(p)-4:], len(p))
}
