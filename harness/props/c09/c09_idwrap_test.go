package c09

// Kind "idwrap": the conversation of a REQ or SURVEYOR client with its server, directly and
// through 1-2 devices, while the client's 32-bit id counter crosses one of its boundaries
// (0xffffffff -> 0, 0x7fffffff -> 0x80000000, or starts at 0).  The request/survey id is the
// word that ends the routing header (its top bit is the end marker), so an id that loses the
// bit, or two outstanding requests that share an id after the wrap, break the path of the
// replies.  Unaided the counter starts at a clock-derived value and needs up to 2^32 requests
// to get there; the verif-tag accessor VerifSetNextID of protocol/req and protocol/surveyor
// positions it (nothing else in the library is touched).
//
// Oracle: every request sent (sequentially, then from three contexts with all three outstanding
// at once across the boundary) is answered with 'A|' + its own body at the context that asked;
// a reply that never comes is decided by the stuck detector (retry and survey times are an hour).

import (
	"fmt"
	"math/rand"
	"sync"

	"go.nanomsg.org/mangos/v3"
	"go.nanomsg.org/mangos/v3/protocol"
	"go.nanomsg.org/mangos/v3/protocol/req"
	"go.nanomsg.org/mangos/v3/protocol/surveyor"
	"time"
	"verifharness/hx"
	"verifharness/mon"
)

func c09IDWrapCases(r *mon.Runner, rnd *rand.Rand) []mon.CaseSpec {
	var out []mon.CaseSpec
	reps := r.Pick(1, 12)
	for rep := 0; rep < reps; rep++ {
		for _, fam := range []string{"reqrep", "survey"} {
			for _, how := range []string{"wrap32", "wrap31", "zero"} {
				for L := 0; L <= 2; L++ {
					sp := c09Spec{Kind: "idwrap", Fam: fam, How: how, L: L, N: rnd.Intn(4), RawSrv: rnd.Intn(2) == 0,
						Tr: []string{"inproc", "ipc", "tcp"}[rnd.Intn(3)]}
					out = append(out, mon.CaseSpec{Name: fmt.Sprintf("idwrap-%s-%s-L%d", fam, how, L), Spec: sp})
				}
			}
		}
	}
	return out
}

func c09IDWrapCase(c *mon.Case, sp c09Spec) {
	var boundary uint32
	switch sp.How {
	case "wrap32":
		boundary = 0xffffffff
	case "wrap31":
		boundary = 0x7fffffff
	case "zero":
		boundary = 0
	}
	start := boundary - uint32(sp.N) // the counter is incremented before use: ids boundary-N+1 .. cross the boundary after N requests
	var p protocol.Protocol
	var ok bool
	srvName, front, back := "rep", "xrep", "xreq"
	if sp.Fam == "survey" {
		p = surveyor.NewProtocol()
		ok = surveyor.VerifSetNextID(p, start)
		srvName, front, back = "respondent", "xrespondent", "xsurveyor"
	} else {
		p = req.NewProtocol()
		ok = req.VerifSetNextID(p, start)
	}
	if !ok {
		c.Inconclusive("VerifSetNextID did not recognise the protocol instance")
		return
	}
	if sp.RawSrv {
		srvName = "x" + srvName
	}
	sig := fmt.Sprintf("idwrap:%s-%s/%s", sp.Fam, srvName, sp.How)

	var helpers sync.WaitGroup
	c.Cleanup(func() {
		w := mon.Go("helpers", func() (interface{}, error) { helpers.Wait(); return nil, nil })
		if res := w.Wait(mon.AwaitOpts{}); res.V != mon.Done {
			c.Inconclusive("echo goroutine did not exit after Close (%v)", res.V)
		}
	})
	cli := protocol.MakeSocket(p)
	c.Cleanup(func() { cli.Close() })
	cli.SetOption(mangos.OptionRetryTime, time.Hour)
	cli.SetOption(mangos.OptionSurveyTime, time.Hour)
	srv := hx.MustSock(c, srvName)

	// chain: cli -> (front|back)* -> srv, every connection over sp.Tr, the downstream side listening
	up := mangos.Socket(cli)
	upw := hx.WatchPipes(cli)
	for i := 0; i < sp.L; i++ {
		f, b := hx.MustSock(c, front), hx.MustSock(c, back)
		fw := hx.WatchPipes(f)
		bw := hx.WatchPipes(b)
		if _, _, err := hx.Connect(f, up, sp.Tr); err != nil {
			c.Inconclusive("connect over %s: %v", sp.Tr, err)
			return
		}
		if !hx.WaitAttached(c, fw, 1, "device front") || !hx.WaitAttached(c, upw, 1, "upstream") {
			return
		}
		if err := mangos.Device(f, b); err != nil {
			c.Inconclusive("Device: %v", err)
			return
		}
		up, upw = b, bw
	}
	sw := hx.WatchPipes(srv)
	if _, _, err := hx.Connect(srv, up, sp.Tr); err != nil {
		c.Inconclusive("connect over %s: %v", sp.Tr, err)
		return
	}
	if !hx.WaitAttached(c, sw, 1, "server") || !hx.WaitAttached(c, upw, 1, "last hop") {
		return
	}

	helpers.Add(1)
	go func() {
		defer helpers.Done()
		for {
			m, err := srv.RecvMsg()
			if err != nil {
				return
			}
			m.Body = append([]byte("A|"), m.Body...)
			if err := srv.SendMsg(m); err != nil {
				return
			}
		}
	}()

	type asker interface {
		Send([]byte) error
		Recv() ([]byte, error)
	}
	ask := func(a asker, body string, what string) bool {
		sk := mon.Go("Send", func() (interface{}, error) { return nil, a.Send([]byte(body)) })
		if !c.AwaitOrViolate(sig+"/send-stuck", what+": Send returning", sk.Done, mon.AwaitOpts{}) {
			return false
		}
		if _, err, _ := sk.Result(); err != nil {
			c.Violate(sig+"/send-error", "%s: Send(%q) = %v", what, body, err)
			return false
		}
		return true
	}
	collect := func(a asker, body string, what string) bool {
		rk := mon.Go("Recv", func() (interface{}, error) { return a.Recv() })
		if !c.AwaitOrViolate(sig+"/no-reply", what+": the reply to "+body+" arriving (counter started at "+fmt.Sprintf("%#x", start)+")", rk.Done, mon.AwaitOpts{}) {
			return false
		}
		v, err, _ := rk.Result()
		if err != nil {
			c.Violate(sig+"/recv-error", "%s: Recv after %q = %v", what, body, err)
			return false
		}
		if string(v.([]byte)) != "A|"+body {
			c.Violate(sig+"/wrong-reply", "%s: asked %q, got %q", what, body, v)
			return false
		}
		c.Count("idwrap_replies_matched", 1)
		return true
	}

	// phase 1: one at a time across the boundary
	rounds := sp.N + 4
	for i := 0; i < rounds; i++ {
		body := fmt.Sprintf("q|%d|%s", i, hx.Uniq("i"))
		if !ask(cli, body, "socket") || !collect(cli, body, "socket") {
			return
		}
	}
	// phase 2: three contexts with all three outstanding at once across the boundary
	if sp.Fam == "survey" {
		surveyor.VerifSetNextID(p, boundary-1)
	} else {
		req.VerifSetNextID(p, boundary-1)
	}
	var ctxs []mangos.Context
	var bodies []string
	for i := 0; i < 3; i++ {
		cx, err := cli.OpenContext()
		if err != nil {
			c.Inconclusive("OpenContext: %v", err)
			return
		}
		ctxs = append(ctxs, cx)
		bodies = append(bodies, fmt.Sprintf("c|%d|%s", i, hx.Uniq("i")))
	}
	for i, cx := range ctxs {
		if !ask(cx, bodies[i], fmt.Sprintf("context %d", i)) {
			return
		}
	}
	for _, i := range c.Rand.Perm(3) {
		if !collect(ctxs[i], bodies[i], fmt.Sprintf("context %d", i)) {
			return
		}
	}
	c.Count("idwrap_boundary_crossings", 2)
	c.Count("idwrap_cases_"+sp.How, 1)
	c.Sig("idwrap|%s|%s|%s|L%d|N%d|%s", sp.Fam, srvName, sp.How, sp.L, sp.N, sp.Tr)
	c.Nontrivial()
}
