//go:build verif

package c09

import (
	"encoding/binary"
	"fmt"
	"time"

	"go.nanomsg.org/mangos/v3"

	"verifharness/hx"
	"verifharness/mon"
)

// c09Slow: "a device behaves exactly as if its two sides were directly connected" also when the
// far side is slow.  PAIR (a pattern that blocks rather than drops) -> device -> PAIR, the receiving
// application away for longer than any queue can absorb (and longer than a second): the sender is
// held back, nothing is dropped, every message arrives once and in order — with k devices in the
// path as with none.
func c09Slow(c *mon.Case, sp c09Spec) {
	k := sp.TTL // number of devices in the path (0..2)
	snd := hx.MustSock(c, "pair")
	rcv := hx.MustSock(c, "pair")
	prev := snd
	for i := 0; i < k; i++ {
		in, out := hx.MustSock(c, "xpair"), hx.MustSock(c, "xpair")
		if _, _, err := hx.Connect(in, prev, "inproc"); err != nil {
			c.Inconclusive("setup: %v", err)
			return
		}
		if err := mangos.Device(in, out); err != nil {
			c.Violate("chain:pair-slow/device-refused", "mangos.Device on raw PAIR sockets returned %v", err)
			return
		}
		prev = out
	}
	wr := hx.WatchPipes(rcv)
	if _, _, err := hx.Connect(rcv, prev, "inproc"); err != nil {
		c.Inconclusive("setup: %v", err)
		return
	}
	if !hx.WaitAttached(c, wr, 1, "receiver") {
		return
	}
	mon.Sleep(5 * time.Millisecond)
	total := 1500
	sender := mon.Go("sender", func() (interface{}, error) {
		b := make([]byte, 64)
		for i := 1; i <= total; i++ {
			binary.BigEndian.PutUint32(b, uint32(i))
			if err := snd.Send(b); err != nil {
				return i, err
			}
		}
		return total, nil
	})
	mon.Sleep(1300 * time.Millisecond) // the receiving application is away
	rk := mon.Go("receiver", func() (interface{}, error) {
		for want := 1; want <= total; want++ {
			b, err := rcv.Recv()
			if err != nil {
				return want, err
			}
			if got := int(binary.BigEndian.Uint32(b)); got != want {
				return want, fmt.Errorf("got message %d", got)
			}
		}
		return total, nil
	})
	if !c.AwaitOrViolate(fmt.Sprintf("chain:pair-slow/k=%d/stuck", k), fmt.Sprintf("all %d messages passing %d device(s) to a receiver that was away for 1.3s", total, k), func() bool { return sender.Done() && rk.Done() }, mon.AwaitOpts{}) {
		return
	}
	if v, err, _ := sender.Result(); err != nil {
		c.Violate(fmt.Sprintf("chain:pair-slow/k=%d/send-error", k), "Send %v returned %v", v, err)
		return
	}
	if v, err, _ := rk.Result(); err != nil {
		c.Violate(fmt.Sprintf("chain:pair-slow/k=%d/lost-or-reordered", k), "through %d device(s): expected message %v, %v — with the two PAIR sockets connected directly nothing is lost when the receiver is slow", k, v, err)
		return
	}
	c.Count("slow_receiver_messages_in_order", total)
	c.Nontrivial()
	c.Sig("slow|k%d", k)
}
