package c09

import (
	"bytes"
	"fmt"
	"math/rand"
	"sort"
	"strconv"
	"strings"
	"sync"
	"sync/atomic"
	"time"

	"go.nanomsg.org/mangos/v3"

	"verifharness/mon"
)

// Part B, "held" cases — a cooked server that works on several requests at once.
//
//	asker, asker, ... (REQ/SURVEYOR sockets, each with 1-3 contexts)
//	      -- dev1 -- ... -- devL --  REP/RESPONDENT with 2-5 contexts
//
// "Every reply or response returns to the client that asked" has to hold for
// whatever the server application does between taking a request in and answering
// it.  The plain chain cases answer each request at once and in the very message
// it arrived in; here the server application holds several requests at the same
// time (one per context), takes further requests in before it answers the earlier
// ones, answers in an order of its own, and — per context — uses one of the ways
// an application may treat the request message:
//
//	bytes  Recv()/Send(): the library releases the request message inside Recv
//	free   RecvMsg, copy the body, Free the request, answer in a new message
//	keep   RecvMsg, answer in a new message, Free the request afterwards
//	reuse  RecvMsg, answer in the request message itself
//
// The links are real connections (stream transports mostly: they take their
// receive buffers from the message pool).  Everything the askers do must
// complete with 'A|'+their own request; a lost request or reply is decided by the
// stuck detector (REQ retry and survey time are one hour: one transmission each).

type c09Handle interface {
	Send([]byte) error
	Recv() ([]byte, error)
	SendMsg(*mangos.Message) error
	RecvMsg() (*mangos.Message, error)
}

var c09HeldStyles = []string{"bytes", "bytes", "free", "keep", "reuse"}

func c09HeldCases(r *mon.Runner, rnd *rand.Rand) []mon.CaseSpec {
	var out []mon.CaseSpec
	reps := r.Pick(5, 150)
	lmax := r.Pick(4, 9)
	procs := []int{0, 0, 1, 2, 4}
	trs := []string{"stream", "stream", "stream", "stream", "any", "any", "ipc", "inproc"}
	add := func(sp c09Spec) {
		sp.Kind = "held"
		sp.Tr = trs[rnd.Intn(len(trs))]
		sp.Procs = procs[rnd.Intn(len(procs))]
		sp.Rounds = r.Pick(3, 6)
		sp.Clients = 1 + rnd.Intn(4)
		sp.Ctx = 1 + rnd.Intn(3)
		if sp.Clients*sp.Ctx < 2 {
			sp.Ctx = 2
		}
		sp.SrvCtx = 2 + rnd.Intn(4)
		out = append(out, mon.CaseSpec{Name: "held-" + sp.Fam, Spec: sp})
	}
	for rep := 0; rep < reps; rep++ {
		for _, fam := range []string{"reqrep", "survey"} {
			for L := 0; L <= lmax; L++ {
				if L+1 <= 8 {
					add(c09Spec{Fam: fam, L: L, Mode: "default"})
				}
				b := L + 1 // smallest server TTL that delivers
				add(c09Spec{Fam: fam, L: L, Mode: "set", TTL: []int{b, b, b + 1, 255}[rnd.Intn(4)]})
			}
		}
	}
	return out
}

type c09Asker struct {
	h      c09Handle
	cl, cx int
	msgAPI bool // SendMsg/RecvMsg instead of Send/Recv

	mu      sync.Mutex
	round   int  // index of the request last sent
	waiting bool // sent, reply not yet received
}

// one request as the server application saw it
type c09HeldRec struct {
	asker, round int
	handle       int
	style        string
	replied      bool
	between      int // other requests taken in between this one's arrival and its answer
}

func c09HeldParse(b []byte) (asker, round int, ok bool) {
	f := bytes.SplitN(b, []byte("|"), 4)
	if len(f) < 4 || string(f[0]) != "Q" {
		return 0, 0, false
	}
	a, e1 := strconv.Atoi(string(f[1]))
	i, e2 := strconv.Atoi(string(f[2]))
	return a, i, e1 == nil && e2 == nil
}

func c09Held(c *mon.Case, sp c09Spec) {
	fd := c09Fams[sp.Fam]
	rig := newC09Rig(c, sp)
	L := sp.L
	srvTTL := 8
	if sp.Mode == "set" {
		srvTTL = sp.TTL
	}
	kc := kclass(L+1, srvTTL)
	pre := "held:" + sp.Fam

	// ---- build: server, L devices, clients; all links real ----
	server := rig.sock(fd.server, "server "+fd.server)
	if sp.Mode == "set" {
		rig.setTTL(server, srvTTL)
	}
	type dev struct{ front, back *c09Sock }
	devs := make([]dev, L+1)
	for i := 1; i <= L; i++ {
		devs[i] = dev{rig.sock(fd.front, fmt.Sprintf("dev%d.%s", i, fd.front)), rig.sock(fd.back, fmt.Sprintf("dev%d.%s", i, fd.back))}
		if sp.Mode == "set" {
			rig.setTTL(devs[i].front, 255)
		}
	}
	clients := make([]*c09Sock, sp.Clients)
	for j := range clients {
		clients[j] = rig.sock(fd.client, fmt.Sprintf("client%d %s", j, fd.client))
		// one transmission per request / Recv waits for the response and never for the clock;
		// set before the contexts are opened (they take the socket's values over)
		if sp.Fam == "reqrep" {
			clients[j].s.SetOption(mangos.OptionRetryTime, time.Hour)
		} else {
			clients[j].s.SetOption(mangos.OptionSurveyTime, time.Hour)
		}
	}
	if c.Failed() {
		return
	}
	first := server
	if L > 0 {
		first = devs[1].front
		if !rig.connect(server, devs[L].back) {
			return
		}
		for i := L - 1; i >= 1; i-- {
			if !rig.connect(devs[i+1].front, devs[i].back) {
				return
			}
		}
	}
	for _, cl := range clients {
		if !rig.connect(first, cl) {
			return
		}
	}
	if !rig.waitAttached() {
		return
	}
	for i := 1; i <= L; i++ {
		if err := mangos.Device(devs[i].front.s, devs[i].back.s); err != nil {
			c.Violate("chain:"+sp.Fam+"/device-refused", "mangos.Device(%s,%s) = %v", fd.front, fd.back, err)
			return
		}
	}

	// ---- handles: the socket itself (its built-in context) and opened contexts ----
	handles := func(s *c09Sock, n int) []c09Handle {
		var hs []c09Handle
		if c.Rand.Intn(2) == 0 {
			hs = append(hs, s.s)
		}
		for len(hs) < n {
			cx, err := s.s.OpenContext()
			if err != nil {
				c.Violate(pre+"/open-context-refused", "OpenContext on %s: %v", s.what, err)
				return nil
			}
			hs = append(hs, cx)
		}
		return hs
	}
	srvH := handles(server, sp.SrvCtx)
	if srvH == nil {
		return
	}
	style := make([]string, len(srvH))
	for i := range style {
		style[i] = c09HeldStyles[c.Rand.Intn(len(c09HeldStyles))]
	}
	var askers []*c09Asker
	for j, cl := range clients {
		hs := handles(cl, sp.Ctx)
		if hs == nil {
			return
		}
		for x, h := range hs {
			askers = append(askers, &c09Asker{h: h, cl: j, cx: x, msgAPI: c.Rand.Intn(3) == 0, round: -1})
		}
	}
	N := len(askers)
	rounds := sp.Rounds
	total := N * rounds
	c.Count("chain_devices", L)
	c.Count("chain_clients", sp.Clients)
	c.Count("held_askers", N)

	// all payloads up front (the case PRNG is not goroutine safe)
	nonce := fmt.Sprintf("%x", c.Rand.Uint64())
	q := make([][][]byte, N)
	owner := map[string][2]int{} // expected reply -> (asker, round)
	for a := range q {
		for i := 0; i < rounds; i++ {
			n := c.Rand.Intn(40)
			if c.Rand.Intn(4) == 0 {
				n = c.Rand.Intn(400) // other size classes of the message pool
			}
			fl := make([]byte, n)
			c.Rand.Read(fl)
			b := append([]byte(fmt.Sprintf("Q|%d|%d|%s|", a, i, nonce)), fl...)
			q[a] = append(q[a], b)
			owner["A|"+string(b)] = [2]int{a, i}
		}
	}
	srvRnd := rand.New(rand.NewSource(c.Rand.Int63()))

	var aborted atomic.Bool
	inconclusive := func(format string, a ...interface{}) {
		c.Inconclusive(format, a...)
		aborted.Store(true)
	}
	violate := func(sig, format string, a ...interface{}) {
		c.Violate(sig, format, a...)
		aborted.Store(true)
	}
	var done sync.WaitGroup
	var compared atomic.Int64

	// ---- the server application ----
	var logMu sync.Mutex
	recs := map[string]*c09HeldRec{} // by request payload
	maxHeld, freedFirst, afterOthers := 0, 0, 0
	done.Add(1)
	rig.goHelper(func() {
		defer done.Done()
		type heldReq struct {
			h   int
			req []byte
			m   *mangos.Message
			rec *c09HeldRec
			at  int // requests taken so far when this one arrived
		}
		free := make([]int, len(srvH))
		for i := range free {
			free[i] = i
		}
		var held []heldReq
		taken := make([]int, N)
		isHeld := make([]bool, N)
		takes, replied := 0, 0
		for replied < total {
			// a request can only be waited for when somebody is going to send one: an asker
			// that still has requests to make and whose previous one has been answered
			avail := 0
			for a := range taken {
				if !isHeld[a] && taken[a] < rounds {
					avail++
				}
			}
			if len(free) > 0 && avail > 0 && (len(held) == 0 || srvRnd.Intn(100) < 70) {
				fi := srvRnd.Intn(len(free))
				h := free[fi]
				free = append(free[:fi], free[fi+1:]...)
				var b []byte
				var m *mangos.Message
				var err error
				if style[h] == "bytes" {
					b, err = srvH[h].Recv()
				} else if m, err = srvH[h].RecvMsg(); err == nil {
					b = append([]byte{}, m.Body...)
					if style[h] == "free" {
						m.Free()
						m = nil
					}
				}
				if err != nil {
					if !aborted.Load() {
						inconclusive("server context %d Recv: %v", h, err)
					}
					return
				}
				a, i, ok := c09HeldParse(b)
				if !ok || a < 0 || a >= N || isHeld[a] || i != taken[a] || i >= rounds || !bytes.Equal(b, q[a][i]) {
					violate(pre+"/request-modified-or-duplicated", "server context %d behind %d devices received %q, which is not the next request of any asker that is waiting for nothing (%d askers, one outstanding request each, no retransmission)", h, L, b[:min(len(b), 40)], N)
					return
				}
				rec := &c09HeldRec{asker: a, round: i, handle: h, style: style[h]}
				logMu.Lock()
				recs[string(b)] = rec
				if style[h] == "bytes" || style[h] == "free" {
					freedFirst++
				}
				logMu.Unlock()
				taken[a]++
				isHeld[a] = true
				takes++
				held = append(held, heldReq{h: h, req: b, m: m, rec: rec, at: takes})
				if len(held) > maxHeld {
					logMu.Lock()
					maxHeld = len(held)
					logMu.Unlock()
				}
				continue
			}
			// answer one of the held requests
			hi := srvRnd.Intn(len(held))
			hr := held[hi]
			held = append(held[:hi], held[hi+1:]...)
			ans := append([]byte("A|"), hr.req...)
			var err error
			switch style[hr.h] {
			case "bytes":
				err = srvH[hr.h].Send(ans)
			case "reuse":
				hr.m.Body = append(hr.m.Body[:0], ans...)
				err = srvH[hr.h].SendMsg(hr.m)
			default: // free, keep
				m := mangos.NewMessage(len(ans))
				m.Body = append(m.Body, ans...)
				err = srvH[hr.h].SendMsg(m)
				if hr.m != nil {
					hr.m.Free()
				}
			}
			if err != nil {
				if !aborted.Load() {
					inconclusive("server context %d Send: %v", hr.h, err)
				}
				return
			}
			logMu.Lock()
			hr.rec.replied = true
			hr.rec.between = takes - hr.at
			if hr.rec.between > 0 {
				afterOthers++
			}
			logMu.Unlock()
			a, _, _ := c09HeldParse(hr.req)
			isHeld[a] = false
			free = append(free, hr.h)
			replied++
		}
	})

	// ---- the askers ----
	for a := range askers {
		a := a
		as := askers[a]
		done.Add(1)
		rig.goHelper(func() {
			defer done.Done()
			for i, b := range q[a] {
				as.mu.Lock()
				as.round, as.waiting = i, true
				as.mu.Unlock()
				var got []byte
				var err error
				if as.msgAPI {
					m := mangos.NewMessage(len(b))
					m.Body = append(m.Body, b...)
					if err = as.h.SendMsg(m); err == nil {
						var rm *mangos.Message
						if rm, err = as.h.RecvMsg(); err == nil {
							got = append([]byte{}, rm.Body...)
							rm.Free()
						}
					}
				} else if err = as.h.Send(b); err == nil {
					got, err = as.h.Recv()
				}
				if err != nil {
					if !aborted.Load() {
						inconclusive("asker %d (client %d context %d) round %d: %v", a, as.cl, as.cx, i, err)
					}
					return
				}
				as.mu.Lock()
				as.waiting = false
				as.mu.Unlock()
				compared.Add(1)
				if want := "A|" + string(b); string(got) != want {
					if o, ok := owner[string(got)]; ok {
						violate(pre+"/reply-to-wrong-asker", "asker %d (client %d, context %d) asked %q (round %d) and received %q — the answer to round %d of asker %d (client %d, context %d); L=%d devices, %d askers, server with %d contexts holding several requests at once", a, as.cl, as.cx, b[:min(len(b), 30)], i, got[:min(len(got), 32)], o[1], o[0], askers[o[0]].cl, askers[o[0]].cx, L, N, len(srvH))
					} else {
						violate(pre+"/wrong-reply", "asker %d (client %d, context %d) asked %q (round %d) and received %q (L=%d devices, %d askers)", a, as.cl, as.cx, b[:min(len(b), 30)], i, got[:min(len(got), 32)], L, N)
					}
					return
				}
			}
		})
	}

	all := mon.Go("conversations", func() (interface{}, error) { done.Wait(); return nil, nil })
	res := mon.Await(func() bool { return all.Done() || aborted.Load() }, mon.AwaitOpts{})
	if res.V == mon.Stuck && !c.Failed() {
		// every goroutine is parked: say whose reply (or request) is missing, from the two logs
		logMu.Lock()
		lost := map[string][]string{}
		for a, as := range askers {
			as.mu.Lock()
			w, i := as.waiting, as.round
			as.mu.Unlock()
			if !w {
				continue
			}
			rec := recs[string(q[a][i])]
			who := fmt.Sprintf("asker %d (client %d, context %d) round %d", a, as.cl, as.cx, i)
			switch {
			case rec == nil:
				lost[pre+"/request-lost/"+kc] = append(lost[pre+"/request-lost/"+kc], who+": the server application never received the request")
			case rec.replied:
				sig := pre + "/reply-lost@server-" + rec.style
				lost[sig] = append(lost[sig], fmt.Sprintf("%s: server context %d (%s) took the request in, took %d other request(s) in before answering, and its Send returned nil", who, rec.handle, rec.style, rec.between))
			}
		}
		logMu.Unlock()
		var sigs []string
		for s := range lost {
			sigs = append(sigs, s)
		}
		sort.Strings(sigs)
		for _, s := range sigs {
			c.Violate(s, "%s behind L=%d devices (%d connections crossed, server TTL %d, mode %s; %d askers on %d clients, server with %d contexts %v): the statement returns every reply to the asker, but every goroutine is parked and these never got theirs:\n  %s\n%s", sp.Fam, L, L+1, srvTTL, sp.Mode, N, sp.Clients, len(srvH), style, strings.Join(lost[s], "\n  "), res.Dump)
		}
		if len(sigs) == 0 {
			c.Violate(pre+"/stuck/"+kc, "%s behind L=%d devices: every goroutine is parked and the conversations never finished:\n%s", sp.Fam, L, res.Dump)
		}
	} else if res.V != mon.Done && !c.Failed() {
		c.Inconclusive("conversations not finished after %v", res.Waited)
	}
	logMu.Lock()
	c.Count("chain_messages_compared", int(compared.Load()))
	c.Count("held_replies_compared", int(compared.Load()))
	c.Count("held_requests_released_before_reply", freedFirst)
	c.Count("held_replies_after_later_requests", afterOthers)
	if maxHeld >= 2 {
		c.Count("held_cases_two_or_more_at_once", 1)
	}
	if res.V == mon.Done && all.Done() && !c.Failed() && !c.Undecided() && L > 0 && maxHeld >= 2 && afterOthers > 0 {
		c.Nontrivial()
	}
	mh := maxHeld
	logMu.Unlock()
	c.Count("held_cases_"+sp.Fam, 1)
	st := append([]string{}, style...)
	sort.Strings(st)
	c.Sig("held|%s|L=%d|ttl=%d|%s|cl=%d|ask=%d|srv=%s|max=%d|%s|p%d", sp.Fam, L, srvTTL, sp.Mode, sp.Clients, N, strings.Join(st, ","), mh, rig.trSig(), sp.Procs)
}
