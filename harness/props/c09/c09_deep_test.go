package c09

import (
	"bytes"
	"fmt"
	"math/rand"
	"sync"

	"go.nanomsg.org/mangos/v3"

	"verifharness/hx"
	"verifharness/mon"
)

// Deep chains and long routing headers on the real transports.
//
// The routing header of a REQ/SURVEY message grows by one 32-bit word per
// connection crossed, so what a transport has to carry depends on how deep the
// message is in a chain: behind L devices the last connection carries L+1 words
// in both directions.  The chain grid of c09_chain_test.go keeps the quick tier
// at L <= 4; here
//
//   - "deep" cases run the same chain oracle (c09Chain) with L = 5..8 devices
//     (thorough: up to 12) and EVERY connection over one given transport
//     (inproc, ipc, tcp, tls+tcp, ws, wss) or a per-connection mix of all six:
//     default TTLs (L <= 7 delivers with 6..8 words on the last links, L = 8
//     must be dropped by the server, the connections before it carry up to 8
//     words), or devices at 255 with the server on/above the boundary;
//   - "wire" cases put the header length itself on a grid: a raw client
//     (xreq / xsurveyor) sends, over ONE real connection of each transport,
//     messages that have crossed k connections (k routing words) to a receiver
//     (rep, xrep, respondent, xrespondent) whose TTL is the default or set as
//     high as 255; each is followed on the same connection by an in-limit
//     sentinel (k = 1).  The application echoes; the client must see
//     [reply to the probe iff k <= TTL], reply to the sentinel, each with the
//     very routing words it sent, and a raw receiver must have been handed the
//     backtrace unchanged behind the word it adds.

var c09AllTr = []string{"inproc", "ipc", "tcp", "tls+tcp", "ws", "wss"}

func c09DeepCases(r *mon.Runner, rnd *rand.Rand) []mon.CaseSpec {
	var out []mon.CaseSpec
	procs := []int{0, 0, 1, 2, 4}
	add := func(fam, tr string, L int) {
		sp := c09Spec{Kind: "chain", Fam: fam, L: L, Tr: tr, RawSrv: rnd.Intn(2) == 0, Rounds: r.Pick(2, 4)}
		sp.Procs = procs[rnd.Intn(len(procs))]
		sp.Clients = 1 + rnd.Intn(3)
		b := L + 1 // smallest server TTL that still delivers
		switch {
		case L > 8:
			sp.Mode, sp.TTL = "set", []int{b, b + 1, 255, b - 1}[rnd.Intn(4)]
		case L == 8: // default TTLs: the server must drop (vt tap on the last connection)
			sp.Mode = "default"
			if rnd.Intn(2) == 0 {
				sp.Mode, sp.TTL = "set", []int{b, 255}[rnd.Intn(2)]
			}
		default:
			sp.Mode = "default"
			if rnd.Intn(3) == 0 {
				sp.Mode, sp.TTL = "set", []int{b, b + 1, 255, b - 1}[rnd.Intn(4)]
			}
		}
		srv := "cooked"
		if sp.RawSrv {
			srv = "raw"
		}
		out = append(out, mon.CaseSpec{Name: fmt.Sprintf("deep-%s-%s-%s", fam, srv, tr), Spec: sp})
	}
	for rep := 0; rep < r.Pick(1, 30); rep++ {
		for _, tr := range c09AllTr {
			if r.Thorough() && (tr == "tcp" || tr == "tls+tcp" || tr == "ws" || tr == "wss") && rep%3 != 0 {
				continue // sockets on 127.0.0.1 sparingly in the long tier (ephemeral ports are shared machine-wide)
			}
			for _, fam := range []string{"reqrep", "survey"} {
				add(fam, tr, 6)
				add(fam, tr, 7)
			}
			// one more depth per transport: 5 (24 header bytes), 8 (dropped at the default TTL), deeper in the long tier
			add([]string{"reqrep", "survey"}[rnd.Intn(2)], tr, []int{5, 8}[rnd.Intn(2)])
			if r.Thorough() {
				add([]string{"reqrep", "survey"}[rnd.Intn(2)], tr, 9+rnd.Intn(4))
			}
		}
		for i := 0; i < r.Pick(2, 4); i++ { // per-connection mix of all six transports
			add([]string{"reqrep", "survey"}[rnd.Intn(2)], "any", 5+rnd.Intn(4))
		}
	}
	return out
}

func c09WireCases(r *mon.Runner, rnd *rand.Rand) []mon.CaseSpec {
	var out []mon.CaseSpec
	for rep := 0; rep < r.Pick(1, 40); rep++ {
		for _, rc := range []string{"rep", "xrep", "respondent", "xrespondent"} {
			for _, tr := range c09AllTr {
				if r.Thorough() && tr != "inproc" && tr != "ipc" && rep%4 != 0 {
					continue
				}
				// the default (8) and one set value per (receiver, transport); 255 and small values are favoured
				ttl := []int{255, 255, 16, 32, 64, 9, 7, 12, 1 + rnd.Intn(255), 1 + rnd.Intn(255)}[rnd.Intn(10)]
				for _, v := range []int{0, ttl} {
					out = append(out, mon.CaseSpec{Name: "wire-" + rc + "-" + tr, Spec: c09Spec{Kind: "wire", Recv: rc, Tr: tr, TTL: v}})
				}
			}
		}
	}
	return out
}

type c09WireCell struct {
	k               int
	probe, sentinel []byte // payloads
	ppre, spre      []byte // routing words sent
	deliver         bool
}

func c09WireCase(c *mon.Case, sp c09Spec) {
	recv, tr := sp.Recv, sp.Tr
	raw := recv[0] == 'x'
	cliProto := "xreq"
	if recv == "respondent" || recv == "xrespondent" {
		cliProto = "xsurveyor"
	}
	// registered before the sockets so that it runs after they are closed
	var helpers sync.WaitGroup
	c.Cleanup(func() {
		w := mon.Go("helpers", func() (interface{}, error) { helpers.Wait(); return nil, nil })
		if res := w.Wait(mon.AwaitOpts{}); res.V != mon.Done {
			c.Inconclusive("echo goroutine did not exit after Close (%v)", res.V)
		}
	})
	srv := hx.MustSock(c, recv)
	cli := hx.MustSock(c, cliProto)
	ttl := sp.TTL
	if ttl == 0 {
		ttl = 8
	} else if err := srv.SetOption(mangos.OptionTTL, ttl); err != nil {
		c.Violate("ttl-option:"+recv+"/in-range-rejected", "SetOption(TTL, %d) = %v", ttl, err)
		return
	}
	sw, cw := hx.WatchPipes(srv), hx.WatchPipes(cli)
	if _, _, err := hx.Connect(srv, cli, tr); err != nil {
		c.Inconclusive("connect %s -> %s over %s: %v", cliProto, recv, tr, err)
		return
	}
	if !hx.WaitAttached(c, sw, 1, recv) || !hx.WaitAttached(c, cw, 1, cliProto) {
		return
	}

	// ---- cells: k around the scratch sizes a sender might use, around the TTL, and anywhere up to TTL+2 ----
	seen := map[int]bool{}
	var ks []int
	addK := func(k int) {
		if k >= 1 && k <= ttl+2 && !seen[k] {
			seen[k] = true
			ks = append(ks, k)
		}
	}
	for _, k := range []int{1, 2, 6, 7, 8, 9, ttl - 1, ttl, ttl + 1, ttl + 2} {
		addK(k)
	}
	for i := 0; i < 6; i++ {
		addK(1 + c.Rand.Intn(ttl+2))
	}
	for _, k := range []int{15, 16, 17, 31, 32, 33, 63, 64, 65, 127, 128, 129} {
		if c.Rand.Intn(3) == 0 {
			addK(k)
		}
	}
	c.Rand.Shuffle(len(ks), func(i, j int) { ks[i], ks[j] = ks[j], ks[i] })
	cells := make([]*c09WireCell, len(ks))
	for i, k := range ks {
		fl := make([]byte, c.Rand.Intn(48))
		c.Rand.Read(fl)
		if c.Rand.Intn(6) == 0 {
			fl = nil
		}
		ce := &c09WireCell{k: k, deliver: k <= ttl}
		ce.probe = hx.Cat([]byte(fmt.Sprintf("P|%d|%d|", i, k)), fl)
		ce.sentinel = []byte(fmt.Sprintf("S|%d|%s", i, hx.Uniq("w")))
		_, ce.ppre = c09Wire("rr", k, nil, c.Rand)
		_, ce.spre = c09Wire("rr", 1, nil, c.Rand)
		cells[i] = ce
	}

	// ---- the application behind the receiver: echo, remembering what it was handed ----
	var mu sync.Mutex
	var appLog []c09Got
	helpers.Add(1)
	go func() {
		defer helpers.Done()
		for {
			m, err := srv.RecvMsg()
			if err != nil {
				return
			}
			mu.Lock()
			appLog = append(appLog, c09Got{append([]byte{}, m.Header...), append([]byte{}, m.Body...)})
			mu.Unlock()
			m.Body = append([]byte("A|"), m.Body...)
			if err := srv.SendMsg(m); err != nil {
				return
			}
		}
	}()

	send := func(pre, body []byte) error {
		m := mangos.NewMessage(len(body))
		m.Header = append(m.Header, pre...)
		m.Body = append(m.Body, body...)
		return cli.SendMsg(m)
	}
	delivered, dropped, applied := 0, 0, 0
	for _, ce := range cells {
		kc := kclass(ce.k, ttl)
		where := fmt.Sprintf("%s over %s, TTL %d, k=%d (%d header bytes)", recv, tr, ttl, ce.k, 4*ce.k)
		if err := send(ce.ppre, ce.probe); err != nil {
			c.Inconclusive("client SendMsg: %v", err)
			return
		}
		if err := send(ce.spre, ce.sentinel); err != nil {
			c.Inconclusive("client SendMsg: %v", err)
			return
		}
		var got [][]byte // header+body of every reply up to the sentinel's
		wantS := hx.Cat(ce.spre, []byte("A|"), ce.sentinel)
		reader := mon.Go("client", func() (interface{}, error) {
			for {
				m, err := cli.RecvMsg()
				if err != nil {
					return nil, err
				}
				w := hx.Cat(m.Header, m.Body)
				m.Free()
				mu.Lock()
				got = append(got, w)
				mu.Unlock()
				if bytes.Equal(w, wantS) {
					return nil, nil
				}
			}
		})
		res := reader.Wait(mon.AwaitOpts{})
		switch res.V {
		case mon.Done:
			if _, err, _ := reader.Result(); err != nil {
				c.Inconclusive("client RecvMsg: %v", err)
				return
			}
		case mon.Stuck:
			mu.Lock()
			n, ng := len(appLog), len(got)
			mu.Unlock()
			c.Violate(fmt.Sprintf("wire:%s/%s/%s/sentinel-reply-lost", recv, tr, kc), "%s: the reply to the in-limit sentinel (k=1) sent behind the probe on the same connection never came back (%d replies seen for this cell, application handed %d messages so far); every goroutine is parked:\n%s", where, ng, n, res.Dump)
			return
		default:
			c.Inconclusive("%s: sentinel reply not seen after %v", where, res.Waited)
			return
		}
		// the client side: [probe reply iff deliver], sentinel reply
		wantP := hx.Cat(ce.ppre, []byte("A|"), ce.probe)
		replies := got[:len(got)-1]
		switch {
		case ce.deliver && len(replies) == 0:
			c.Violate(fmt.Sprintf("wire:%s/%s/%s/dropped", recv, tr, kc), "%s: the sentinel's reply came back but none for the probe, which the statement delivers", where)
		case !ce.deliver && len(replies) > 0:
			c.Violate(fmt.Sprintf("wire:%s/%s/%s/delivered", recv, tr, kc), "%s: a reply %x.. came back ahead of the sentinel's; the statement drops the probe", where, replies[0][:min(len(replies[0]), 24)])
		case ce.deliver && (len(replies) != 1 || !bytes.Equal(replies[0], wantP)):
			c.Violate(fmt.Sprintf("wire:%s/%s/%s/reply-modified", recv, tr, kc), "%s: %d replies ahead of the sentinel's, first %x (%d bytes); expected exactly the %d routing words sent + 'A|' + payload (%d bytes)", where, len(replies), replies[0][:min(len(replies[0]), 40)], len(replies[0]), ce.k, len(wantP))
		}
		if c.Failed() {
			return
		}
		if ce.deliver {
			delivered++
		} else {
			dropped++
		}
		applied += len(got)
	}
	// the application side: exactly the delivered probes and the sentinels, in order, bodies unchanged;
	// a raw receiver was handed the routing words unchanged behind the one word it adds
	mu.Lock()
	defer mu.Unlock()
	var want []c09Got
	for _, ce := range cells {
		if ce.deliver {
			want = append(want, c09Got{ce.ppre, ce.probe})
		}
		want = append(want, c09Got{ce.spre, ce.sentinel})
	}
	if len(appLog) != len(want) {
		c.Violate(fmt.Sprintf("wire:%s/%s/application-count", recv, tr), "%s over %s, TTL %d: the application was handed %d messages, the client saw replies to %d", recv, tr, ttl, len(appLog), len(want))
		return
	}
	for i, g := range appLog {
		if !bytes.Equal(g.body, want[i].body) {
			c.Violate(fmt.Sprintf("wire:%s/%s/payload-modified", recv, tr), "%s over %s, TTL %d: message %d handed to the application is %q, sent %q", recv, tr, ttl, i, g.body[:min(len(g.body), 24)], want[i].body[:min(len(want[i].body), 24)])
			return
		}
		if raw && (len(g.hdr) != 4+len(want[i].hdr) || !bytes.Equal(g.hdr[4:], want[i].hdr)) {
			c.Violate(fmt.Sprintf("wire:%s/%s/backtrace-modified", recv, tr), "%s over %s, TTL %d: message %d came with header %x (%d bytes); expected one added word followed by the %d routing words sent", recv, tr, ttl, i, g.hdr[:min(len(g.hdr), 40)], len(g.hdr), len(want[i].hdr)/4)
			return
		}
	}
	c.Count("wire_cells", len(cells))
	c.Count("wire_delivered", delivered)
	c.Count("wire_dropped", dropped)
	c.Count("wire_replies_compared", applied)
	maxk := 0
	for _, ce := range cells {
		if ce.deliver && ce.k > maxk {
			maxk = ce.k
		}
	}
	c.Count("wire_cases_"+tr, 1)
	if delivered > 0 && dropped > 0 {
		c.Nontrivial()
	}
	c.Sig("wire|%s|%s|ttl=%d|cells=%d|del=%d|drop=%d|maxk=%d", recv, tr, ttl, len(cells), delivered, dropped, maxk)
}
