package c09

import (
	"bytes"
	"fmt"
	"math/rand"
	"runtime"
	"sort"
	"strings"
	"sync"
	"sync/atomic"
	"time"

	"go.nanomsg.org/mangos/v3"

	"verifharness/hx"
	"verifharness/mon"
)

// Part B, "replace" cases — connections of the chain go away and are replaced.
//
//	client(s) -- dev1 -- ... -- devL -- server
//
// "Joined through any chain of devices they interoperate as if directly
// connected" is a statement about the chain for as long as it exists, not only
// about the connections it was first built from: servers restart, devices are
// replaced, peers reconnect.  Two cooked sockets that are connected directly go
// on working over a new connection once the old one is gone, so a chain has to
// as well.  A case builds a chain of L devices (L = 0 is the direct control),
// runs a few rounds of the family's conversation, and then N times over replaces
// one connection and runs the conversation again:
//
//	pipe        one end of a PRNG-chosen connection closes it (Pipe.Close); the
//	            socket that dialled re-establishes it (reconnect time 3 ms)
//	restart     one node — client 0, device i (both its sockets) or the server — is
//	            closed and a new node of the same kind takes its place, dialling the
//	            neighbours' listeners
//	make-first  the new server is attached before the old one is closed (for REQ/REP
//	            and PUSH/PULL a conversation also runs while both are up)
//
// Verdict discipline.  A message that is on a connection when that connection
// dies may be lost — that is what REQ's retry timer is for, and it is not what
// these cases are about.  So nothing is in flight when a connection is cut, and
// the old connection is completely gone and the new one completely there before
// the next message is sent:
//   - a round of conversations has finished (every asker holds its reply, every
//     pushed/published message was received) before anything is changed;
//   - "fence": the harness then waits until a stop-the-world goroutine dump shows
//     every goroutine of the process parked, twice in a row with identical stacks —
//     every forwarder, sender and receiver goroutine of the library is then waiting
//     for its next message, none is between taking one and handing it on;
//   - after the cut both sockets must have reported the old pipe detached, both must
//     have reported the new one attached and hold exactly the expected number of
//     live pipes, and a second fence must leave that unchanged.
//
// After that every asker must get 'A|'+its own request for every round (REQ
// retry and survey time are one hour: one transmission each), every pushed
// message must reach a PULL server, every publication every subscriber.  What is
// missing is decided by the stuck detector and attributed from the server
// applications' log (request never seen / reply never returned).

const c09ReconnTime = 3 * time.Millisecond

func c09ReplaceCases(r *mon.Runner, rnd *rand.Rand) []mon.CaseSpec {
	var out []mon.CaseSpec
	n := r.Pick(128, 3600)
	lmax := r.Pick(4, 9)
	fams := []string{"reqrep", "survey", "reqrep", "pair1", "reqrep", "pipeline", "survey", "pubsub"}
	hows := []string{"pipe", "pipe", "restart", "restart", "make-first"}
	procs := []int{0, 0, 1, 2, 4}
	trs := []string{"inproc", "inproc", "ipc", "mix", "mix", "stream", "any", "any"}
	for i := 0; i < n; i++ {
		sp := c09Spec{Kind: "replace", Fam: fams[i%len(fams)], How: hows[rnd.Intn(len(hows))]}
		if sp.Fam == "pair1" && sp.How == "make-first" {
			sp.How = "restart" // a PAIR1 socket has one peer at a time
		}
		sp.L = rnd.Intn(lmax + 1)
		if sp.L == 0 && rnd.Intn(3) > 0 {
			sp.L = 1 + rnd.Intn(lmax) // the direct connection is the control; most cases have devices
		}
		sp.Mode = "default"
		if c09Fams[sp.Fam].ttl {
			b := sp.L + 1 // smallest server TTL that delivers
			if sp.Fam == "pair1" {
				b = sp.L
			}
			if sp.L+1 > 8 || rnd.Intn(2) == 0 {
				sp.Mode = "set"
				sp.TTL = []int{b, b, b + 1, 255}[rnd.Intn(4)]
				if sp.TTL < 1 {
					sp.TTL = 1
				}
			}
			sp.RawSrv = sp.Fam != "pair1" && rnd.Intn(4) == 0
		}
		sp.Clients = 1
		if c09Fams[sp.Fam].multi {
			sp.Clients = 1 + rnd.Intn(3)
		}
		sp.Rounds = 1 + rnd.Intn(3)
		sp.N = 2 + rnd.Intn(r.Pick(2, 4))
		sp.Tr = trs[rnd.Intn(len(trs))]
		sp.Procs = procs[rnd.Intn(len(procs))]
		out = append(out, mon.CaseSpec{Name: fmt.Sprintf("replace-%s-%s", sp.Fam, sp.How), Spec: sp})
	}
	return out
}

// one connection of the chain
type c09RLink struct {
	dl, ls *c09Sock      // the socket that dialled, the socket that listens
	d      mangos.Dialer //
	lo     int           // node on the client side of the connection (0 clients, i device i); the other end is node lo+1
	pd, pl mangos.Pipe   // the live pipe as the dialling / the listening socket sees it
}

type c09RDev struct{ front, back *c09Sock }

type c09RState struct {
	c   *mon.Case
	sp  c09Spec
	rig *c09Rig
	fd  c09Fam
	L   int

	srvProto string
	srvTTL   int
	victim   int // restart, make-first: the node that is replaced (it dials all its connections); -1: none
	made     int // sockets made (names)

	clients []*c09Sock
	devs    []c09RDev // 1..L
	servers []*c09Sock
	links   []*c09RLink

	nonce    string
	change   string // what was replaced last ("initial" before the first replacement)
	history  []string
	phases   int
	replaced int
	ending   atomic.Bool
	aborted  atomic.Bool
	compared atomic.Int64

	mu          sync.Mutex
	seen        map[string]bool // reqrep/survey/pair1: requests a server application took in
	want        map[string]int  // pipeline: pushed and not yet pulled
	outstanding int
}

func (st *c09RState) violate(sig, format string, a ...interface{}) {
	st.c.Violate(sig, format, a...)
	st.aborted.Store(true)
}

func (st *c09RState) inconclusive(format string, a ...interface{}) {
	st.c.Inconclusive(format, a...)
	st.aborted.Store(true)
}

// c09Parked takes one stop-the-world look at the process: is every goroutine parked?  It is
// the test of mon.Sample (same wait states, same goroutines
// left out: the caller, the monitor's canary and sleeping waits, the signal loop) without
// building the parsed dump, because a case takes it a dozen times on its passing path.
var c09DumpBuf = make([]byte, 1<<19)

var c09ParkedStates = map[string]bool{
	"chan receive": true, "chan send": true, "select": true, "select (no cases)": true,
	"sync.Cond.Wait": true, "sync.Mutex.Lock": true, "sync.RWMutex.Lock": true, "sync.RWMutex.RLock": true,
	"semacquire": true, "IO wait": true, "chan receive (nil chan)": true, "chan send (nil chan)": true,
	"sync.WaitGroup.Wait": true,
}

var c09InfraFrames = [][]byte{[]byte("\nverifharness/mon.(*canary)"), []byte("\nverifharness/mon.Dump"), []byte("\nos/signal."), []byte("\nruntime.ensureSigM"), []byte("\nverifharness/mon.infraSleep")}

func c09Parked() (all bool) {
	var buf []byte
	for {
		n := runtime.Stack(c09DumpBuf, true)
		if n < len(c09DumpBuf) {
			buf = c09DumpBuf[:n]
			break
		}
		c09DumpBuf = make([]byte, 2*len(c09DumpBuf))
	}
	all = true
	first := true
blocks:
	for len(buf) > 0 {
		blk := buf
		if i := bytes.Index(buf, []byte("\n\n")); i >= 0 {
			blk, buf = buf[:i], buf[i+2:]
		} else {
			buf = nil
		}
		if first { // the calling goroutine comes first
			first = false
			continue
		}
		nl := bytes.IndexByte(blk, '\n')
		if nl < 0 {
			nl = len(blk)
		}
		hdr := blk[:nl]
		lb, rb := bytes.IndexByte(hdr, '['), bytes.LastIndexByte(hdr, ']')
		if !bytes.HasPrefix(hdr, []byte("goroutine ")) || lb < 0 || rb < lb {
			all = false // not a block this reader understands: never call that quiescent
			continue
		}
		for _, f := range c09InfraFrames {
			if bytes.Contains(blk, f) {
				continue blocks
			}
		}
		state := hdr[lb+1 : rb]
		if c := bytes.IndexByte(state, ','); c >= 0 {
			state = state[:c] // ", 2 minutes", ", locked to thread"
		}
		if !c09ParkedStates[string(state)] {
			return false
		}
	}
	return all
}

// fence waits until a stop-the-world sample shows every goroutine of the process parked:
// nothing is in flight inside the library (and the round before has been consumed end to
// end, so nothing is in a transport's buffers either).
func (st *c09RState) fence() bool {
	d := 50 * time.Microsecond
	for start := mon.Now(); mon.Now()-start < 20*time.Second; {
		if c09Parked() {
			st.c.Count("replace_fences", 1)
			return true
		}
		mon.Sleep(d)
		if d < 2*time.Millisecond {
			d *= 2
		}
	}
	st.inconclusive("the process did not become quiescent between two rounds (a connection is only replaced while nothing is in flight)")
	return false
}

func (st *c09RState) newSock(proto, role string) *c09Sock {
	st.made++
	s := st.rig.sock(proto, fmt.Sprintf("%s#%d %s", role, st.made, proto))
	s.s.SetOption(mangos.OptionReconnectTime, c09ReconnTime)
	s.s.SetOption(mangos.OptionMaxReconnectTime, c09ReconnTime)
	return s
}

func (st *c09RState) mkServer() *c09Sock {
	s := st.newSock(st.srvProto, "server")
	if st.fd.ttl && st.sp.Mode == "set" {
		st.rig.setTTL(s, st.srvTTL)
	}
	st.serve(s)
	return s
}

func (st *c09RState) mkDev(i int) c09RDev {
	d := c09RDev{st.newSock(st.fd.front, fmt.Sprintf("dev%d.front", i)), st.newSock(st.fd.back, fmt.Sprintf("dev%d.back", i))}
	if st.fd.ttl && st.sp.Mode == "set" {
		st.rig.setTTL(d.front, 255)
		if st.sp.Fam == "pair1" {
			st.rig.setTTL(d.back, 255) // the reply direction counts hops too
		}
	}
	return d
}

func (st *c09RState) mkClient(j int) *c09Sock {
	s := st.newSock(st.fd.client, fmt.Sprintf("client%d", j))
	switch st.sp.Fam {
	case "reqrep":
		s.s.SetOption(mangos.OptionRetryTime, time.Hour) // one transmission per request; resending is C04
	case "survey":
		s.s.SetOption(mangos.OptionSurveyTime, time.Hour) // Recv waits for the response, never for the clock
	case "pair1":
		if st.sp.Mode == "set" {
			st.rig.setTTL(s, 255) // replies come back over the same L+1 connections
		}
	case "pubsub":
		s.s.SetOption(mangos.OptionSubscribe, []byte{})
	}
	return s
}

// join: dl dials ls's listener (made on first use); returns once both ends hold the new connection.
func (st *c09RState) join(dl, ls *c09Sock, lo int) bool {
	if ls.l == nil {
		tr := st.rig.pickTr()
		var opts map[string]interface{}
		if hx.NeedsTLS(tr) {
			s, _ := hx.TLSConfigs()
			opts = map[string]interface{}{mangos.OptionTLSConfig: s}
		}
		l, err := ls.s.NewListener(hx.ListenAddr(tr), opts)
		if err == nil {
			err = l.Listen()
		}
		if err != nil {
			st.inconclusive("%s: listen over %s: %v", ls.what, tr, err)
			return false
		}
		ls.l, ls.ltr = l, tr
	}
	var do map[string]interface{}
	if hx.NeedsTLS(ls.ltr) {
		_, cl := hx.TLSConfigs()
		do = map[string]interface{}{mangos.OptionTLSConfig: cl}
	}
	d, err := dl.s.NewDialer(ls.l.Address(), do)
	if err == nil {
		err = d.Dial()
	}
	if err != nil {
		st.inconclusive("%s: dial %s (%s): %v", dl.what, ls.what, ls.l.Address(), err)
		return false
	}
	dl.want++
	ls.want++
	dl.live++
	ls.live++
	lk := &c09RLink{dl: dl, ls: ls, d: d, lo: lo}
	st.rig.trs = append(st.rig.trs, ls.ltr[1:2])
	if !st.waitUp(lk) {
		return false
	}
	st.links = append(st.links, lk)
	return true
}

func (st *c09RState) up(lk *c09RLink) bool {
	return lk.dl.w.Attached() >= lk.dl.want && lk.dl.w.Live() == lk.dl.live && lk.ls.w.Attached() >= lk.ls.want && lk.ls.w.Live() == lk.ls.live
}

// waitUp: both ends have reported the new pipe and hold exactly the connections they should.
// Connections are made one at a time, so the pipe the listening socket reported last is this one.
func (st *c09RState) waitUp(lk *c09RLink) bool {
	if !st.c.AwaitOrViolate("harness:attach-stuck:replace-"+st.sp.Fam+"/"+st.change, fmt.Sprintf("waiting for the connection %s -> %s to be up at both ends (%s)", lk.dl.what, lk.ls.what, st.change), func() bool { return st.up(lk) }, mon.AwaitOpts{MaxTimer: 10 * c09ReconnTime}) {
		st.aborted.Store(true)
		return false
	}
	pl := lk.ls.w.Pipes()
	lk.pl = pl[len(pl)-1]
	return true
}

// settle: every connection of the chain is up at both ends, and still is once the process is
// quiescent (a dialler whose new connection the peer turned away would be redialling).
func (st *c09RState) settle() bool {
	allUp := func() bool {
		for _, lk := range st.links {
			if !st.up(lk) {
				return false
			}
		}
		return true
	}
	for try := 0; try < 50; try++ {
		if !st.c.AwaitOrViolate("harness:attach-stuck:replace-"+st.sp.Fam+"/"+st.change, "waiting for every connection of the chain to be up at both ends ("+st.change+")", allUp, mon.AwaitOpts{MaxTimer: 10 * c09ReconnTime}) {
			st.aborted.Store(true)
			return false
		}
		if !st.fence() {
			return false
		}
		if !allUp() {
			continue
		}
		for _, lk := range st.links {
			lk.pd = nil
			for _, p := range lk.dl.w.Pipes() {
				if p.Dialer() == lk.d {
					lk.pd = p // the last one this dialler made
				}
			}
			if lk.pd == nil {
				st.inconclusive("no pipe of the dialler %s -> %s", lk.dl.what, lk.ls.what)
				return false
			}
		}
		return true
	}
	st.inconclusive("the connections of the chain do not stay up (%s)", st.change)
	return false
}

func (st *c09RState) waitDetached(what string, socks ...*c09Sock) bool {
	ok := st.c.AwaitOrViolate("harness:detach-stuck:replace-"+st.sp.Fam+"/"+st.change, "waiting for "+what, func() bool {
		for _, s := range socks {
			if s.w.Detached() < s.det {
				return false
			}
		}
		return true
	}, mon.AwaitOpts{MaxTimer: 10 * c09ReconnTime})
	if !ok {
		st.aborted.Store(true)
	}
	return ok
}

func (st *c09RState) linkClass(lk *c09RLink) string {
	switch {
	case st.L == 0:
		return "direct-link"
	case lk.lo == 0:
		return "client-link"
	case lk.lo == st.L:
		return "server-link"
	}
	return "device-link"
}

// cutPipe: one end closes the connection; the dialler makes a new one.
func (st *c09RState) cutPipe(lk *c09RLink, fromDialer bool) bool {
	p, who := lk.pl, lk.ls
	if fromDialer {
		p, who = lk.pd, lk.dl
	}
	st.history = append(st.history, fmt.Sprintf("%s: %s closed its pipe of the connection %s -> %s (%s)", st.change, who.what, lk.dl.what, lk.ls.what, lk.ls.ltr))
	lk.dl.det++
	lk.ls.det++
	lk.dl.want++
	lk.ls.want++
	p.Close()
	if !st.waitDetached(fmt.Sprintf("both ends of %s -> %s to let go of the closed connection", lk.dl.what, lk.ls.what), lk.dl, lk.ls) {
		return false
	}
	return st.waitUp(lk)
}

// dropNode closes sockets of the chain; every neighbour must let go of its connection to them.
func (st *c09RState) dropNode(socks ...*c09Sock) bool {
	is := func(s *c09Sock) bool {
		for _, x := range socks {
			if x == s {
				return true
			}
		}
		return false
	}
	var nb []*c09Sock
	keep := st.links[:0:0]
	for _, lk := range st.links {
		var other *c09Sock
		switch {
		case is(lk.dl):
			other = lk.ls
		case is(lk.ls):
			other = lk.dl
			lk.d.Close() // nobody listens there any more
		default:
			keep = append(keep, lk)
			continue
		}
		other.det++
		other.live--
		nb = append(nb, other)
	}
	st.links = keep
	for _, s := range socks {
		s.gone.Store(true)
		st.history = append(st.history, fmt.Sprintf("%s: %s closed", st.change, s.what))
		if err := s.s.Close(); err != nil {
			st.inconclusive("Close of %s: %v", s.what, err)
			return false
		}
	}
	return st.waitDetached("the neighbours of the closed node to let go of their connections to it", nb...)
}

func (st *c09RState) below(i int) []*c09Sock { // the sockets node i's client side connects to
	if i == 1 {
		return st.clients
	}
	return []*c09Sock{st.devs[i-1].back}
}

func (st *c09RState) above(i int) []*c09Sock { // the sockets node i's server side connects to
	if i == st.L {
		return st.servers
	}
	return []*c09Sock{st.devs[i+1].front}
}

// connect joins a (node lo) and b (node lo+1): the node that is going to be replaced dials, otherwise either.
func (st *c09RState) connect(a, b *c09Sock, lo int, aVictim, bVictim bool) bool {
	switch {
	case aVictim:
		return st.join(a, b, lo)
	case bVictim:
		return st.join(b, a, lo)
	case st.c.Rand.Intn(2) == 0:
		return st.join(a, b, lo)
	}
	return st.join(b, a, lo)
}

func (st *c09RState) device(d c09RDev) bool {
	if err := mangos.Device(d.front.s, d.back.s); err != nil {
		st.violate("chain:"+st.sp.Fam+"/device-refused", "mangos.Device(%s,%s) = %v", st.fd.front, st.fd.back, err)
		return false
	}
	return true
}

func (st *c09RState) nodeClass(v int) string {
	switch {
	case v == 0:
		return "client"
	case v == st.L+1:
		return "server"
	}
	return "device"
}

// restart: the victim node is closed, and a new node of the same kind dials the neighbours.
func (st *c09RState) restart() bool {
	v := st.victim
	switch {
	case v == 0:
		if !st.dropNode(st.clients[0]) {
			return false
		}
		st.clients[0] = st.mkClient(0)
		ups := st.servers
		if st.L > 0 {
			ups = []*c09Sock{st.devs[1].front}
		}
		for _, u := range ups {
			if !st.join(st.clients[0], u, 0) {
				return false
			}
		}
	case v == st.L+1:
		if !st.dropNode(st.servers...) {
			return false
		}
		st.servers = nil
		return st.addServer()
	default:
		if !st.dropNode(st.devs[v].front, st.devs[v].back) {
			return false
		}
		st.devs[v] = st.mkDev(v)
		for _, b := range st.below(v) {
			if !st.join(st.devs[v].front, b, v-1) {
				return false
			}
		}
		for _, a := range st.above(v) {
			if !st.join(st.devs[v].back, a, v) {
				return false
			}
		}
		return st.device(st.devs[v])
	}
	return !st.c.Failed()
}

// addServer: a new server dials the last device (or, with no device, every client).
func (st *c09RState) addServer() bool {
	s := st.mkServer()
	downs := st.clients
	if st.L > 0 {
		downs = []*c09Sock{st.devs[st.L].back}
	}
	for _, dn := range downs {
		if !st.join(s, dn, st.L) {
			return false
		}
	}
	st.servers = append(st.servers, s)
	return !st.c.Failed()
}

// serve: the server application on s (until s is closed).
func (st *c09RState) serve(s *c09Sock) {
	srvErr := func(op string, err error) {
		if !s.gone.Load() && !st.ending.Load() && !st.aborted.Load() {
			st.inconclusive("%s %s: %v", s.what, op, err)
		}
	}
	raw := st.sp.RawSrv
	switch st.sp.Fam {
	case "reqrep", "survey", "pair1":
		st.rig.goHelper(func() {
			for {
				if raw {
					m, err := s.s.RecvMsg()
					if err != nil {
						srvErr("RecvMsg", err)
						return
					}
					st.mu.Lock()
					st.seen[string(m.Body)] = true
					st.mu.Unlock()
					m.Body = append([]byte("A|"), m.Body...)
					if err := s.s.SendMsg(m); err != nil {
						srvErr("SendMsg", err)
						return
					}
					continue
				}
				b, err := s.s.Recv()
				if err != nil {
					srvErr("Recv", err)
					return
				}
				st.mu.Lock()
				st.seen[string(b)] = true
				st.mu.Unlock()
				if err := s.s.Send(append([]byte("A|"), b...)); err != nil {
					srvErr("Send", err)
					return
				}
			}
		})
	case "pipeline":
		st.rig.goHelper(func() {
			for {
				b, err := s.s.Recv()
				if err != nil {
					srvErr("Recv", err)
					return
				}
				st.mu.Lock()
				if st.want[string(b)] == 0 {
					st.mu.Unlock()
					st.violate("replace:pipeline/modified-or-duplicated", "%s behind %d devices received %q, which is not a pushed message that is still outstanding (%s)", s.what, st.L, b[:min(len(b), 32)], st.change)
					return
				}
				st.want[string(b)]--
				st.outstanding--
				st.mu.Unlock()
				st.compared.Add(1)
			}
		})
	}
}

func (st *c09RState) payload(tag string, who, i int) []byte {
	fl := make([]byte, st.c.Rand.Intn(40))
	st.c.Rand.Read(fl)
	return hx.Cat([]byte(fmt.Sprintf("%s|%d|%d|%d|%s|", tag, who, st.phases, i, st.nonce)), fl)
}

func (st *c09RState) describe() string {
	return fmt.Sprintf("%s, L=%d devices (%d connections crossed, server %s TTL %d, mode %s, %d clients, %s); replaced so far:\n  %s", st.sp.Fam, st.L, st.L+1, st.srvProto, st.srvTTL, st.sp.Mode, len(st.clients), st.sp.How, strings.Join(st.history, "\n  "))
}

// phase runs Rounds of the family's conversation over the chain as it is now.
func (st *c09RState) phase() bool {
	st.phases++
	c, sp := st.c, st.sp
	R := sp.Rounds
	pre := "replace:" + sp.Fam + "/" + st.change
	var done sync.WaitGroup
	type asker struct {
		mu      sync.Mutex
		waiting bool
		cur     []byte
		round   int
	}
	askers := make([]*asker, len(st.clients))
	switch sp.Fam {
	case "reqrep", "survey", "pair1":
		for j, cl := range st.clients {
			j, cl := j, cl
			var q [][]byte
			for i := 0; i < R; i++ {
				q = append(q, st.payload("Q", j, i))
			}
			as := &asker{}
			askers[j] = as
			done.Add(1)
			st.rig.goHelper(func() {
				defer done.Done()
				for i, b := range q {
					as.mu.Lock()
					as.waiting, as.cur, as.round = true, b, i
					as.mu.Unlock()
					err := cl.s.Send(b)
					var got []byte
					if err == nil {
						got, err = cl.s.Recv()
					}
					if err != nil {
						if !st.aborted.Load() {
							st.inconclusive("%s round %d: %v", cl.what, i, err)
						}
						return
					}
					as.mu.Lock()
					as.waiting = false
					as.mu.Unlock()
					st.compared.Add(1)
					if !bytes.Equal(got, hx.Cat([]byte("A|"), b)) {
						st.violate("replace:"+sp.Fam+"/wrong-reply", "%s asked %q (round %d) and received %q (%s)", cl.what, b[:min(len(b), 30)], i, got[:min(len(got), 32)], st.describe())
						return
					}
				}
			})
		}
	case "pipeline":
		for j, cl := range st.clients {
			cl := cl
			var q [][]byte
			st.mu.Lock()
			for i := 0; i < R; i++ {
				b := st.payload("P", j, i)
				q = append(q, b)
				st.want[string(b)]++
				st.outstanding++
			}
			st.mu.Unlock()
			done.Add(1)
			st.rig.goHelper(func() {
				defer done.Done()
				for _, b := range q {
					if err := cl.s.Send(b); err != nil {
						if !st.aborted.Load() {
							st.inconclusive("%s Send: %v", cl.what, err)
						}
						return
					}
				}
			})
		}
	case "pubsub":
		var pubs [][]byte
		for i := 0; i < R; i++ {
			pubs = append(pubs, st.payload("N", -1, i))
		}
		pub := st.servers[len(st.servers)-1]
		for _, cl := range st.clients {
			cl := cl
			done.Add(1)
			st.rig.goHelper(func() {
				defer done.Done()
				for i, b := range pubs {
					got, err := cl.s.Recv()
					if err != nil {
						if !st.aborted.Load() {
							st.inconclusive("%s Recv: %v", cl.what, err)
						}
						return
					}
					st.compared.Add(1)
					if !bytes.Equal(got, b) {
						st.violate("replace:pubsub/modified-or-misordered", "%s received %q as publication %d of this round, expected %q (%s)", cl.what, got[:min(len(got), 32)], i, b[:min(len(b), 32)], st.describe())
						return
					}
				}
			})
		}
		done.Add(1)
		st.rig.goHelper(func() {
			defer done.Done()
			for _, b := range pubs {
				if err := pub.s.Send(b); err != nil {
					if !st.aborted.Load() {
						st.inconclusive("%s Send: %v", pub.what, err)
					}
					return
				}
			}
		})
	}
	all := mon.Go("conversations", func() (interface{}, error) { done.Wait(); return nil, nil })
	// PUSH's Send returns when the message is queued: the round is over when everything pushed has been pulled
	res := mon.Await(func() bool {
		if st.aborted.Load() {
			return true
		}
		st.mu.Lock()
		defer st.mu.Unlock()
		return all.Done() && st.outstanding == 0
	}, mon.AwaitOpts{})
	switch {
	case c.Failed() || st.aborted.Load():
		st.aborted.Store(true)
		return false
	case res.V == mon.Stuck:
		lost := map[string][]string{}
		switch sp.Fam {
		case "reqrep", "survey", "pair1":
			st.mu.Lock()
			for j, as := range askers {
				as.mu.Lock()
				if as.waiting {
					what, txt := "request-lost", "no server application ever received the request"
					if st.seen[string(as.cur)] {
						what, txt = "reply-lost", "a server application received the request and sent the reply"
					}
					lost[pre+"/"+what] = append(lost[pre+"/"+what], fmt.Sprintf("%s round %d (%q): %s", st.clients[j].what, as.round, as.cur[:min(len(as.cur), 24)], txt))
				}
				as.mu.Unlock()
			}
			st.mu.Unlock()
		case "pipeline":
			st.mu.Lock()
			lost[pre+"/message-lost"] = []string{fmt.Sprintf("%d pushed message(s) never reached a PULL server", st.outstanding)}
			st.mu.Unlock()
		case "pubsub":
			lost[pre+"/publication-lost"] = []string{"a subscriber is still waiting for a publication of this round"}
		}
		var sigs []string
		for s := range lost {
			sigs = append(sigs, s)
		}
		sort.Strings(sigs)
		for _, s := range sigs {
			st.violate(s, "conversation round %d over a chain whose connections were all up and idle (nothing in flight when a connection was cut; old pipe detached and new pipe attached at both ends before this round began): every goroutine is parked and\n  %s\n%s\n%s", st.phases, strings.Join(lost[s], "\n  "), st.describe(), res.Dump)
		}
		if len(sigs) == 0 {
			st.violate(pre+"/stuck", "conversation round %d never finished, every goroutine is parked (%s)\n%s", st.phases, st.describe(), res.Dump)
		}
		return false
	case res.V != mon.Done:
		st.inconclusive("conversation round %d not finished after %v", st.phases, res.Waited)
		return false
	}
	// the round is over: its helpers are gone before the next change
	if r := all.Wait(mon.AwaitOpts{}); r.V != mon.Done {
		st.inconclusive("helpers of round %d did not end (%v)", st.phases, r.V)
		return false
	}
	if st.replaced > 0 {
		c.Count("replace_rounds_after_a_replacement", 1)
	}
	return true
}

func c09Replace(c *mon.Case, sp c09Spec) {
	fd := c09Fams[sp.Fam]
	st := &c09RState{c: c, sp: sp, rig: newC09Rig(c, sp), fd: fd, L: sp.L, victim: -1, change: "initial",
		seen: map[string]bool{}, want: map[string]int{}, nonce: fmt.Sprintf("%x", c.Rand.Uint64())}
	defer st.ending.Store(true)
	L := sp.L
	st.srvProto = fd.server
	if sp.RawSrv {
		st.srvProto = fd.rawServer
	}
	st.srvTTL = 8
	if sp.Mode == "set" && fd.ttl {
		st.srvTTL = sp.TTL
	}
	switch sp.How {
	case "make-first":
		st.victim = L + 1
	case "restart":
		switch x := c.Rand.Intn(10); {
		case x < 4 || (L == 0 && x < 7):
			st.victim = L + 1
		case x < 8 && L > 0:
			st.victim = 1 + c.Rand.Intn(L)
		default:
			st.victim = 0
		}
	}

	// ---- build ----
	st.servers = []*c09Sock{st.mkServer()}
	st.devs = make([]c09RDev, L+1)
	for i := 1; i <= L; i++ {
		st.devs[i] = st.mkDev(i)
	}
	for j := 0; j < sp.Clients; j++ {
		st.clients = append(st.clients, st.mkClient(j))
	}
	if c.Failed() {
		return
	}
	v := st.victim
	if L == 0 {
		for j, cl := range st.clients {
			if !st.connect(cl, st.servers[0], 0, v == 0 && j == 0, v == 1) {
				return
			}
		}
	} else {
		if !st.connect(st.devs[L].back, st.servers[0], L, v == L, v == L+1) {
			return
		}
		for i := L - 1; i >= 1; i-- {
			if !st.connect(st.devs[i].back, st.devs[i+1].front, i, v == i, v == i+1) {
				return
			}
		}
		for j, cl := range st.clients {
			if !st.connect(cl, st.devs[1].front, 0, v == 0 && j == 0, v == 1) {
				return
			}
		}
		for i := 1; i <= L; i++ {
			if !st.device(st.devs[i]) {
				return
			}
		}
	}
	c.Count("chain_devices", L)
	c.Count("chain_clients", sp.Clients)

	// ---- the chain works to begin with; then replace, and converse again ----
	ok := st.settle() && st.phase()
	var wheres []string
	for g := 1; ok && g <= sp.N; g++ {
		if ok = st.fence(); !ok {
			break
		}
		where := ""
		switch sp.How {
		case "pipe":
			lk := st.links[c.Rand.Intn(len(st.links))]
			where = st.linkClass(lk)
			st.change = "pipe@" + where
			ok = st.cutPipe(lk, c.Rand.Intn(2) == 0)
		case "restart":
			where = st.nodeClass(st.victim)
			st.change = "restart@" + where
			ok = st.restart()
		case "make-first":
			where = "server"
			st.change = "make-first@server/both-up"
			old := st.servers[0]
			if ok = st.addServer(); !ok {
				break
			}
			st.history = append(st.history, st.change+": "+st.servers[1].what+" attached")
			if ok = st.settle(); !ok {
				break
			}
			if sp.Fam == "reqrep" || sp.Fam == "pipeline" {
				// either server may get a request or a pushed message; both are the same application
				if ok = st.phase() && st.fence(); !ok {
					break
				}
			}
			st.change = "make-first@server"
			st.servers = st.servers[1:]
			ok = st.dropNode(old)
		}
		if !ok {
			break
		}
		st.replaced++
		wheres = append(wheres, where[:1])
		c.Count("replace_connections_replaced", 1)
		c.Count("replace_"+sp.How+"_at_"+where, 1)
		ok = st.settle() && st.phase()
	}
	n := int(st.compared.Load())
	c.Count("chain_messages_compared", n)
	c.Count("replace_messages_compared", n)
	c.Count("replace_cases_"+sp.Fam, 1)
	if ok && !c.Failed() && !c.Undecided() && L > 0 && st.replaced > 0 && n > 0 {
		c.Nontrivial()
	}
	c.Sig("replace|%s|%s|L=%d|ttl=%d|%s|%s@%s|cl=%d|r=%d|%s|p%d", sp.Fam, st.srvProto, L, st.srvTTL, sp.Mode, sp.How, strings.Join(wheres, ""), sp.Clients, sp.Rounds, st.rig.trSig(), sp.Procs)
}
