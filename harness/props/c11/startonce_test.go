//go:build verif

package c11

import (
	"fmt"
	"sync"
	"time"

	"go.nanomsg.org/mangos/v3"

	"verifharness/hx"
	"verifharness/mon"
)

// startOnce: Dial on one dialer (Listen on one listener) called from several goroutines at the same
// moment.  Sequentially, the first call starts the endpoint and every later one fails with
// ErrAddrInUse; so whatever the interleaving, exactly one of the concurrent calls may return nil,
// the others return ErrAddrInUse, and exactly one connection (one bound address) results.
func startOnce(c *mon.Case, sp spec) {
	tr := sp.Tran
	srv := hx.MustSock(c, "pull")
	ws := hx.WatchPipes(srv)
	l, err := srv.NewListener(hx.ListenAddr(tr), tlsL(tr))
	if err != nil {
		c.Inconclusive("setup: NewListener: %v", err)
		return
	}
	// concurrent Listen on the one listener
	res := together(sp.G, func(int) error { return l.Listen() })
	nils, inuse, other := classify(res)
	if other != nil || nils != 1 || inuse != sp.G-1 {
		if nils == 0 && other != nil {
			c.Inconclusive("setup: Listen: %v", other)
			return
		}
		c.Violate("startonce/listen:"+tr, "%d concurrent Listen calls on one %s listener returned %d nil, %d ErrAddrInUse, other %v; the sequential contract allows exactly one nil and ErrAddrInUse for the rest", sp.G, tr, nils, inuse, other)
		return
	}
	c.Count("concurrent_listen_rounds", 1)
	addr := l.Address()
	rounds := sp.Ops
	for r := 0; r < rounds && !c.Failed(); r++ {
		cli := hx.MustSock(c, "push")
		d, err := cli.NewDialer(addr, tlsD(tr))
		if err != nil {
			c.Inconclusive("setup: NewDialer: %v", err)
			return
		}
		asyn := r%3 == 2
		d.SetOption(mangos.OptionDialAsynch, asyn)
		before := ws.Attached()
		var res []error
		k := mon.Go("concurrent-Dial", func() (interface{}, error) { res = together(sp.G, func(int) error { return d.Dial() }); return nil, nil })
		if !c.AwaitOrViolate("deadlock:startonce/dial/"+tr, fmt.Sprintf("%d concurrent Dial calls on one %s dialer returning", sp.G, tr), k.Done, mon.AwaitOpts{}) {
			return
		}
		nils, inuse, other := classify(res)
		if nils == 0 && other != nil {
			c.Inconclusive("round %d: Dial: %v", r, other)
			cli.Close()
			continue
		}
		if other != nil || nils != 1 || inuse != sp.G-1 {
			c.Violate("startonce/dial:"+tr, "round %d: %d concurrent Dial calls on one %s dialer (asynchronous=%v) returned %d nil, %d ErrAddrInUse, other %v; the sequential contract allows exactly one nil and ErrAddrInUse for the rest", r, sp.G, tr, asyn, nils, inuse, other)
			return
		}
		if !c.AwaitOrViolate("startonce/dial-no-connection:"+tr, "the one started dialer connecting", func() bool { return ws.Attached() > before }, mon.AwaitOpts{MaxTimer: 100 * time.Millisecond}) {
			return
		}
		mon.Sleep(time.Millisecond)
		if n := ws.Attached() - before; n != 1 {
			c.Violate("startonce/dial-connections:"+tr, "round %d: %d concurrent Dial calls on one dialer produced %d connections", r, sp.G, n)
			return
		}
		cli.Close()
		c.Count("concurrent_dial_rounds", 1)
	}
	c.Nontrivial()
	c.Sig("startonce|%s|%d", tr, sp.G)
}

// together runs f in n goroutines released at the same moment and returns their results.
func together(n int, f func(int) error) []error {
	res := make([]error, n)
	var ready, done sync.WaitGroup
	gate := make(chan struct{})
	for i := 0; i < n; i++ {
		i := i
		ready.Add(1)
		done.Add(1)
		go func() {
			defer done.Done()
			ready.Done()
			<-gate
			res[i] = f(i)
		}()
	}
	ready.Wait()
	close(gate)
	done.Wait()
	return res
}

func classify(res []error) (nils, inuse int, other error) {
	for _, e := range res {
		switch e {
		case nil:
			nils++
		case mangos.ErrAddrInUse:
			inuse++
		default:
			other = e
		}
	}
	return
}

func tlsL(tr string) map[string]interface{} {
	if hx.NeedsTLS(tr) {
		s, _ := hx.TLSConfigs()
		return map[string]interface{}{mangos.OptionTLSConfig: s}
	}
	return nil
}

func tlsD(tr string) map[string]interface{} {
	if hx.NeedsTLS(tr) {
		_, cc := hx.TLSConfigs()
		return map[string]interface{}{mangos.OptionTLSConfig: cc}
	}
	return nil
}
