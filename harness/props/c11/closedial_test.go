//go:build verif

package c11

import (
	"fmt"
	"time"

	"go.nanomsg.org/mangos/v3"

	"verifharness/hx"
	"verifharness/mon"
	"verifharness/vt"
)

// closeDial: a dialer is closed (Dialer.Close, or Close of its socket) by one goroutine while the
// library's own goroutines are between two connection attempts of that dialer, i.e. while a
// reconnect timer is armed and has not fired:
//
//	drop-peer / drop-local  the dialer was connected and lost its pipe (the peer hung up / the
//	                        application closed the pipe), which arms the reconnect timer;
//	backoff                 (vt) after the loss one or two redials were refused, the dialer sits in
//	                        its retry delay.
//
// Close returns nil.  From then on the dialer is closed, so it makes no connection any more.
//
// Soundness.  The harness keeps a sound lower bound for the moment the armed timer can fire:
// base + R, where R is the dialer's reconnect time (MaxReconnectTime 0: no back-off growth, no
// jitter) and base is a clock reading taken before the pipe was lost (before the last refused
// attempt ended).  Only when Close has *returned* before base + R is a verdict given: then every
// goroutine that could dial was started after the dialer was marked closed (with a racing attempt
// the case is counted as late and says nothing).  A connection is then one that a closed dialer
// made: on vt a transport Dial that began after Close returned and produced a pipe; on inproc / ipc /
// tcp a further pipe attaching at the (only) dialing socket or at the listening socket that nobody
// else dials.  Its absence is decided by the stuck detector with MaxTimer = R: the whole process is
// quiescent, over 5 samples, not earlier than 10 x R after Close — never by a bare sleep.
func closeDial(c *mon.Case, sp spec) {
	tr := sp.Tran
	R := time.Duration(sp.K) * time.Millisecond
	s := hx.MustSock(c, sp.Proto)
	s.SetOption(mangos.OptionReconnectTime, R)
	s.SetOption(mangos.OptionMaxReconnectTime, time.Duration(0))
	s.SetOption(mangos.OptionRetryTime, time.Hour)
	s.SetOption(mangos.OptionSurveyTime, time.Hour)
	ws := hx.WatchPipes(s)

	var addr string
	var ctl *vt.DialerCtl
	var wsrv *hx.PipeWatch
	if tr == "vt" {
		name := hx.Uniq("closedial")
		ctl = vt.D(name)
		ctl.Script(vt.Outcome{Kind: vt.Succeed})
		if sp.Mode == "backoff" {
			ctl.SetDefault(vt.Outcome{Kind: vt.Refuse})
		} else {
			ctl.SetDefault(vt.Outcome{Kind: vt.Succeed})
		}
		addr = vt.Addr(name)
		c.Cleanup(func() { vt.Forget(name) })
	} else {
		srv := hx.MustSock(c, hx.PeerOf[sp.Proto])
		srv.SetOption(mangos.OptionRetryTime, time.Hour)
		srv.SetOption(mangos.OptionSurveyTime, time.Hour)
		wsrv = hx.WatchPipes(srv)
		l, err := srv.NewListener(hx.ListenAddr(tr), tlsL(tr))
		if err == nil {
			err = l.Listen()
		}
		if err != nil {
			c.Inconclusive("setup: listen over %s: %v", tr, err)
			return
		}
		addr = l.Address()
	}
	opts := tlsD(tr)
	if opts == nil {
		opts = map[string]interface{}{}
	}
	opts[mangos.OptionReconnectTime] = R
	opts[mangos.OptionMaxReconnectTime] = time.Duration(0)
	opts[mangos.OptionDialAsynch] = sp.Ctx
	d, err := s.NewDialer(addr, opts)
	if err != nil {
		c.Inconclusive("setup: NewDialer(%s): %v", addr, err)
		return
	}
	k := mon.Go("Dial", func() (interface{}, error) { return nil, d.Dial() })
	if !c.AwaitOrViolate("deadlock:closedial/dial:"+tr, "Dial to an accepting peer over "+tr, k.Done, mon.AwaitOpts{MaxTimer: R}) {
		return
	}
	if _, err, _ := k.Result(); err != nil {
		c.Inconclusive("setup: Dial: %v", err)
		return
	}
	if !hx.WaitAttached(c, ws, 1, "closedial dialer side") {
		return
	}
	if wsrv != nil && !hx.WaitAttached(c, wsrv, 1, "closedial listener side") {
		return
	}

	// the pipe is lost; base is read before that
	var base time.Duration
	var vp *vt.Pipe
	switch {
	case ctl != nil && sp.Mode != "drop-local":
		vp = ctl.LastPipe()
		base = vp.Drop()
	case sp.Mode == "drop-local":
		base = mon.Now()
		ws.Pipes()[0].Close()
		if ctl != nil {
			vp = ctl.LastPipe()
		}
	default:
		base = mon.Now()
		wsrv.Pipes()[0].Close()
	}
	if !hx.WaitDetached(c, ws, 1, "the dialing socket noticing the loss of its pipe") {
		c.Count("closedial_loss_not_noticed", 1)
		return
	}
	if sp.Mode == "backoff" {
		// one or two refused redials first
		n := 2 + sp.Pass%2
		if r := mon.Await(func() bool {
			lg := ctl.Log()
			return len(lg) >= n && lg[n-1].End != 0
		}, mon.AwaitOpts{MaxTimer: 2 * R}); r.V != mon.Done {
			c.Inconclusive("the dialer made no %d attempts after losing its pipe: %v", n, r.V)
			return
		}
	}
	mon.Sleep(R / 5) // pacing only: lets the library arm its timer; the verdict rests on the bound below

	var closeCall *mon.Call
	if sp.Ev == "socket" {
		closeCall = mon.Go("Socket.Close", func() (interface{}, error) { return nil, s.Close() })
	} else {
		closeCall = mon.Go("Dialer.Close", func() (interface{}, error) { return nil, d.Close() })
	}
	what := fmt.Sprintf("%s of a %s socket's %s dialer in its reconnect delay (%v, %s)", closeCall.Name, sp.Proto, tr, R, sp.Mode)
	if !c.AwaitOrViolate("deadlock:closedial/close:"+sp.Ev+"/"+sp.Mode, what+" returning", closeCall.Done, mon.AwaitOpts{MaxTimer: R}) {
		return
	}
	_, cerr, closed := closeCall.Result()
	if ctl != nil && sp.Mode == "backoff" {
		ctl.SetDefault(vt.Outcome{Kind: vt.Succeed}) // from now on an attempt would connect
	}
	if cerr != nil {
		c.Violate("closedial/close-result:"+sp.Ev, "the first %s returned %v", what, cerr)
		return
	}
	// did Close return before the armed timer could fire?
	atClose := 1
	if ctl != nil {
		lg := ctl.Log()
		atClose = len(lg)
		for _, r := range lg[1:] {
			if r.End == 0 || r.End > closeCall.Started {
				c.Count("closedial_close_landed_late", 1)
				c.Logf("an attempt raced the Close: %+v, Close started %v", r, closeCall.Started)
				return
			}
			if r.Pipe != nil {
				c.Count("closedial_close_landed_late", 1)
				return
			}
			if r.End > base {
				base = r.End
			}
		}
	}
	if closed >= base+R || ws.Attached() > 1 {
		c.Count("closedial_close_landed_late", 1)
		c.Logf("Close returned at %v, the timer could fire from %v", closed, base+R)
		return
	}
	c.Count("closedial_closed_inside_reconnect_delay", 1)

	var witness string
	connected := func() bool {
		if ctl != nil {
			for _, r := range ctl.Log() {
				if r.Start > closed && r.Pipe != nil {
					witness = fmt.Sprintf("transport Dial #%d began %v after Close had returned and produced a pipe (dial log now has %d entries, %d at Close)", r.Seq, r.Start-closed, len(ctl.Log()), atClose)
					return true
				}
			}
			return false
		}
		if a, b := ws.Attached(), wsrv.Attached(); a > 1 || b > 1 {
			witness = fmt.Sprintf("pipes attached since the start: %d at the dialing socket, %d at the listening socket (1 and 1 before the loss)", a, b)
			return true
		}
		return false
	}
	r := mon.Await(connected, mon.AwaitOpts{MaxTimer: R, Gap: 100 * time.Millisecond, Watchdog: 30 * time.Second})
	switch r.V {
	case mon.Done:
		c.Violate("closedial/connected-after-close:"+sp.Ev+"/"+sp.Mode, "%s returned nil at %v, before the reconnect timer armed after the loss at >= %v could fire; %v later the closed dialer had connected again: %s", what, closed, base, mon.Now()-closed, witness)
	case mon.Stuck:
		// quiescent for 10 x R and more: no connection, and nobody left to make one
		c.Count("closedial_no_connection_until_quiescent", 1)
		c.Nontrivial()
		c.Sig("closedial|%s|%s|%s|%s|%v", sp.Proto, tr, sp.Mode, sp.Ev, sp.Ctx)
	default:
		c.Inconclusive("%s: the process did not become quiescent within %v, no connection seen so far", what, r.Waited)
	}
}
