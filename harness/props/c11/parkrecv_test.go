//go:build verif

package c11

import (
	"bytes"
	"fmt"
	"sort"
	"strings"
	"time"

	"go.nanomsg.org/mangos/v3"

	"verifharness/hx"
	"verifharness/mon"
)

// parkRecv: one goroutine is parked in RecvMsg (no deadline, nothing to receive yet) on a socket or
// on one of its contexts — the harness verifies that it is parked there — while another goroutine
// makes calls on the same socket / context that do not wait for a peer: SetOption / GetOption
// (for SUB: Unsubscribe of one of several topics, Subscribe, Unsubscribe of an absent topic; for every
// protocol: ReadQLen >= 1, RecvDeadline, TTL, WriteQLen), OpenContext + Close, Info.
//
//   - each of these calls returns while the Recv is still parked (stuck detector; no timer is armed),
//     with nil or a documented error;
//   - none of them ends the parked Recv (nothing was sent, it has no deadline, nothing was closed);
//   - afterwards the connected peer sends (SUB: first one message for every topic whose Unsubscribe
//     returned nil, then one for the topic that stays subscribed; other protocols: one message).  The
//     configuration is lossless — one message outstanding, queue length >= 1, both ends attached —
//     so the parked Recv must return exactly that message: a Recv that stays parked although a
//     matching message arrived (whole process quiescent) is a deadlock, and a message of a topic that
//     was unsubscribed before it was even sent is a result no sequential contract allows.
func parkRecv(c *mon.Case, sp spec) {
	tr := sp.Tran
	s := hx.MustSock(c, sp.Proto)
	peer := hx.MustSock(c, hx.PeerOf[sp.Proto])
	for _, x := range []mangos.Socket{s, peer} {
		// nothing in this scenario arms a timer that could end a wait
		x.SetOption(mangos.OptionReconnectTime, time.Hour)
		x.SetOption(mangos.OptionRetryTime, time.Hour)
		x.SetOption(mangos.OptionSurveyTime, time.Hour)
	}
	ws, wp := hx.WatchPipes(s), hx.WatchPipes(peer)
	var err error
	if sp.Sim {
		_, _, err = hx.Connect(s, peer, tr)
	} else {
		_, _, err = hx.Connect(peer, s, tr)
	}
	if err != nil {
		c.Inconclusive("setup: connect over %s: %v", tr, err)
		return
	}
	if !hx.WaitAttached(c, ws, 1, "parkrecv socket") || !hx.WaitAttached(c, wp, 1, "parkrecv peer") {
		return
	}

	type target interface {
		RecvMsg() (*mangos.Message, error)
		SetOption(string, interface{}) error
		GetOption(string) (interface{}, error)
	}
	var r target = s
	where := sp.Proto + " socket"
	if sp.Ctx {
		cx, err := s.OpenContext()
		if err != nil {
			c.Inconclusive("setup: OpenContext on %s: %v", sp.Proto, err)
			return
		}
		c.Cleanup(func() { cx.Close() })
		r, where = cx, sp.Proto+" context"
	}
	isSub := sp.Proto == "sub"
	topics := []string{"keep:", "dropA:", "dropB:"}[:2+sp.Pass%2]
	subscribed := map[string]bool{}
	if isSub {
		for _, t := range topics {
			if err := r.SetOption(mangos.OptionSubscribe, []byte(t)); err != nil {
				c.Inconclusive("setup: Subscribe(%q): %v", t, err)
				return
			}
			subscribed[t] = true
		}
	}

	type got struct{ body []byte }
	recv := mon.Go("Recv", func() (interface{}, error) {
		m, err := r.RecvMsg()
		if err != nil {
			return nil, err
		}
		g := got{body: append([]byte{}, m.Body...)}
		m.Free()
		return g, nil
	})
	early := func(after string) bool {
		if !recv.Done() {
			return false
		}
		v, err, _ := recv.Result()
		c.Violate("parkrecv/returned-without-message:"+sp.Proto, "RecvMsg on a %s (no deadline, nothing sent, nothing closed) returned (%v, %v) %s", where, v, err, after)
		return true
	}
	if !recv.ParkedIn("RecvMsg") {
		if !early("before any other call was made") {
			c.Inconclusive("RecvMsg on a %s did not park", where)
		}
		return
	}
	c.Count("parkrecv_recvs_parked", 1)
	what := fmt.Sprintf("a RecvMsg is parked on the same %s over %s", where, tr)

	// the calls other goroutines make meanwhile
	type call struct {
		name string
		f    func() error
	}
	rnd := c.Rand
	var unsubbed []string
	common := []call{
		{"SetOption(ReadQLen)", func() error { return r.SetOption(mangos.OptionReadQLen, 1+rnd.Intn(4)) }},
		{"GetOption(ReadQLen)", func() error { _, e := r.GetOption(mangos.OptionReadQLen); return e }},
		{"SetOption(RecvDeadline)", func() error { return r.SetOption(mangos.OptionRecvDeadline, time.Hour) }},
		{"SetOption(TTL)", func() error { return s.SetOption(mangos.OptionTTL, 1+rnd.Intn(8)) }},
		{"SetOption(WriteQLen)", func() error { return s.SetOption(mangos.OptionWriteQLen, 1+rnd.Intn(4)) }},
		{"Socket.SetOption(ReadQLen)", func() error { return s.SetOption(mangos.OptionReadQLen, 1+rnd.Intn(4)) }},
		{"OpenContext+Close", func() error {
			cx, e := s.OpenContext()
			if e == nil {
				e = cx.Close()
			}
			return e
		}},
		{"Info", func() error { _ = s.Info(); return nil }},
	}
	subCalls := []call{
		{"Unsubscribe(present)", func() error {
			for _, t := range topics[1:] {
				if subscribed[t] {
					e := r.SetOption(mangos.OptionUnsubscribe, []byte(t))
					if e == nil {
						subscribed[t] = false
						unsubbed = append(unsubbed, t)
					}
					return e
				}
			}
			return r.SetOption(mangos.OptionUnsubscribe, "nope:")
		}},
		{"Unsubscribe(absent)", func() error { return r.SetOption(mangos.OptionUnsubscribe, "nope:") }},
		{"Subscribe(new)", func() error { return r.SetOption(mangos.OptionSubscribe, "extra:") }},
		{"Subscribe(present)", func() error { return r.SetOption(mangos.OptionSubscribe, "keep:") }},
	}
	pool := common
	if isSub {
		pool = append(append([]call{}, subCalls...), common...)
	}
	var calls []call
	for _, k := range pool {
		if k.name == sp.Mode {
			calls = append(calls, k)
		}
	}
	for len(calls) < sp.K {
		calls = append(calls, pool[rnd.Intn(len(pool))])
	}
	var names []string
	lastSet := sp.Mode
	for _, k := range calls {
		k := k
		done := mon.Go(k.name, func() (interface{}, error) { return nil, k.f() })
		if !c.AwaitOrViolate("deadlock:parkrecv/"+k.name+":"+sp.Proto, fmt.Sprintf("%s returning while %s (earlier calls that did return: %v)", k.name, what, names), done.Done, mon.AwaitOpts{}) {
			return
		}
		_, err, _ := done.Result()
		if !okErr(k.name, err) {
			c.Violate("bad-result:parkrecv/"+k.name+":"+sp.Proto, "%s returned %v while %s; no sequential contract of the call allows that", k.name, err, what)
			return
		}
		names = append(names, k.name)
		// the last call that replaced the receive queue or the subscriptions the parked Recv depends on:
		// what a Recv that then stays parked is attributed to (the witness lists every call)
		switch k.name {
		case "Unsubscribe(present)", "Subscribe(new)", "SetOption(ReadQLen)":
			if err == nil {
				lastSet = k.name
			}
		case "Socket.SetOption(ReadQLen)":
			if err == nil && !sp.Ctx {
				lastSet = k.name
			}
		}
		c.Count("parkrecv_calls_returned_during_parked_recv", 1)
		if early(fmt.Sprintf("after %v", names)) {
			return
		}
	}
	uniq := map[string]bool{}
	for _, n := range names {
		uniq[n] = true
	}
	var kinds []string
	for n := range uniq {
		kinds = append(kinds, n)
	}
	sort.Strings(kinds)
	callSig := strings.Join(kinds, "+")

	// now the peer sends; the last message is the one the parked Recv has to return
	var msgs []string
	if isSub {
		for _, t := range unsubbed {
			msgs = append(msgs, t+"1")
		}
		msgs = append(msgs, "keep:1")
	} else {
		msgs = append(msgs, "msg-1")
	}
	want := msgs[len(msgs)-1]
	for _, m := range msgs {
		m := m
		k := mon.Go("peer.Send", func() (interface{}, error) { return nil, peer.Send([]byte(m)) })
		if !c.AwaitOrViolate("deadlock:parkrecv/peer-send:"+sp.Proto, fmt.Sprintf("the connected %s peer's Send(%q) returning", hx.PeerOf[sp.Proto], m), k.Done, mon.AwaitOpts{}) {
			return
		}
		if _, err, _ := k.Result(); err != nil {
			c.Inconclusive("peer.Send(%q): %v", m, err)
			return
		}
	}
	if !c.AwaitOrViolate("deadlock:parkrecv/"+sp.Proto+":after-"+lastSet,
		fmt.Sprintf("the RecvMsg parked on a %s over %s returning the message %q the peer sent after %v had returned (peer sent %q; pipes attached: %d / %d)", where, tr, want, names, msgs, ws.Attached(), wp.Attached()),
		recv.Done, mon.AwaitOpts{}) {
		return
	}
	v, err, _ := recv.Result()
	if err != nil {
		c.Violate("bad-result:parkrecv/recv:"+sp.Proto, "the RecvMsg parked on a %s across %v returned %v although the peer sent %q (no deadline, nothing closed)", where, names, err, msgs)
		return
	}
	body := v.(got).body
	if !bytes.Equal(body, []byte(want)) {
		for _, t := range unsubbed {
			if bytes.HasPrefix(body, []byte(t)) {
				c.Violate("parkrecv/unsubscribed-delivered:"+sp.Proto, "the RecvMsg parked on a %s across %v returned %q: Unsubscribe(%q) had returned nil before the peer sent that message", where, names, body, t)
				return
			}
		}
		c.Violate("parkrecv/wrong-message:"+sp.Proto, "the RecvMsg parked on a %s across %v returned %q; the peer sent %q", where, names, body, msgs)
		return
	}
	c.Count("parkrecv_delivered_to_parked_recv", 1)
	c.Nontrivial()
	c.Sig("parkrecv|%s|%v|%s|%s", sp.Proto, sp.Ctx, tr, callSig)
}
