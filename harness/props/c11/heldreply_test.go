//go:build verif

package c11

import (
	"encoding/binary"
	"fmt"
	"sort"
	"strings"
	"sync"
	"time"

	"go.nanomsg.org/mangos/v3"

	"verifharness/hx"
	"verifharness/mon"
	"verifharness/vt"
)

// heldReply: a reply on a REP / RESPONDENT socket or context is held up by back-pressure (the peer
// does not drain the connection, no send deadline is armed) and, while that Send has not returned,
// other goroutines use the same socket / context:
//
//	sim   K goroutines call Send at the same moment for one survey received on a second context;
//	dup   further goroutines call Send on the context whose reply is held (same survey);
//	recv  another goroutine receives the next survey on the context whose reply is held.
//
// Then the peer drains.  Whatever the interleaving, the calls must have the results some sequential
// order of them allows: of the Sends for one survey exactly one is accepted (nil) and the others
// are refused with ErrProtoState, the peer sees at most one reply per survey, every accepted reply
// reaches the peer carrying the id of a survey its context had received, and when the held reply
// went out for the earlier survey, the survey received meanwhile is still unanswered and its reply
// is accepted.  Verdicts come from results and from the peer's view (up to a sentinel reply on the
// same connection), never from timing; "returns" is judged by the stuck detector.
//
// Peers: "vt" (harness-held pipe, HoldSends) or a raw peer (xreq / xsurveyor over inproc, read queue
// of 1, nobody receiving).  The number of replies the connection absorbs before one is held is not
// assumed: replies are sent until a Send is still pending with every goroutine of the process parked.

type hrCtx interface {
	Send([]byte) error
	Recv() ([]byte, error)
}

type hrReply struct {
	id   uint32
	body string
}

type hrWire interface {
	ask(id uint32, payload string) error
	release()
	replies() []hrReply
}

// --- vt peer ---

type hrVT struct{ p *vt.Pipe }

func (w hrVT) ask(id uint32, payload string) error {
	w.p.Inject(hx.Cat(hx.Be32(id|0x80000000), []byte(payload)))
	return nil
}
func (w hrVT) release() { w.p.ReleaseSends() }
func (w hrVT) replies() []hrReply {
	var out []hrReply
	for _, s := range w.p.SentLog() {
		out = append(out, hrReply{id: hrID(s.Header), body: string(s.Body)})
	}
	return out
}

func hrID(h []byte) uint32 {
	if len(h) != 4 {
		return 0 // surveys are numbered from 1: 0 marks a malformed header
	}
	return binary.BigEndian.Uint32(h) &^ 0x80000000
}

// --- raw peer over a real transport ---

type hrRaw struct {
	peer mangos.Socket
	mu   sync.Mutex
	got  []hrReply
	once sync.Once
}

func (w *hrRaw) ask(id uint32, payload string) error {
	m := mangos.NewMessage(len(payload))
	m.Header = append(m.Header, hx.Be32(id|0x80000000)...)
	m.Body = append(m.Body, payload...)
	if err := w.peer.SendMsg(m); err != nil {
		m.Free()
		return err
	}
	return nil
}

// release: the peer starts receiving (a goroutine blocked in RecvMsg until the peer socket is closed).
func (w *hrRaw) release() {
	w.once.Do(func() {
		go func() {
			for {
				m, err := w.peer.RecvMsg()
				if err != nil {
					return
				}
				r := hrReply{id: hrID(m.Header), body: string(m.Body)}
				m.Free()
				w.mu.Lock()
				w.got = append(w.got, r)
				w.mu.Unlock()
			}
		}()
	})
}
func (w *hrRaw) replies() []hrReply {
	w.mu.Lock()
	defer w.mu.Unlock()
	return append([]hrReply{}, w.got...)
}

type hrSend struct {
	call    *mon.Call
	survey  uint32
	payload string
	held    bool // launched while a reply was held
}

func heldReply(c *mon.Case, sp spec) {
	proto := sp.Proto
	sig := func(what string) string { return "heldreply/" + what + ":" + proto }
	dl := func(what string) string { return "deadlock:heldreply/" + what + ":" + proto }
	s := hx.MustSock(c, proto)
	if err := s.SetOption(mangos.OptionWriteQLen, sp.QLen); err != nil {
		c.Inconclusive("setup: WriteQLen: %v", err)
		return
	}
	w := hx.WatchPipes(s)
	var wire hrWire
	switch sp.Tran {
	case "vt":
		name := hx.Uniq("c11h")
		L := vt.L(name)
		c.Cleanup(func() { vt.Forget(name) })
		if err := s.Listen(vt.Addr(name)); err != nil {
			c.Inconclusive("setup: Listen: %v", err)
			return
		}
		p := L.Connect()
		p.HoldSends() // the peer is connected but does not drain
		wire = hrVT{p}
	default:
		peer := hx.MustSock(c, "x"+hx.PeerOf[proto])
		peer.SetOption(mangos.OptionReadQLen, 1)
		if _, _, err := hx.Connect(s, peer, sp.Tran); err != nil {
			c.Inconclusive("setup: connect: %v", err)
			return
		}
		wire = &hrRaw{peer: peer}
	}
	if !hx.WaitAttached(c, w, 1, "peer connection") {
		return
	}
	var A hrCtx = s
	aName := "socket"
	if sp.Ctx {
		cx, err := s.OpenContext()
		if err != nil {
			c.Inconclusive("setup: OpenContext: %v", err)
			return
		}
		A, aName = cx, "context"
	}

	// settle: every call returned, or the whole process is parked (then the pending ones stay
	// pending until the harness lets the peer drain).  false = neither (cannot tell).
	settle := func(calls ...*mon.Call) bool {
		deadline := mon.Now() + 20*time.Second
		for mon.Now() < deadline {
			all := true
			for _, k := range calls {
				if !k.Done() {
					all = false
				}
			}
			if all || mon.Sample().AllParked {
				return true
			}
			mon.Sleep(100 * time.Microsecond)
		}
		c.Inconclusive("process neither quiescent nor done after 20s")
		return false
	}

	var nextID uint32
	// takeSurvey: the peer sends the next survey and cx receives it.  serialOK: a Recv that waits
	// for the held Send is tolerated (the peer is then released early).
	takeSurvey := func(cx hrCtx, who string, serialOK bool) (uint32, bool) {
		nextID++
		id := nextID
		payload := fmt.Sprintf("survey|%d", id)
		if err := wire.ask(id, payload); err != nil {
			c.Inconclusive("peer could not send survey %d: %v", id, err)
			return 0, false
		}
		rc := mon.Go("Recv", func() (interface{}, error) { b, e := cx.Recv(); return string(b), e })
		if serialOK {
			if !settle(rc) {
				return 0, false
			}
			if !rc.Done() {
				c.Count("recv_waited_for_held_send", 1)
				wire.release()
			}
		}
		if !c.AwaitOrViolate(dl("recv"), fmt.Sprintf("Recv on the %s of %s with survey %d delivered by the peer", who, proto, id), rc.Done, mon.AwaitOpts{}) {
			return 0, false
		}
		v, err, _ := rc.Result()
		if err != nil || v.(string) != payload {
			c.Violate(sig("recv-result"), "Recv on the %s returned (%q, %v); the peer's next survey on the one connection was %q", who, v, err, payload)
			return 0, false
		}
		return id, true
	}
	var sends []*hrSend
	nPayload := 0
	launch := func(cx hrCtx, survey uint32, held bool, gate chan struct{}) *hrSend {
		nPayload++
		h := &hrSend{survey: survey, payload: fmt.Sprintf("reply|%d|%d", survey, nPayload), held: held}
		h.call = mon.Go("Send", func() (interface{}, error) {
			if gate != nil {
				<-gate
			}
			return nil, cx.Send([]byte(h.payload))
		})
		sends = append(sends, h)
		return h
	}

	// 1. replies until one is held by back-pressure
	var H *hrSend
	fills := 0
	for round := 0; round < sp.QLen+10 && H == nil; round++ {
		n, ok := takeSurvey(A, aName, false)
		if !ok {
			return
		}
		h := launch(A, n, false, nil)
		if !settle(h.call) {
			return
		}
		if h.call.Done() {
			fills++
			continue
		}
		H = h
	}
	if H == nil {
		c.Inconclusive("no back-pressure after %d replies", fills)
		return
	}
	H.held = true
	c.Count("held_replies", 1)
	c.Count("replies_absorbed_before_hold", fills)

	// 2. K simultaneous Sends for one survey on a second context, all behind the held reply
	var during []*mon.Call
	if sp.Sim {
		B, err := s.OpenContext()
		if err != nil {
			c.Inconclusive("OpenContext: %v", err)
			return
		}
		m, ok := takeSurvey(B, "second context", false)
		if !ok {
			return
		}
		gate := make(chan struct{})
		for j := 0; j < sp.K; j++ {
			during = append(during, launch(B, m, true, gate).call)
		}
		close(gate)
		c.Count("simultaneous_sends_behind_held_reply", sp.K)
	}
	// 3. the context whose reply is held is used by other goroutines
	var n2 uint32
	switch sp.Mode {
	case "dup":
		for j := 1; j < sp.K; j++ {
			during = append(during, launch(A, H.survey, true, nil).call)
		}
		c.Count("sends_on_context_with_held_reply", sp.K-1)
	case "recv":
		if len(during) > 0 && !settle(during...) {
			return
		}
		var ok bool
		if n2, ok = takeSurvey(A, aName, true); !ok {
			return
		}
		c.Count("surveys_received_with_reply_held", 1)
	}
	if len(during) > 0 {
		if !settle(during...) {
			return
		}
		early := 0
		for _, k := range during {
			if k.Done() {
				early++
			}
		}
		c.Count("sends_returned_while_reply_held", early)
	}
	stillHeld := !H.call.Done()

	// 4. the peer drains; every Send returns
	wire.release()
	allDone := func() bool {
		for _, h := range sends {
			if !h.call.Done() {
				return false
			}
		}
		return true
	}
	if !c.AwaitOrViolate(dl("send-after-drain"), fmt.Sprintf("%d Send calls on %s returning once the peer drains the connection", len(sends), proto), allDone, mon.AwaitOpts{}) {
		return
	}
	// recv mode: the survey taken while the reply was held
	wireOf := func(payload string) (ids []uint32) {
		for _, r := range wire.replies() {
			if r.body == payload {
				ids = append(ids, r.id)
			}
		}
		return
	}
	lateOK := map[string]uint32{} // payload -> other survey id it may legitimately carry
	if sp.Mode == "recv" {
		if _, err, _ := H.call.Result(); err == nil {
			// which survey did the held reply answer?  (decided by what the peer got)
			seen := func() bool { return len(wireOf(H.payload)) > 0 }
			if !c.AwaitOrViolate(sig("accepted-reply-missing"), "the accepted, formerly held reply reaching the draining peer", seen, mon.AwaitOpts{}) {
				return
			}
			switch got := wireOf(H.payload)[0]; got {
			case H.survey:
				// Send took effect before Recv: survey n2 is unanswered, its reply must be accepted
				h := launch(A, n2, false, nil)
				if !c.AwaitOrViolate(dl("send-after-drain"), "Send of the reply to the survey received while the earlier reply was held", h.call.Done, mon.AwaitOpts{}) {
					return
				}
				if _, err, _ := h.call.Result(); err != nil {
					c.Violate(sig("state-lost"), "%s %s: reply %d was held by back-pressure (WriteQLen %d, peer %s not draining) when another goroutine received survey %d on the same %s; the held reply went out for survey %d, yet the reply to survey %d — never answered — was refused with %v", proto, aName, H.survey, sp.QLen, sp.Tran, n2, aName, H.survey, n2, err)
					return
				}
				c.Count("reply_to_survey_received_meanwhile_accepted", 1)
			case n2:
				lateOK[H.payload] = n2 // Recv took effect first: the reply answered the newer survey
				c.Count("held_reply_answered_newer_survey", 1)
			}
		}
	}
	// sentinel: one more survey and reply on the same connection; everything accepted earlier precedes it
	sn, ok := takeSurvey(A, aName, false)
	if !ok {
		return
	}
	sh := launch(A, sn, false, nil)
	if !c.AwaitOrViolate(dl("send-after-drain"), "Send of the sentinel reply with a draining peer", sh.call.Done, mon.AwaitOpts{}) {
		return
	}
	if _, err, _ := sh.call.Result(); err != nil {
		c.Violate(sig("state-lost"), "%s %s: the reply to freshly received survey %d was refused with %v (after mode %s)", proto, aName, sn, err, sp.Mode)
		return
	}
	if !c.AwaitOrViolate(sig("accepted-reply-missing"), "the sentinel reply reaching the draining peer", func() bool { return len(wireOf(sh.payload)) > 0 }, mon.AwaitOpts{}) {
		return
	}

	// 5. results against the sequential contract
	replies := wire.replies()
	bySurvey := map[uint32][]*hrSend{}
	var order []uint32
	for _, h := range sends {
		if _, ok := bySurvey[h.survey]; !ok {
			order = append(order, h.survey)
		}
		bySurvey[h.survey] = append(bySurvey[h.survey], h)
	}
	known := map[string]*hrSend{}
	for _, h := range sends {
		known[h.payload] = h
	}
	for _, n := range order {
		nils, refused := 0, 0
		var desc []string
		for _, h := range bySurvey[n] {
			_, err, _ := h.call.Result()
			desc = append(desc, fmt.Sprintf("%s=%v", h.payload, err))
			switch err {
			case nil:
				nils++
			case mangos.ErrProtoState:
				refused++
			default:
				c.Violate(sig("send-result"), "Send of %q (no deadline, nothing closed) returned %v", h.payload, err)
			}
		}
		if _, late := lateOK[H.payload]; late && (n == H.survey || n == n2) {
			continue // accounted for above
		}
		if nils > 1 {
			c.Violate(sig("two-accepted"), "%s: %d Send calls for survey %d were accepted (%s); one survey may be answered once, the others must get ErrProtoState (reply held by back-pressure: WriteQLen %d, peer %s; concurrent use: sim=%v mode=%s)", proto, nils, n, strings.Join(desc, ", "), sp.QLen, sp.Tran, sp.Sim, sp.Mode)
		} else if nils == 0 {
			c.Violate(sig("none-accepted"), "%s: none of the %d Send calls for survey %d was accepted (%s)", proto, len(bySurvey[n]), n, strings.Join(desc, ", "))
		}
	}
	perID := map[uint32][]string{}
	for _, r := range replies {
		perID[r.id] = append(perID[r.id], r.body)
		h := known[r.body]
		if h == nil {
			c.Violate(sig("unknown-reply"), "the peer received reply %q (id %d) that no Send call passed", r.body, r.id)
			continue
		}
		if want, late := lateOK[r.body]; r.id != h.survey && !(late && r.id == want) {
			c.Violate(sig("wrong-id"), "reply %q was sent for survey %d but reached the peer with id %d", r.body, h.survey, r.id)
		}
	}
	var ids []uint32
	for id := range perID {
		ids = append(ids, id)
	}
	sort.Slice(ids, func(i, j int) bool { return ids[i] < ids[j] })
	for _, id := range ids {
		if len(perID[id]) > 1 {
			c.Violate(sig("two-accepted"), "%s: the peer received %d replies to survey %d (%s)", proto, len(perID[id]), id, strings.Join(perID[id], ", "))
		}
	}
	for _, h := range sends {
		if _, err, _ := h.call.Result(); err == nil && len(wireOf(h.payload)) != 1 {
			c.Violate(sig("accepted-reply-missing"), "Send of %q returned nil with the connection up, but the peer received it %d times before the sentinel reply", h.payload, len(wireOf(h.payload)))
		}
	}
	c.Count("replies_seen_by_peer", len(replies))
	c.Count("reply_sends", len(sends))
	if stillHeld {
		c.Nontrivial()
	}
	c.Sig("heldreply|%s|%s|%s|sim=%v|q%d|%s", proto, sp.Tran, sp.Mode, sp.Sim, sp.QLen, aName)
}
