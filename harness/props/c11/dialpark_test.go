//go:build verif

package c11

import (
	"fmt"
	"sync"
	"time"

	"go.nanomsg.org/mangos/v3"

	"verifharness/hx"
	"verifharness/mon"
)

// dialPark: synchronous Dial calls are in progress against a listener whose accept loop is busy
// (it is inside a pipe-event hook for an earlier connection: PipeEventAttaching or
// PipeEventAttached, after Pass connections went through unhindered) when another goroutine closes
// that listener, or the listening socket.  On inproc such a Dial has to wait for the listener's
// next Accept, so it is parked inside the transport (the harness checks that it is) when the close
// happens; on ipc / tcp the dial merely races the close.
//
// Every Dial must return (stuck detector; nothing in the scenario arms a timer that could end the
// wait), Close must return once the hook does, and on inproc — where no Accept can have happened
// after the hook was entered — none of the parked Dials, and no Dial made after the close, may
// report success.
func dialPark(c *mon.Case, sp spec) {
	tr := sp.Tran
	srvProto, cliProto := sp.Proto, hx.PeerOf[sp.Proto]
	long := func(s mangos.Socket) {
		// a connection lost to the close must not start a redial timer that keeps the process busy
		s.SetOption(mangos.OptionReconnectTime, time.Hour)
		s.SetOption(mangos.OptionMaxReconnectTime, time.Duration(0))
	}
	srv := hx.MustSock(c, srvProto)
	release := make(chan struct{})
	var once sync.Once
	rel := func() { once.Do(func() { close(release) }) }
	defer rel() // before the sockets are closed by the case's cleanups
	entered := make(chan struct{})
	var ev mangos.PipeEvent = mangos.PipeEventAttaching
	if sp.Ev == "attached" {
		ev = mangos.PipeEventAttached
	}
	var hmu sync.Mutex
	seen := 0
	srv.SetPipeEventHook(func(e mangos.PipeEvent, p mangos.Pipe) {
		if e != ev {
			return
		}
		hmu.Lock()
		seen++
		k := seen
		hmu.Unlock()
		if k == sp.Pass+1 {
			close(entered)
		}
		if k > sp.Pass {
			<-release // the accept loop stays here
		}
	})
	l, err := srv.NewListener(hx.ListenAddr(tr), tlsL(tr))
	if err == nil {
		err = l.Listen()
	}
	if err != nil {
		c.Inconclusive("setup: listen: %v", err)
		return
	}
	addr := l.Address()
	what := fmt.Sprintf("%s listener of a %s socket, accept loop inside the %s hook of connection %d", tr, srvProto, sp.Ev, sp.Pass+1)

	// Pass connections go through, the next one occupies the accept loop
	for i := 0; i <= sp.Pass; i++ {
		cli := hx.MustSock(c, cliProto)
		long(cli)
		k := mon.Go("Dial", func() (interface{}, error) { return nil, cli.DialOptions(addr, tlsD(tr)) })
		if !c.AwaitOrViolate("deadlock:dialpark/dial-accepting:"+tr, fmt.Sprintf("Dial %d to an accepting %s listener", i+1, tr), k.Done, mon.AwaitOpts{}) {
			return
		}
		if _, err, _ := k.Result(); err != nil {
			c.Inconclusive("setup: dial %d: %v", i+1, err)
			return
		}
	}
	isEntered := func() bool {
		select {
		case <-entered:
			return true
		default:
			return false
		}
	}
	if !c.AwaitOrViolate("harness:dialpark/hook-not-entered", "the hook being called for connection "+fmt.Sprint(sp.Pass+1), isEntered, mon.AwaitOpts{}) {
		return
	}

	// the Dials that are in progress when the listener goes away
	var shared mangos.Socket
	var dials []*mon.Call
	for i := 0; i < sp.K; i++ {
		var cli mangos.Socket
		if sp.Ctx && shared != nil {
			cli = shared // several dialers of one socket
		} else {
			cli = hx.MustSock(c, cliProto)
			long(cli)
			shared = cli
		}
		d, err := cli.NewDialer(addr, tlsD(tr))
		if err != nil {
			c.Inconclusive("setup: NewDialer: %v", err)
			return
		}
		dials = append(dials, mon.Go("Dial", func() (interface{}, error) { return nil, d.Dial() }))
	}
	parked := 0
	if tr == "inproc" {
		for i, k := range dials {
			if !k.ParkedIn("inproc.(*dialer).Dial") {
				if k.Done() {
					_, err, _ := k.Result()
					if err == nil {
						c.Violate("dialpark/connected-without-accept:"+tr, "Dial %d to the %s returned nil although the listener cannot have accepted it", i+1, what)
					} else {
						c.Inconclusive("Dial %d to the %s returned %v before the close", i+1, what, err)
					}
				} else {
					c.Inconclusive("Dial %d did not park in the transport", i+1)
				}
				return
			}
			parked++
		}
		c.Count("dials_parked_awaiting_accept", parked)
	} else {
		c.Count("dials_racing_close", len(dials))
	}

	// another goroutine closes the listener / the listening socket
	var closer *mon.Call
	if sp.Mode == "socket" {
		closer = mon.Go("Socket.Close", func() (interface{}, error) { return nil, srv.Close() })
	} else {
		closer = mon.Go("Listener.Close", func() (interface{}, error) { return nil, l.Close() })
	}
	allDone := func() bool {
		for _, k := range dials {
			if !k.Done() {
				return false
			}
		}
		return true
	}
	if !c.AwaitOrViolate("deadlock:dialpark/"+sp.Mode+"-closed:"+tr, fmt.Sprintf("%d Dial calls in progress (%d parked awaiting the next Accept) returning after %s.Close of the %s", len(dials), parked, sp.Mode, what), allDone, mon.AwaitOpts{}) {
		return
	}
	refused := 0
	for i, k := range dials {
		_, err, _ := k.Result()
		switch {
		case err == nil && tr == "inproc":
			c.Violate("dialpark/connected-to-closed:"+tr, "Dial %d, parked awaiting the next Accept of the %s, returned nil after %s.Close — nothing accepted it", i+1, what, sp.Mode)
			return
		case err == mangos.ErrConnRefused:
			refused++
		}
	}
	c.Count("dials_released_by_close", len(dials))
	c.Count("dials_refused", refused)
	// the hook returns; Close returns
	rel()
	if !c.AwaitOrViolate("deadlock:dialpark/close-return:"+tr, sp.Mode+".Close returning once the pipe-event hook has returned", closer.Done, mon.AwaitOpts{}) {
		return
	}
	if _, err, _ := closer.Result(); err != nil {
		c.Violate("dialpark/close-result:"+tr, "the first %s.Close returned %v", sp.Mode, err)
		return
	}
	// sequentially after the close: nobody listens there any more
	if tr == "inproc" {
		cli := hx.MustSock(c, cliProto)
		k := mon.Go("Dial", func() (interface{}, error) { return nil, cli.Dial(addr) })
		if !c.AwaitOrViolate("deadlock:dialpark/dial-after-close:"+tr, "Dial to the address of a closed inproc listener", k.Done, mon.AwaitOpts{}) {
			return
		}
		if _, err, _ := k.Result(); err == nil {
			c.Violate("dialpark/connected-to-closed:"+tr, "Dial made after %s.Close of the %s returned nil", sp.Mode, what)
			return
		}
	}
	c.Nontrivial()
	c.Sig("dialpark|%s|%s|%s|pass%d|n%d", tr, sp.Ev, sp.Mode, sp.Pass, sp.K)
}
