//go:build verif

package c11

import (
	"fmt"
	"sync"
	"time"

	"go.nanomsg.org/mangos/v3"

	"verifharness/hx"
	"verifharness/mon"
)

func longRedial(s mangos.Socket) {
	// a lost connection must not arm a redial timer that keeps the process busy
	s.SetOption(mangos.OptionReconnectTime, time.Hour)
	s.SetOption(mangos.OptionMaxReconnectTime, time.Duration(0))
}

// multiPark: K (2-3) inproc listeners of K different sockets on K different addresses have their
// accept loops held inside a pipe-event hook (after Pass connections each).  Synchronous Dials —
// 1-2 per address, from as many goroutines — are then started one after the other, each verified
// parked in the transport awaiting the next Accept of its listener before the next is started.
// The hooks are released in a PRNG-chosen order, one at a time: after each release every Dial to
// that listener's address must return (stuck detector; no timer is armed), whatever the other
// Dials still parked on other addresses do.
func multiPark(c *mon.Case, sp spec) {
	n := sp.K
	cliProto, srvProto := sp.Proto, hx.PeerOf[sp.Proto]
	var ev mangos.PipeEvent = mangos.PipeEventAttaching
	if sp.Ev == "attached" {
		ev = mangos.PipeEventAttached
	}
	type lst struct {
		addr    string
		release chan struct{}
		entered chan struct{}
		once    sync.Once
		dials   []*mon.Call
	}
	ls := make([]*lst, n)
	for i := range ls {
		l := &lst{release: make(chan struct{}), entered: make(chan struct{})}
		ls[i] = l
		defer l.once.Do(func() { close(l.release) })
		srv := hx.MustSock(c, srvProto)
		var hmu sync.Mutex
		seen := 0
		srv.SetPipeEventHook(func(e mangos.PipeEvent, p mangos.Pipe) {
			if e != ev {
				return
			}
			hmu.Lock()
			seen++
			k := seen
			hmu.Unlock()
			if k == sp.Pass+1 {
				close(l.entered)
			}
			if k > sp.Pass {
				<-l.release
			}
		})
		ml, err := srv.NewListener(hx.ListenAddr("inproc"), nil)
		if err == nil {
			err = ml.Listen()
		}
		if err != nil {
			c.Inconclusive("setup: listen: %v", err)
			return
		}
		l.addr = ml.Address()
		for j := 0; j <= sp.Pass; j++ {
			cli := hx.MustSock(c, cliProto)
			longRedial(cli)
			k := mon.Go("Dial", func() (interface{}, error) { return nil, cli.Dial(l.addr) })
			if !c.AwaitOrViolate("deadlock:multipark/dial-accepting", fmt.Sprintf("Dial %d to accepting inproc listener %d", j+1, i+1), k.Done, mon.AwaitOpts{}) {
				return
			}
			if _, err, _ := k.Result(); err != nil {
				c.Inconclusive("setup: dial: %v", err)
				return
			}
		}
		if !c.AwaitOrViolate("harness:multipark/hook-not-entered", "the hook being entered", func() bool {
			select {
			case <-l.entered:
				return true
			default:
				return false
			}
		}, mon.AwaitOpts{}) {
			return
		}
	}
	// the Dials park, in a known order, on different addresses
	order := c.Rand.Perm(n)
	total := 0
	for round := 0; round < sp.QLen; round++ {
		for _, i := range order {
			l := ls[i]
			cli := hx.MustSock(c, cliProto)
			longRedial(cli)
			k := mon.Go("Dial", func() (interface{}, error) { return nil, cli.Dial(l.addr) })
			l.dials = append(l.dials, k)
			total++
			if !k.ParkedIn("inproc.(*dialer).Dial") {
				if k.Done() {
					if _, err, _ := k.Result(); err == nil {
						c.Violate("multipark/connected-without-accept", "Dial to inproc listener %d returned nil although its accept loop is inside the %s hook", i+1, sp.Ev)
						return
					}
				}
				c.Inconclusive("a Dial did not park in the transport")
				return
			}
		}
	}
	c.Count("dials_parked_on_distinct_addresses", total)
	// the accept loops resume one at a time, in another order
	rel := c.Rand.Perm(n)
	if sp.Sim { // the listener whose dialer began to wait last resumes first
		for i := range rel {
			rel[i] = order[n-1-i]
		}
	}
	for step, i := range rel {
		l := ls[i]
		l.once.Do(func() { close(l.release) })
		pos := 0
		for p, o := range order {
			if o == i {
				pos = p
			}
		}
		done := func() bool {
			for _, k := range l.dials {
				if !k.Done() {
					return false
				}
			}
			return true
		}
		what := fmt.Sprintf("%d Dial(s) parked awaiting the next Accept of inproc listener %d (of %d on different addresses; parked %d-th, %d other listeners' dialers still parked) returning after that listener's accept loop left the %s hook and accepts again",
			len(l.dials), i+1, n, pos+1, n-1-step, sp.Ev)
		if !c.AwaitOrViolate("deadlock:multipark/dial-not-woken-by-accept", what, done, mon.AwaitOpts{}) {
			return
		}
		for _, k := range l.dials {
			if _, err, _ := k.Result(); err != nil && !known(err) {
				c.Violate("multipark/dial-result", "Dial returned undocumented error %v", err)
				return
			}
		}
		c.Count("dials_released_by_accept", len(l.dials))
	}
	c.Nontrivial()
	c.Sig("multipark|%s|n%d|per%d|pass%d|%v|%v", sp.Ev, n, sp.QLen, sp.Pass, order, rel)
}

func known(err error) bool {
	for _, e := range knownErrs {
		if err == e {
			return true
		}
	}
	return false
}

// wsClose: Listener.Close / Socket.Close of a listening socket from one goroutine while a burst of
// Dials from other goroutines is arriving (ws / wss: each inside its HTTP upgrade at some moment;
// other stream transports: inside accept / SP handshake).  Repeated sp.Pass times per case with
// fresh sockets.  The Close is launched either together with the burst or when the listening socket
// sees its QLen-th attach.  Every Dial and the Close must return; then the listening socket is
// closed too (a closed socket keeps no connection), and with the dialing sockets still open every
// pipe that attached at a dialing socket must detach: a connection that completed while the listener
// was being closed has to be let go by the library, not stay up unowned.
func wsClose(c *mon.Case, sp spec) {
	tr := sp.Tran
	cliProto, srvProto := sp.Proto, hx.PeerOf[sp.Proto]
	bursts, attachedTotal, okDials, orphanable := 0, 0, 0, 0
	for round := 0; round < sp.Pass; round++ {
		nd := 8 + c.Rand.Intn(25)
		if sp.K > 0 {
			nd = sp.K
		}
		trig := 0
		if c.Rand.Intn(4) != 0 {
			trig = 1 + c.Rand.Intn(nd/2)
		}
		srv := hx.MustSock(c, srvProto)
		hookCh := make(chan struct{})
		var trigCh <-chan struct{} = hookCh
		var once sync.Once
		fire := func() { once.Do(func() { close(hookCh) }) }
		var hmu sync.Mutex
		seen := 0
		srv.SetPipeEventHook(func(e mangos.PipeEvent, p mangos.Pipe) {
			if e != mangos.PipeEventAttaching {
				return
			}
			hmu.Lock()
			seen++
			k := seen
			hmu.Unlock()
			if k == trig {
				fire()
			}
		})
		ml, err := srv.NewListener(hx.ListenAddr(tr), tlsL(tr))
		if err == nil {
			err = ml.Listen()
		}
		if err != nil {
			fire()
			c.Inconclusive("setup: listen: %v", err)
			return
		}
		addr := ml.Address()
		nsock := (nd + 3) / 4
		clis := make([]mangos.Socket, nsock)
		ws := make([]*hx.PipeWatch, nsock)
		for i := range clis {
			clis[i] = hx.MustSock(c, cliProto)
			longRedial(clis[i])
			ws[i] = hx.WatchPipes(clis[i])
		}
		start := make(chan struct{})
		if trig == 0 {
			trigCh = start
		}
		var closer *mon.Call
		if sp.Mode == "socket" {
			closer = mon.Go("Socket.Close", func() (interface{}, error) { <-trigCh; return nil, srv.Close() })
		} else {
			closer = mon.Go("Listener.Close", func() (interface{}, error) { <-trigCh; return nil, ml.Close() })
		}
		dials := make([]*mon.Call, nd)
		for i := range dials {
			cli := clis[i%nsock]
			dials[i] = mon.Go("Dial", func() (interface{}, error) { <-start; return nil, cli.DialOptions(addr, tlsD(tr)) })
		}
		close(start)
		allDone := func() bool {
			for _, k := range dials {
				if !k.Done() {
					return false
				}
			}
			return true
		}
		what := fmt.Sprintf("%s listener of a %s socket, %s.Close from one goroutine during a burst of %d Dials", tr, srvProto, sp.Mode, nd)
		if !c.AwaitOrViolate("deadlock:burstclose/dial-return:"+tr, "every Dial returning: "+what, allDone, mon.AwaitOpts{}) {
			fire()
			return
		}
		fire() // fewer than trig connections got through: the Close comes after the burst
		if !c.AwaitOrViolate("deadlock:burstclose/close-return:"+tr+":"+sp.Mode, sp.Mode+".Close returning: "+what, closer.Done, mon.AwaitOpts{}) {
			return
		}
		if _, err, _ := closer.Result(); err != nil {
			c.Violate("burstclose/close-result:"+tr+":"+sp.Mode, "%s.Close returned %v", sp.Mode, err)
			return
		}
		ok := 0
		for _, k := range dials {
			_, err, _ := k.Result()
			if err == nil {
				ok++
			}
		}
		// the listening socket goes away altogether: nothing it accepted stays
		k := mon.Go("Socket.Close", func() (interface{}, error) { return nil, srv.Close() })
		if !c.AwaitOrViolate("deadlock:burstclose/socket-close-return:"+tr, "Socket.Close of the listening socket returning after: "+what, k.Done, mon.AwaitOpts{}) {
			return
		}
		live := func() int {
			n := 0
			for _, w := range ws {
				n += w.Live()
			}
			return n
		}
		r := mon.Await(func() bool { return live() == 0 }, mon.AwaitOpts{})
		att := 0
		for _, w := range ws {
			att += w.Attached()
		}
		switch r.V {
		case mon.Stuck:
			c.Violate("burstclose/connection-to-closed-listener-stays-up:"+tr,
				"%s: %d Dials returned nil, %d pipes attached at the dialing sockets; after the Close and Socket.Close of the listening socket returned, %d of them never detach (whole process quiescent) — a connection nobody owns stays up\n%s",
				what, ok, att, live(), r.Dump)
			return
		case mon.Inconclusive:
			c.Inconclusive("pipes of the dialing sockets detaching after the listening socket closed: %d live", live())
			return
		}
		bursts++
		attachedTotal += att
		okDials += ok
		if ok > 0 && ok < nd {
			orphanable++
		}
		for _, cli := range clis {
			cli.Close()
		}
	}
	c.Count("burstclose_bursts", bursts)
	c.Count("burstclose_dials_connected", okDials)
	c.Count("burstclose_client_pipes_attached_and_detached", attachedTotal)
	c.Count("burstclose_bursts_split_by_close", orphanable)
	if orphanable > 0 {
		c.Nontrivial()
	}
	c.Sig("burstclose|%s|%s|%s|split%v", tr, sp.Proto, sp.Mode, orphanable > 0)
}
