//go:build verif

package c11

import (
	"crypto/tls"
	"fmt"
	"net"
	"strings"
	"sync"
	"time"

	"go.nanomsg.org/mangos/v3"

	"verifharness/hx"
	"verifharness/mon"
	"verifharness/vt"
)

// dialOpt: a synchronous Dial is in progress and cannot finish — the peer (held by the harness)
// accepted the connection but stays silent, so the Dial is parked in the transport: in the SP
// handshake (tcp, ipc, tls+tcp after the harness completed the TLS handshake), in the TLS
// handshake (tls+tcp, wss against a peer that is silent at the TCP level), in the websocket
// handshake (ws, wss), in a scripted hang (vt), or awaiting the listener's next Accept (inproc,
// accept loop held inside a pipe-event hook).  The harness verifies that the Dial is parked there.
//
// Meanwhile other goroutines use the same dialer and the same socket: option get/set on the dialer
// (transport-level and core-level options), option get/set on the socket (MaxRecvSize and the
// reconnect times fan out to the dialer), NewDialer, NewListener, OpenContext, Info.  None of these
// calls waits for a peer, so each must return while the Dial is still parked (stuck detector: the
// scenario arms no timer at all), with a result its sequential contract allows.  Then either the
// peer hangs up and the Dial must return an error (it never connected), followed by Socket.Close;
// or Socket.Close is called while the Dial is still parked and must return, then the peer hangs up.
func dialOpt(c *mon.Case, sp spec) {
	tr := sp.Tran
	s := hx.MustSock(c, sp.Proto)
	// nothing in this scenario may arm a timer
	s.SetOption(mangos.OptionReconnectTime, time.Hour)
	s.SetOption(mangos.OptionMaxReconnectTime, time.Duration(0))

	var addr, frame, stage string
	var hangup func()
	after := func() {} // once the Dial has returned
	accepted := func() bool { return true }
	switch tr {
	case "vt":
		name := hx.Uniq("dialopt")
		ctl := vt.D(name)
		ctl.Script(vt.Outcome{Kind: vt.Hang})
		addr, frame, stage = vt.Addr(name), "vt.(*tdialer).Dial", "scripted hang"
		var once sync.Once
		hangup = func() { once.Do(func() { ctl.Release(vt.Outcome{Kind: vt.Refuse}) }) }
		c.Cleanup(func() { vt.Forget(name) })
	case "inproc":
		srv := hx.MustSock(c, hx.PeerOf[sp.Proto])
		release := make(chan struct{})
		entered := make(chan struct{})
		var hmu sync.Mutex
		seen := 0
		srv.SetPipeEventHook(func(e mangos.PipeEvent, p mangos.Pipe) {
			if e != mangos.PipeEventAttaching {
				return
			}
			hmu.Lock()
			seen++
			k := seen
			hmu.Unlock()
			if k == 1 {
				close(entered)
				<-release // the accept loop stays here
			}
		})
		l, err := srv.NewListener(hx.ListenAddr(tr), nil)
		if err == nil {
			err = l.Listen()
		}
		if err != nil {
			c.Inconclusive("setup: listen: %v", err)
			return
		}
		// Listener.Close refuses the parked Dial at once but returns only when the hook does
		var once, once2 sync.Once
		hangup = func() { once.Do(func() { go l.Close() }) }
		after = func() { once2.Do(func() { close(release) }) }
		defer func() { hangup(); after() }()
		first := hx.MustSock(c, sp.Proto)
		first.SetOption(mangos.OptionReconnectTime, time.Hour)
		first.SetOption(mangos.OptionMaxReconnectTime, time.Duration(0))
		k := mon.Go("Dial", func() (interface{}, error) { return nil, first.Dial(l.Address()) })
		if !c.AwaitOrViolate("deadlock:dialopt/dial-accepting:"+tr, "Dial to an accepting inproc listener", k.Done, mon.AwaitOpts{}) {
			return
		}
		if _, err, _ := k.Result(); err != nil {
			c.Inconclusive("setup: first dial: %v", err)
			return
		}
		isEntered := func() bool {
			select {
			case <-entered:
				return true
			default:
				return false
			}
		}
		if !c.AwaitOrViolate("harness:dialopt/hook-not-entered", "the attaching hook being called for the first connection", isEntered, mon.AwaitOpts{}) {
			return
		}
		addr, frame, stage = l.Address(), "inproc.(*dialer).Dial", "awaiting the next Accept"
	default:
		// a raw peer that accepts connections and never says anything
		network, laddr := "tcp", hx.OwnIP()+":0"
		if tr == "ipc" {
			network, laddr = "unix", strings.TrimPrefix(hx.ListenAddr("ipc"), "ipc://")
		}
		nl, err := net.Listen(network, laddr)
		if err != nil {
			c.Inconclusive("setup: raw listen: %v", err)
			return
		}
		inner := hx.NeedsTLS(tr) && sp.Ev == "inner"
		var hmu sync.Mutex
		var held []net.Conn
		closed := false
		acceptedQ := make(chan struct{}, 64)
		go func() {
			for {
				conn, err := nl.Accept()
				if err != nil {
					return
				}
				if inner {
					// the TLS handshake completes; what runs inside it stays unanswered
					sc, _ := hx.TLSConfigs()
					tc := tls.Server(conn, sc)
					if err := tc.Handshake(); err != nil {
						conn.Close()
						continue
					}
					conn = tc
				}
				hmu.Lock()
				if closed {
					hmu.Unlock()
					conn.Close()
					continue
				}
				held = append(held, conn) // held open, silent
				hmu.Unlock()
				select {
				case acceptedQ <- struct{}{}:
				default:
				}
			}
		}()
		hangup = func() {
			hmu.Lock()
			defer hmu.Unlock()
			if closed {
				return
			}
			closed = true
			nl.Close()
			for _, conn := range held {
				conn.Close()
			}
		}
		got := false
		accepted = func() bool {
			if !got {
				select {
				case <-acceptedQ:
					got = true
				default:
				}
			}
			return got
		}
		switch tr {
		case "ipc":
			addr = "ipc://" + laddr
		case "ws", "wss":
			addr = tr + "://" + nl.Addr().String() + "/" + hx.Uniq("p")
		default:
			addr = tr + "://" + nl.Addr().String()
		}
		switch {
		case tr == "ws" || tr == "wss":
			frame, stage = "websocket.(*Dialer).Dial", "websocket handshake"
			if tr == "wss" && !inner {
				stage = "TLS handshake"
			}
		case hx.NeedsTLS(tr) && !inner:
			frame, stage = "tlstcp.(*dialer).Dial", "TLS handshake"
		default:
			frame, stage = "connHandshaker).Wait", "SP handshake"
		}
	}
	defer func() { hangup(); after() }() // before the sockets are closed by the case's cleanups

	d, err := s.NewDialer(addr, tlsD(tr))
	if err != nil {
		c.Inconclusive("setup: NewDialer: %v", err)
		return
	}
	what := fmt.Sprintf("a synchronous Dial of a %s socket over %s is parked in the transport (%s, silent peer)", sp.Proto, tr, stage)
	dial := mon.Go("Dial", func() (interface{}, error) { return nil, d.Dial() })
	if !c.AwaitOrViolate("harness:dialopt/not-accepted:"+tr, "the silent peer accepting the connection", func() bool { return accepted() || dial.Done() }, mon.AwaitOpts{}) {
		return
	}
	if !dial.ParkedIn(frame) {
		if dial.Done() {
			if _, err, _ := dial.Result(); err == nil {
				c.Violate("dialopt/connected-to-silent-peer:"+tr, "Dial over %s returned nil although the peer never answered (%s)", tr, stage)
			} else {
				c.Inconclusive("Dial returned %v before it parked", err)
			}
		} else {
			c.Inconclusive("Dial did not park in %s", frame)
		}
		return
	}
	c.Count("dialopt_dials_parked", 1)
	c.Count("dialopt_dials_parked:"+tr, 1)

	// what other goroutines do with the dialer and the socket meanwhile
	type call struct {
		name string
		f    func() error
	}
	rnd := c.Rand
	hour := func() time.Duration { return time.Hour + time.Duration(rnd.Intn(1000))*time.Second }
	dialerCalls := []call{
		{"Dialer.GetOption(MaxRecvSize)", func() error { _, e := d.GetOption(mangos.OptionMaxRecvSize); return e }},
		{"Dialer.SetOption(MaxRecvSize)", func() error { return d.SetOption(mangos.OptionMaxRecvSize, 1024*(1+rnd.Intn(64))) }},
		{"Dialer.GetOption(KeepAliveTime)", func() error { _, e := d.GetOption(mangos.OptionKeepAliveTime); return e }},
		{"Dialer.SetOption(KeepAliveTime)", func() error { return d.SetOption(mangos.OptionKeepAliveTime, time.Duration(1+rnd.Intn(60))*time.Second) }},
		{"Dialer.GetOption(NoDelay)", func() error { _, e := d.GetOption(mangos.OptionNoDelay); return e }},
		{"Dialer.GetOption(TLSConfig)", func() error { _, e := d.GetOption(mangos.OptionTLSConfig); return e }},
		{"Dialer.GetOption(ReconnectTime)", func() error { _, e := d.GetOption(mangos.OptionReconnectTime); return e }},
		{"Dialer.SetOption(ReconnectTime)", func() error { return d.SetOption(mangos.OptionReconnectTime, hour()) }},
		{"Dialer.GetOption(DialAsynch)", func() error { _, e := d.GetOption(mangos.OptionDialAsynch); return e }},
		{"Dialer.Address", func() error { _ = d.Address(); return nil }},
	}
	if hx.NeedsTLS(tr) {
		_, cc := hx.TLSConfigs()
		dialerCalls = append(dialerCalls, call{"Dialer.SetOption(TLSConfig)", func() error { return d.SetOption(mangos.OptionTLSConfig, cc) }})
	}
	socketCalls := []call{
		{"Socket.SetOption(MaxRecvSize)", func() error { return s.SetOption(mangos.OptionMaxRecvSize, 1024*(1+rnd.Intn(64))) }},
		{"Socket.GetOption(MaxRecvSize)", func() error { _, e := s.GetOption(mangos.OptionMaxRecvSize); return e }},
		{"Socket.SetOption(ReconnectTime)", func() error { return s.SetOption(mangos.OptionReconnectTime, hour()) }},
		{"Socket.GetOption(ReconnectTime)", func() error { _, e := s.GetOption(mangos.OptionReconnectTime); return e }},
		{"Socket.SetOption(MaxReconnectTime)", func() error { return s.SetOption(mangos.OptionMaxReconnectTime, 2*hour()) }},
		{"Socket.GetOption(DialAsynch)", func() error { _, e := s.GetOption(mangos.OptionDialAsynch); return e }},
	}
	otherCalls := []call{
		{"Socket.NewDialer", func() error { _, e := s.NewDialer(hx.ListenAddr("inproc"), nil); return e }},
		{"Socket.NewListener", func() error { _, e := s.NewListener(hx.ListenAddr("inproc"), nil); return e }},
		{"Socket.OpenContext", func() error {
			cx, e := s.OpenContext()
			if e == nil {
				e = cx.Close()
			}
			return e
		}},
		{"Socket.Info", func() error { _ = s.Info(); return nil }},
	}
	pick := func(from []call, n int) []call {
		var out []call
		for _, i := range rnd.Perm(len(from))[:n] {
			out = append(out, from[i])
		}
		return out
	}
	// sp.K calls: about half on the dialer, the rest on the socket, in a PRNG-chosen order
	nd := (sp.K + 1) / 2
	no := 1
	ns := sp.K - nd - no
	if ns < 1 {
		ns = 1
	}
	calls := append(append(pick(dialerCalls, nd), pick(socketCalls, ns)...), pick(otherCalls, no)...)
	rnd.Shuffle(len(calls), func(i, j int) { calls[i], calls[j] = calls[j], calls[i] })
	var names []string
	for _, k := range calls {
		k := k
		done := mon.Go(k.name, func() (interface{}, error) { return nil, k.f() })
		if !c.AwaitOrViolate("deadlock:dialopt/"+k.name+":"+tr, fmt.Sprintf("%s returning while %s (earlier calls that did return: %v)", k.name, what, names), done.Done, mon.AwaitOpts{}) {
			return
		}
		_, err, _ := done.Result()
		if !okErr(k.name, err) {
			c.Violate("bad-result:dialopt/"+k.name+":"+tr, "%s returned %v while %s; no sequential contract of the call allows that", k.name, err, what)
			return
		}
		names = append(names, k.name)
		c.Count("dialopt_calls_returned_during_parked_dial", 1)
	}
	if dial.Done() {
		if _, err, _ := dial.Result(); err == nil {
			c.Violate("dialopt/connected-to-silent-peer:"+tr, "Dial over %s returned nil although the peer never answered (%s)", tr, stage)
		} else {
			c.Inconclusive("Dial returned %v although the peer neither answered nor hung up", err)
		}
		return
	}

	closeSock := func() bool {
		k := mon.Go("Socket.Close", func() (interface{}, error) { return nil, s.Close() })
		state := "after the Dial failed"
		if !dial.Done() {
			state = "while " + what
		}
		if !c.AwaitOrViolate("deadlock:dialopt/socket-close:"+tr, "Socket.Close returning "+state, k.Done, mon.AwaitOpts{}) {
			return false
		}
		if _, err, _ := k.Result(); err != nil {
			c.Violate("dialopt/close-result:"+tr, "the first Socket.Close returned %v %s", err, state)
			return false
		}
		return true
	}
	if sp.Mode == "close" {
		if !closeSock() {
			return
		}
		c.Count("dialopt_socket_closed_during_parked_dial", 1)
	}
	// the peer hangs up: the Dial ends, and it never connected
	hangup()
	if !c.AwaitOrViolate("deadlock:dialopt/dial-after-hangup:"+tr, "the Dial returning once the silent peer has hung up ("+stage+")", dial.Done, mon.AwaitOpts{}) {
		return
	}
	if _, err, _ := dial.Result(); err == nil {
		c.Violate("dialopt/connected-without-handshake:"+tr, "Dial over %s returned nil after the peer hung up without ever answering (%s)", tr, stage)
		return
	}
	c.Count("dialopt_dials_failed_by_hangup", 1)
	after()
	if sp.Mode != "close" && !closeSock() {
		return
	}
	c.Nontrivial()
	c.Sig("dialopt|%s|%s|%s|%s", tr, stage, sp.Mode, strings.Join(names, ","))
}

// okErr: nil or a documented error; creating an endpoint may also surface an operating-system error.
func okErr(name string, err error) bool {
	if err == nil || strings.HasPrefix(name, "Socket.New") {
		return true
	}
	for _, e := range knownErrs {
		if err == e {
			return true
		}
	}
	return false
}
