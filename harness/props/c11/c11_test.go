package c11

import (
	"fmt"
	"math/rand"
	"sort"
	"strings"
	"sync"
	"testing"
	"time"

	"go.nanomsg.org/mangos/v3"

	"verifharness/hx"
	"verifharness/mon"
)

// C11 — sockets are safe for concurrent use.  Built with -race; the driver parses
// the race detector's reports.  This file is the API mixer and its result checks.

func TestMain(m *testing.M) { hx.Main(m) }

type spec struct {
	Proto string `json:"proto"`
	Tran  string `json:"tran"`
	G     int    `json:"goroutines"`
	Ops   int    `json:"ops"`
	Yield bool   `json:"yield"`
	Rep   int    `json:"rep"`
	Kind  string `json:"kind,omitempty"` // "" (mixer) | startonce | heldreply | dialpark | dialopt | parkrecv | closedial | multipark | burstclose
	// heldreply: Mode dup|recv, QLen = WriteQLen, K = concurrent Sends, Ctx = context (not socket), Sim = simultaneous Sends on a second context
	// dialpark:  Mode listener|socket (what is closed), Ev = hook event that occupies the accept loop, Pass = connections before it, K = Dials in progress, Ctx = dialers share one socket
	// dialopt:   Mode hangup|close (what ends the scenario), Ev = outer|inner (TLS transports: the peer is silent before / after the TLS handshake), K = calls made while the Dial is parked
	// parkrecv:  Mode = the first call made while the Recv is parked, K = number of calls, Ctx = Recv on a context, Pass = 2 or 3 subscriptions (SUB), Sim = the receiving socket listens
	// closedial: Mode drop-peer|drop-local|backoff (what armed the reconnect timer), Ev = dialer|socket (what is closed), K = reconnect time in ms, Ctx = DialAsynch, Pass = refused redials before the Close (backoff)
	// multipark: K = listeners on different inproc addresses, QLen = Dials parked per address, Ev = hook event, Pass = connections before it, Sim = release in reverse parking order
	// burstclose: Mode listener|socket (what is closed during the burst), Pass = bursts per case
	Mode string `json:"mode,omitempty"`
	QLen int    `json:"qlen,omitempty"`
	K    int    `json:"k,omitempty"`
	Ctx  bool   `json:"ctx,omitempty"`
	Sim  bool   `json:"sim,omitempty"`
	Ev   string `json:"ev,omitempty"`
	Pass int    `json:"pass,omitempty"`
}

func TestC11(t *testing.T) {
	r := mon.NewRunner(t, "C11")
	rnd := r.Rand()
	var cases []mon.CaseSpec
	trans := []string{"inproc", "tcp", "ipc"}
	if r.Thorough() {
		trans = []string{"inproc", "tcp", "ipc", "tls+tcp", "ws", "wss"}
	}
	reps := r.Pick(8, 48) // race reports vary from run to run
	for rep := 0; rep < reps; rep++ {
		for _, p := range hx.AllProtos {
			for _, tr := range trans {
				if r.Thorough() && tr != "inproc" && tr != "tcp" && rnd.Intn(2) == 0 {
					continue
				}
				cases = append(cases, mon.CaseSpec{Name: p + "/" + tr, Spec: spec{Proto: p, Tran: tr, G: 6 + rnd.Intn(11), Ops: r.Pick(120, 250), Yield: rnd.Intn(3) != 0, Rep: rep}})
			}
		}
	}
	for rep := 0; rep < r.Pick(2, 12); rep++ {
		for _, tr := range []string{"inproc", "ipc", "tcp"} {
			cases = append(cases, mon.CaseSpec{Name: "startonce/" + tr, Spec: spec{Kind: "startonce", Tran: tr, G: 4 + rnd.Intn(6), Ops: r.Pick(12, 30), Rep: rep}})
		}
	}
	// new kinds are appended, so that the cases above keep their indices (and per-case PRNGs)
	// a reply held by back-pressure while other goroutines use the same context
	for rep := 0; rep < r.Pick(3, 24); rep++ {
		for _, p := range []string{"rep", "respondent"} {
			for _, tr := range []string{"vt", "inproc"} {
				for _, mode := range []string{"dup", "recv"} {
					sp := spec{Kind: "heldreply", Proto: p, Tran: tr, Mode: mode, QLen: rnd.Intn(4), K: 2 + rnd.Intn(3), Ctx: rnd.Intn(2) == 0, Sim: rnd.Intn(3) != 0, Rep: rep}
					cases = append(cases, mon.CaseSpec{Name: "heldreply/" + p + "/" + tr + "/" + mode, Spec: sp})
				}
			}
		}
	}
	// Dial calls in progress (on inproc: parked awaiting the next Accept) when the listener or its socket is closed
	dpProtos := []string{"rep", "req", "pub", "sub", "push", "pull", "bus", "surveyor", "respondent", "star"}
	for i := 0; i < r.Pick(30, 360); i++ {
		tr := "inproc"
		if i%6 == 5 {
			tr = []string{"ipc", "tcp"}[(i/6)%2]
		}
		sp := spec{Kind: "dialpark", Proto: dpProtos[rnd.Intn(len(dpProtos))], Tran: tr, Mode: []string{"listener", "socket"}[rnd.Intn(2)],
			Ev: []string{"attaching", "attached"}[rnd.Intn(2)], Pass: rnd.Intn(3), K: 1 + rnd.Intn(3), Ctx: rnd.Intn(2) == 0, Rep: i}
		cases = append(cases, mon.CaseSpec{Name: "dialpark/" + tr + "/" + sp.Mode, Spec: sp})
	}
	// option get/set, NewDialer/NewListener/OpenContext and Close on a socket one of whose dialers has a
	// synchronous Dial parked in the transport (silent peer held by the harness)
	doTrans := []string{"tcp", "ipc", "tls+tcp", "ws", "vt", "tcp", "wss", "inproc", "ipc", "tls+tcp"}
	for i := 0; i < r.Pick(30, 400); i++ {
		tr := doTrans[i%len(doTrans)]
		sp := spec{Kind: "dialopt", Proto: dpProtos[rnd.Intn(len(dpProtos))], Tran: tr, Mode: []string{"hangup", "close"}[rnd.Intn(2)],
			Ev: []string{"outer", "inner"}[rnd.Intn(2)], K: 4 + rnd.Intn(5), Rep: i}
		if !hx.NeedsTLS(tr) {
			sp.Ev = ""
		}
		cases = append(cases, mon.CaseSpec{Name: "dialopt/" + tr + "/" + sp.Mode, Spec: sp})
	}
	// a Recv parked on a socket / context while other goroutines set options on it; then the peer sends
	prTrans := []string{"inproc", "tcp", "ipc"}
	if r.Thorough() {
		prTrans = []string{"inproc", "tcp", "ipc", "tls+tcp", "ws", "wss"}
	}
	prN := 0
	addPR := func(proto, mode string, ctx bool) {
		sp := spec{Kind: "parkrecv", Proto: proto, Tran: prTrans[prN%len(prTrans)], Mode: mode, K: 1 + rnd.Intn(3), Ctx: ctx, Pass: rnd.Intn(2), Sim: rnd.Intn(2) == 0, Rep: prN}
		prN++
		cases = append(cases, mon.CaseSpec{Name: "parkrecv/" + proto + "/" + sp.Tran, Spec: sp})
	}
	prSubModes := []string{"Unsubscribe(present)", "Unsubscribe(absent)", "Subscribe(new)", "Subscribe(present)", "SetOption(ReadQLen)", "Socket.SetOption(ReadQLen)", "Unsubscribe(present)"}
	prModes := []string{"SetOption(ReadQLen)", "SetOption(RecvDeadline)", "SetOption(TTL)", "SetOption(WriteQLen)", "OpenContext+Close", "GetOption(ReadQLen)", "SetOption(ReadQLen)"}
	prProtos := []string{"xsub", "pull", "xpull", "pair", "xpair", "pair1", "xpair1", "bus", "xbus", "star", "xstar", "rep", "xrep", "respondent", "xrespondent"}
	for rep := 0; rep < r.Pick(1, 14); rep++ {
		for i, m := range prSubModes {
			addPR("sub", m, (i+rep)%2 == 0)
			if rep > 0 || i == 0 || i == len(prSubModes)-1 {
				addPR("sub", m, (i+rep)%2 != 0)
			}
		}
		for i, p := range prProtos {
			ctx := (p == "rep" || p == "respondent") && (i+rep)%2 == 0
			addPR(p, prModes[(i+rep)%len(prModes)], ctx)
		}
	}
	// a dialer closed while its reconnect timer is armed: no connection afterwards
	cdProtos := append([]string{"pair", "pair1"}, dpProtos...)
	cdCombos := [][3]string{
		{"vt", "drop-peer", "dialer"}, {"inproc", "drop-peer", "dialer"}, {"vt", "backoff", "dialer"}, {"tcp", "drop-peer", "dialer"},
		{"vt", "drop-local", "dialer"}, {"inproc", "drop-local", "dialer"}, {"vt", "drop-peer", "socket"}, {"ipc", "drop-local", "dialer"},
		{"inproc", "drop-peer", "socket"}, {"vt", "backoff", "socket"}, {"tcp", "drop-local", "socket"}, {"vt", "drop-local", "socket"},
	}
	for i := 0; i < r.Pick(12, 144); i++ {
		cb := cdCombos[i%len(cdCombos)]
		sp := spec{Kind: "closedial", Proto: cdProtos[rnd.Intn(len(cdProtos))], Tran: cb[0], Mode: cb[1], Ev: cb[2], K: []int{60, 100, 150}[rnd.Intn(3)], Ctx: rnd.Intn(3) == 0, Pass: rnd.Intn(2), Rep: i}
		cases = append(cases, mon.CaseSpec{Name: "closedial/" + sp.Tran + "/" + sp.Mode + "/" + sp.Ev, Spec: sp})
	}
	// dialers parked on DIFFERENT inproc addresses at one moment; the accept loops resume one at a time
	for i := 0; i < r.Pick(16, 200); i++ {
		sp := spec{Kind: "multipark", Proto: dpProtos[rnd.Intn(len(dpProtos))], Tran: "inproc", K: 2 + rnd.Intn(2), QLen: 1 + rnd.Intn(2),
			Ev: []string{"attaching", "attached"}[rnd.Intn(2)], Pass: rnd.Intn(2), Sim: rnd.Intn(3) != 0, Rep: i}
		cases = append(cases, mon.CaseSpec{Name: "multipark/inproc", Spec: sp})
	}
	// Listener.Close / Socket.Close during a burst of Dials from other goroutines: every connection is let go
	bcTrans := []string{"ws", "wss", "ws", "tcp", "wss", "ws", "tls+tcp", "ipc"}
	for i := 0; i < r.Pick(24, 320); i++ {
		tr := bcTrans[i%len(bcTrans)]
		sp := spec{Kind: "burstclose", Proto: dpProtos[rnd.Intn(len(dpProtos))], Tran: tr, Mode: []string{"listener", "socket"}[rnd.Intn(2)], Pass: r.Pick(6, 10), Rep: i}
		cases = append(cases, mon.CaseSpec{Name: "burstclose/" + tr + "/" + sp.Mode, Spec: sp})
	}
	r.Run(cases, func(c *mon.Case) {
		sp := c.Spec.(spec)
		switch sp.Kind {
		case "multipark":
			multiPark(c, sp)
		case "burstclose":
			wsClose(c, sp)
		case "parkrecv":
			parkRecv(c, sp)
		case "closedial":
			closeDial(c, sp)
		case "dialopt":
			dialOpt(c, sp)
		case "startonce":
			startOnce(c, sp)
		case "heldreply":
			heldReply(c, sp)
		case "dialpark":
			dialPark(c, sp)
		default:
			mix(c, sp)
		}
	})
}

type opRec struct {
	kind     string
	t0, t1   time.Duration
	gor      int
	err      error
	panicked interface{}
}

var knownErrs = []error{mangos.ErrBadAddr, mangos.ErrBadHeader, mangos.ErrBadVersion, mangos.ErrTooShort, mangos.ErrTooLong, mangos.ErrClosed,
	mangos.ErrConnRefused, mangos.ErrSendTimeout, mangos.ErrRecvTimeout, mangos.ErrProtoState, mangos.ErrProtoOp, mangos.ErrBadTran, mangos.ErrBadProto,
	mangos.ErrBadOption, mangos.ErrBadValue, mangos.ErrGarbled, mangos.ErrAddrInUse, mangos.ErrBadProperty, mangos.ErrTLSNoConfig, mangos.ErrTLSNoCert,
	mangos.ErrNotRaw, mangos.ErrCanceled, mangos.ErrNoContext, mangos.ErrNoPeers}

func allowedErr(kind string, err error) bool {
	if err == nil {
		return true
	}
	for _, e := range knownErrs {
		if err == e {
			return true
		}
	}
	// dial/listen may surface operating-system errors
	return strings.HasPrefix(kind, "Dial") || strings.HasPrefix(kind, "Listen") || strings.HasPrefix(kind, "NewDialer") || strings.HasPrefix(kind, "NewListener")
}

func mix(c *mon.Case, sp spec) {
	if sp.Yield {
		hx.SetYields(c.Rand.Int63(), &hx.YieldCfg{ProbGosched: 0.3, ProbSleep: 0.1, MaxSleep: 200 * time.Microsecond})
		defer hx.SetYields(0, nil)
	}
	s := hx.MustSock(c, sp.Proto)
	peer := hx.MustSock(c, hx.PeerOf[sp.Proto])
	short := func() time.Duration { return time.Duration(1+c.Rand.Intn(6)) * time.Millisecond }
	for _, x := range []mangos.Socket{s, peer} {
		x.SetOption(mangos.OptionSendDeadline, 5*time.Millisecond)
		x.SetOption(mangos.OptionRecvDeadline, 5*time.Millisecond)
		x.SetOption(mangos.OptionRetryTime, 3*time.Millisecond)
		x.SetOption(mangos.OptionSurveyTime, 4*time.Millisecond)
		x.SetOption(mangos.OptionReconnectTime, 2*time.Millisecond)
		x.SetOption(mangos.OptionMaxReconnectTime, 4*time.Millisecond)
	}
	_ = short
	var lo, do map[string]interface{}
	if hx.NeedsTLS(sp.Tran) {
		sc, cc := hx.TLSConfigs()
		lo = map[string]interface{}{mangos.OptionTLSConfig: sc}
		do = map[string]interface{}{mangos.OptionTLSConfig: cc}
	}
	pl, err := peer.NewListener(hx.ListenAddr(sp.Tran), lo)
	if err == nil {
		err = pl.Listen()
	}
	if err != nil {
		c.Inconclusive("setup: %v", err)
		return
	}
	peerAddr := pl.Address()
	var pmu sync.Mutex
	var pipes []mangos.Pipe
	hook := func(ev mangos.PipeEvent, p mangos.Pipe) {
		if ev == mangos.PipeEventAttached {
			pmu.Lock()
			pipes = append(pipes, p)
			if len(pipes) > 64 {
				pipes = pipes[32:]
			}
			pmu.Unlock()
		}
	}
	s.SetPipeEventHook(hook)
	if err := s.DialOptions(peerAddr, do); err != nil {
		c.Inconclusive("setup dial: %v", err)
		return
	}

	var mu sync.Mutex
	var recs []opRec
	var dialers []mangos.Dialer
	var listeners []mangos.Listener
	var ctxs []mangos.Context
	topics := [][]byte{{}, []byte("a"), []byte("b"), []byte("ab")}
	hdrFor := func(m *mangos.Message) {
		// raw sockets need a plausible header
		switch sp.Proto {
		case "xpair1", "xstar":
			m.Header = append(m.Header, 0, 0, 0, 0)
		case "xreq", "xsurveyor":
			m.Header = append(m.Header, 0x80, 0, 0, 1)
		case "xrep", "xrespondent":
			m.Header = append(m.Header, 0, 0, 0, 1, 0x80, 0, 0, 1)
		}
	}
	type op struct {
		kind string
		f    func(r *rand.Rand) error
	}
	ops := []op{
		{"Send", func(r *rand.Rand) error { return s.Send([]byte("hello")) }},
		{"Recv", func(r *rand.Rand) error { _, e := s.Recv(); return e }},
		{"SendMsg", func(r *rand.Rand) error {
			m := mangos.NewMessage(16)
			m.Body = append(m.Body, "msg"...)
			hdrFor(m)
			e := s.SendMsg(m)
			if e != nil {
				m.Free()
			}
			return e
		}},
		{"RecvMsg", func(r *rand.Rand) error {
			m, e := s.RecvMsg()
			if m != nil {
				m.Free()
			}
			return e
		}},
		{"peer.Send", func(r *rand.Rand) error { return peer.Send([]byte("from-peer")) }},
		{"peer.Recv", func(r *rand.Rand) error { _, e := peer.Recv(); return e }},
		{"Set(TTL)", func(r *rand.Rand) error { return s.SetOption(mangos.OptionTTL, 1+r.Intn(8)) }},
		{"Get(TTL)", func(r *rand.Rand) error { _, e := s.GetOption(mangos.OptionTTL); return e }},
		{"Set(ReadQLen)", func(r *rand.Rand) error { return s.SetOption(mangos.OptionReadQLen, r.Intn(5)) }},
		{"Get(ReadQLen)", func(r *rand.Rand) error { _, e := s.GetOption(mangos.OptionReadQLen); return e }},
		{"Set(WriteQLen)", func(r *rand.Rand) error { return s.SetOption(mangos.OptionWriteQLen, 1+r.Intn(4)) }},
		{"Get(WriteQLen)", func(r *rand.Rand) error { _, e := s.GetOption(mangos.OptionWriteQLen); return e }},
		{"Set(SendDeadline)", func(r *rand.Rand) error {
			return s.SetOption(mangos.OptionSendDeadline, time.Duration(1+r.Intn(6))*time.Millisecond)
		}},
		{"Get(SendDeadline)", func(r *rand.Rand) error { _, e := s.GetOption(mangos.OptionSendDeadline); return e }},
		{"Set(RecvDeadline)", func(r *rand.Rand) error {
			return s.SetOption(mangos.OptionRecvDeadline, time.Duration(1+r.Intn(6))*time.Millisecond)
		}},
		{"Get(RecvDeadline)", func(r *rand.Rand) error { _, e := s.GetOption(mangos.OptionRecvDeadline); return e }},
		{"Set(BestEffort)", func(r *rand.Rand) error { return s.SetOption(mangos.OptionBestEffort, r.Intn(2) == 0) }},
		{"Get(BestEffort)", func(r *rand.Rand) error { _, e := s.GetOption(mangos.OptionBestEffort); return e }},
		{"Set(FailNoPeers)", func(r *rand.Rand) error { return s.SetOption(mangos.OptionFailNoPeers, r.Intn(2) == 0) }},
		{"Set(RetryTime)", func(r *rand.Rand) error {
			return s.SetOption(mangos.OptionRetryTime, time.Duration(1+r.Intn(5))*time.Millisecond)
		}},
		{"Get(RetryTime)", func(r *rand.Rand) error { _, e := s.GetOption(mangos.OptionRetryTime); return e }},
		{"Set(SurveyTime)", func(r *rand.Rand) error {
			return s.SetOption(mangos.OptionSurveyTime, time.Duration(1+r.Intn(5))*time.Millisecond)
		}},
		{"Get(SurveyTime)", func(r *rand.Rand) error { _, e := s.GetOption(mangos.OptionSurveyTime); return e }},
		{"Set(Subscribe)", func(r *rand.Rand) error { return s.SetOption(mangos.OptionSubscribe, topics[r.Intn(len(topics))]) }},
		{"Set(Unsubscribe)", func(r *rand.Rand) error { return s.SetOption(mangos.OptionUnsubscribe, topics[r.Intn(len(topics))]) }},
		{"Set(MaxRecvSize)", func(r *rand.Rand) error { return s.SetOption(mangos.OptionMaxRecvSize, 1024*(1+r.Intn(64))) }},
		{"Get(MaxRecvSize)", func(r *rand.Rand) error { _, e := s.GetOption(mangos.OptionMaxRecvSize); return e }},
		{"Set(ReconnectTime)", func(r *rand.Rand) error {
			return s.SetOption(mangos.OptionReconnectTime, time.Duration(1+r.Intn(3))*time.Millisecond)
		}},
		{"Set(MaxReconnectTime)", func(r *rand.Rand) error {
			return s.SetOption(mangos.OptionMaxReconnectTime, time.Duration(3+r.Intn(3))*time.Millisecond)
		}},
		{"Set(DialAsynch)", func(r *rand.Rand) error { return s.SetOption(mangos.OptionDialAsynch, r.Intn(2) == 0) }},
		{"Get(Raw)", func(r *rand.Rand) error { _, e := s.GetOption(mangos.OptionRaw); return e }},
		{"Info", func(r *rand.Rand) error { _ = s.Info(); return nil }},
		{"SetPipeEventHook", func(r *rand.Rand) error { s.SetPipeEventHook(hook); return nil }},
		{"NewDialer+Dial", func(r *rand.Rand) error {
			d, e := s.NewDialer(peerAddr, do)
			if e != nil {
				return e
			}
			mu.Lock()
			dialers = append(dialers, d)
			mu.Unlock()
			d.SetOption(mangos.OptionDialAsynch, r.Intn(2) == 0)
			return d.Dial()
		}},
		{"Dialer.Set/Get", func(r *rand.Rand) error {
			mu.Lock()
			var d mangos.Dialer
			if len(dialers) > 0 {
				d = dialers[r.Intn(len(dialers))]
			}
			mu.Unlock()
			if d == nil {
				return nil
			}
			d.SetOption(mangos.OptionReconnectTime, time.Duration(1+r.Intn(3))*time.Millisecond)
			d.SetOption(mangos.OptionMaxRecvSize, 1024*(1+r.Intn(8)))
			if hx.NeedsTLS(sp.Tran) {
				_, cc := hx.TLSConfigs()
				d.SetOption(mangos.OptionTLSConfig, cc)
				d.GetOption(mangos.OptionTLSConfig)
			}
			d.SetOption(mangos.OptionKeepAliveTime, time.Second)
			d.GetOption(mangos.OptionKeepAliveTime)
			_, e := d.GetOption(mangos.OptionMaxRecvSize)
			_ = d.Address()
			return e
		}},
		{"Dialer.Close", func(r *rand.Rand) error {
			mu.Lock()
			var d mangos.Dialer
			if len(dialers) > 1 {
				i := r.Intn(len(dialers))
				d = dialers[i]
				dialers = append(dialers[:i], dialers[i+1:]...)
			}
			mu.Unlock()
			if d == nil {
				return nil
			}
			return d.Close()
		}},
		{"NewListener+Listen", func(r *rand.Rand) error {
			l, e := s.NewListener(hx.ListenAddr("inproc"), nil)
			if e != nil {
				return e
			}
			mu.Lock()
			listeners = append(listeners, l)
			mu.Unlock()
			return l.Listen()
		}},
		{"Listener.Set/Get/Close", func(r *rand.Rand) error {
			mu.Lock()
			var l mangos.Listener
			if len(listeners) > 0 {
				i := r.Intn(len(listeners))
				l = listeners[i]
				if r.Intn(2) == 0 {
					listeners = append(listeners[:i], listeners[i+1:]...)
				}
			}
			mu.Unlock()
			if l == nil {
				return nil
			}
			l.SetOption(mangos.OptionMaxRecvSize, 4096)
			l.GetOption(mangos.OptionMaxRecvSize)
			_ = l.Address()
			if r.Intn(2) == 0 {
				return l.Close()
			}
			return nil
		}},
		{"OpenContext", func(r *rand.Rand) error {
			cx, e := s.OpenContext()
			if e != nil {
				return e
			}
			cx.SetOption(mangos.OptionRecvDeadline, 3*time.Millisecond)
			cx.SetOption(mangos.OptionSendDeadline, 3*time.Millisecond)
			mu.Lock()
			ctxs = append(ctxs, cx)
			mu.Unlock()
			return nil
		}},
		{"ctx.Send", func(r *rand.Rand) error {
			if cx := pickCtx(&mu, &ctxs, r, false); cx != nil {
				return cx.Send([]byte("ctx"))
			}
			return nil
		}},
		{"ctx.Recv", func(r *rand.Rand) error {
			if cx := pickCtx(&mu, &ctxs, r, false); cx != nil {
				_, e := cx.Recv()
				return e
			}
			return nil
		}},
		{"ctx.Set/Get", func(r *rand.Rand) error {
			if cx := pickCtx(&mu, &ctxs, r, false); cx != nil {
				cx.SetOption(mangos.OptionRetryTime, time.Duration(1+r.Intn(4))*time.Millisecond)
				cx.SetOption(mangos.OptionSurveyTime, time.Duration(1+r.Intn(4))*time.Millisecond)
				cx.SetOption(mangos.OptionSubscribe, topics[r.Intn(len(topics))])
				cx.SetOption(mangos.OptionReadQLen, 1+r.Intn(3))
				_, e := cx.GetOption(mangos.OptionRecvDeadline)
				return e
			}
			return nil
		}},
		{"ctx.Close", func(r *rand.Rand) error {
			if cx := pickCtx(&mu, &ctxs, r, true); cx != nil {
				return cx.Close()
			}
			return nil
		}},
		{"Pipe.Close", func(r *rand.Rand) error {
			pmu.Lock()
			var p mangos.Pipe
			if len(pipes) > 0 {
				p = pipes[r.Intn(len(pipes))]
			}
			pmu.Unlock()
			if p == nil {
				return nil
			}
			return p.Close()
		}},
		{"Pipe.Get", func(r *rand.Rand) error {
			pmu.Lock()
			var p mangos.Pipe
			if len(pipes) > 0 {
				p = pipes[r.Intn(len(pipes))]
			}
			pmu.Unlock()
			if p == nil {
				return nil
			}
			_ = p.ID()
			_ = p.Address()
			_ = p.Dialer()
			_ = p.Listener()
			p.GetOption(mangos.OptionRemoteAddr)
			p.GetOption(mangos.OptionMaxRecvSize)
			return nil
		}},
	}
	var wg sync.WaitGroup
	seeds := make([]int64, sp.G)
	for i := range seeds {
		seeds[i] = c.Rand.Int63()
	}
	for g := 0; g < sp.G; g++ {
		g := g
		wg.Add(1)
		go func() {
			defer wg.Done()
			r := rand.New(rand.NewSource(seeds[g]))
			// each goroutine concentrates on a PRNG-chosen subset of the operations
			var mine []op
			for _, o := range ops {
				if r.Intn(3) == 0 {
					mine = append(mine, o)
				}
			}
			if len(mine) == 0 {
				mine = ops
			}
			for i := 0; i < sp.Ops; i++ {
				o := mine[r.Intn(len(mine))]
				rec := opRec{kind: o.kind, gor: g, t0: mon.Now()}
				func() {
					defer func() {
						if p := recover(); p != nil {
							rec.panicked = p
						}
					}()
					rec.err = o.f(r)
				}()
				rec.t1 = mon.Now()
				mu.Lock()
				recs = append(recs, rec)
				mu.Unlock()
			}
		}()
	}
	done := mon.Go("mixer", func() (interface{}, error) { wg.Wait(); return nil, nil })
	if !c.AwaitOrViolate("deadlock:mixer/"+sp.Proto, fmt.Sprintf("%d goroutines x %d API calls (all with deadlines <= 6ms) finishing", sp.G, sp.Ops), done.Done, mon.AwaitOpts{MaxTimer: 10 * time.Millisecond, Ignore: []string{"internal/core.(*dialer)", "internal/core.(*listener).serve"}}) {
		return
	}
	// finally Close from two goroutines, while other goroutines close contexts of the same socket
	var extra []mangos.Context
	for i := 0; i < 6; i++ {
		if cx, err := s.OpenContext(); err == nil {
			extra = append(extra, cx)
		}
	}
	c1 := mon.Go("Close", func() (interface{}, error) { return nil, s.Close() })
	cc := mon.Go("ctx-closers", func() (interface{}, error) {
		var cw sync.WaitGroup
		for _, cx := range extra {
			cx := cx
			cw.Add(1)
			go func() { defer cw.Done(); cx.Close() }()
		}
		cw.Wait()
		return nil, nil
	})
	c2 := mon.Go("Close", func() (interface{}, error) { return nil, s.Close() })
	if !c.AwaitOrViolate("deadlock:close/"+sp.Proto, "two concurrent Close calls (and concurrent context closes) returning", func() bool { return c1.Done() && c2.Done() && cc.Done() }, mon.AwaitOpts{MaxTimer: 10 * time.Millisecond}) {
		return
	}
	_, e1, _ := c1.Result()
	_, e2, _ := c2.Result()
	if !((e1 == nil && e2 == mangos.ErrClosed) || (e2 == nil && e1 == mangos.ErrClosed)) {
		c.Violate("close-twice-result/"+sp.Proto, "two concurrent Close calls returned %v and %v (want exactly one nil and one ErrClosed)", e1, e2)
	}
	peer.Close()
	// results
	kinds := map[string]bool{}
	for _, r := range recs {
		kinds[r.kind] = true
		if r.panicked != nil {
			c.Violate("panic:"+sp.Proto+"/"+r.kind, "%s panicked under concurrent use: %v", r.kind, r.panicked)
		} else if !allowedErr(r.kind, r.err) {
			c.Violate("bad-result:"+sp.Proto+"/"+r.kind, "%s returned %v, which no sequential contract of the call allows", r.kind, r.err)
		}
	}
	c.Count("api_calls", len(recs))
	// overlap matrix: which kinds of calls actually ran at the same time
	sort.Slice(recs, func(i, j int) bool { return recs[i].t0 < recs[j].t0 })
	pairs := map[string]bool{}
	for i := range recs {
		for j := i + 1; j < len(recs) && recs[j].t0 <= recs[i].t1; j++ {
			if recs[i].gor == recs[j].gor {
				continue
			}
			a, b := recs[i].kind, recs[j].kind
			if a > b {
				a, b = b, a
			}
			pairs[a+"~"+b] = true
		}
	}
	for p := range pairs {
		c.Sig("%s|%s", sp.Proto, p)
	}
	c.Count("overlapping_call_kind_pairs", len(pairs))
	if len(pairs) > 0 {
		c.Nontrivial()
	}
}

func pickCtx(mu *sync.Mutex, ctxs *[]mangos.Context, r *rand.Rand, remove bool) mangos.Context {
	mu.Lock()
	defer mu.Unlock()
	if len(*ctxs) == 0 {
		return nil
	}
	i := r.Intn(len(*ctxs))
	cx := (*ctxs)[i]
	if remove {
		*ctxs = append((*ctxs)[:i], (*ctxs)[i+1:]...)
	}
	return cx
}
