//go:build verif

package c03

import (
	"fmt"
	"time"

	"go.nanomsg.org/mangos/v3"

	"verifharness/hx"
	"verifharness/mon"
	"verifharness/vt"
)

// c03Parked: the abandoned request is not merely outstanding but has a *retransmission parked*
// (waiting for a connection) at the moment it is abandoned:
//
//	park "drop": the carrying connection is lost and there is no other, so the retransmission waits;
//	park "busy": the retry timer fires while the only connection is occupied by another context's request.
//
// The request is then abandoned (a new Send on the same context, or a Recv deadline followed by a
// new Send), the new request is transmitted on a connection made available, and a late reply to
// the abandoned request arrives before the reply to the new one.  Recv must return the new
// request's reply, never the abandoned one's.
func c03Parked(c *mon.Case, sp c03Spec) {
	nctx := 2
	rig := hx.NewReqRig(c, "req", nctx, 1)
	if c.Failed() {
		return
	}
	retry := time.Hour
	if sp.Park == "busy" {
		retry = 10 * time.Millisecond
	}
	rig.SetAll(mangos.OptionRetryTime, retry)
	i := c.Rand.Intn(nctx) // subject context
	other := 1 - i
	p0 := rig.Pipes[0]
	send := func(ctx, k int) *mon.Call {
		return mon.Go("Send", func() (interface{}, error) { return nil, rig.Ctxs[ctx].Send(rig.ReqBody(ctx, k)) })
	}
	mustReturn := func(k *mon.Call, what string) bool {
		if !c.AwaitOrViolate("req/send-stuck", what, k.Done, mon.AwaitOpts{MaxTimer: retry % time.Hour}) {
			return false
		}
		if _, err, _ := k.Result(); err != nil {
			c.Violate("req/send-error", "%s returned %v", what, err)
			return false
		}
		return true
	}
	// q1 transmitted
	if !mustReturn(send(i, 1), "Send of the first request with a ready peer") {
		return
	}
	txs, ok := rig.AwaitTx(i, 1, 1, 0, "req/request-not-transmitted")
	if !ok {
		return
	}
	id1 := txs[0].ID
	var carrier *vt.Pipe // where the second request will go
	switch sp.Park {
	case "drop":
		p0.Drop()
		if !hx.WaitDetached(c, rig.Watch, 1, "dropped carrier") {
			c.Inconclusive("carrier not detached")
			return
		}
	case "busy":
		p0.HoldSends()
		// the other context's request occupies the connection (its Send returns once the pipe took it)
		if !mustReturn(send(other, 1), "Send of the other context's request") {
			return
		}
		if !c.AwaitOrViolate("harness:held", "the connection holding the other context's request", func() bool { _, s := p0.Waiters(); return s >= 1 }, mon.AwaitOpts{}) {
			return
		}
		// let the subject's retry timer fire (several periods; too short a pause can only miss)
		time.Sleep(5 * retry)
	}
	// abandon q1
	if sp.Abandon == "timeout" {
		rig.Ctxs[i].SetOption(mangos.OptionRecvDeadline, 5*time.Millisecond)
		r := mon.Go("Recv", func() (interface{}, error) { b, e := rig.Ctxs[i].Recv(); return b, e })
		if !c.AwaitOrViolate("req/recv-stuck", "Recv with a 5ms deadline and no reply", r.Done, mon.AwaitOpts{MaxTimer: 5 * time.Millisecond}) {
			return
		}
		if v, err, _ := r.Result(); err != mangos.ErrRecvTimeout {
			c.Violate("req/recv-error", "Recv with nothing to receive returned (%q, %v), want ErrRecvTimeout", v, err)
			return
		}
		rig.Ctxs[i].SetOption(mangos.OptionRecvDeadline, time.Duration(0))
	}
	s2 := send(i, 2)
	switch sp.Park {
	case "drop":
		carrier = rig.AddPipe()
	case "busy":
		carrier = p0
		p0.ReleaseSends()
	}
	if c.Failed() || !mustReturn(s2, "Send of the second request once a connection is available") {
		return
	}
	txs, ok = rig.AwaitTx(i, 2, 1, retry%time.Hour, "req/request-not-transmitted")
	if !ok {
		return
	}
	id2 := txs[0].ID
	if id2 == id1 {
		c.Violate("req/id-reused", "the second request carries the id %08x of the abandoned one", id1)
		return
	}
	// the late reply to the abandoned request, then the reply to the current one
	route := carrier
	if sp.Park == "busy" && c.Rand.Intn(2) == 0 {
		route = rig.AddPipe() // any connection may carry it
	}
	if c.Failed() {
		return
	}
	route.Inject(hx.ReplyWire(id1, 1))
	if !rig.Drained(route) {
		return
	}
	if sp.Order == "stale-only" {
		// nothing acceptable: Recv must wait (deadline), not deliver
		rig.Ctxs[i].SetOption(mangos.OptionRecvDeadline, 15*time.Millisecond)
	} else {
		carrier.Inject(hx.ReplyWire(id2, 2))
		if !rig.Drained(carrier) {
			return
		}
	}
	r := mon.Go("Recv", func() (interface{}, error) { b, e := rig.Ctxs[i].Recv(); return b, e })
	if !c.AwaitOrViolate("req/recv-stuck", fmt.Sprintf("Recv of the second request's reply (park=%s abandon=%s order=%s)", sp.Park, sp.Abandon, sp.Order), r.Done, mon.AwaitOpts{MaxTimer: 15 * time.Millisecond}) {
		return
	}
	v, err, _ := r.Result()
	c.Count("recv_calls", 1)
	switch {
	case err == nil:
		s, _ := hx.ParseReplySerial(v.([]byte))
		if s != 2 {
			c.Violate("req/delivered-noncurrent:parked-abandoned", "Recv for the second request (id %08x) returned %q — the reply to the abandoned first request (id %08x), whose retransmission was parked (%s) when it was abandoned (%s)", id2, v, id1, sp.Park, sp.Abandon)
			return
		}
		if sp.Order == "stale-only" {
			c.Violate("req/delivered-uninjected", "Recv returned %q which was never injected", v)
			return
		}
		c.Count("replies_delivered", 1)
	case err == mangos.ErrRecvTimeout && sp.Order == "stale-only":
	default:
		c.Violate("req/recv-error", "Recv for the second request returned %v (park=%s abandon=%s order=%s)", err, sp.Park, sp.Abandon, sp.Order)
		return
	}
	c.Count("injected_parked-abandoned", 1)
	c.Nontrivial()
	c.Sig("parked|%s|%s|%s", sp.Park, sp.Abandon, sp.Order)
}
