//go:build verif

package c03

import (
	"fmt"
	"time"

	"go.nanomsg.org/mangos/v3"

	"verifharness/hx"
	"verifharness/mon"
)

// c03Ended: ways in which a *pending Recv* comes to its end other than by a reply, followed by a new
// request and a late reply to the old one.
//
//	"nopeers"  fail-no-peers is set and the last connection goes away while Recv waits on a transmitted
//	           request: Recv reports the no-peers error.  A peer connects again, a new request is sent,
//	           and a reply carrying the OLD request's id arrives before the new one's.
//	"timeout-then-cancel"  an earlier Recv on the context ran into its receive deadline; the deadline is
//	           then taken off (0); a later Recv, parked on a new request, is abandoned by yet another
//	           Send: it must fail with the cancellation error (no deadline is in force any more), and the
//	           late replies to both earlier requests must not be delivered.
//
// In both the only reply Recv may return afterwards is the one to the current request.
func c03Ended(c *mon.Case, sp c03Spec) {
	rig := hx.NewReqRig(c, "req", sp.NCtx, 1)
	if c.Failed() {
		return
	}
	rig.SetAll(mangos.OptionRetryTime, time.Hour)
	i := c.Rand.Intn(sp.NCtx)
	cx := rig.Ctxs[i]
	k := 0
	send := func() (uint32, bool) {
		k++
		kk := k
		call := mon.Go("Send", func() (interface{}, error) { return nil, cx.Send(rig.ReqBody(i, kk)) })
		if !c.AwaitOrViolate("req/send-stuck", "Send with a ready peer", call.Done, mon.AwaitOpts{}) {
			return 0, false
		}
		if _, err, _ := call.Result(); err != nil {
			c.Violate("req/send-error", "Send returned %v", err)
			return 0, false
		}
		txs, ok := rig.AwaitTx(i, kk, 1, 0, "req/request-not-transmitted")
		if !ok {
			return 0, false
		}
		return txs[0].ID, true
	}
	parkedRecv := func() *mon.Call {
		rk := mon.Go("Recv", func() (interface{}, error) { b, e := cx.Recv(); return b, e })
		if !rk.ParkedIn("RecvMsg") {
			if rk.Done() {
				v, err, _ := rk.Result()
				if err == nil {
					c.Violate("req/delivered-noncurrent:ended-"+sp.Abandon, "Recv on an outstanding, unanswered request returned %q: only replies to requests that had come to their end were injected", v)
				} else {
					c.Violate("req/recv-returned-unanswered", "Recv on an outstanding, unanswered request returned (%q, %v)", v, err)
				}
			} else {
				c.Inconclusive("Recv neither parked nor done")
			}
			return nil
		}
		return rk
	}
	var stale []uint32
	switch sp.Abandon {
	case "nopeers":
		cx.SetOption(mangos.OptionFailNoPeers, true)
		id1, ok := send()
		if !ok {
			return
		}
		rk := parkedRecv()
		if rk == nil {
			return
		}
		nd := rig.Watch.Detached()
		rig.Pipes[0].Drop()
		if !c.AwaitOrViolate("harness:detach-stuck", "dropped vt pipe being detached", func() bool { return rig.Watch.Detached() > nd }, mon.AwaitOpts{}) {
			return
		}
		if !c.AwaitOrViolate("req/recv-stuck:last-peer-left-with-fail-no-peers", "Recv returning once the last peer left (fail-no-peers)", rk.Done, mon.AwaitOpts{}) {
			return
		}
		if _, err, _ := rk.Result(); err != mangos.ErrNoPeers {
			c.Inconclusive("Recv returned %v when the last peer left, not the no-peers error (C18's subject)", err)
			return
		}
		stale = append(stale, id1)
		rig.AddPipe()
	case "timeout-then-cancel":
		id1, ok := send()
		if !ok {
			return
		}
		const D = 10 * time.Millisecond
		cx.SetOption(mangos.OptionRecvDeadline, D)
		rk := mon.Go("Recv", func() (interface{}, error) { b, e := cx.Recv(); return b, e })
		if !c.AwaitOrViolate("req/recv-stuck", "Recv with a 10ms receive deadline", rk.Done, mon.AwaitOpts{MaxTimer: D}) {
			return
		}
		if _, err, _ := rk.Result(); err != mangos.ErrRecvTimeout {
			c.Violate("req/recv-deadline-error", "unanswered request with a 10ms receive deadline: Recv returned %v", err)
			return
		}
		cx.SetOption(mangos.OptionRecvDeadline, time.Duration(0))
		id2, ok := send()
		if !ok {
			return
		}
		rk2 := parkedRecv()
		if rk2 == nil {
			return
		}
		if _, ok = send(); !ok { // abandons request 2 under the parked Recv
			return
		}
		k-- // (send() numbered it k; the current request is handled below as "the new request")
		if !c.AwaitOrViolate("req/recv-stuck:superseded", "the Recv whose request was superseded returning", rk2.Done, mon.AwaitOpts{}) {
			return
		}
		if v, err, _ := rk2.Result(); err != mangos.ErrCanceled {
			c.Violate("req/superseded-recv-error:"+errName(err), "a Recv pending (no receive deadline in force) while a new Send superseded its request returned (%q, %v), want the cancellation error", v, err)
			return
		}
		stale = append(stale, id1, id2)
		k++
	}
	// the current request: for "nopeers" it is sent now, for the other mode it is the superseding one
	var cur uint32
	if sp.Abandon == "nopeers" {
		var ok bool
		if cur, ok = send(); !ok {
			return
		}
	} else {
		txs := rig.TxsOf(i, k)
		if len(txs) == 0 {
			c.Inconclusive("superseding request not on the wire")
			return
		}
		cur = txs[0].ID
	}
	p := rig.LivePipes()[0]
	serial := 0
	for _, id := range stale {
		serial++
		p.Inject(hx.ReplyWire(id, serial))
	}
	if !rig.Drained(p) {
		return
	}
	rk := parkedRecv()
	if rk == nil {
		if c.Failed() {
			// re-label: what was returned was a reply to an ended request
			c.Count("late_reply_delivered", 1)
		}
		return
	}
	serial++
	p.Inject(hx.ReplyWire(cur, serial))
	if !c.AwaitOrViolate("req/recv-stuck", "Recv of the current request's reply", rk.Done, mon.AwaitOpts{}) {
		return
	}
	v, err, _ := rk.Result()
	if err != nil {
		c.Violate("req/recv-error", "Recv of the answered current request returned %v", err)
		return
	}
	if s, ok := hx.ParseReplySerial(v.([]byte)); !ok || s != serial {
		c.Violate("req/delivered-noncurrent:ended-"+sp.Abandon, "Recv returned %q, want the reply (serial %d) to the current request %08x; replies to the ended requests %08x were injected first", v, serial, cur, stale)
		return
	}
	c.Count("replies_delivered", 1)
	c.Count("late_replies_to_ended_requests", len(stale))
	c.Nontrivial()
	c.Sig("ended|%s|%d", sp.Abandon, sp.NCtx)
}

func errName(err error) string {
	if err == nil {
		return "nil"
	}
	return fmt.Sprintf("%v", err)
}
